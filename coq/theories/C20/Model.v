(* C20/Model.v — which files each tally command may write.
   Executable Gallina model (no proofs here):
     * a file system  state = files (path -> content, association list) + directories,
     * per command and flag set the ordered list of EFFECTS (write/append/rename/mkdir, each tagged with
       the class of source write site that produces it) as a function of the budget, and
       run = apply the effects,
     * the table [accounted] of every write-capable call site of tally that the model accounts for
       (tied to the source by Gen/C20WriteSites.v, regenerated on every run).
   Behaviour the property does not depend on is a field of [oracle] (YAML parsing of settings.yaml,
   whether the analysis pipeline reaches the report stage, the converted rules text, report contents,
   starter file texts); the theorems quantify over every oracle.
   Paths are relative to the directory the command is run in (the budget directory). Commands are run
   non-interactively without an explicit config argument (find_config_dir resolves ./config, then
   ./tally/config). *)
From Coq Require Import String List Bool Ascii Arith.
From Tally Require Import Lib.Str Gen.C20WriteSites.
Import ListNotations.
Open Scope string_scope.

(* ---------------------------------------------------------------- strings *)
Definition nl : string := String (ascii_of_nat 10) EmptyString.

Fixpoint contains (needle hay : string) : bool :=
  if String.prefix needle hay then true
  else match hay with EmptyString => false | String _ r => contains needle r end.

Definition is_space (c : ascii) : bool :=
  let n := nat_of_ascii c in
  (Nat.eqb n 32 || Nat.eqb n 9 || Nat.eqb n 10 || Nat.eqb n 13 || Nat.eqb n 11 || Nat.eqb n 12)%bool.

Fixpoint lstrip (s : string) : string :=
  match s with String c r => if is_space c then lstrip r else s | EmptyString => EmptyString end.

(* split on "\n" (text-mode line iteration; generated files contain no lone "\r") *)
Fixpoint lines_aux (cur : string -> string) (s : string) : list string :=
  match s with
  | EmptyString => [cur EmptyString]
  | String c r => if Nat.eqb (nat_of_ascii c) 10 then cur EmptyString :: lines_aux (fun x => x) r
                  else lines_aux (fun x => cur (String c x)) r
  end.
Definition lines (s : string) : list string := lines_aux (fun x => x) s.

(* cmd_init: a line that, stripped, is non-empty and starts neither with '#' nor with 'Pattern,' *)
Definition rule_line (l : string) : bool :=
  let t := lstrip l in
  match t with
  | EmptyString => false
  | _ => negb (String.prefix "#" t) && negb (String.prefix "Pattern," t)
  end.
Definition csv_has_rules (c : string) : bool := existsb rule_line (lines c).

(* ---------------------------------------------------------------- file system *)
Definition path := string.
Record state := { files : list (path * string); dirs : list path }.

Fixpoint get (l : list (path * string)) (p : path) : option string :=
  match l with [] => None | (q, c) :: r => if String.eqb p q then Some c else get r p end.
Definition del (l : list (path * string)) (p : path) : list (path * string) :=
  filter (fun e => negb (String.eqb p (fst e))) l.
Definition put (l : list (path * string)) (p : path) (c : string) := (p, c) :: del l p.

Definition fget (st : state) (p : path) : option string := get (files st) p.
Definition isdir (st : state) (d : path) : bool := mem d (dirs st).
Definition fexists (st : state) (p : path) : bool := match fget st p with Some _ => true | None => false end.

(* ---------------------------------------------------------------- effects *)
(* the classes of write sites (owner of an effect = the class of call site that performs it) *)
Inductive owner :=
| OReport       (* report.py write_summary_file_vue: the report file and its --no-embedded-html siblings *)
| OOutDir       (* commands/run.py cmd_run: os.makedirs(output_dir) *)
| OMigrate      (* cli.py _migrate_csv_to_rules: merchants.rules 'w', CSV -> .bak, settings 'a' *)
| OInitDirs     (* cli.py init_config: makedirs config/ data/ output/ *)
| OInitStarter  (* cli.py init_config: open(...,'w') under `if not os.path.exists(...)` *)
| OInitAppend   (* commands/init.py cmd_init: settings 'a' (views_file) *)
| OLayout       (* cli.py migrate_v0_to_v1: layout migration, `tally update` with consent only *)
| OSelfUpdate   (* _version.py: binary self-update (install dir, temp dir) *)
| OSpawnRO      (* commands/workflow.py: spawns `tally discover --format json` *)
| ODead.        (* section_engine.write_default_sections: referenced by no command *)

Definition owner_eqb (a b : owner) : bool :=
  match a, b with
  | OReport, OReport | OOutDir, OOutDir | OMigrate, OMigrate | OInitDirs, OInitDirs
  | OInitStarter, OInitStarter | OInitAppend, OInitAppend | OLayout, OLayout
  | OSelfUpdate, OSelfUpdate | OSpawnRO, OSpawnRO | ODead, ODead => true
  | _, _ => false
  end.
Definition omem (a : owner) (l : list owner) : bool := existsb (owner_eqb a) l.

Inductive effect :=
| EWrite (ow : owner) (p : path) (c : string)       (* open(p,'w') / write_text: create or truncate *)
| EAppend (ow : owner) (p : path) (suffix : string) (* open(p,'a') *)
| ERename (ow : owner) (src dst : path)             (* shutil.move of a file = rename(2): replaces dst *)
| EMkdir (ow : owner) (d : path).                   (* a directory that did not exist is created *)

Definition eff_owner (e : effect) : owner :=
  match e with EWrite o _ _ | EAppend o _ _ | ERename o _ _ | EMkdir o _ => o end.
(* the file paths an effect can change *)
Definition touched (e : effect) : list path :=
  match e with EWrite _ p _ => [p] | EAppend _ p _ => [p] | ERename _ a b => [a; b] | EMkdir _ _ => [] end.

Definition apply (e : effect) (st : state) : state :=
  match e with
  | EWrite _ p c => {| files := put (files st) p c; dirs := dirs st |}
  | EAppend _ p s =>
      {| files := put (files st) p (match fget st p with Some c => c ++ s | None => s end); dirs := dirs st |}
  | ERename _ a b =>
      match fget st a with
      | Some c => {| files := put (del (files st) a) b c; dirs := dirs st |}
      | None => st
      end
  | EMkdir _ d => if isdir st d then st else {| files := files st; dirs := d :: dirs st |}
  end.
Definition apply_all (es : list effect) (st : state) : state := fold_left (fun s e => apply e s) es st.

(* a command = a list of stages; each stage looks at the current state and emits effects *)
Definition stage := state -> list effect.
Fixpoint run_stages (ss : list stage) (st : state) : state * list effect :=
  match ss with
  | [] => (st, [])
  | s :: r => let es := s st in
              let '(st', es') := run_stages r (apply_all es st) in (st', app es es')
  end.

(* ---------------------------------------------------------------- oracles *)
Record sfacts := {
  sf_output_dir : string;            (* settings output_dir, default "output"; one path component *)
  sf_html : string;                  (* settings html_filename, default "spending_summary.html" *)
  sf_merchants_file : option string; (* settings merchants_file when truthy (relative to the budget dir) *)
  sf_sources : bool                  (* data_sources non-empty *)
}.
Record oracle := {
  parse_settings : string -> option sfacts; (* yaml.safe_load + load_config; None: loading fails / command refuses *)
  pipeline_ok : state -> bool;   (* `up` parses >= 1 transaction and nothing raises before the output stage *)
  convert : string -> option string; (* csv_to_merchants_content (load_merchant_rules csv); None: raises *)
  report : state -> string -> string; (* content written to the report file of that name *)
  starter_settings : string; starter_merchants : string; starter_views : string; starter_gitignore : string
}.

(* ---------------------------------------------------------------- the budget's well-known paths *)
Definition P_SETTINGS := "config/settings.yaml".
Definition P_RULES := "config/merchants.rules".
Definition P_VIEWS := "config/views.rules".
Definition P_CSV := "config/merchant_categories.csv".
Definition P_BAK := "config/merchant_categories.csv.bak".
Definition P_GIT := ".gitignore".
Definition MIG_SUFFIX := nl ++ "# Merchant rules file (migrated from CSV)" ++ nl ++ "merchants_file: config/merchants.rules" ++ nl.
Definition VIEWS_SUFFIX := nl ++ "# Views file (custom spending views)" ++ nl ++ "views_file: config/views.rules" ++ nl.
Definition SIBLINGS := ["spending_report.css"; "spending_report.js"; "spending_data.js"].

(* cli.find_config_dir: ./config, then ./tally/config; the result is the prefix of the budget directory *)
Definition find_root (st : state) : option string :=
  if isdir st "config" then Some "" else if isdir st "tally/config" then Some "tally/" else None.

(* cli._migrate_csv_to_rules(csv, config_dir, backup=True) *)
Definition mig_effects (o : oracle) (root : string) : stage := fun st =>
  match fget st (root ++ P_CSV) with
  | None => []
  | Some c =>
    match convert o c with
    | None => []                      (* raises before anything is opened for writing *)
    | Some r =>
      app [EWrite OMigrate (root ++ P_RULES) r; ERename OMigrate (root ++ P_CSV) (root ++ P_BAK)]
       (match fget st (root ++ P_SETTINGS) with
        | Some sc => if contains "merchants_file:" sc then [] else [EAppend OMigrate (root ++ P_SETTINGS) MIG_SUFFIX]
        | None => []
        end)
    end
  end.

(* config_loader.load_config: the rules file is the legacy CSV iff settings has no merchants_file and the CSV exists *)
Definition csv_format (st : state) (root : string) (s : sfacts) : bool :=
  match sf_merchants_file s with Some _ => false | None => fexists st (root ++ P_CSV) end.

Inductive fmt := FHtml | FJson | FMarkdown | FSummary.
Definition is_html (f : fmt) : bool := match f with FHtml => true | _ => false end.

(* where `up` puts the report: (directory to create, prefix of the file names, name of the report) *)
Definition out_prefix (root : string) (s : sfacts) (out : option (string * string)) : string :=
  match out with
  | Some (d, _) => if String.eqb d "" then "" else d ++ "/"
  | None => root ++ sf_output_dir s ++ "/"
  end.
Definition out_name (s : sfacts) (out : option (string * string)) : string :=
  match out with Some (_, n) => n | None => sf_html s end.
Definition report_files (root : string) (s : sfacts) (embedded : bool) (out : option (string * string)) : list path :=
  app (if embedded then [] else map (fun n => out_prefix root s out ++ n) SIBLINGS)
      [out_prefix root s out ++ out_name s out].

(* commands/run.py:210-223 + report.py write_summary_file_vue *)
Definition report_effects (o : oracle) (root : string) (s : sfacts) (embedded : bool)
           (out : option (string * string)) : stage := fun st =>
  let ws := map (fun p => EWrite OReport p (report o st p)) (report_files root s embedded out) in
  match out with
  | Some (d, _) => if (String.eqb d "" || isdir st d)%bool then ws else []   (* no makedirs with --output *)
  | None => let od := root ++ sf_output_dir s in
            (* os.makedirs(od, exist_ok=True) raises when something that is not a directory (a file, a dangling
               symlink) sits at od: the command dies before any report file is opened *)
            if fexists st od then []
            else app (if isdir st od then [] else [EMkdir OOutDir od]) ws
  end.

(* what `up` learns before it writes anything: budget prefix and settings facts (None: it exits first) *)
(* an explicit config directory (argument or TALLY_CONFIG, however it is spelled) designates the budget whose
   prefix is [r]; it must exist; without one, find_config_dir decides *)
Definition root_for (cfg : option string) (st : state) : option string :=
  match cfg with
  | Some r => if isdir st (r ++ "config") then Some r else None
  | None => find_root st
  end.

Definition up_context (o : oracle) (cfg : option string) (st : state) : option (string * sfacts) :=
  match root_for cfg st with
  | None => None
  | Some root =>
    match fget st (root ++ P_SETTINGS) with
    | None => None
    | Some sc =>
      match parse_settings o sc with
      | None => None
      | Some s => if sf_sources s then Some (root, s) else None
      end
    end
  end.

Definition up_stages (o : oracle) (cfg : option string) (migrate embedded : bool) (f : fmt) (out : option (string * string))
           (st : state) : list stage :=
  match up_context o cfg st with
  | None => []
  | Some (root, s) =>
    [ (fun st1 => if (migrate && csv_format st1 root s)%bool then mig_effects o root st1 else []);
      (fun st2 => if (pipeline_ok o st2 && is_html f)%bool then report_effects o root s embedded out st2 else []) ]
  end.

(* tally init [dir] *)
Inductive target := TDefault | TDot | TDir (d : string).
Definition init_rootdir (t : target) (st : state) : option string :=
  match t with
  | TDefault => if isdir st "config" then None else Some "tally"
  | TDot => None
  | TDir d => Some d
  end.
Definition prefix_of (rd : option string) : string := match rd with None => "" | Some d => d ++ "/" end.
Definition init_dirs (rd : option string) : list path :=
  app (match rd with None => [] | Some d => [d] end) (map (fun n => prefix_of rd ++ n) ["config"; "data"; "output"]).

Definition init_migrates (st : state) (root : string) : bool :=
  match fget st (root ++ P_CSV), fget st (root ++ P_RULES) with
  | Some c, None => csv_has_rules c
  | _, _ => false
  end.

Definition starters (o : oracle) (root : string) : list (path * string) :=
  [(root ++ P_SETTINGS, starter_settings o); (root ++ P_RULES, starter_merchants o);
   (root ++ P_VIEWS, starter_views o); (root ++ P_GIT, starter_gitignore o)].

(* init_config: os.makedirs(config), (data), (output) in this order; the first one that hits a non-directory
   (a file, a dangling symlink) raises and init dies there, after the migration but before any starter file *)
Fixpoint mkdirs_until (st : state) (ds : list path) : list effect :=
  match ds with
  | [] => []
  | d :: r => if fexists st d then []
              else app (if isdir st d then [] else [EMkdir OInitDirs d]) (mkdirs_until st r)
  end.
Definition init_blocked (st : state) (rd : option string) : bool := existsb (fexists st) (init_dirs rd).

Definition init_stages (o : oracle) (t : target) (st : state) : list stage :=
  let rd := init_rootdir t st in
  let root := prefix_of rd in
  [ (fun s1 => if init_migrates s1 root then mig_effects o root s1 else []);
    (fun s2 => mkdirs_until s2 (init_dirs rd));
    (fun s3 => if init_blocked s3 rd then [] else
               map (fun pc => EWrite OInitStarter (fst pc) (snd pc))
                   (filter (fun pc => negb (fexists s3 (fst pc))) (starters o root)));
    (fun s4 => if init_blocked s4 rd then [] else
               match fget s4 (root ++ P_SETTINGS), fget s4 (root ++ P_VIEWS) with
               | Some sc, Some _ => if contains "views_file:" sc then []
                                    else [EAppend OInitAppend (root ++ P_SETTINGS) VIEWS_SUFFIX]
               | _, _ => []
               end) ].

(* ---------------------------------------------------------------- commands *)
Inductive cmd :=
| Up (cfg : option string) (migrate embedded : bool) (f : fmt) (out : option (string * string))
| Explain | Discover | Diag | Inspect (file : string)
| Workflow | Reference
| UpdateNoConsent          (* `tally update` without --yes, stdin not a terminal *)
| Init (t : target).

Definition stages (o : oracle) (c : cmd) (st : state) : list stage :=
  match c with
  | Up cfg m e f out => up_stages o cfg m e f out st
  | Init t => init_stages o t st
  | _ => []
  end.

Definition run_log (o : oracle) (c : cmd) (st : state) : state * list effect := run_stages (stages o c st) st.
Definition run (o : oracle) (c : cmd) (st : state) : state := fst (run_log o c st).
Definition effects (o : oracle) (c : cmd) (st : state) : list effect := snd (run_log o c st).
Definition run_seq (o : oracle) (cs : list cmd) (st : state) : state := fold_left (fun s c => run o c s) cs st.

(* the output location of a command in a state: exactly the report files it may (over)write *)
Definition report_paths (o : oracle) (c : cmd) (st : state) : list path :=
  match c with
  | Up cfg _ e f out => match up_context o cfg st with
                    | Some (root, s) => if is_html f then report_files root s e out else []
                    | None => []
                    end
  | _ => []
  end.

(* commands the property calls read-only: everything except init and `up --migrate` *)
Definition readonly (c : cmd) : bool :=
  match c with Up _ m _ _ _ => negb m | Init _ => false | _ => true end.
Definition requests_migration (c : cmd) : bool :=
  match c with Up _ m _ _ _ => m | Init _ => true | _ => false end.
Definition cmd_cfg (c : cmd) : option string := match c with Up cfg _ _ _ _ => cfg | _ => None end.
Definition is_up (c : cmd) : bool := match c with Up _ _ _ _ _ => true | _ => false end.

(* name of the command in cli.main's dispatch (Gen.reach_writers is keyed by it) and the write-site classes
   the model lets it use *)
Definition cmd_name (c : cmd) : string :=
  match c with
  | Up _ _ _ _ _ => "up" | Explain => "explain" | Discover => "discover" | Diag => "diag" | Inspect _ => "inspect"
  | Workflow => "workflow" | Reference => "reference" | UpdateNoConsent => "update" | Init _ => "init"
  end.
Definition allowed (name : string) : list owner :=
  if String.eqb name "up" then [OReport; OOutDir; OMigrate]
  else if String.eqb name "run" then [OReport; OOutDir; OMigrate]
  else if String.eqb name "init" then [OMigrate; OInitDirs; OInitStarter; OInitAppend]
  else if String.eqb name "update" then [OLayout; OSelfUpdate]
  else if String.eqb name "workflow" then [OSpawnRO]
  else [].   (* explain discover diag inspect reference: nothing *)

(* ---------------------------------------------------------------- the write sites the model accounts for *)
Definition W f fn k m g t (o : owner) : wsite * owner :=
  ({| ws_file := f; ws_func := fn; ws_kind := k; ws_mode := m; ws_guards := g; ws_target := t |}, o).

(* one entry per write-capable call site: file, function, kind, mode, enclosing if/try guards, and WHERE it writes
   (the path expression(s) followed by every assignment, inside that function, to a name they depend on) *)
Definition accounted : list (wsite * owner) := [
  W "_version.py" "download_file" "open" "wb"
    ["try: except Exception"]
    ["dest_path"] OSelfUpdate;
  W "_version.py" "perform_update" "dynamic.import" ""
    []
    ["'sys'"] OSelfUpdate;
  W "_version.py" "perform_update" "tempfile.TemporaryDirectory" ""
    ["try: except PermissionError, Exception"]
    [] OSelfUpdate;
  W "_version.py" "perform_update" "archive.extractall" ""
    ["try: except PermissionError, Exception"]
    ["zf"; "temp_path"; "temp_path = Path(temp_dir)"] OSelfUpdate;
  W "_version.py" "perform_update" "chmod" ""
    ["try: except PermissionError, Exception"; "system != 'windows'"]
    ["new_binary"; "system = plat.system().lower()"; "binary_name = 'tally.exe' if system == 'windows' else 'tally'"; "temp_path = Path(temp_dir)"; "new_binary = temp_path / binary_name"] OSelfUpdate;
  W "_version.py" "perform_update" "mkdir" ""
    ["try: except PermissionError, Exception"]
    ["install_path.parent"; "install_path = get_executable_path() or get_install_path()"; "install_path = Path(install_path)"] OSelfUpdate;
  W "_version.py" "perform_update" "shutil.copy2" ""
    ["try: except PermissionError, Exception"; "install_path.exists()"]
    ["install_path"; "backup_path"; "install_path = get_executable_path() or get_install_path()"; "install_path = Path(install_path)"; "system = plat.system().lower()"; "backup_path = install_path.with_suffix('.bak' if system != 'windows' else '.exe.bak')"] OSelfUpdate;
  W "_version.py" "perform_update" "unlink" ""
    ["try: except PermissionError, Exception"; "system == 'windows'"; "install_path.exists()"; "try: except BaseException"]
    ["old_path"; "install_path = get_executable_path() or get_install_path()"; "install_path = Path(install_path)"; "old_path = install_path.with_name('tally.old.exe')"] OSelfUpdate;
  W "_version.py" "perform_update" "rename" ""
    ["try: except PermissionError, Exception"; "system == 'windows'"; "install_path.exists()"]
    ["install_path"; "old_path"; "install_path = get_executable_path() or get_install_path()"; "install_path = Path(install_path)"; "old_path = install_path.with_name('tally.old.exe')"] OSelfUpdate;
  W "_version.py" "perform_update" "shutil.copy2" ""
    ["try: except PermissionError, Exception"; "system == 'windows'"]
    ["new_binary"; "install_path"; "install_path = get_executable_path() or get_install_path()"; "install_path = Path(install_path)"; "system = plat.system().lower()"; "binary_name = 'tally.exe' if system == 'windows' else 'tally'"; "temp_path = Path(temp_dir)"; "new_binary = temp_path / binary_name"] OSelfUpdate;
  W "_version.py" "perform_update" "shutil.copy2" ""
    ["try: except PermissionError, Exception"; "not (system == 'windows')"]
    ["new_binary"; "install_path"; "install_path = get_executable_path() or get_install_path()"; "install_path = Path(install_path)"; "system = plat.system().lower()"; "binary_name = 'tally.exe' if system == 'windows' else 'tally'"; "temp_path = Path(temp_dir)"; "new_binary = temp_path / binary_name"] OSelfUpdate;
  W "cli.py" "_migrate_csv_to_rules" "open" "w"
    ["try: except Exception"]
    ["new_file"; "new_file = os.path.join(config_dir, 'merchants.rules')"] OMigrate;
  W "cli.py" "_migrate_csv_to_rules" "shutil.move" ""
    ["try: except Exception"; "backup and os.path.exists(csv_file)"]
    ["csv_file"; "csv_file + '.bak'"] OMigrate;
  W "cli.py" "_migrate_csv_to_rules" "open" "a"
    ["try: except Exception"; "os.path.exists(settings_path)"; "'merchants_file:' not in content"]
    ["settings_path"; "settings_path = os.path.join(config_dir, 'settings.yaml')"] OMigrate;
  W "cli.py" "migrate_v0_to_v1" "makedirs" ""
    ["try: except (OSError, shutil.Error)"]
    ["tally_dir"; "tally_dir = os.path.abspath('tally')"] OLayout;
  W "cli.py" "migrate_v0_to_v1" "shutil.move" ""
    ["try: except (OSError, shutil.Error)"]
    ["old_config_dir"; "new_config"; "tally_dir = os.path.abspath('tally')"; "new_config = os.path.join(tally_dir, 'config')"] OLayout;
  W "cli.py" "migrate_v0_to_v1" "shutil.move" ""
    ["try: except (OSError, shutil.Error)"; "os.path.isdir(old_path)"]
    ["old_path"; "new_path"; "tally_dir = os.path.abspath('tally')"; "old_path = os.path.abspath(subdir)"; "new_path = os.path.join(tally_dir, subdir)"] OLayout;
  W "cli.py" "migrate_v0_to_v1" "open" "w"
    ["try: except (OSError, shutil.Error)"]
    ["schema_file"; "tally_dir = os.path.abspath('tally')"; "new_config = os.path.join(tally_dir, 'config')"; "schema_file = os.path.join(new_config, '.tally-schema')"] OLayout;
  W "cli.py" "init_config" "makedirs" ""
    []
    ["config_dir"; "config_dir = os.path.join(target_dir, 'config')"] OInitDirs;
  W "cli.py" "init_config" "makedirs" ""
    []
    ["data_dir"; "data_dir = os.path.join(target_dir, 'data')"] OInitDirs;
  W "cli.py" "init_config" "makedirs" ""
    []
    ["output_dir"; "output_dir = os.path.join(target_dir, 'output')"] OInitDirs;
  W "cli.py" "init_config" "open" "w"
    ["not os.path.exists(settings_path)"]
    ["settings_path"; "config_dir = os.path.join(target_dir, 'config')"; "settings_path = os.path.join(config_dir, 'settings.yaml')"] OInitStarter;
  W "cli.py" "init_config" "open" "w"
    ["not os.path.exists(merchants_path)"]
    ["merchants_path"; "config_dir = os.path.join(target_dir, 'config')"; "merchants_path = os.path.join(config_dir, 'merchants.rules')"] OInitStarter;
  W "cli.py" "init_config" "open" "w"
    ["not os.path.exists(sections_path)"]
    ["sections_path"; "config_dir = os.path.join(target_dir, 'config')"; "sections_path = os.path.join(config_dir, 'views.rules')"] OInitStarter;
  W "cli.py" "init_config" "open" "w"
    ["not os.path.exists(gitignore_path)"]
    ["gitignore_path"; "gitignore_path = os.path.join(target_dir, '.gitignore')"] OInitStarter;
  W "report.py" "write_summary_file_vue" "path.write_text" ""
    ["not embedded_html"]
    ["css_path"; "output_path = Path(filepath)"; "output_dir = output_path.parent"; "css_path = output_dir / 'spending_report.css'"] OReport;
  W "report.py" "write_summary_file_vue" "path.write_text" ""
    ["not embedded_html"]
    ["js_path"; "output_path = Path(filepath)"; "output_dir = output_path.parent"; "js_path = output_dir / 'spending_report.js'"] OReport;
  W "report.py" "write_summary_file_vue" "path.write_text" ""
    ["not embedded_html"]
    ["data_path"; "output_path = Path(filepath)"; "output_dir = output_path.parent"; "data_path = output_dir / 'spending_data.js'"] OReport;
  W "report.py" "write_summary_file_vue" "path.write_text" ""
    []
    ["Path(filepath)"] OReport;
  W "section_engine.py" "write_default_sections" "mkdir" ""
    []
    ["path.parent"; "path = Path(filepath)"] ODead;
  W "section_engine.py" "write_default_sections" "path.write_text" ""
    []
    ["path"; "path = Path(filepath)"] ODead;
  W "commands/init.py" "cmd_init" "open" "a"
    ["os.path.exists(settings_path) and os.path.exists(views_rules)"; "try: except Exception"; "'views_file:' not in content"]
    ["settings_path"; "target_dir = os.path.abspath('.')"; "target_dir = os.path.abspath(args.dir)"; "config_dir = os.path.join(target_dir, 'config')"; "settings_path = os.path.join(config_dir, 'settings.yaml')"; "settings_path = os.path.join(target_dir, 'config', 'settings.yaml')"] OInitAppend;
  W "commands/run.py" "cmd_run" "makedirs" ""
    ["not (output_format == 'json')"; "not (output_format == 'markdown')"; "not (output_format == 'summary' or args.summary)"; "not (args.output)"]
    ["output_dir"; "config_dir = os.path.abspath(args.config)"; "config_dir = find_config_dir()"; "config = load_config(config_dir, args.settings)"; "output_dir = os.path.join(os.path.dirname(config_dir), config.get('output_dir', 'output'))"] OOutDir;
  W "commands/workflow.py" "cmd_workflow" "subprocess.run" ""
    ["has_config"; "try: except Exception"; "has_data_sources"; "try: except Exception"]
    ["['tally', 'discover', '--format', 'json']"] OSpawnRO
].

Fixpoint list_eqb (a b : list string) : bool :=
  match a, b with
  | [], [] => true
  | x :: r, y :: s => (String.eqb x y && list_eqb r s)%bool
  | _, _ => false
  end.
Definition wsite_eqb (a b : wsite) : bool :=
  (String.eqb (ws_file a) (ws_file b) && String.eqb (ws_func a) (ws_func b) && String.eqb (ws_kind a) (ws_kind b)
   && String.eqb (ws_mode a) (ws_mode b) && list_eqb (ws_guards a) (ws_guards b)
   && list_eqb (ws_target a) (ws_target b))%bool.
Definition owner_of (ws : wsite) : option owner :=
  match find (fun e => wsite_eqb ws (fst e)) accounted with Some e => Some (snd e) | None => None end.
Definition known (ws : wsite) : bool := match owner_of ws with Some _ => true | None => false end.

Definition qual (ws : wsite) : string := ws_file ws ++ ":" ++ ws_func ws.
(* every write site inside a function reachable from command [name] belongs to a class allowed for it *)
Definition reach_ok (entry : string * list string) : bool :=
  forallb (fun ws => if mem (qual ws) (snd entry)
                     then match owner_of ws with Some ow => omem ow (allowed (fst entry)) | None => false end
                     else true) write_sites.
(* an owner class that is ODead must be reachable from no command *)
Definition dead_ok (entry : string * list string) : bool :=
  forallb (fun ws => match owner_of ws with Some ODead => negb (mem (qual ws) (snd entry)) | _ => true end) write_sites.

(* the guarded call sites of the migration routines, exactly as the model assumes them *)
Definition mcall_eqb (a b : mcall) : bool :=
  (String.eqb (mc_file a) (mc_file b) && String.eqb (mc_func a) (mc_func b) && String.eqb (mc_callee a) (mc_callee b)
   && list_eqb (mc_guards a) (mc_guards b) && list_eqb (mc_args a) (mc_args b))%bool.
Fixpoint mcalls_eqb (a b : list mcall) : bool :=
  match a, b with
  | [], [] => true
  | x :: r, y :: s => (mcall_eqb x y && mcalls_eqb r s)%bool
  | _, _ => false
  end.
Definition expected_migration_calls : list mcall := [
  {| mc_file := "_version.py"; mc_func := "perform_update"; mc_callee := "download_file";
     mc_guards := ["try: except PermissionError, Exception"];
     mc_args := ["str(zip_path)"; "asset_name = get_platform_asset_name()"; "temp_path = Path(temp_dir)"; "zip_path = temp_path / asset_name"] |};
  {| mc_file := "cli.py"; mc_func := "_check_merchant_migration"; mc_callee := "_migrate_csv_to_rules";
     mc_guards := ["merchants_format == 'csv'"; "should_migrate"];
     mc_args := ["merchants_file"; "config_dir"; "merchants_file = config.get('_merchants_file')"] |};
  {| mc_file := "cli.py"; mc_func := "run_migrations"; mc_callee := "migrate_v0_to_v1";
     mc_guards := ["current < 1"];
     mc_args := ["config_dir"; "result = migrate_v0_to_v1(config_dir, skip_confirm)"; "config_dir = result"] |};
  {| mc_file := "commands/init.py"; mc_func := "cmd_init"; mc_callee := "_migrate_csv_to_rules";
     mc_guards := ["os.path.exists(old_csv) and (not os.path.exists(new_rules))"; "has_rules"];
     mc_args := ["old_csv"; "config_dir"; "target_dir = os.path.abspath('.')"; "target_dir = os.path.abspath(args.dir)"; "config_dir = os.path.join(target_dir, 'config')"; "old_csv = os.path.join(config_dir, 'merchant_categories.csv')"] |};
  {| mc_file := "commands/init.py"; mc_func := "cmd_init"; mc_callee := "init_config";
     mc_guards := [];
     mc_args := ["target_dir"; "target_dir = os.path.abspath('.')"; "target_dir = os.path.abspath(args.dir)"] |};
  {| mc_file := "commands/run.py"; mc_func := "cmd_run"; mc_callee := "write_summary_file_vue";
     mc_guards := ["not (output_format == 'json')"; "not (output_format == 'markdown')"; "not (output_format == 'summary' or args.summary)"];
     mc_args := ["output_path"; "config_dir = os.path.abspath(args.config)"; "config_dir = find_config_dir()"; "config = load_config(config_dir, args.settings)"; "output_path = args.output"; "output_dir = os.path.join(os.path.dirname(config_dir), config.get('output_dir', 'output'))"; "output_path = os.path.join(output_dir, config.get('html_filename', 'spending_summary.html'))"] |};
  {| mc_file := "commands/update.py"; mc_func := "cmd_update"; mc_callee := "run_migrations";
     mc_guards := ["config_dir"];
     mc_args := ["config_dir"; "config_dir = find_config_dir()"] |};
  {| mc_file := "commands/update.py"; mc_func := "cmd_update"; mc_callee := "perform_update";
     mc_guards := [];
     mc_args := [] |}
].
(* should_migrate is assigned only from the --migrate flag, an interactive 'y', or False *)
Definition expected_should_migrate : list string := ["migrate"; "response == 'y'"; "False"].
Definition should_migrate_defs : option (list string) :=
  match find (fun e => let '(f, fn, v, _) := e in
                       (String.eqb f "cli.py" && String.eqb fn "_check_merchant_migration" && String.eqb v "should_migrate")%bool)
             guard_defs with
  | Some (_, _, _, rhs) => Some rhs
  | None => None
  end.
Definition migration_guards_ok : bool :=
  (mcalls_eqb migration_calls expected_migration_calls
   && match should_migrate_defs with Some rhs => list_eqb rhs expected_should_migrate | None => false end)%bool.

(* ================================================================ the WRITE SET of a command (specification) *)
(* What the property statement lets a command touch, as a function of the command, its flags, the budget it
   designates and the budget's content BEFORE the command — independent of the staged effect semantics above:
     ws_report  files that may be created or overwritten (the report files in the output location),
     ws_create  files that may be created when missing (starter files; merchants.rules / the backup in a migration),
     ws_append  files that may only grow by a suffix (settings.yaml),
     ws_rename  (source, target) pairs that may be renamed (the legacy CSV to its backup name),
     ws_mkdir   directories that may be created. *)
Record wset := { ws_report : list path; ws_create : list path; ws_append : list path;
                 ws_rename : list (path * path); ws_mkdir : list path }.
Definition ws_empty : wset := {| ws_report := []; ws_create := []; ws_append := []; ws_rename := []; ws_mkdir := [] |}.
Definition ws_union (a b : wset) : wset :=
  {| ws_report := app (ws_report a) (ws_report b); ws_create := app (ws_create a) (ws_create b);
     ws_append := app (ws_append a) (ws_append b); ws_rename := app (ws_rename a) (ws_rename b);
     ws_mkdir := app (ws_mkdir a) (ws_mkdir b) |}.

(* a CSV -> .rules migration of the budget with prefix [root] *)
Definition ws_migration (root : string) : wset :=
  {| ws_report := []; ws_create := [root ++ P_RULES; root ++ P_BAK]; ws_append := [root ++ P_SETTINGS];
     ws_rename := [(root ++ P_CSV, root ++ P_BAK)]; ws_mkdir := [] |}.

Definition write_set (o : oracle) (c : cmd) (st : state) : wset :=
  match c with
  | Up cfg m emb f out =>
      match up_context o cfg st with
      | None => ws_empty                         (* no budget designated / settings unusable: nothing at all *)
      | Some (root, s) =>
          ws_union
            (if is_html f
             then {| ws_report := report_files root s emb out; ws_create := []; ws_append := []; ws_rename := [];
                     ws_mkdir := match out with None => [root ++ sf_output_dir s] | Some _ => [] end |}
             else ws_empty)
            (if (m && csv_format st root s)%bool then ws_migration root else ws_empty)
      end
  | Init t =>
      let rd := init_rootdir t st in
      let root := prefix_of rd in
      ws_union
        (if (fexists st (root ++ P_CSV) && negb (fexists st (root ++ P_RULES)))%bool then ws_migration root else ws_empty)
        {| ws_report := [];
           ws_create := filter (fun p => negb (fexists st p))
                               [root ++ P_SETTINGS; root ++ P_RULES; root ++ P_VIEWS; root ++ P_GIT];
           ws_append := [root ++ P_SETTINGS]; ws_rename := []; ws_mkdir := init_dirs rd |}
  | _ => ws_empty                                (* explain discover diag inspect workflow reference update *)
  end.

Definition pair_mem (a b : path) (l : list (path * path)) : bool :=
  existsb (fun e => (String.eqb a (fst e) && String.eqb b (snd e))%bool) l.
(* is this (kind, path, path) — an effect of the model or a traced syscall — inside the write set? *)
Definition op_within (w : wset) (k : nat) (p q : path) : bool :=
  match k with
  | 0 => (mem p (ws_report w) || mem p (ws_create w))%bool     (* create / truncate *)
  | 1 => mem p (ws_append w)                                    (* append *)
  | 2 => pair_mem p q (ws_rename w)                             (* rename *)
  | 3 => mem p (ws_mkdir w)                                     (* mkdir *)
  | _ => false                                                  (* unlink, truncate, chmod, utime, link ...: never *)
  end.
Definition effect_within (w : wset) (e : effect) : bool :=
  match e with
  | EWrite _ p _ => op_within w 0 p ""
  | EAppend _ p _ => op_within w 1 p ""
  | ERename _ a b => op_within w 2 a b
  | EMkdir _ d => op_within w 3 d ""
  end.

(* ================================================================ which budget a command designates *)
(* os.path.abspath on path components: the harness only splits the typed argument on "/"; dropping "" and ".",
   resolving ".." and anchoring at the working directory are done here.  [base] = the components of the budget
   directory (absolute), [cwd] = those of the working directory. *)
Definition step_comp (stk : list string) (c : string) : list string :=
  if (String.eqb c "" || String.eqb c ".")%bool then stk
  else if String.eqb c ".." then tl stk else c :: stk.
Definition normalize_from (stk : list string) (cs : list string) : list string := fold_left step_comp cs stk.
Definition resolve (cwd : list string) (absolute : bool) (arg : list string) : list string :=
  rev (normalize_from (if absolute then [] else rev cwd) arg).

Fixpoint strip_prefix (pre l : list string) : option (list string) :=
  match pre, l with
  | [], _ => Some l
  | x :: r, y :: s => if String.eqb x y then strip_prefix r s else None
  | _ :: _, [] => None
  end.
Definition join_prefix (cs : list string) : string := fold_right (fun c acc => c ++ "/" ++ acc) "" cs.

(* the prefix (relative to the budget directory) of the budget whose config directory the argument names:
   Some (Some r): the config directory is  <budget dir>/r/config ;  Some None: it is not a `config` folder inside
   the budget directory (outside the modelled fragment) *)
Definition designate (base cwd : list string) (absolute : bool) (arg : list string) : option string :=
  match strip_prefix base (resolve cwd absolute arg) with
  | Some rel => match rev rel with
                | c :: rr => if String.eqb c "config" then Some (join_prefix (rev rr)) else None
                | [] => None
                end
  | None => None
  end.
