(* C20 — commands never alter or overwrite the user's statements, rules or settings.
   Model: C20/Model.v (file system = path -> content; per command and flag set the ordered effects
   write/append/rename/mkdir as a function of the budget; YAML parsing, the analysis pipeline, the rule
   converter, report and starter texts are fields of an [oracle] and every theorem holds for EVERY oracle).
   Tie, re-checked on every run: Gen/C20WriteSites.v is regenerated from /repo/src/tally/**/*.py (every
   write-capable call site with enclosing function, kind, mode, guards; the guarded call sites of the
   migration routines; a name-based over-approximating call graph per command) and the obligations below are
   re-proved against it; whole commands are run under strace and compared with [effects]/[run]
   (harness/c20.py).  [kept root st' q c0] (C20/Proofs.v): q still holds c0, or q is settings.yaml and
   holds c0 ++ suffix, or q is merchant_categories.csv, is gone, and merchant_categories.csv.bak holds c0. *)
From Coq Require Import String List Bool.
From Tally Require Import Lib.Str Gen.C20WriteSites C20.Model C20.Proofs.
Import ListNotations.
Open Scope string_scope.

(* ---- static obligations over the regenerated tables ------------------------------------------------ *)
(* every write-capable call site of tally is one the model accounts for: a new writer anywhere (or a changed
   mode / guard of an existing one) breaks this *)
Theorem c20_write_sites_known : forall ws, In ws write_sites -> known ws = true.
Proof. exact write_sites_known_all. Qed.
Print Assumptions c20_write_sites_known.

(* per command, every write site inside a function reachable from its handler belongs to a class of effects the
   model allows for that command; the unused helper is reachable from no command *)
Theorem c20_reachable_writers_allowed :
  forall entry, In entry reach_writers -> reach_ok entry = true /\ dead_ok entry = true.
Proof. exact reach_owners_ok. Qed.
Print Assumptions c20_reachable_writers_allowed.

(* explain, discover, diag, inspect (and reference) reach no function that contains a write site at all *)
Theorem c20_readonly_commands_reach_no_writer :
  forall name, In name ["explain"; "discover"; "diag"; "inspect"; "reference"] ->
  forall fs, In (name, fs) reach_writers -> fs = [].
Proof. exact readonly_commands_reach_no_writer. Qed.
Print Assumptions c20_readonly_commands_reach_no_writer.

Theorem c20_all_commands_listed :
  forall name, In name ["up"; "run"; "explain"; "discover"; "diag"; "inspect"; "init"; "workflow"; "update"; "reference"] ->
  exists fs, In (name, fs) reach_writers.
Proof. exact all_commands_listed. Qed.
Print Assumptions c20_all_commands_listed.

(* the migration routines are called exactly where, and under exactly the guards, the model assumes; and
   should_migrate is only ever assigned the --migrate flag, an interactive 'y', or False *)
Theorem c20_migration_guards : migration_guards_ok = true.
Proof. exact migration_guards. Qed.
Print Assumptions c20_migration_guards.

(* every effect of the model belongs to a class allowed for the command (link between [effects] and the table) *)
Theorem c20_effects_allowed :
  forall o c st e, In e (effects o c st) -> omem (eff_owner e) (allowed (cmd_name c)) = true.
Proof. intros o c st e H. exact (proj1 (effects_allowed o c st e H)). Qed.
Print Assumptions c20_effects_allowed.

(* ---- up / explain / discover / diag / inspect are read-only ------------------------------------------ *)
(* one command: every path that is not one of the command's report files keeps its content (or absence) *)
Theorem c20_readonly_step :
  forall o c st p, readonly c = true -> ~ In p (report_paths o c st) -> fget (run o c st) p = fget st p.
Proof. exact readonly_step. Qed.
Print Assumptions c20_readonly_step.

(* all command sequences (induction over the sequence) *)
Theorem c20_readonly_commands :
  forall o p cs st, forallb readonly cs = true -> safe_for o p cs st -> fget (run_seq o cs st) p = fget st p.
Proof. exact readonly_seq. Qed.
Print Assumptions c20_readonly_commands.

(* ... with the output location computed once from the initial budget: it cannot move, because the settings
   file that defines it is itself outside it (every `up` of the sequence designating the budget the same way:
   all by auto-detection, or all by the same explicit config directory / TALLY_CONFIG) *)
Theorem c20_readonly_commands_fixed_output :
  forall o p cfg cs st,
    forallb readonly cs = true ->
    (forall c, In c cs -> is_up c = true -> cmd_cfg c = cfg) ->
    (forall c, In c cs -> ~ In p (report_paths o c st)) ->
    (forall c root s, In c cs -> up_context o cfg st = Some (root, s) ->
                      ~ In (root ++ P_SETTINGS) (report_paths o c st)) ->
    fget (run_seq o cs st) p = fget st p.
Proof. exact readonly_seq_stable. Qed.
Print Assumptions c20_readonly_commands_fixed_output.

(* explain / discover / diag / inspect / workflow / reference / update-without-consent have no report files *)
Theorem c20_no_output_commands :
  forall o c st, match c with Up _ _ _ _ _ | Init _ => True | _ => report_paths o c st = [] /\ run o c st = st end.
Proof. intros o c st. destruct c; try exact I; split; reflexivity. Qed.
Print Assumptions c20_no_output_commands.

(* the only directory a read-only command can create is the output directory *)
Theorem c20_readonly_dirs :
  forall o c st d, readonly c = true -> In d (dirs (run o c st)) ->
    In d (dirs st) \/ exists root s, up_context o (cmd_cfg c) st = Some (root, s) /\ d = root ++ sf_output_dir s.
Proof. exact readonly_dirs. Qed.
Print Assumptions c20_readonly_dirs.

(* ---- init ------------------------------------------------------------------------------------------ *)
(* full statement: init keeps every existing file.  REFUTED by the unchanged code's faithful model: *)
Theorem c20_init_keeps_files_refuted : ~ init_keeps_statement.
Proof. exact init_keeps_refuted. Qed.
Print Assumptions c20_init_keeps_files_refuted.

(* strongest version that holds: every existing file is kept, the ONLY exception being an existing
   merchant_categories.csv.bak in a run that migrates (guard computable: init_migrates) *)
Theorem c20_init_keeps_files_partial :
  forall o t st q c0,
    fget st q = Some c0 ->
    (q <> init_root t st ++ P_BAK \/ init_migrates st (init_root t st) = false) ->
    kept (init_root t st) (run o (Init t) st) q c0.
Proof. exact init_keeps_partial. Qed.
Print Assumptions c20_init_keeps_files_partial.

(* only missing files are created, and only the four starter files (plus merchants.rules / the backup when migrating) *)
Theorem c20_init_creates_only_missing :
  forall o t st q,
    fget st q = None -> fget (run o (Init t) st) q <> None ->
    In q (starter_paths (init_root t st)) \/
    (init_migrates st (init_root t st) = true /\
     (q = init_root t st ++ P_RULES \/ q = init_root t st ++ P_BAK)).
Proof. exact init_creates_only_missing. Qed.
Print Assumptions c20_init_creates_only_missing.

(* ---- rule migration --------------------------------------------------------------------------------- *)
(* only on request: an effect of the migration class occurs only under `up --migrate` or `init`;
   `up` without --migrate performs report effects only *)
Theorem c20_migration_only_on_request :
  forall o c st e, In e (effects o c st) -> eff_owner e = OMigrate -> requests_migration c = true.
Proof. intros o c st e H. exact (proj2 (effects_allowed o c st e H)). Qed.
Print Assumptions c20_migration_only_on_request.

Theorem c20_up_without_migrate_only_reports :
  forall o cfg emb f out st e, In e (effects o (Up cfg false emb f out) st) -> eff_owner e = OReport \/ eff_owner e = OOutDir.
Proof. exact up_nomigrate_effects. Qed.
Print Assumptions c20_up_without_migrate_only_reports.

(* with backup: after a migration the backup holds the original rules byte for byte *)
Theorem c20_migration_backup_holds_original :
  forall o root st c r, fget st (root ++ P_CSV) = Some c -> convert o c = Some r ->
    let st' := apply_all (mig_effects o root st) st in
    fget st' (root ++ P_BAK) = Some c /\ fget st' (root ++ P_CSV) = None /\ fget st' (root ++ P_RULES) = Some r.
Proof. exact mig_backup. Qed.
Print Assumptions c20_migration_backup_holds_original.

(* full statement: `up --migrate` keeps every existing file outside the report files.  REFUTED twice: an
   existing backup is overwritten, and an existing merchants.rules is overwritten *)
Theorem c20_migration_only_on_request_with_backup_refuted : ~ migrate_keeps_statement.
Proof. exact migrate_keeps_refuted_bak. Qed.
Print Assumptions c20_migration_only_on_request_with_backup_refuted.

Theorem c20_migration_keeps_rules_file_refuted : ~ migrate_keeps_statement.
Proof. exact migrate_keeps_refuted_rules. Qed.
Print Assumptions c20_migration_keeps_rules_file_refuted.

(* strongest version that holds: every other file is kept (and both are kept when the run does not migrate) *)
Theorem c20_migration_only_on_request_with_backup_partial :
  forall o cfg emb f out st root s q c0,
    up_context o cfg st = Some (root, s) ->
    fget st q = Some c0 ->
    ~ In q (report_paths o (Up cfg true emb f out) st) ->
    ~ In (root ++ P_BAK) (report_paths o (Up cfg true emb f out) st) ->
    ((q <> root ++ P_BAK /\ q <> root ++ P_RULES) \/ csv_format st root s = false) ->
    kept root (run o (Up cfg true emb f out) st) q c0.
Proof. exact migrate_keeps_partial. Qed.
Print Assumptions c20_migration_only_on_request_with_backup_partial.

(* ---- the write set: every effect of every command lies inside the write set of the DESIGNATED budget ---- *)
(* [write_set o c st] (Model.v) is the specification: report files (may be overwritten), files that may be created when
   missing, append-only files, allowed renames, directories — computed from the command, its flags, the budget it
   designates (explicit config directory / TALLY_CONFIG / auto-detection) and the budget's content BEFORE the command.
   Holds for every command, every designation, every budget, every oracle. *)
Theorem c20_effects_within_write_set :
  forall o c st e, In e (effects o c st) -> effect_within (write_set o c st) e = true.
Proof. exact effects_within_write_set. Qed.
Print Assumptions c20_effects_within_write_set.

(* for the read-only commands that write set has nothing but report files (and the output directory) *)
Theorem c20_readonly_write_set :
  forall o c st, readonly c = true ->
    ws_create (write_set o c st) = [] /\ ws_append (write_set o c st) = [] /\ ws_rename (write_set o c st) = [] /\
    ws_report (write_set o c st) = report_paths o c st.
Proof. exact readonly_write_set. Qed.
Print Assumptions c20_readonly_write_set.

(* ---- which budget a typed path designates (os.path.abspath over path components) ------------------------- *)
(* if the argument, however spelled and from whatever working directory, resolves to <budget dir>/rr/config, the
   designated budget is the one with prefix rr/ — folder names are opaque strings (no glob / format meaning) *)
Theorem c20_designation_resolved :
  forall base cwd ab arg rr,
    resolve cwd ab arg = (base ++ rr ++ ["config"])%list -> designate base cwd ab arg = Some (join_prefix rr).
Proof. exact designate_resolved. Qed.
Print Assumptions c20_designation_resolved.

(* trailing slash, "./", ".", "//", "x/.." never change what a path resolves to *)
Theorem c20_resolve_spelling_invariant :
  forall cwd ab arg,
    resolve cwd ab (arg ++ [""])%list = resolve cwd ab arg /\
    resolve cwd ab (arg ++ ["."])%list = resolve cwd ab arg /\
    resolve cwd false ("." :: arg) = resolve cwd false arg /\
    (forall b, resolve cwd ab (arg ++ "" :: b)%list = resolve cwd ab (arg ++ b)%list) /\
    (forall x b, clean x -> resolve cwd ab (arg ++ x :: ".." :: b)%list = resolve cwd ab (arg ++ b)%list).
Proof.
  intros cwd ab arg. repeat split.
  - apply resolve_trailing_slash.
  - apply resolve_trailing_dot.
  - intros b. apply resolve_double_slash.
  - intros x b Hx. now apply resolve_down_up.
Qed.
Print Assumptions c20_resolve_spelling_invariant.

(* config, config/, ./config, ./config/, "." from inside the config directory, the absolute path with or without
   slash from anywhere, <folder>/config[/] from the parent directory: one and the same budget *)
Theorem c20_designation_spellings :
  forall base rr, Forall clean base -> Forall clean rr ->
  let target := Some (join_prefix rr) in
  let cfg := (rr ++ ["config"])%list in
  designate base base false cfg = target /\
  designate base base false (cfg ++ [""])%list = target /\
  designate base base false ("." :: cfg) = target /\
  designate base base false ("." :: cfg ++ [""])%list = target /\
  designate base (base ++ cfg)%list false ["."] = target /\
  designate base (base ++ cfg)%list false [] = target /\
  (forall other, designate base other true (base ++ cfg)%list = target) /\
  (forall other, designate base other true (base ++ cfg ++ [""])%list = target) /\
  (forall parent name, base = (parent ++ [name])%list ->
     designate base parent false (name :: cfg) = target /\
     designate base parent false (name :: cfg ++ [""])%list = target).
Proof. exact designation_spellings. Qed.
Print Assumptions c20_designation_spellings.

(* ---- non-vacuity ------------------------------------------------------------------------------------ *)
(* the witness budget: init really migrates, the CSV ends up as the backup, the old backup is lost *)
Example ex_init_migrates :
  init_migrates w_init_state "" = true /\
  fget (run w_oracle (Init TDefault) w_init_state) "config/merchant_categories.csv.bak" = Some w_csv /\
  fget (run w_oracle (Init TDefault) w_init_state) "config/merchant_categories.csv" = None /\
  fget (run w_oracle (Init TDefault) w_init_state) "data/bank.csv" = Some "d" /\
  fget (run w_oracle (Init TDefault) w_init_state) "config/settings.yaml" = Some ("year: 2025" ++ VIEWS_SUFFIX).
Proof. vm_compute. repeat split. Qed.

(* the hypotheses of the partial init theorem hold for a non-trivial path (the CSV itself, which is renamed) *)
Example ex_init_partial_applies :
  kept "" (run w_oracle (Init TDefault) w_init_state) "config/merchant_categories.csv" w_csv.
Proof.
  apply (c20_init_keeps_files_partial w_oracle TDefault w_init_state "config/merchant_categories.csv" w_csv eq_refl).
  left. discriminate.
Qed.

(* a read-only sequence on the witness budget really writes a report, and safe_for holds for the settings file *)
Example ex_readonly_nontrivial :
  let cs := [Up None false true FHtml None; Explain; Up (Some "") false false FHtml None; Discover] in
  forallb readonly cs = true /\
  safe_for w_oracle "config/settings.yaml" cs w_up_state /\
  fget (run_seq w_oracle cs w_up_state) "output/spending_summary.html" = Some "<html>" /\
  fget (run_seq w_oracle cs w_up_state) "output/spending_data.js" = Some "<html>" /\
  fget w_up_state "output/spending_summary.html" = None.
Proof.
  cbv zeta. split; [reflexivity|]. split; [|vm_compute; repeat split].
  simpl safe_for. repeat split; try (intros []); vm_compute; intuition discriminate.
Qed.

(* up --migrate on the witness budget migrates and appends to settings; settings is kept in the "suffix" sense *)
Example ex_up_migrate :
  fget (run w_oracle (Up None true true FHtml None) w_up_state) "config/settings.yaml"
    = Some ("year: 2025" ++ MIG_SUFFIX) /\
  fget (run w_oracle (Up None true true FHtml None) w_up_state) "config/merchants.rules" = Some "[Netflix]" /\
  fget (run w_oracle (Up None false true FHtml None) w_up_state) "config/merchants.rules" = Some "[Mine]".
Proof. vm_compute. repeat split. Qed.

(* the write set of `up --migrate` on the witness budget: report + output dir + the migration's four paths *)
Example ex_write_set :
  write_set w_oracle (Up None true true FHtml None) w_up_state =
  {| ws_report := ["output/spending_summary.html"];
     ws_create := ["config/merchants.rules"; "config/merchant_categories.csv.bak"];
     ws_append := ["config/settings.yaml"];
     ws_rename := [("config/merchant_categories.csv", "config/merchant_categories.csv.bak")];
     ws_mkdir := ["output"] |} /\
  effects w_oracle (Up None true true FHtml None) w_up_state <> [] /\
  write_set w_oracle Discover w_up_state = ws_empty.
Proof. vm_compute. repeat split. discriminate. Qed.

(* a folder name full of glob / format metacharacters is just a name; new layout; spelled with a trailing slash
   from the parent directory *)
Example ex_designate :
  designate ["home"; "me"; "budget [2025] {0} *?"] ["home"; "me"] false ["budget [2025] {0} *?"; "tally"; "config"; ""]
  = Some "tally/" /\
  designate ["home"; "me"; "b"] ["home"; "me"; "b"; "config"] false ["."] = Some "" /\
  designate ["home"; "me"; "b"] ["tmp"] true [""; "home"; "me"; "b"; "x"; ".."; "config"; ""] = Some "" /\
  designate ["home"; "me"; "b"] ["home"; "me"; "b"] false ["data"] = None.
Proof. vm_compute. repeat split. Qed.
