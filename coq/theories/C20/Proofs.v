(* C20/Proofs.v — lemmas about the write-set model (C20/Model.v). *)
From Coq Require Import String List Bool Ascii Arith Lia.
From Tally Require Import Lib.Str Gen.C20WriteSites C20.Model.
Import ListNotations.
Open Scope string_scope.

(* ------------------------------------------------------------------ strings *)
Lemma sapp_assoc (a b c : string) : (a ++ b) ++ c = a ++ (b ++ c).
Proof. induction a as [|x a IH]; simpl; [reflexivity | now rewrite IH]. Qed.

Lemma sapp_nil_r (a : string) : a ++ "" = a.
Proof. induction a as [|x a IH]; simpl; [reflexivity | now rewrite IH]. Qed.

Lemma sapp_inv_head (a x y : string) : a ++ x = a ++ y -> x = y.
Proof. induction a as [|c a IH]; simpl; intros H; [exact H | inversion H; auto]. Qed.

(* ------------------------------------------------------------------ association lists *)
Lemma get_del_same l p : get (del l p) p = None.
Proof.
  induction l as [|[q c] r IH]; simpl; [reflexivity|].
  destruct (String.eqb_spec p q) as [->|Hne]; simpl; [exact IH|].
  destruct (String.eqb_spec p q); [contradiction | exact IH].
Qed.

Lemma get_del_other l p q : q <> p -> get (del l p) q = get l q.
Proof.
  intros Hne. induction l as [|[k c] r IH]; simpl; [reflexivity|].
  destruct (String.eqb_spec p k) as [->|Hpk]; simpl.
  - destruct (String.eqb_spec q k); [contradiction | exact IH].
  - destruct (String.eqb_spec q k); [reflexivity | exact IH].
Qed.

Lemma get_put l p c q : get (put l p c) q = if String.eqb q p then Some c else get l q.
Proof.
  unfold put; simpl. destruct (String.eqb_spec q p) as [->|Hne]; [reflexivity|].
  now apply get_del_other.
Qed.

(* ------------------------------------------------------------------ one effect *)
Lemma fget_write st ow p c q :
  fget (apply (EWrite ow p c) st) q = if String.eqb q p then Some c else fget st q.
Proof. unfold fget; simpl. apply get_put. Qed.

Lemma fget_append st ow p s q :
  fget (apply (EAppend ow p s) st) q =
  if String.eqb q p then Some (match fget st p with Some c => c ++ s | None => s end) else fget st q.
Proof. unfold fget; simpl. apply get_put. Qed.

Lemma fget_rename st ow a b q :
  fget (apply (ERename ow a b) st) q =
  match fget st a with
  | Some c => if String.eqb q b then Some c else if String.eqb q a then None else fget st q
  | None => fget st q
  end.
Proof.
  destruct (fget st a) as [c|] eqn:Ha.
  - unfold fget at 1, apply. rewrite Ha. cbn [files]. rewrite get_put.
    destruct (String.eqb_spec q b); [reflexivity|].
    destruct (String.eqb_spec q a) as [->|Hne]; [apply get_del_same | now apply get_del_other].
  - unfold apply. rewrite Ha. reflexivity.
Qed.

Lemma fget_mkdir st ow d q : fget (apply (EMkdir ow d) st) q = fget st q.
Proof. unfold fget; simpl. destruct (isdir st d); reflexivity. Qed.

Lemma apply_untouched e st q : ~ In q (touched e) -> fget (apply e st) q = fget st q.
Proof.
  destruct e as [ow p c|ow p s|ow a b|ow d]; cbn [touched]; intros H.
  - rewrite fget_write. destruct (String.eqb_spec q p); [subst; exfalso; apply H; simpl; auto | reflexivity].
  - rewrite fget_append. destruct (String.eqb_spec q p); [subst; exfalso; apply H; simpl; auto | reflexivity].
  - rewrite fget_rename. destruct (fget st a); [|reflexivity].
    destruct (String.eqb_spec q b); [subst; exfalso; apply H; simpl; auto|].
    destruct (String.eqb_spec q a); [subst; exfalso; apply H; simpl; auto | reflexivity].
  - apply fget_mkdir.
Qed.

Lemma apply_all_untouched es : forall st q,
  (forall e, In e es -> ~ In q (touched e)) -> fget (apply_all es st) q = fget st q.
Proof.
  induction es as [|e r IH]; intros st q H; simpl; [reflexivity|].
  unfold apply_all in *. simpl. rewrite IH; [|intros e' He'; apply H; now right].
  apply apply_untouched. apply H. now left.
Qed.

Lemma apply_all_app es1 es2 st : apply_all (es1 ++ es2)%list st = apply_all es2 (apply_all es1 st).
Proof. unfold apply_all. apply fold_left_app. Qed.

Lemma apply_all_cons e es st : apply_all (e :: es) st = apply_all es (apply e st).
Proof. reflexivity. Qed.

(* ------------------------------------------------------------------ stages *)
Lemma run_stages_cons s r st :
  run_stages (s :: r) st =
  (fst (run_stages r (apply_all (s st) st)), (s st ++ snd (run_stages r (apply_all (s st) st)))%list).
Proof. simpl. destruct (run_stages r (apply_all (s st) st)); reflexivity. Qed.

Lemma run_stages_untouched ss : forall st q,
  (forall s st' e, In s ss -> In e (s st') -> ~ In q (touched e)) ->
  fget (fst (run_stages ss st)) q = fget st q.
Proof.
  induction ss as [|s r IH]; intros st q H; [reflexivity|].
  rewrite run_stages_cons; simpl. rewrite IH.
  - apply apply_all_untouched. intros e He. apply (H s st e); [now left | exact He].
  - intros s' st' e Hs He. apply (H s' st' e); [now right | exact He].
Qed.

Lemma run_stages_effects ss : forall st e,
  In e (snd (run_stages ss st)) -> exists s st', In s ss /\ In e (s st').
Proof.
  induction ss as [|s r IH]; intros st e H; [destruct H|].
  rewrite run_stages_cons in H; simpl in H. apply in_app_or in H. destruct H as [H|H].
  - exists s, st. split; [now left | exact H].
  - destruct (IH _ _ H) as [s' [st' [A B]]]. exists s', st'. split; [now right | exact B].
Qed.

Lemma run_stages_state ss : forall st, fst (run_stages ss st) = apply_all (snd (run_stages ss st)) st.
Proof.
  induction ss as [|s r IH]; intros st; [reflexivity|].
  rewrite run_stages_cons; simpl. rewrite apply_all_app. apply IH.
Qed.

(* ------------------------------------------------------------------ the effects of each stage *)
Lemma mig_effects_shape o root st e :
  In e (mig_effects o root st) ->
  eff_owner e = OMigrate /\
  (forall q, In q (touched e) -> q = root ++ P_RULES \/ q = root ++ P_CSV \/ q = root ++ P_BAK \/ q = root ++ P_SETTINGS).
Proof.
  unfold mig_effects. destruct (fget st (root ++ P_CSV)) as [c|]; [|intros []].
  destruct (convert o c) as [r|]; [|intros []].
  intros H. apply in_app_or in H. destruct H as [H|H].
  - destruct H as [<-|[<-|[]]]; simpl; (split; [reflexivity|]); intros q Hq; simpl in Hq; intuition.
  - destruct (fget st (root ++ P_SETTINGS)) as [sc|]; [|destruct H].
    destruct (contains "merchants_file:" sc); [destruct H|].
    destruct H as [<-|[]]. simpl. split; [reflexivity|]. intros q [<-|[]]. intuition.
Qed.

Lemma report_effects_shape o root s emb out st e :
  In e (report_effects o root s emb out st) ->
  (eff_owner e = OReport \/ eff_owner e = OOutDir) /\
  (forall q, In q (touched e) -> In q (report_files root s emb out)).
Proof.
  unfold report_effects.
  assert (W : forall e, In e (map (fun p => EWrite OReport p (report o st p)) (report_files root s emb out)) ->
              (eff_owner e = OReport \/ eff_owner e = OOutDir) /\
              (forall q, In q (touched e) -> In q (report_files root s emb out))).
  { intros e0 H0. apply in_map_iff in H0. destruct H0 as [p [<- Hp]]. simpl. split; [now left|].
    intros q [<-|[]]. exact Hp. }
  destruct out as [[d n]|].
  - destruct (String.eqb d "" || isdir st d)%bool; [apply W | intros []].
  - destruct (fexists st (root ++ sf_output_dir s)); [intros []|].
    intros H. apply in_app_or in H. destruct H as [H|H]; [|now apply W].
    destruct (isdir st (root ++ sf_output_dir s)); [destruct H|]. destruct H as [<-|[]]. simpl.
    split; [now right | intros q []].
Qed.

Lemma mkdirs_until_shape st ds e : In e (mkdirs_until st ds) -> exists d, e = EMkdir OInitDirs d.
Proof.
  induction ds as [|d r IH]; simpl; [intros []|].
  destruct (fexists st d); [intros []|]. intros H. apply in_app_or in H. destruct H as [H|H]; [|now apply IH].
  destruct (isdir st d); [destruct H|]. destruct H as [<-|[]]. now exists d.
Qed.

(* ------------------------------------------------------------------ every effect belongs to an allowed class *)
Lemma effects_allowed o c st e :
  In e (effects o c st) ->
  omem (eff_owner e) (allowed (cmd_name c)) = true /\
  (eff_owner e = OMigrate -> requests_migration c = true).
Proof.
  unfold effects, run_log. intros H. apply run_stages_effects in H. destruct H as [s [st' [Hs He]]].
  destruct c as [cfg m emb f out| | | |file| | | |t]; simpl in Hs; try (exfalso; exact Hs).
  - (* up *)
    unfold up_stages in Hs. destruct (up_context o cfg st) as [[root sf]|]; [|destruct Hs].
    destruct Hs as [<-|[<-|[]]].
    + destruct (m && csv_format st' root sf)%bool eqn:G; [|destruct He].
      apply mig_effects_shape in He. destruct He as [Ho _]. rewrite Ho. split; [reflexivity|].
      intros _. simpl. now apply andb_prop in G.
    + destruct (pipeline_ok o st' && is_html f)%bool; [|destruct He].
      apply report_effects_shape in He. destruct He as [[Ho|Ho] _]; rewrite Ho; split; try reflexivity; discriminate.
  - (* init *)
    unfold init_stages in Hs. destruct Hs as [<-|[<-|[<-|[<-|[]]]]].
    + destruct (init_migrates st' _); [|destruct He]. apply mig_effects_shape in He.
      destruct He as [Ho _]. rewrite Ho. split; reflexivity.
    + apply mkdirs_until_shape in He. destruct He as [d ->]. split; [reflexivity | discriminate].
    + destruct (init_blocked st' _); [destruct He|].
      apply in_map_iff in He. destruct He as [pc [<- _]]. split; [reflexivity | discriminate].
    + destruct (init_blocked st' _); [destruct He|].
      destruct (fget st' _) as [sc|]; [|destruct He]. destruct (fget st' _); [|destruct He].
      destruct (contains "views_file:" sc); [destruct He|]. destruct He as [<-|[]]. split; [reflexivity | discriminate].
Qed.

(* ------------------------------------------------------------------ read-only commands *)
Lemma readonly_step o c st p :
  readonly c = true -> ~ In p (report_paths o c st) -> fget (run o c st) p = fget st p.
Proof.
  intros Hro Hp. unfold run, run_log. apply run_stages_untouched.
  intros s st' e Hs He.
  destruct c as [cfg m emb f out| | | |file| | | |t]; simpl in Hs; try (exfalso; exact Hs); [|discriminate Hro].
  simpl in Hro. apply negb_true_iff in Hro. subst m.
  unfold up_stages in Hs. simpl in Hp. destruct (up_context o cfg st) as [[root sf]|]; [|destruct Hs].
  destruct Hs as [<-|[<-|[]]]; [destruct He|].
  destruct (pipeline_ok o st'); simpl in He; [|destruct He].
  destruct f; simpl in He; try destruct He. simpl in Hp.
  apply report_effects_shape in He. destruct He as [_ Ht]. intros Hq. apply Hp. now apply Ht.
Qed.

(* p is never a report file of the commands of the sequence, in the states in which they run *)
Fixpoint safe_for (o : oracle) (p : path) (cs : list cmd) (st : state) : Prop :=
  match cs with
  | [] => True
  | c :: r => ~ In p (report_paths o c st) /\ safe_for o p r (run o c st)
  end.

Lemma readonly_seq o p cs : forall st,
  forallb readonly cs = true -> safe_for o p cs st -> fget (run_seq o cs st) p = fget st p.
Proof.
  induction cs as [|c r IH]; intros st Hro Hs; [reflexivity|].
  simpl in Hro. apply andb_prop in Hro. destruct Hro as [Hc Hr]. destruct Hs as [Hp Hs'].
  unfold run_seq in *. simpl. rewrite IH; [|exact Hr|exact Hs']. now apply readonly_step.
Qed.

(* directories: a read-only command can only add the output directory *)
Lemma apply_all_dirs es : forall st d,
  In d (dirs (apply_all es st)) -> In d (dirs st) \/ exists ow, In (EMkdir ow d) es.
Proof.
  induction es as [|e r IH]; intros st d H; [now left|].
  rewrite apply_all_cons in H. apply IH in H. destruct H as [H|[ow H]]; [|right; exists ow; now right].
  destruct e as [ow p c|ow p s|ow a b|ow d']; simpl in H; try (now left).
  - destruct (fget st a); now left.
  - destruct (isdir st d'); [now left|]. simpl in H. destruct H as [<-|H]; [right; exists ow; now left | now left].
Qed.

Lemma readonly_dirs o c st d :
  readonly c = true -> In d (dirs (run o c st)) ->
  In d (dirs st) \/ exists root s, up_context o (cmd_cfg c) st = Some (root, s) /\ d = root ++ sf_output_dir s.
Proof.
  intros Hro H. unfold run, run_log in H. rewrite run_stages_state in H. apply apply_all_dirs in H.
  destruct H as [H|[ow H]]; [now left|]. right.
  apply run_stages_effects in H. destruct H as [s [st' [Hs He]]].
  destruct c as [cfg m emb f out| | | |file| | | |t]; simpl in Hs; try (exfalso; exact Hs); [|discriminate Hro].
  simpl in Hro. apply negb_true_iff in Hro. subst m. cbn [cmd_cfg].
  unfold up_stages in Hs. destruct (up_context o cfg st) as [[root sf]|]; [|destruct Hs].
  exists root, sf. split; [reflexivity|].
  destruct Hs as [<-|[<-|[]]]; [destruct He|].
  destruct (pipeline_ok o st' && is_html f)%bool; [|destruct He].
  unfold report_effects in He. destruct out as [[d0 n]|].
  - destruct (String.eqb d0 "" || isdir st' d0)%bool; [|destruct He].
    apply in_map_iff in He. destruct He as [p [Hp _]]. discriminate Hp.
  - destruct (fexists st' (root ++ sf_output_dir sf)); [destruct He|].
    apply in_app_or in He. destruct He as [He|He].
    + destruct (isdir st' (root ++ sf_output_dir sf)); [destruct He|]. destruct He as [He|[]]. now inversion He.
    + apply in_map_iff in He. destruct He as [p [Hp _]]. discriminate Hp.
Qed.

(* ------------------------------------------------------------------ well-known paths are distinct *)
Lemma eqb_root_lit root a b : a <> b -> String.eqb (root ++ a) (root ++ b) = false.
Proof.
  intros H. destruct (String.eqb_spec (root ++ a) (root ++ b)) as [E|E]; [|reflexivity].
  apply sapp_inv_head in E. contradiction.
Qed.

Ltac lit_ne := let H := fresh in intro H; vm_compute in H; discriminate H.
Ltac path_ne :=
  match goal with
  | |- (?r ++ ?a)%string <> (?r ++ ?b)%string =>
      let H := fresh in intro H; apply sapp_inv_head in H; vm_compute in H; discriminate H
  end.
(* decide every [String.eqb x y] in the goal, substituting equal paths and discharging impossible equalities
   between two well-known paths under the same prefix *)
Ltac kill_path_eq :=
  repeat match goal with
         | H : (?r ++ ?a)%string = (?r ++ ?b)%string |- _ =>
             apply sapp_inv_head in H; vm_compute in H; discriminate H
         end.
Ltac case_eqb :=
  repeat (match goal with
          | |- context [String.eqb ?x ?y] => destruct (String.eqb_spec x y); try subst; kill_path_eq
          end).

(* ------------------------------------------------------------------ specification of "keeps the user's files" *)
(* the file q, which held c0 before the command, is kept by the command:
   unchanged, or it is the settings file and gained a suffix, or it is the legacy CSV, which was renamed to the
   backup name with its content intact *)
Definition kept (root : string) (st' : state) (q : path) (c0 : string) : Prop :=
  fget st' q = Some c0
  \/ (q = root ++ P_SETTINGS /\ exists s, fget st' q = Some (c0 ++ s))
  \/ (q = root ++ P_CSV /\ fget st' q = None /\ fget st' (root ++ P_BAK) = Some c0).

(* ------------------------------------------------------------------ CSV -> .rules migration *)
Lemma mig_char o root st c r :
  fget st (root ++ P_CSV) = Some c -> convert o c = Some r ->
  forall x, fget (apply_all (mig_effects o root st) st) x =
    if String.eqb x (root ++ P_SETTINGS)
    then match fget st (root ++ P_SETTINGS) with
         | Some sc => Some (if contains "merchants_file:" sc then sc else sc ++ MIG_SUFFIX)
         | None => None
         end
    else if String.eqb x (root ++ P_BAK) then Some c
    else if String.eqb x (root ++ P_CSV) then None
    else if String.eqb x (root ++ P_RULES) then Some r
    else fget st x.
Proof.
  intros Hc Hr x. unfold mig_effects. rewrite Hc, Hr. rewrite apply_all_app.
  set (st1 := apply_all [EWrite OMigrate (root ++ P_RULES) r; ERename OMigrate (root ++ P_CSV) (root ++ P_BAK)] st).
  assert (F1 : forall y, fget st1 y =
                         if String.eqb y (root ++ P_BAK) then Some c
                         else if String.eqb y (root ++ P_CSV) then None
                         else if String.eqb y (root ++ P_RULES) then Some r else fget st y).
  { intros y. subst st1. rewrite !apply_all_cons. unfold apply_all; cbn [fold_left].
    rewrite fget_rename, !fget_write.
    rewrite (eqb_root_lit root P_CSV P_RULES) by lit_ne. rewrite Hc. reflexivity. }
  assert (FS : fget st1 (root ++ P_SETTINGS) = fget st (root ++ P_SETTINGS)).
  { rewrite F1. rewrite (eqb_root_lit root P_SETTINGS P_BAK) by lit_ne.
    rewrite (eqb_root_lit root P_SETTINGS P_CSV) by lit_ne.
    rewrite (eqb_root_lit root P_SETTINGS P_RULES) by lit_ne. reflexivity. }
  destruct (fget st (root ++ P_SETTINGS)) as [sc|] eqn:Hs.
  - destruct (contains "merchants_file:" sc).
    + unfold apply_all at 1; cbn [fold_left]. rewrite F1.
      destruct (String.eqb_spec x (root ++ P_SETTINGS)) as [->|Hx]; [|reflexivity].
      rewrite (eqb_root_lit root P_SETTINGS P_BAK) by lit_ne.
      rewrite (eqb_root_lit root P_SETTINGS P_CSV) by lit_ne.
      rewrite (eqb_root_lit root P_SETTINGS P_RULES) by lit_ne. exact Hs.
    + rewrite apply_all_cons. unfold apply_all at 1; cbn [fold_left]. rewrite fget_append, FS, F1.
      destruct (String.eqb_spec x (root ++ P_SETTINGS)); reflexivity.
  - unfold apply_all at 1; cbn [fold_left]. rewrite F1.
    destruct (String.eqb_spec x (root ++ P_SETTINGS)) as [->|Hx]; [|reflexivity].
    rewrite (eqb_root_lit root P_SETTINGS P_BAK) by lit_ne.
    rewrite (eqb_root_lit root P_SETTINGS P_CSV) by lit_ne.
    rewrite (eqb_root_lit root P_SETTINGS P_RULES) by lit_ne. exact Hs.
Qed.

Lemma mig_noop o root st :
  (fget st (root ++ P_CSV) = None \/ exists c, fget st (root ++ P_CSV) = Some c /\ convert o c = None) ->
  mig_effects o root st = [].
Proof.
  unfold mig_effects. intros [H|[c [H1 H2]]]; [now rewrite H | now rewrite H1, H2].
Qed.

(* every file other than the backup and merchants.rules is kept by the migration *)
Lemma mig_kept o root st q c0 :
  fget st q = Some c0 -> q <> root ++ P_BAK -> q <> root ++ P_RULES ->
  kept root (apply_all (mig_effects o root st) st) q c0.
Proof.
  intros Hq Hb Hr.
  destruct (fget st (root ++ P_CSV)) as [c|] eqn:Hc;
    [|rewrite mig_noop by (now left); left; exact Hq].
  destruct (convert o c) as [r|] eqn:Hv;
    [|rewrite mig_noop by (right; exists c; now split); left; exact Hq].
  unfold kept. rewrite !(mig_char o root st c r Hc Hv).
  destruct (String.eqb_spec q (root ++ P_SETTINGS)) as [->|H1].
  - rewrite Hq. destruct (contains "merchants_file:" c0); [now left|].
    right; left. split; [reflexivity|]. now exists MIG_SUFFIX.
  - destruct (String.eqb_spec q (root ++ P_BAK)) as [->|H2]; [contradiction|].
    destruct (String.eqb_spec q (root ++ P_CSV)) as [->|H3].
    + right; right. split; [reflexivity|]. split; [reflexivity|].
      rewrite (eqb_root_lit root P_BAK P_SETTINGS) by lit_ne. rewrite String.eqb_refl. congruence.
    + destruct (String.eqb_spec q (root ++ P_RULES)) as [->|H4]; [contradiction|]. now left.
Qed.

(* what the migration can create *)
Lemma mig_new o root st q :
  fget st q = None -> fget (apply_all (mig_effects o root st) st) q <> None ->
  q = root ++ P_RULES \/ q = root ++ P_BAK.
Proof.
  intros Hq Hn.
  destruct (fget st (root ++ P_CSV)) as [c|] eqn:Hc;
    [|rewrite mig_noop in Hn by (now left); contradiction].
  destruct (convert o c) as [r|] eqn:Hv;
    [|rewrite mig_noop in Hn by (right; exists c; now split); contradiction].
  rewrite (mig_char o root st c r Hc Hv) in Hn.
  destruct (String.eqb_spec q (root ++ P_SETTINGS)) as [->|H1]; [rewrite Hq in Hn; contradiction|].
  destruct (String.eqb_spec q (root ++ P_BAK)) as [->|H2]; [now right|].
  destruct (String.eqb_spec q (root ++ P_CSV)) as [->|H3]; [contradiction|].
  destruct (String.eqb_spec q (root ++ P_RULES)) as [->|H4]; [now left | contradiction].
Qed.

(* the backup really holds the original rules *)
Lemma mig_backup o root st c r :
  fget st (root ++ P_CSV) = Some c -> convert o c = Some r ->
  let st' := apply_all (mig_effects o root st) st in
  fget st' (root ++ P_BAK) = Some c /\ fget st' (root ++ P_CSV) = None /\ fget st' (root ++ P_RULES) = Some r.
Proof.
  intros Hc Hv st'. subst st'. rewrite !(mig_char o root st c r Hc Hv).
  rewrite (eqb_root_lit root P_BAK P_SETTINGS) by lit_ne.
  rewrite (eqb_root_lit root P_CSV P_SETTINGS) by lit_ne.
  rewrite (eqb_root_lit root P_RULES P_SETTINGS) by lit_ne.
  rewrite (eqb_root_lit root P_CSV P_BAK) by lit_ne.
  rewrite (eqb_root_lit root P_RULES P_BAK) by lit_ne.
  rewrite (eqb_root_lit root P_RULES P_CSV) by lit_ne.
  rewrite !String.eqb_refl. auto.
Qed.

(* ------------------------------------------------------------------ init: directories, starter files, views_file line *)
Definition init_tail (o : oracle) (rd : option string) : list stage :=
  let root := prefix_of rd in
  [ (fun s2 => mkdirs_until s2 (init_dirs rd));
    (fun s3 => if init_blocked s3 rd then [] else
               map (fun pc => EWrite OInitStarter (fst pc) (snd pc))
                   (filter (fun pc => negb (fexists s3 (fst pc))) (starters o root)));
    (fun s4 => if init_blocked s4 rd then [] else
               match fget s4 (root ++ P_SETTINGS), fget s4 (root ++ P_VIEWS) with
               | Some sc, Some _ => if contains "views_file:" sc then []
                                    else [EAppend OInitAppend (root ++ P_SETTINGS) VIEWS_SUFFIX]
               | _, _ => []
               end) ].

Lemma init_split o t st :
  run o (Init t) st =
  let rd := init_rootdir t st in
  let root := prefix_of rd in
  fst (run_stages (init_tail o rd)
                  (apply_all (if init_migrates st root then mig_effects o root st else []) st)).
Proof. unfold run, run_log, stages, init_stages. rewrite run_stages_cons. reflexivity. Qed.

Definition starter_paths (root : string) : list path :=
  [root ++ P_SETTINGS; root ++ P_RULES; root ++ P_VIEWS; root ++ P_GIT].

Lemma starters_paths o root : map fst (starters o root) = starter_paths root.
Proof. reflexivity. Qed.

(* the three last stages touch starter paths only *)
Lemma init_tail_touches o rd s st' e q :
  In s (init_tail o rd) -> In e (s st') -> In q (touched e) -> In q (starter_paths (prefix_of rd)).
Proof.
  intros Hs He Hq. destruct Hs as [<-|[<-|[<-|[]]]].
  - apply mkdirs_until_shape in He. destruct He as [d ->]. destruct Hq.
  - destruct (init_blocked st' rd); [destruct He|].
    apply in_map_iff in He. destruct He as [pc [<- Hpc]]. destruct Hq as [<-|[]].
    apply filter_In in Hpc. destruct Hpc as [Hpc _]. rewrite <- (starters_paths o). now apply in_map.
  - destruct (init_blocked st' rd); [destruct He|].
    destruct (fget st' (prefix_of rd ++ P_SETTINGS)) as [sc|]; [|destruct He].
    destruct (fget st' (prefix_of rd ++ P_VIEWS)); [|destruct He].
    destruct (contains "views_file:" sc); [destruct He|]. destruct He as [<-|[]]. destruct Hq as [<-|[]].
    now left.
Qed.

Lemma mkdirs_fget ow ds st x : fget (apply_all (map (EMkdir ow) ds) st) x = fget st x.
Proof.
  apply apply_all_untouched. intros e He. apply in_map_iff in He. destruct He as [d [<- _]]. intros [].
Qed.

Section InitTail.
  Variable o : oracle.
  Variable rd : option string.
  Let root := prefix_of rd.
  Variable st1 : state.
  Let st2 := apply_all (mkdirs_until st1 (init_dirs rd)) st1.
  Let st3 := apply_all (if init_blocked st2 rd then [] else
                        map (fun pc => EWrite OInitStarter (fst pc) (snd pc))
                            (filter (fun pc => negb (fexists st2 (fst pc))) (starters o root))) st2.
  Let e4 := if init_blocked st3 rd then [] else
            match fget st3 (root ++ P_SETTINGS), fget st3 (root ++ P_VIEWS) with
            | Some sc, Some _ => if contains "views_file:" sc then []
                                 else [EAppend OInitAppend (root ++ P_SETTINGS) VIEWS_SUFFIX]
            | _, _ => []
            end.
  Let st4 := apply_all e4 st3.

  Lemma init_tail_unfold : fst (run_stages (init_tail o rd) st1) = st4.
  Proof. unfold init_tail. rewrite !run_stages_cons. reflexivity. Qed.

  Lemma tail_st2 x : fget st2 x = fget st1 x.
  Proof.
    apply apply_all_untouched. intros e He. apply mkdirs_until_shape in He. destruct He as [d ->]. intros [].
  Qed.

  (* an existing file is not rewritten by the starter stage *)
  Lemma tail_st3_keep x c : fget st1 x = Some c -> fget st3 x = Some c.
  Proof.
    intros H. unfold st3. rewrite apply_all_untouched; [now rewrite tail_st2|].
    intros e He. destruct (init_blocked st2 rd); [destruct He|]. apply in_map_iff in He. destruct He as [pc [<- Hpc]]. apply filter_In in Hpc.
    destruct Hpc as [_ Hpc]. intros [Hx|[]]. simpl in Hx. subst x.
    unfold fexists in Hpc. rewrite tail_st2, H in Hpc. discriminate Hpc.
  Qed.

  Lemma tail_st3_none x : ~ In x (starter_paths root) -> fget st3 x = fget st1 x.
  Proof.
    intros H. unfold st3. rewrite apply_all_untouched; [apply tail_st2|].
    intros e He. destruct (init_blocked st2 rd); [destruct He|]. apply in_map_iff in He. destruct He as [pc [<- Hpc]]. apply filter_In in Hpc.
    destruct Hpc as [Hpc _]. intros [Hx|[]]. simpl in Hx. subst x. apply H.
    rewrite <- (starters_paths o). now apply in_map.
  Qed.

  Lemma tail_st4_other x : x <> root ++ P_SETTINGS -> fget st4 x = fget st3 x.
  Proof.
    intros H. unfold st4. apply apply_all_untouched. intros e He. unfold e4 in He.
    destruct (init_blocked st3 rd); [destruct He|].
    destruct (fget st3 (root ++ P_SETTINGS)) as [sc|]; [|destruct He].
    destruct (fget st3 (root ++ P_VIEWS)); [|destruct He].
    destruct (contains "views_file:" sc); [destruct He|]. destruct He as [<-|[]]. intros [Hx|[]]. now subst x.
  Qed.

  Lemma tail_st4_settings c : fget st3 (root ++ P_SETTINGS) = Some c ->
    exists s, fget st4 (root ++ P_SETTINGS) = Some (c ++ s).
  Proof.
    intros H. unfold st4, e4.
    destruct (init_blocked st3 rd); [exists ""; rewrite sapp_nil_r; exact H|]. rewrite H.
    destruct (fget st3 (root ++ P_VIEWS)); [|exists ""; rewrite sapp_nil_r; exact H].
    destruct (contains "views_file:" c); [exists ""; rewrite sapp_nil_r; exact H|].
    exists VIEWS_SUFFIX. rewrite apply_all_cons. unfold apply_all; cbn [fold_left].
    rewrite fget_append, String.eqb_refl, H. reflexivity.
  Qed.

  Lemma tail_keep_other x c : fget st1 x = Some c -> x <> root ++ P_SETTINGS -> fget st4 x = Some c.
  Proof. intros H Hx. rewrite tail_st4_other by exact Hx. now apply tail_st3_keep. Qed.

  Lemma tail_keep_settings c : fget st1 (root ++ P_SETTINGS) = Some c ->
    exists s, fget st4 (root ++ P_SETTINGS) = Some (c ++ s).
  Proof. intros H. apply tail_st4_settings. now apply tail_st3_keep. Qed.

  Lemma tail_none x : ~ In x (starter_paths root) -> fget st4 x = fget st1 x.
  Proof.
    intros H. rewrite tail_st4_other; [now apply tail_st3_none|].
    intros ->. apply H. now left.
  Qed.

  Lemma tail_kept q c0 : kept root st1 q c0 -> kept root st4 q c0.
  Proof.
    intros [H|[[-> [s H]]|[-> [H1 H2]]]].
    - destruct (String.eqb_spec q (root ++ P_SETTINGS)) as [->|Hq].
      + right; left. split; [reflexivity|]. now apply tail_keep_settings.
      + left. now apply tail_keep_other.
    - right; left. split; [reflexivity|]. destruct (tail_keep_settings _ H) as [s' Hs'].
      exists (s ++ s'). now rewrite <- sapp_assoc.
    - right; right. split; [reflexivity|]. split.
      + rewrite tail_none; [exact H1|]. unfold starter_paths. intros [E|[E|[E|[E|[]]]]]; kill_path_eq.
      + apply tail_keep_other; [exact H2 | path_ne].
  Qed.
End InitTail.

(* ---- init keeps every file; the only exception is an existing backup when it migrates ---- *)
Definition init_root (t : target) (st : state) : string := prefix_of (init_rootdir t st).

Lemma init_keeps_partial o t st q c0 :
  fget st q = Some c0 ->
  (q <> init_root t st ++ P_BAK \/ init_migrates st (init_root t st) = false) ->
  kept (init_root t st) (run o (Init t) st) q c0.
Proof.
  intros Hq G. rewrite init_split. cbv zeta. fold (init_root t st). rewrite init_tail_unfold.
  apply tail_kept.
  destruct (init_migrates st (init_root t st)) eqn:M.
  - apply mig_kept; [exact Hq | destruct G as [G|G]; [exact G | discriminate G] |].
    unfold init_migrates in M. destruct (fget st (init_root t st ++ P_CSV)); [|discriminate M].
    destruct (fget st (init_root t st ++ P_RULES)) eqn:R; [discriminate M|]. intros ->. congruence.
  - left. exact Hq.
Qed.

(* only missing files are created, and only the starter files (or, when migrating, merchants.rules / the backup) *)
Lemma init_creates_only_missing o t st q :
  fget st q = None -> fget (run o (Init t) st) q <> None ->
  In q (starter_paths (init_root t st)) \/
  (init_migrates st (init_root t st) = true /\ (q = init_root t st ++ P_RULES \/ q = init_root t st ++ P_BAK)).
Proof.
  intros Hq Hn. rewrite init_split in Hn. cbv zeta in Hn. fold (init_root t st) in Hn.
  rewrite init_tail_unfold in Hn.
  destruct (in_dec String.string_dec q (starter_paths (init_root t st))) as [Hin|Hout]; [now left|].
  unfold init_root in Hout, Hn. rewrite tail_none in Hn by exact Hout. fold (init_root t st) in Hn.
  destruct (init_migrates st (init_root t st)) eqn:M.
  - right. split; [reflexivity|]. now apply (mig_new o _ st).
  - contradiction.
Qed.

(* ---- up: context None means the command does nothing ---- *)
Lemma up_no_context o cfg m emb f out st : up_context o cfg st = None -> run o (Up cfg m emb f out) st = st.
Proof. intros H. unfold run, run_log, stages, up_stages. now rewrite H. Qed.

Lemma up_split o cfg m emb f out st root s :
  up_context o cfg st = Some (root, s) ->
  run o (Up cfg m emb f out) st =
  let st1 := apply_all (if (m && csv_format st root s)%bool then mig_effects o root st else []) st in
  apply_all (if (pipeline_ok o st1 && is_html f)%bool then report_effects o root s emb out st1 else []) st1.
Proof.
  intros H. unfold run, run_log, stages, up_stages. rewrite H. rewrite !run_stages_cons. reflexivity.
Qed.

Lemma report_stage_untouched o root s emb out f st1 x :
  (is_html f = true -> ~ In x (report_files root s emb out)) ->
  fget (apply_all (if (pipeline_ok o st1 && is_html f)%bool then report_effects o root s emb out st1 else []) st1) x
  = fget st1 x.
Proof.
  intros H. apply apply_all_untouched. intros e He.
  destruct (pipeline_ok o st1); simpl in He; [|destruct He].
  destruct (is_html f) eqn:F; [|destruct He].
  apply report_effects_shape in He. destruct He as [_ Ht]. intros Hx. apply (H eq_refl). now apply Ht.
Qed.

Lemma migrate_keeps_partial o cfg emb f out st root s q c0 :
  up_context o cfg st = Some (root, s) ->
  fget st q = Some c0 ->
  ~ In q (report_paths o (Up cfg true emb f out) st) ->
  ~ In (root ++ P_BAK) (report_paths o (Up cfg true emb f out) st) ->
  ((q <> root ++ P_BAK /\ q <> root ++ P_RULES) \/ csv_format st root s = false) ->
  kept root (run o (Up cfg true emb f out) st) q c0.
Proof.
  intros Hc Hq Hrp Hrb G. rewrite (up_split _ _ _ _ _ _ _ _ _ Hc). cbv zeta.
  simpl in Hrp, Hrb. rewrite Hc in Hrp, Hrb.
  set (st1 := apply_all (if (true && csv_format st root s)%bool then mig_effects o root st else []) st).
  assert (K1 : kept root st1 q c0).
  { subst st1. simpl. destruct (csv_format st root s) eqn:F.
    - destruct G as [[G1 G2]|G]; [now apply mig_kept | discriminate G].
    - left. exact Hq. }
  assert (R : forall x, (is_html f = true -> ~ In x (report_files root s emb out)) ->
              fget (apply_all (if (pipeline_ok o st1 && is_html f)%bool
                               then report_effects o root s emb out st1 else []) st1) x = fget st1 x)
    by (intros x Hx; now apply report_stage_untouched).
  assert (Rq : is_html f = true -> ~ In q (report_files root s emb out))
    by (intros F; now rewrite F in Hrp).
  assert (Rb : is_html f = true -> ~ In (root ++ P_BAK) (report_files root s emb out))
    by (intros F; now rewrite F in Hrb).
  unfold kept. rewrite !R by assumption. exact K1.
Qed.

(* without --migrate the migration stage is empty, whatever the budget *)
Lemma up_nomigrate_effects o cfg emb f out st e :
  In e (effects o (Up cfg false emb f out) st) -> eff_owner e = OReport \/ eff_owner e = OOutDir.
Proof.
  intros H. destruct (effects_allowed o _ st e H) as [_ Hm].
  unfold effects, run_log in H. apply run_stages_effects in H. destruct H as [s0 [st' [Hs He]]].
  simpl in Hs. unfold up_stages in Hs. destruct (up_context o cfg st) as [[root sf]|]; [|destruct Hs].
  destruct Hs as [<-|[<-|[]]]; [destruct He|].
  destruct (pipeline_ok o st' && is_html f)%bool; [|destruct He].
  apply report_effects_shape in He. tauto.
Qed.

(* ------------------------------------------------------------------ static obligations (tables regenerated from /repo) *)
Lemma write_sites_known_all : forall ws, In ws write_sites -> known ws = true.
Proof. apply forallb_forall. vm_compute. reflexivity. Qed.

Lemma reach_owners_ok : forall entry, In entry reach_writers -> reach_ok entry = true /\ dead_ok entry = true.
Proof.
  intros entry H. split; revert entry H; apply forallb_forall; vm_compute; reflexivity.
Qed.

Lemma readonly_commands_reach_no_writer :
  forall name, In name ["explain"; "discover"; "diag"; "inspect"; "reference"] ->
  forall fs, In (name, fs) reach_writers -> fs = [].
Proof.
  assert (H : forallb (fun e : string * list string =>
                         if mem (fst e) ["explain"; "discover"; "diag"; "inspect"; "reference"]
                         then match snd e with [] => true | _ => false end else true) reach_writers = true)
    by (vm_compute; reflexivity).
  intros name Hn fs Hin. rewrite forallb_forall in H. specialize (H _ Hin). simpl fst in H; simpl snd in H.
  apply mem_In in Hn. rewrite Hn in H. destruct fs; [reflexivity | discriminate H].
Qed.

Lemma all_commands_listed :
  forall name, In name ["up"; "run"; "explain"; "discover"; "diag"; "inspect"; "init"; "workflow"; "update"; "reference"] ->
  exists fs, In (name, fs) reach_writers.
Proof.
  assert (H : forallb (fun n => existsb (fun e : string * list string => String.eqb n (fst e)) reach_writers)
                      ["up"; "run"; "explain"; "discover"; "diag"; "inspect"; "init"; "workflow"; "update"; "reference"] = true)
    by (vm_compute; reflexivity).
  intros name Hn. rewrite forallb_forall in H. specialize (H _ Hn). apply existsb_exists in H.
  destruct H as [[n fs] [Hin He]]. simpl in He. apply String.eqb_eq in He. subst n. now exists fs.
Qed.

Lemma migration_guards : migration_guards_ok = true.
Proof. vm_compute. reflexivity. Qed.

(* ------------------------------------------------------------------ the output location does not move under read-only commands *)
Lemma apply_dirs_mono e st d : In d (dirs st) -> In d (dirs (apply e st)).
Proof.
  intros H. destruct e as [ow p c|ow p s|ow a b|ow d']; simpl; try exact H.
  - destruct (fget st a); exact H.
  - destruct (isdir st d'); [exact H | now right].
Qed.

Lemma apply_all_dirs_mono es : forall st d, In d (dirs st) -> In d (dirs (apply_all es st)).
Proof.
  induction es as [|e r IH]; intros st d H; [exact H|].
  rewrite apply_all_cons. apply IH. now apply apply_dirs_mono.
Qed.

Lemma run_dirs_mono o c st d : In d (dirs st) -> In d (dirs (run o c st)).
Proof. intros H. unfold run, run_log. rewrite run_stages_state. now apply apply_all_dirs_mono. Qed.

Lemma isdir_In st d : isdir st d = true <-> In d (dirs st).
Proof. unfold isdir. apply mem_In. Qed.

Lemma up_context_root o cfg st root s : up_context o cfg st = Some (root, s) -> root_for cfg st = Some root.
Proof.
  unfold up_context. destruct (root_for cfg st) as [r|]; [|discriminate].
  destruct (fget st (r ++ P_SETTINGS)) as [sc|]; [|discriminate].
  destruct (parse_settings o sc) as [sf|]; [|discriminate].
  destruct (sf_sources sf); [|discriminate]. intros H. now inversion H.
Qed.

Lemma run_noop o c st : stages o c st = [] -> run o c st = st.
Proof. intros H. unfold run, run_log. now rewrite H. Qed.

(* a read-only command does not change what a later `up` WITH THE SAME CONFIG DESIGNATION learns about the budget *)
Lemma up_context_stable o c cfg st :
  readonly c = true ->
  (is_up c = true -> cmd_cfg c = cfg) ->
  (forall root s, up_context o cfg st = Some (root, s) -> ~ In (root ++ P_SETTINGS) (report_paths o c st)) ->
  up_context o cfg (run o c st) = up_context o cfg st.
Proof.
  intros Hro Hcfg Hs.
  destruct c as [cfg0 m emb f out| | | |file| | | |t]; try (rewrite run_noop; reflexivity); [|discriminate Hro].
  simpl in Hcfg. specialize (Hcfg eq_refl). subst cfg0.
  destruct (up_context o cfg st) as [[root sf]|] eqn:Hc; [|now rewrite up_no_context].
  pose proof (up_context_root _ _ _ _ _ Hc) as Hr.
  assert (Hset : fget (run o (Up cfg m emb f out) st) (root ++ P_SETTINGS) = fget st (root ++ P_SETTINGS)).
  { apply readonly_step; [exact Hro|]. now apply (Hs root sf). }
  assert (Hroot : root_for cfg (run o (Up cfg m emb f out) st) = Some root).
  { destruct cfg as [r|]; simpl in Hr |- *.
    - destruct (isdir st (r ++ "config")) eqn:D0; [|discriminate Hr]. inversion Hr; subst root.
      apply isdir_In in D0. apply (run_dirs_mono o (Up (Some r) m emb f out)) in D0. apply isdir_In in D0. now rewrite D0.
    - unfold find_root in *. destruct (isdir st "config") eqn:D1.
      + inversion Hr; subst root. apply isdir_In in D1.
        apply (run_dirs_mono o (Up None m emb f out)) in D1. apply isdir_In in D1. now rewrite D1.
      + destruct (isdir st "tally/config") eqn:D2; [|discriminate Hr]. inversion Hr; subst root.
        destruct (isdir (run o (Up None m emb f out) st) "config") eqn:D3.
        * exfalso. apply isdir_In in D3. apply (readonly_dirs o _ st _ Hro) in D3.
          destruct D3 as [D3|[r' [s' [Hc' D3]]]].
          -- apply isdir_In in D3. congruence.
          -- cbn [cmd_cfg] in Hc'. rewrite Hc in Hc'. inversion Hc'; subst r' s'. simpl in D3. discriminate D3.
        * apply isdir_In in D2. apply (run_dirs_mono o (Up None m emb f out)) in D2. apply isdir_In in D2.
          now rewrite D2. }
  unfold up_context in *. rewrite Hroot, Hr in *. rewrite Hset. exact Hc.
Qed.

Lemma report_paths_ctx o c st1 st2 :
  up_context o (cmd_cfg c) st1 = up_context o (cmd_cfg c) st2 -> report_paths o c st1 = report_paths o c st2.
Proof. intros H. destruct c; simpl in *; try reflexivity. now rewrite H. Qed.

(* the sequence theorem with the output location computed once, from the budget as it is before the first
   command — provided the settings file itself is not configured to be a report file, and every `up` of the
   sequence designates the budget in the same way (all by auto-detection, or all by the same explicit directory) *)
Lemma readonly_seq_stable o p cfg cs : forall st,
  forallb readonly cs = true ->
  (forall c, In c cs -> is_up c = true -> cmd_cfg c = cfg) ->
  (forall c, In c cs -> ~ In p (report_paths o c st)) ->
  (forall c root s, In c cs -> up_context o cfg st = Some (root, s) -> ~ In (root ++ P_SETTINGS) (report_paths o c st)) ->
  fget (run_seq o cs st) p = fget st p.
Proof.
  induction cs as [|c r IH]; intros st Hro Hcf Hp Hs; [reflexivity|].
  simpl in Hro. apply andb_prop in Hro. destruct Hro as [Hc Hr].
  assert (Hctx : up_context o cfg (run o c st) = up_context o cfg st).
  { apply up_context_stable; [exact Hc | apply Hcf; now left |].
    intros root s E. apply (Hs c root s); [now left | exact E]. }
  assert (Hrp : forall c', In c' r -> report_paths o c' (run o c st) = report_paths o c' st).
  { intros c' Hc'. destruct (is_up c') eqn:U.
    - apply report_paths_ctx. rewrite (Hcf c' (or_intror Hc') U). exact Hctx.
    - destruct c'; try discriminate U; reflexivity. }
  unfold run_seq in *. simpl. rewrite IH.
  - apply readonly_step; [exact Hc | apply Hp; now left].
  - exact Hr.
  - intros c' Hc'. apply Hcf. now right.
  - intros c' Hc'. rewrite (Hrp c' Hc'). apply Hp. now right.
  - intros c' root s Hc' E. rewrite (Hrp c' Hc'). rewrite Hctx in E.
    apply (Hs c' root s); [now right | exact E].
Qed.

(* ------------------------------------------------------------------ full-strength statements and their refutation *)
(* init keeps EVERY existing file (settings may gain a suffix; a migrated CSV lives on as the backup) *)
Definition init_keeps_statement : Prop :=
  forall o t st q c0, fget st q = Some c0 -> kept (init_root t st) (run o (Init t) st) q c0.

(* `up --migrate` keeps every existing file outside the report files (same reading of "kept") *)
Definition migrate_keeps_statement : Prop :=
  forall o cfg emb f out st root s q c0,
    up_context o cfg st = Some (root, s) ->
    fget st q = Some c0 ->
    ~ In q (report_paths o (Up cfg true emb f out) st) ->
    ~ In (root ++ P_BAK) (report_paths o (Up cfg true emb f out) st) ->
    kept root (run o (Up cfg true emb f out) st) q c0.

(* witnesses *)
Definition w_facts : sfacts :=
  {| sf_output_dir := "output"; sf_html := "spending_summary.html"; sf_merchants_file := None; sf_sources := true |}.
Definition w_oracle : oracle :=
  {| parse_settings := fun _ => Some w_facts; pipeline_ok := fun _ => true;
     convert := fun _ => Some "[Netflix]"; report := fun _ _ => "<html>";
     starter_settings := "year: 2025"; starter_merchants := "# rules"; starter_views := "# views";
     starter_gitignore := "data/" |}.
Definition w_csv := "Pattern,Merchant,Category,Subcategory" ++ nl ++ "NETFLIX,Netflix,Subscriptions,Streaming" ++ nl.
(* old layout, legacy CSV with one rule, and a backup left over from earlier *)
Definition w_init_state : state :=
  {| files := [("config/merchant_categories.csv", w_csv); ("config/merchant_categories.csv.bak", "OLD BACKUP");
               ("data/bank.csv", "d")];
     dirs := ["config"; "data"] |}.
Definition w_up_state : state :=
  {| files := [("config/settings.yaml", "year: 2025"); ("config/merchant_categories.csv", w_csv);
               ("config/merchant_categories.csv.bak", "OLD BACKUP"); ("config/merchants.rules", "[Mine]");
               ("data/bank.csv", "d")];
     dirs := ["config"; "data"] |}.

Lemma init_keeps_refuted : ~ init_keeps_statement.
Proof.
  intros H. specialize (H w_oracle TDefault w_init_state "config/merchant_categories.csv.bak" "OLD BACKUP" eq_refl).
  destruct H as [H|[[H _]|[H _]]]; vm_compute in H; discriminate H.
Qed.

Lemma migrate_keeps_refuted_bak : ~ migrate_keeps_statement.
Proof.
  intros H.
  assert (R : forall q, q <> "output/spending_summary.html" ->
                        ~ In q (report_paths w_oracle (Up None true true FHtml None) w_up_state)).
  { intros q Hq. vm_compute. intros [E|[]]. now apply Hq. }
  specialize (H w_oracle None true FHtml None w_up_state "" w_facts "config/merchant_categories.csv.bak" "OLD BACKUP"
                eq_refl eq_refl).
  destruct H as [H|[[H _]|[H _]]]; try (vm_compute in H; discriminate H); apply R; discriminate.
Qed.

Lemma migrate_keeps_refuted_rules : ~ migrate_keeps_statement.
Proof.
  intros H.
  assert (R : forall q, q <> "output/spending_summary.html" ->
                        ~ In q (report_paths w_oracle (Up None true true FHtml None) w_up_state)).
  { intros q Hq. vm_compute. intros [E|[]]. now apply Hq. }
  specialize (H w_oracle None true FHtml None w_up_state "" w_facts "config/merchants.rules" "[Mine]" eq_refl eq_refl).
  destruct H as [H|[[H _]|[H _]]]; try (vm_compute in H; discriminate H); apply R; discriminate.
Qed.

(* ================================================================== every effect lies inside the write set *)
Lemma mem_app x a b : mem x (app a b) = (mem x a || mem x b)%bool.
Proof. induction a as [|y r IH]; simpl; [reflexivity|]. destruct (String.eqb x y); [reflexivity | exact IH]. Qed.

Lemma mem_true_In x l : In x l -> mem x l = true.
Proof. apply mem_In. Qed.

Lemma pair_mem_In a b l : In (a, b) l -> pair_mem a b l = true.
Proof.
  intros H. unfold pair_mem. apply existsb_exists. exists (a, b). split; [exact H|]. simpl.
  now rewrite !String.eqb_refl.
Qed.

Lemma mig_effects_exact o root st e :
  In e (mig_effects o root st) ->
  (exists r, e = EWrite OMigrate (root ++ P_RULES) r) \/ e = ERename OMigrate (root ++ P_CSV) (root ++ P_BAK)
  \/ e = EAppend OMigrate (root ++ P_SETTINGS) MIG_SUFFIX.
Proof.
  unfold mig_effects. destruct (fget st (root ++ P_CSV)) as [c|]; [|intros []].
  destruct (convert o c) as [r|]; [|intros []].
  intros H. apply in_app_or in H. destruct H as [H|H].
  - destruct H as [<-|[<-|[]]]; [left; now exists r | right; now left].
  - destruct (fget st (root ++ P_SETTINGS)) as [sc|]; [|destruct H].
    destruct (contains "merchants_file:" sc); [destruct H|]. destruct H as [<-|[]]. right; now right.
Qed.

Ltac ws_cbn := cbn [effect_within op_within ws_union ws_migration ws_empty ws_report ws_create ws_append ws_rename ws_mkdir].

Lemma mig_within root w e o st :
  In e (mig_effects o root st) -> effect_within (ws_union w (ws_migration root)) e = true.
Proof.
  intros H. apply mig_effects_exact in H. destruct H as [[r ->] | [ -> | -> ]]; ws_cbn.
  - apply orb_true_iff. right. apply mem_true_In. apply in_or_app. right. now left.
  - apply pair_mem_In. apply in_or_app. right. now left.
  - apply mem_true_In. apply in_or_app. right. now left.
Qed.

Lemma mig_within_l root w e o st :
  In e (mig_effects o root st) -> effect_within (ws_union (ws_migration root) w) e = true.
Proof.
  intros H. apply mig_effects_exact in H. destruct H as [[r ->] | [ -> | -> ]]; ws_cbn.
  - apply orb_true_iff. right. apply mem_true_In. apply in_or_app. left. now left.
  - apply pair_mem_In. apply in_or_app. left. now left.
  - apply mem_true_In. apply in_or_app. left. now left.
Qed.

Lemma mkdirs_until_in st ds e : In e (mkdirs_until st ds) -> exists d, e = EMkdir OInitDirs d /\ In d ds.
Proof.
  induction ds as [|d r IH]; simpl; [intros []|].
  destruct (fexists st d); [intros []|]. intros H. apply in_app_or in H. destruct H as [H|H].
  - destruct (isdir st d); [destruct H|]. destruct H as [<-|[]]. exists d. split; [reflexivity | now left].
  - destruct (IH H) as [d' [A B]]. exists d'. split; [exact A | now right].
Qed.

Lemma up_effects_within o cfg m emb f out st e :
  In e (effects o (Up cfg m emb f out) st) -> effect_within (write_set o (Up cfg m emb f out) st) e = true.
Proof.
  unfold effects, run_log, stages, up_stages, write_set.
  destruct (up_context o cfg st) as [[root s]|]; [|intros []].
  rewrite !run_stages_cons. cbn [snd run_stages]. rewrite app_nil_r. intros H. apply in_app_or in H.
  destruct H as [H|H].
  - destruct (m && csv_format st root s)%bool; [|destruct H]. now apply (mig_within root _ e o st).
  - match type of H with In _ (if (pipeline_ok o ?s1 && _)%bool then _ else _) => set (st1 := s1) in * end.
    destruct (pipeline_ok o st1); simpl in H; [|destruct H].
    destruct (is_html f) eqn:F; [|destruct H].
    unfold report_effects in H.
    assert (W : forall e0, In e0 (map (fun p => EWrite OReport p (report o st1 p)) (report_files root s emb out)) ->
                effect_within (ws_union {| ws_report := report_files root s emb out; ws_create := []; ws_append := [];
                                           ws_rename := [];
                                           ws_mkdir := match out with None => [root ++ sf_output_dir s] | Some _ => [] end |}
                                        (if (m && csv_format st root s)%bool then ws_migration root else ws_empty)) e0 = true).
    { intros e0 H0. apply in_map_iff in H0. destruct H0 as [p [<- Hp]]. ws_cbn.
      apply orb_true_iff. left. apply mem_true_In. apply in_or_app. now left. }
    destruct out as [[d n]|].
    + destruct (String.eqb d "" || isdir st1 d)%bool; [now apply W | destruct H].
    + destruct (fexists st1 (root ++ sf_output_dir s)); [destruct H|].
      apply in_app_or in H. destruct H as [H|H]; [|now apply W].
      destruct (isdir st1 (root ++ sf_output_dir s)); [destruct H|]. destruct H as [<-|[]].
      ws_cbn. apply mem_true_In. apply in_or_app. left. now left.
Qed.

(* a starter path that exists before init still exists when the starter stage looks at it *)
Lemma init_existing_survives o root st p c :
  fget st p = Some c -> In p (starter_paths root) ->
  fexists (apply_all (if init_migrates st root then mig_effects o root st else []) st) p = true.
Proof.
  intros Hp Hin. unfold fexists.
  destruct (init_migrates st root) eqn:M; [|unfold apply_all; simpl; now rewrite Hp].
  assert (K : kept root (apply_all (mig_effects o root st) st) p c).
  { apply mig_kept; [exact Hp | |].
    - intros ->. unfold starter_paths in Hin. destruct Hin as [E|[E|[E|[E|[]]]]]; kill_path_eq.
    - intros ->. unfold init_migrates in M. destruct (fget st (root ++ P_CSV)); [|discriminate M].
      rewrite Hp in M. discriminate M. }
  destruct K as [K|[[_ [s K]]|[-> _]]]; [now rewrite K | now rewrite K |].
  unfold starter_paths in Hin. destruct Hin as [E|[E|[E|[E|[]]]]]; kill_path_eq.
Qed.

Lemma init_effects_within o t st e :
  In e (effects o (Init t) st) -> effect_within (write_set o (Init t) st) e = true.
Proof.
  unfold effects, run_log, stages, init_stages, write_set.
  set (rd := init_rootdir t st). set (root := prefix_of rd).
  rewrite !run_stages_cons. cbn [snd run_stages fst]. rewrite app_nil_r.
  set (st1 := apply_all (if init_migrates st root then mig_effects o root st else []) st).
  set (st2 := apply_all (mkdirs_until st1 (init_dirs rd)) st1).
  intros H. apply in_app_or in H. destruct H as [H|H].
  - (* migration *)
    destruct (init_migrates st root) eqn:M; [|destruct H].
    unfold init_migrates in M. unfold fexists.
    destruct (fget st (root ++ P_CSV)); [|discriminate M].
    destruct (fget st (root ++ P_RULES)); [discriminate M|]. simpl andb. cbv iota.
    now apply (mig_within_l root _ e o st).
  - apply in_app_or in H. destruct H as [H|H].
    + (* directories *)
      apply mkdirs_until_in in H. destruct H as [d [-> Hd]]. ws_cbn.
      apply mem_true_In. apply in_or_app. now right.
    + apply in_app_or in H. destruct H as [H|H].
      * (* starter files: only those missing before the command *)
        destruct (init_blocked st2 rd); [destruct H|].
        apply in_map_iff in H. destruct H as [pc [<- Hpc]]. apply filter_In in Hpc. destruct Hpc as [Hin Hmiss].
        ws_cbn. apply orb_true_iff. right. apply mem_true_In. apply in_or_app. right.
        apply filter_In. split.
        -- change [root ++ P_SETTINGS; root ++ P_RULES; root ++ P_VIEWS; root ++ P_GIT] with (starter_paths root).
           rewrite <- (starters_paths o). now apply in_map.
        -- destruct (fget st (fst pc)) as [c|] eqn:E; [|unfold fexists; now rewrite E].
           exfalso. assert (Hs : In (fst pc) (starter_paths root))
             by (rewrite <- (starters_paths o); now apply in_map).
           pose proof (init_existing_survives o root st _ _ E Hs) as S. fold st1 in S.
           assert (E2 : fexists st2 (fst pc) = fexists st1 (fst pc)).
           { unfold fexists, st2. rewrite apply_all_untouched; [reflexivity|].
             intros e0 He0. apply mkdirs_until_shape in He0. destruct He0 as [d ->]. intros []. }
           rewrite E2, S in Hmiss. discriminate Hmiss.
      * (* views_file line *)
        match type of H with In _ (if init_blocked ?s3 _ then _ else _) => set (st3 := s3) in * end.
        destruct (init_blocked st3 rd); [destruct H|].
        destruct (fget st3 (root ++ P_SETTINGS)) as [sc|]; [|destruct H].
        destruct (fget st3 (root ++ P_VIEWS)); [|destruct H].
        destruct (contains "views_file:" sc); [destruct H|]. destruct H as [<-|[]].
        ws_cbn. apply mem_true_In. apply in_or_app. right. now left.
Qed.

Lemma effects_within_write_set o c st e :
  In e (effects o c st) -> effect_within (write_set o c st) e = true.
Proof.
  destruct c; try (intros []); [apply up_effects_within | apply init_effects_within].
Qed.

(* the write set of a read-only command consists of its report files and output directory only *)
Lemma readonly_write_set o c st :
  readonly c = true ->
  ws_create (write_set o c st) = [] /\ ws_append (write_set o c st) = [] /\ ws_rename (write_set o c st) = [] /\
  ws_report (write_set o c st) = report_paths o c st.
Proof.
  destruct c as [cfg m emb f out| | | |file| | | |t]; simpl; intros Hro; try (repeat split; reflexivity); [|discriminate Hro].
  apply negb_true_iff in Hro. subst m.
  destruct (up_context o cfg st) as [[root s]|]; [|repeat split; reflexivity].
  destruct (is_html f); simpl; repeat split; try reflexivity; now rewrite app_nil_r.
Qed.

(* ================================================================== which budget a spelling designates *)
Definition clean (c : string) : Prop := c <> "" /\ c <> "." /\ c <> "..".

Lemma step_clean stk c : clean c -> step_comp stk c = c :: stk.
Proof.
  intros [A [B C]]. unfold step_comp.
  destruct (String.eqb_spec c ""); [contradiction|]. destruct (String.eqb_spec c "."); [contradiction|].
  destruct (String.eqb_spec c ".."); [contradiction | reflexivity].
Qed.

Lemma normalize_clean l : forall stk, Forall clean l -> normalize_from stk l = (rev l ++ stk)%list.
Proof.
  induction l as [|c r IH]; intros stk H; [reflexivity|]. inversion H; subst.
  unfold normalize_from in *. simpl. rewrite step_clean by assumption. rewrite IH by assumption.
  now rewrite <- app_assoc.
Qed.

Lemma normalize_app stk a b : normalize_from stk (a ++ b)%list = normalize_from (normalize_from stk a) b.
Proof. unfold normalize_from. apply fold_left_app. Qed.

(* a trailing slash ("x/" splits into [...; ""]), a trailing or leading ".", an empty component do not matter *)
Lemma resolve_trailing_slash cwd ab arg : resolve cwd ab (arg ++ [""])%list = resolve cwd ab arg.
Proof. unfold resolve. now rewrite normalize_app. Qed.
Lemma resolve_trailing_dot cwd ab arg : resolve cwd ab (arg ++ ["."])%list = resolve cwd ab arg.
Proof. unfold resolve. now rewrite normalize_app. Qed.
Lemma resolve_leading_dot cwd arg : resolve cwd false ("." :: arg) = resolve cwd false arg.
Proof. reflexivity. Qed.
Lemma resolve_double_slash cwd ab a b : resolve cwd ab (a ++ "" :: b)%list = resolve cwd ab (a ++ b)%list.
Proof. unfold resolve. now rewrite !normalize_app. Qed.
(* going down into a folder and back up *)
Lemma resolve_down_up cwd ab a x b : clean x -> resolve cwd ab (a ++ x :: ".." :: b)%list = resolve cwd ab (a ++ b)%list.
Proof.
  intros Hx. unfold resolve. rewrite !normalize_app. unfold normalize_from. cbn [fold_left].
  rewrite (step_clean _ x Hx). reflexivity.
Qed.

Lemma resolve_relative_clean cwd arg : Forall clean cwd -> Forall clean arg -> resolve cwd false arg = (cwd ++ arg)%list.
Proof.
  intros _ Ha. unfold resolve. rewrite normalize_clean by exact Ha. now rewrite rev_app_distr, !rev_involutive.
Qed.
Lemma resolve_absolute_clean cwd arg : Forall clean arg -> resolve cwd true arg = arg.
Proof. intros Ha. unfold resolve. rewrite normalize_clean by exact Ha. now rewrite app_nil_r, rev_involutive. Qed.

Lemma strip_prefix_app base l : strip_prefix base (base ++ l)%list = Some l.
Proof. induction base as [|x r IH]; simpl; [reflexivity|]. now rewrite String.eqb_refl. Qed.

(* whatever the spelling and the working directory: if the argument resolves to <budget dir>/rr/config, the
   designated budget is the one with prefix rr/ *)
Lemma designate_resolved base cwd ab arg rr :
  resolve cwd ab arg = (base ++ rr ++ ["config"])%list -> designate base cwd ab arg = Some (join_prefix rr).
Proof.
  intros H. unfold designate. rewrite H, strip_prefix_app. rewrite rev_app_distr. simpl. now rewrite rev_involutive.
Qed.

(* the spellings the CLI is used with all designate the same budget *)
Lemma designation_spellings base rr :
  Forall clean base -> Forall clean rr ->
  let target := Some (join_prefix rr) in
  let cfg := (rr ++ ["config"])%list in
  designate base base false cfg = target /\                                  (* config | tally/config *)
  designate base base false (cfg ++ [""])%list = target /\                   (* config/ *)
  designate base base false ("." :: cfg) = target /\                         (* ./config *)
  designate base base false ("." :: cfg ++ [""])%list = target /\           (* ./config/ *)
  designate base (base ++ cfg)%list false ["."] = target /\                  (* .  from inside the config directory *)
  designate base (base ++ cfg)%list false [] = target /\
  (forall other, designate base other true (base ++ cfg)%list = target) /\    (* absolute, from anywhere *)
  (forall other, designate base other true (base ++ cfg ++ [""])%list = target) /\
  (forall parent name, base = (parent ++ [name])%list ->
     designate base parent false (name :: cfg) = target /\                   (* <folder>/config from the parent *)
     designate base parent false (name :: cfg ++ [""])%list = target).
Proof.
  intros Hb Hr target cfg.
  assert (Hc : Forall clean cfg).
  { apply Forall_app. split; [exact Hr|]. constructor; [|constructor]. repeat split; discriminate. }
  assert (R0 : resolve base false cfg = (base ++ rr ++ ["config"])%list) by now apply resolve_relative_clean.
  assert (A0 : forall other, resolve other true (base ++ cfg)%list = (base ++ rr ++ ["config"])%list).
  { intros other. apply resolve_absolute_clean. apply Forall_app. now split. }
  repeat split.
  - now apply designate_resolved.
  - apply designate_resolved. now rewrite resolve_trailing_slash.
  - now apply designate_resolved.
  - apply designate_resolved. rewrite app_comm_cons, resolve_trailing_slash. exact R0.
  - apply designate_resolved. change ["."] with ([] ++ ["."])%list. rewrite resolve_trailing_dot.
    rewrite resolve_relative_clean; [now rewrite app_nil_r | apply Forall_app; now split | constructor].
  - apply designate_resolved.
    rewrite resolve_relative_clean; [now rewrite app_nil_r | apply Forall_app; now split | constructor].
  - intros other. apply designate_resolved. apply A0.
  - intros other. apply designate_resolved. rewrite app_assoc, resolve_trailing_slash. apply A0.
  - subst base. apply designate_resolved.
    apply Forall_app in Hb. destruct Hb as [Hp Hn].
    rewrite resolve_relative_clean; [now rewrite <- app_assoc | exact Hp |].
    inversion Hn; subst. now constructor.
  - subst base. apply designate_resolved. rewrite app_comm_cons, resolve_trailing_slash.
    apply Forall_app in Hb. destruct Hb as [Hp Hn].
    rewrite resolve_relative_clean; [now rewrite <- app_assoc | exact Hp |].
    inversion Hn; subst. now constructor.
Qed.
