(* C09 — most_specific mode picks the most specific matching rule, whatever the order.
   Model: Engine/Model.v [engine_match MostSpecific] (Python max(key=specificity) = FIRST maximum, tuples compared
   lexicographically), with calculate_specificity / _extract_pattern_length TRANSLATED from merchant_engine.py on
   every run (Gen/C09Specificity.v).  The expression evaluator is an oracle [o]: all theorems hold for every oracle.

   [first_max l w]  :=  exists before after, l = before ++ w :: after
                        /\ every rule in [before] ranks strictly below w  /\ no rule in [after] ranks above w.
   [cat_cands o rules] = the rules with a category whose condition is true, in file order;
   [sub_cands]/[mer_cands] = the matching rules that set a subcategory / a merchant. *)
From Coq Require Import String Ascii List Bool ZArith Arith Permutation.
From Tally Require Import Lib.Str Engine.StrLib Gen.C09Specificity Engine.Model Engine.Lemmas Engine.Loader C09.Proofs.
Import ListNotations.
Open Scope string_scope.

Theorem c09_category_is_first_lex_max :
  forall (o : oracle) (rules : list rule) (res : result),
    engine_match MostSpecific rules o = Res res ->
    match cat_cands o rules with
    | [] => matched res = false /\ category res = "" /\ matched_rule res = None
    | _ => exists w, first_max (cat_cands o rules) w /\
                     matched res = true /\ category res = r_category w /\ matched_rule res = Some w
    end.
Proof. exact category_is_first_lex_max. Qed.
Print Assumptions c09_category_is_first_lex_max.

Theorem c09_subcategory_is_first_lex_max :
  forall (o : oracle) (rules : list rule) (res : result),
    engine_match MostSpecific rules o = Res res ->
    match sub_cands o rules with
    | [] => subcategory res = "" /\ subcategory_rule res = None
    | _ => exists w, first_max (sub_cands o rules) w /\ subcategory res = r_subcategory w /\ subcategory_rule res = Some w
    end.
Proof. exact subcategory_is_first_lex_max. Qed.
Print Assumptions c09_subcategory_is_first_lex_max.

(* the merchant is resolved the same way over the matching rules that "set a merchant" — which is every rule,
   since merchant defaults to the rule name (this is what makes C02's tag-only neutrality fail in this mode) *)
Theorem c09_merchant_is_first_lex_max :
  forall (o : oracle) (rules : list rule) (res : result),
    engine_match MostSpecific rules o = Res res ->
    match mer_cands o rules with
    | [] => merchant res = "" /\ merchant_rule res = None
    | _ => exists w, first_max (mer_cands o rules) w /\ merchant res = r_merchant w /\ merchant_rule res = Some w
    end.
Proof. exact merchant_is_first_lex_max. Qed.
Print Assumptions c09_merchant_is_first_lex_max.

(* the ranking: (priority, number of pattern conditions, number of constraint kinds, pattern text length), compared
   lexicographically in that order; a strict total order on tuples *)
Theorem c09_lex_order :
  (forall r, spec_of r = (r_priority r, pattern_count (r_match r), constraint_kinds (r_match r), pattern_length (r_match r))) /\
  (forall p1 n1 k1 l1 p2 n2 k2 l2,
     spec_lt (p1, n1, k1, l1) (p2, n2, k2, l2) <->
     (p1 < p2 \/ (p1 = p2 /\ (n1 < n2 \/ (n1 = n2 /\ (k1 < k2 \/ (k1 = k2 /\ l1 < l2))))))%Z) /\
  (forall a, ~ spec_lt a a) /\
  (forall a b c, spec_lt a b -> spec_lt b c -> spec_lt a c) /\
  (forall a b, spec_lt a b \/ a = b \/ spec_lt b a) /\
  (forall a b, spec_le a b <-> (spec_lt a b \/ a = b)).
Proof. exact lex_order_all. Qed.
Print Assumptions c09_lex_order.

(* The property words the third component as "how many kinds of amount, date, source or field constraints it USES".
   [kinds_used] counts the constraint keywords that occur as identifiers outside quoted pattern text; the code's
   [constraint_kinds] counts keyword SUBSTRINGS of the whole expression text.  Full statement, refutation
   (contains("HOLIDAY") has the substring day), and the exact characterisation that does hold: *)
Definition c09_constraint_kinds_are_kinds_used_statement : Prop := constraint_kinds_are_kinds_used_statement.
Theorem c09_constraint_kinds_are_kinds_used_refuted : ~ c09_constraint_kinds_are_kinds_used_statement.
Proof. exact constraint_kinds_are_kinds_used_refuted. Qed.
Print Assumptions c09_constraint_kinds_are_kinds_used_refuted.
Theorem c09_constraint_kinds_partial :
  forall r, snd (fst (spec_of r)) =
            Z.of_nat (length (filter (fun kw => contains (lower (r_match r)) kw) constraint_keywords)).
Proof. exact constraint_kinds_partial. Qed.
Print Assumptions c09_constraint_kinds_partial.

(* The ranking is that of the file AS WRITTEN (Engine/Loader.v models the loader's treatment of `priority:` and of the
   merchant default): no priority line = 50; an explicit priority is the integer its text denotes — 0 stays 0, negative
   values stay negative; a text int() rejects is a parse error (load_blocks = None). *)
Theorem c09_priority_as_written :
  load_priority PAbsent = Some 50%Z /\
  load_priority (PText "0") = Some 0%Z /\
  (forall (neg : bool) ds, Forall (fun d => (d < 10)%nat) ds -> ds <> [] ->
     load_priority (PText ((if neg then "-" else "") ++ digits_string ds)) =
     Some (if neg then (- digits_value ds)%Z else digits_value ds)).
Proof. exact priority_as_written. Qed.
Print Assumptions c09_priority_as_written.

(* every loaded rule ranks by (priority as written, pattern conditions, constraint keywords, pattern length of ITS OWN text),
   and carries the category / subcategory / merchant of its block (merchant defaults to the rule name); together with
   c09_category_is_first_lex_max etc. this states the ranking theorems over the file text *)
Theorem c09_ranking_over_written_file :
  forall blocks rules,
    load_blocks 0 blocks = Some rules ->
    length rules = length blocks /\
    forall k b, nth_error blocks k = Some b ->
      exists r p, nth_error rules k = Some r /\ load_priority (f_priority b) = Some p /\
                  spec_of r = (p, pattern_count (f_match b), constraint_kinds (f_match b), pattern_length (f_match b)) /\
                  r_category r = f_category b /\ r_subcategory r = f_subcategory b /\
                  r_merchant r = (if is_empty (f_merchant b) then f_name b else f_merchant b).
Proof. exact loaded_spec. Qed.
Print Assumptions c09_ranking_over_written_file.

Theorem c09_loaded_rule_has_merchant :
  forall id b r, load_block id b = Some r -> is_empty (f_name b) = false -> has_merchant r = true.
Proof. exact loaded_has_merchant. Qed.
Print Assumptions c09_loaded_rule_has_merchant.

(* exact ties go to the earlier rule *)
Theorem c09_ties_to_earlier :
  forall (l : list rule) (w : rule) (before after : list rule),
    l = (before ++ w :: after)%list -> Forall (fun r => rlt r w) before ->
    forall j r, nth_error l j = Some r -> spec_of r = spec_of w -> length before <= j.
Proof. exact ties_to_earlier. Qed.
Print Assumptions c09_ties_to_earlier.

(* the split of a list at its first maximum is unique: "the most specific matching rule" is well defined *)
Theorem c09_first_max_unique :
  forall l w1 w2, first_max l w1 -> first_max l w2 -> w1 = w2.
Proof. exact first_max_unique_winner. Qed.
Print Assumptions c09_first_max_unique.

(* order independence: without ties among the matching categorizing rules and among the matching
   subcategory-setting rules, every permutation of the file gives the same category and subcategory *)
Theorem c09_order_independent :
  forall (o : oracle) (rules rules' : list rule) (res res' : result),
    Permutation rules rules' ->
    NoDup (map spec_of (cat_cands o rules)) -> NoDup (map spec_of (sub_cands o rules)) ->
    engine_match MostSpecific rules o = Res res -> engine_match MostSpecific rules' o = Res res' ->
    matched res' = matched res /\ category res' = category res /\ matched_rule res' = matched_rule res /\
    subcategory res' = subcategory res /\ subcategory_rule res' = subcategory_rule res.
Proof. exact order_independent. Qed.
Print Assumptions c09_order_independent.

Theorem c09_merchant_order_independent :
  forall (o : oracle) (rules rules' : list rule) (res res' : result),
    Permutation rules rules' -> NoDup (map spec_of (mer_cands o rules)) ->
    engine_match MostSpecific rules o = Res res -> engine_match MostSpecific rules' o = Res res' ->
    merchant res' = merchant res /\ merchant_rule res' = merchant_rule res.
Proof. exact merchant_order_independent. Qed.
Print Assumptions c09_merchant_order_independent.

(* tags still accumulate from all matching rules *)
Theorem c09_tags_union :
  forall (o : oracle) (rules : list rule) (res : result) (t : string),
    engine_match MostSpecific rules o = Res res ->
    (In t (tags res) <-> exists r, In r rules /\ o_cond o r = RTrue /\ In t (rtags o r)).
Proof. exact (fun o => tags_union o MostSpecific). Qed.
Print Assumptions c09_tags_union.

(* ------------------------------------------------------------------------------------------------- *)
(* non-vacuity *)
Definition xr id m cat sub prio : rule :=
  {| r_id := id; r_name := "R"; r_match := m; r_category := cat; r_subcategory := sub; r_merchant := "M";
     r_tags := ["T"]; r_priority := prio; r_fields := [] |}.
Definition all_true : oracle :=
  {| o_gv_crash := false; o_cond := fun _ => RTrue; o_dyn := fun _ _ => DErr; o_field := fun _ _ => FErr |}.

Example c09_example_specificity :
  spec_of (xr 0 "contains(""UBER"")" "A" "" 50) = (50, 1, 0, 4)%Z /\
  spec_of (xr 0 "contains(""UBER"") and contains(""EATS"")" "A" "" 50) = (50, 2, 0, 8)%Z /\
  spec_of (xr 0 "contains(""UBER"") and amount > 50" "A" "" 50) = (50, 1, 1, 4)%Z /\
  spec_of (xr 0 "regex('LYFT') and weekday == 2 and field.memo == ""x""" "A" "" 10) = (10, 1, 3, 5)%Z.
Proof. vm_compute. repeat split; reflexivity. Qed.

(* five matching rules: priority beats pattern count beats constraint kinds beats length; rules 2 and 4 tie and the
   earlier one wins; the subcategory comes from a different rule than the category; a permutation without the tie
   gives the same answer *)
Definition ex_rules :=
  [ xr 0 "contains(""UBER"")" "C0" "" 50;
    xr 1 "contains(""UBER"") and contains(""EATS"")" "" "S1" 50;
    xr 2 "contains(""UB"")" "C2" "" 60;
    xr 3 "contains(""UBER"") and amount > 5" "C3" "S3" 50;
    xr 4 "contains(""ER"")" "C4" "S4" 60 ].
Example c09_example_engine :
  match engine_match MostSpecific ex_rules all_true with
  | Res r => (category r, option_map r_id (matched_rule r), subcategory r, option_map r_id (subcategory_rule r)) =
             ("C2", Some 2%nat, "S4", Some 4%nat)
  | Crash => False
  end /\
  match engine_match MostSpecific (rev ex_rules) all_true with
  | Res r => (category r, option_map r_id (matched_rule r)) = ("C4", Some 4%nat)     (* the tie now goes the other way *)
  | Crash => False
  end /\
  match engine_match MostSpecific (firstn 4 ex_rules) all_true, engine_match MostSpecific (rev (firstn 4 ex_rules)) all_true with
  | Res r, Res r' => (category r, subcategory r) = ("C2", "S1") /\ (category r', subcategory r') = ("C2", "S1")
  | _, _ => False
  end.
Proof. vm_compute. repeat split; reflexivity. Qed.

Example c09_example_hypotheses :
  NoDup (map spec_of (cat_cands all_true (firstn 4 ex_rules))) /\ NoDup (map spec_of (sub_cands all_true (firstn 4 ex_rules))) /\
  length (cat_cands all_true (firstn 4 ex_rules)) = 3 /\ ~ NoDup (map spec_of (cat_cands all_true ex_rules)).
Proof.
  vm_compute. split; [|split; [|split; [reflexivity|]]].
  - repeat constructor; cbn; intuition congruence.
  - repeat constructor; cbn; intuition congruence.
  - intros H. inversion H as [|? ? _ H1]. inversion H1 as [|? ? N _]. apply N. cbn. tauto.
Qed.

(* the two listed findings in the model: pattern text HOLIDAY counts as a `day` constraint and beats a longer pattern;
   `weekday` counts as two kinds and beats an earlier rule with one amount constraint *)
Example c09_example_substring_counting :
  kinds_used "contains(""HOLIDAY"")" = 0%Z /\ constraint_kinds "contains(""HOLIDAY"")" = 1%Z /\
  kinds_used "contains(""UBER"") and weekday >= 0" = 1%Z /\ constraint_kinds "contains(""UBER"") and weekday >= 0" = 2%Z /\
  kinds_used "field.memo == ""today"" and amount > 5 and txn.date > '2025-01-01'" = 3%Z /\
  match engine_match MostSpecific [xr 0 "contains(""HOLIDAY"")" "Travel" "" 50; xr 1 "contains(""INN EXPRESS"")" "Lodging" "" 50] all_true,
        engine_match MostSpecific [xr 0 "contains(""UBER"") and amount > 5" "CatA" "" 50; xr 1 "contains(""UBER"") and weekday >= 0" "CatB" "" 50] all_true with
  | Res a, Res b => category a = "Travel" /\ category b = "CatB"
  | _, _ => False
  end.
Proof. vm_compute. repeat split; reflexivity. Qed.

(* the loader on boundary priorities: absent, 0, negative, signed, leading zeros, underscore; rejected texts *)
Definition fb name m cat p : fblock :=
  {| f_name := name; f_match := m; f_category := cat; f_subcategory := ""; f_merchant := ""; f_tags := ["t"]; f_priority := p; f_fields := [] |}.
Example c09_example_loader :
  map load_priority [PAbsent; PText "0"; PText "-10"; PText "+5"; PText "007"; PText "1_000"; PText "-0"] =
    [Some 50; Some 0; Some (-10); Some 5; Some 7; Some 1000; Some 0]%Z /\
  map load_priority [PText ""; PText "1__0"; PText "_1"; PText "1_"; PText "0x10"; PText "5.0"; PText "--1"; PText "-"] =
    [None; None; None; None; None; None; None; None] /\
  match load_blocks 0 [fb "Zero" "contains(""UBER"") and contains(""EATS"") and amount > 0" "Food" (PText "0");
                       fb "Other" "contains(""UBER"")" "Transport" PAbsent; fb "Neg" "contains(""UBER"")" "" (PText "-3")] with
  | Some rules => map spec_of rules = [(0, 2, 1, 8); (50, 1, 0, 4); (-3, 1, 0, 4)]%Z /\ map r_merchant rules = ["Zero"; "Other"; "Neg"] /\
                  match engine_match MostSpecific rules all_true with Res r => (category r, merchant r) = ("Transport", "Other") | Crash => False end
  | None => False
  end.
Proof. vm_compute. repeat split; reflexivity. Qed.
