(* C09/Proofs.v — most_specific mode picks the first lexicographic maximum; proofs for all oracles. *)
From Coq Require Import String Ascii List Bool ZArith Arith Lia Permutation.
From Tally Require Import Lib.Str Engine.StrLib Gen.C09Specificity Engine.Model Engine.Lemmas Engine.Loader.
Import ListNotations.
Open Scope string_scope.

(* ---- the ranking tuple, restated from the property (NOT from the code): priority, number of pattern
        conditions, number of kinds of amount/date/source/field constraints, total length of the pattern text ---- *)
Definition pattern_function_names : list string := ["contains("; "regex("; "normalized("; "startswith("; "fuzzy("; "anyof("].
Definition constraint_keywords : list string := ["amount"; "date"; "month"; "year"; "day"; "weekday"; "source"; "field."].
Definition pattern_count (m : string) : Z := sumZ (map (fun f => count (lower m) f) pattern_function_names).
Definition constraint_kinds (m : string) : Z :=
  Z.of_nat (length (filter (fun kw => contains (lower m) kw) constraint_keywords)).
Definition pattern_length (m : string) : Z :=
  sumZ (map ulen (findall_quoted """"%char m ++ findall_quoted "'"%char m)%list).

Lemma sumZ_ones : forall (A : Type) (l : list A), sumZ (map (fun _ => 1%Z) l) = Z.of_nat (length l).
Proof. intros A l. induction l as [|x r IH]; [reflexivity|]. cbn [map sumZ length]. rewrite IH. lia. Qed.

(* the translated calculate_specificity computes exactly that tuple, in that order *)
Lemma spec_of_components : forall r,
  spec_of r = (r_priority r, pattern_count (r_match r), constraint_kinds (r_match r), pattern_length (r_match r)).
Proof.
  intros r. unfold spec_of, calculate_specificity, extract_pattern_length, pattern_count, constraint_kinds, pattern_length.
  cbv zeta. rewrite sumZ_ones. reflexivity.
Qed.

Section C09.
  Variable o : oracle.

  Definition cat_cands (rules : list rule) : list rule := filter is_cat (filter (is_match o) rules).
  Definition sub_cands (rules : list rule) : list rule := filter has_sub (filter (is_match o) rules).
  Definition mer_cands (rules : list rule) : list rule := filter has_merchant (filter (is_match o) rules).

  Lemma finish_ms : forall rules res,
    engine_match MostSpecific rules o = Res res ->
    matched_rule res = py_max (cat_cands rules) /\ subcategory_rule res = py_max (sub_cands rules) /\
    merchant_rule res = py_max (mer_cands rules) /\
    matched res = (match py_max (cat_cands rules) with Some _ => true | None => false end) /\
    category res = opt_str r_category (py_max (cat_cands rules)) /\
    subcategory res = opt_str r_subcategory (py_max (sub_cands rules)) /\
    merchant res = opt_str r_merchant (py_max (mer_cands rules)).
  Proof.
    intros rules res H. apply engine_match_res in H. destruct H as (_ & _ & H).
    unfold finish in H. cbn [final_state s_matching] in H. fold (cat_cands rules) (sub_cands rules) (mer_cands rules) in H.
    destruct (match py_max (cat_cands rules) with Some w => eval_fields o w (r_fields w) | None => Some [] end); [|discriminate].
    injection H as <-. cbn. repeat split; reflexivity.
  Qed.

  Lemma category_is_first_lex_max : forall rules res,
    engine_match MostSpecific rules o = Res res ->
    match cat_cands rules with
    | [] => matched res = false /\ category res = "" /\ matched_rule res = None
    | _ => exists w, first_max (cat_cands rules) w /\ matched res = true /\ category res = r_category w /\ matched_rule res = Some w
    end.
  Proof.
    intros rules res H. apply finish_ms in H. destruct H as (Hr & _ & _ & Hm & Hc & _).
    destruct (cat_cands rules) as [|x l] eqn:E.
    - cbn in *. auto.
    - destruct (py_max (x :: l)) as [w|] eqn:P; [|apply py_max_none in P; discriminate].
      exists w. split; [apply py_max_first_max; exact P|]. cbn in *. auto.
  Qed.

  Lemma subcategory_is_first_lex_max : forall rules res,
    engine_match MostSpecific rules o = Res res ->
    match sub_cands rules with
    | [] => subcategory res = "" /\ subcategory_rule res = None
    | _ => exists w, first_max (sub_cands rules) w /\ subcategory res = r_subcategory w /\ subcategory_rule res = Some w
    end.
  Proof.
    intros rules res H. apply finish_ms in H. destruct H as (_ & Hr & _ & _ & _ & Hs & _).
    destruct (sub_cands rules) as [|x l] eqn:E.
    - cbn in *. auto.
    - destruct (py_max (x :: l)) as [w|] eqn:P; [|apply py_max_none in P; discriminate].
      exists w. split; [apply py_max_first_max; exact P|]. cbn in *. auto.
  Qed.

  Lemma merchant_is_first_lex_max : forall rules res,
    engine_match MostSpecific rules o = Res res ->
    match mer_cands rules with
    | [] => merchant res = "" /\ merchant_rule res = None
    | _ => exists w, first_max (mer_cands rules) w /\ merchant res = r_merchant w /\ merchant_rule res = Some w
    end.
  Proof.
    intros rules res H. apply finish_ms in H. destruct H as (_ & _ & Hr & _ & _ & _ & Hs).
    destruct (mer_cands rules) as [|x l] eqn:E.
    - cbn in *. auto.
    - destruct (py_max (x :: l)) as [w|] eqn:P; [|apply py_max_none in P; discriminate].
      exists w. split; [apply py_max_first_max; exact P|]. cbn in *. auto.
  Qed.
End C09.

(* exact ties go to the earlier rule: a candidate with the winner's tuple never stands before the winner *)
Lemma ties_to_earlier : forall l w before after,
  l = (before ++ w :: after)%list -> Forall (fun r => rlt r w) before ->
  forall j r, nth_error l j = Some r -> spec_of r = spec_of w -> length before <= j.
Proof.
  intros l w before after E Hb j r Hn Hs.
  destruct (Nat.lt_ge_cases j (length before)) as [Hlt|Hge]; [exfalso|exact Hge].
  rewrite E, nth_error_app1 in Hn by exact Hlt. apply nth_error_In in Hn.
  rewrite Forall_forall in Hb. specialize (Hb _ Hn). unfold rlt, spec_lt in Hb. rewrite Hs, spec_ltb_irrefl in Hb. discriminate.
Qed.

Lemma order_independent : forall o rules rules' res res',
  Permutation rules rules' ->
  NoDup (map spec_of (cat_cands o rules)) -> NoDup (map spec_of (sub_cands o rules)) ->
  engine_match MostSpecific rules o = Res res -> engine_match MostSpecific rules' o = Res res' ->
  matched res' = matched res /\ category res' = category res /\ matched_rule res' = matched_rule res /\
  subcategory res' = subcategory res /\ subcategory_rule res' = subcategory_rule res.
Proof.
  intros o rules rules' res res' P N1 N2 H H'.
  apply finish_ms in H. apply finish_ms in H'.
  destruct H as (A1 & A2 & _ & A4 & A5 & A6 & _). destruct H' as (B1 & B2 & _ & B4 & B5 & B6 & _).
  assert (E1 : py_max (cat_cands o rules) = py_max (cat_cands o rules')).
  { apply py_max_perm; [|exact N1]. unfold cat_cands. apply Permutation_filter', Permutation_filter'. exact P. }
  assert (E2 : py_max (sub_cands o rules) = py_max (sub_cands o rules')).
  { apply py_max_perm; [|exact N2]. unfold sub_cands. apply Permutation_filter', Permutation_filter'. exact P. }
  rewrite A1, A2, A4, A5, A6, B1, B2, B4, B5, B6, E1, E2. auto.
Qed.

Lemma merchant_order_independent : forall o rules rules' res res',
  Permutation rules rules' -> NoDup (map spec_of (mer_cands o rules)) ->
  engine_match MostSpecific rules o = Res res -> engine_match MostSpecific rules' o = Res res' ->
  merchant res' = merchant res /\ merchant_rule res' = merchant_rule res.
Proof.
  intros o rules rules' res res' P N H H'.
  apply finish_ms in H. apply finish_ms in H'.
  destruct H as (_ & _ & A3 & _ & _ & _ & A7). destruct H' as (_ & _ & B3 & _ & _ & _ & B7).
  assert (E : py_max (mer_cands o rules) = py_max (mer_cands o rules')).
  { apply py_max_perm; [|exact N]. unfold mer_cands. apply Permutation_filter', Permutation_filter'. exact P. }
  rewrite A3, A7, B3, B7, E. auto.
Qed.

(* ------------------------------------------------------------------------------------------------- *)
(* "how many kinds of amount, date, source or field constraints it USES": identifiers of the expression, outside quoted
   pattern text.  The code counts keyword SUBSTRINGS of the whole text instead; the two differ (refutation below). *)
Definition is_ident_char (c : ascii) : bool :=
  let n := N_of_ascii c in (is_alpha c || (N.leb 48 n && N.leb n 57) || N.eqb n 95)%bool.

(* drop the text between pairs of quote characters q (the quote characters stay) *)
Fixpoint bare_q (q : ascii) (s : string) (inq : bool) : string :=
  match s with
  | EmptyString => EmptyString
  | String c r => if Ascii.eqb c q then String c (bare_q q r (negb inq))
                  else if inq then bare_q q r inq else String c (bare_q q r inq)
  end.
Definition bare (s : string) : string := bare_q "'"%char (bare_q """"%char s false) false.

Definition next_is_ident (s : string) : bool := match s with String c _ => is_ident_char c | EmptyString => false end.

(* kw occurs as a whole identifier ("field." : as the prefix of an attribute access) *)
Fixpoint has_ident (kw s : string) (prev_ident : bool) : bool :=
  match s with
  | EmptyString => false
  | String c r =>
      ((negb prev_ident && sprefix kw s &&
        (last_is "."%char kw || negb (next_is_ident (sdrop (String.length kw) s))))
       || has_ident kw r (is_ident_char c))%bool
  end.

Definition kinds_used (m : string) : Z :=
  Z.of_nat (length (filter (fun kw => has_ident kw (bare (lower m)) false) constraint_keywords)).

Definition constraint_kinds_are_kinds_used_statement : Prop := forall m, constraint_kinds m = kinds_used m.

Lemma constraint_kinds_are_kinds_used_refuted : ~ constraint_kinds_are_kinds_used_statement.
Proof. intros H. specialize (H "contains(""HOLIDAY"")"). vm_compute in H. discriminate. Qed.

(* what does hold: the third component is exactly the number of keywords that are substrings of the lower-cased text *)
Lemma constraint_kinds_partial : forall r,
  snd (fst (spec_of r)) = Z.of_nat (length (filter (fun kw => contains (lower (r_match r)) kw) constraint_keywords)).
Proof. intros r. rewrite spec_of_components. reflexivity. Qed.

Lemma lex_order_all :
  (forall r, spec_of r = (r_priority r, pattern_count (r_match r), constraint_kinds (r_match r), pattern_length (r_match r))) /\
  (forall p1 n1 k1 l1 p2 n2 k2 l2,
     spec_lt (p1, n1, k1, l1) (p2, n2, k2, l2) <->
     (p1 < p2 \/ (p1 = p2 /\ (n1 < n2 \/ (n1 = n2 /\ (k1 < k2 \/ (k1 = k2 /\ l1 < l2))))))%Z) /\
  (forall a, ~ spec_lt a a) /\
  (forall a b c, spec_lt a b -> spec_lt b c -> spec_lt a c) /\
  (forall a b, spec_lt a b \/ a = b \/ spec_lt b a) /\
  (forall a b, spec_le a b <-> (spec_lt a b \/ a = b)).
Proof.
  split; [exact spec_of_components|]. split; [exact spec_ltb_lex|].
  split; [intros a H; unfold spec_lt in H; rewrite spec_ltb_irrefl in H; discriminate|].
  split; [exact spec_ltb_trans|]. split; [exact spec_trichotomy|exact spec_le_iff].
Qed.

Lemma first_max_unique_winner : forall l w1 w2, first_max l w1 -> first_max l w2 -> w1 = w2.
Proof.
  intros l w1 w2 (b1 & a1 & E1 & B1 & A1) (b2 & a2 & E2 & B2 & A2).
  destruct (first_max_unique b1 l w1 w2 a1 b2 a2 E1 B1 A1 E2 B2 A2) as (_ & E & _). exact E.
Qed.

(* ------------------------------------------------------------------------------------------------- *)
(* the ranking in terms of the file AS WRITTEN (Engine/Loader.v: priority text -> int, absent -> 50) *)
Lemma priority_as_written :
  load_priority PAbsent = Some 50%Z /\
  load_priority (PText "0") = Some 0%Z /\
  (forall (neg : bool) ds, Forall (fun d => (d < 10)%nat) ds -> ds <> [] ->
     load_priority (PText ((if neg then "-" else "") ++ digits_string ds)) =
     Some (if neg then (- digits_value ds)%Z else digits_value ds)).
Proof.
  split; [reflexivity|]. split; [reflexivity|]. intros neg ds F N. unfold load_priority. apply parse_int_decimal; assumption.
Qed.

Lemma loaded_spec : forall blocks rules,
  load_blocks 0 blocks = Some rules ->
  length rules = length blocks /\
  forall k b, nth_error blocks k = Some b ->
    exists r p, nth_error rules k = Some r /\ load_priority (f_priority b) = Some p /\
                spec_of r = (p, pattern_count (f_match b), constraint_kinds (f_match b), pattern_length (f_match b)) /\
                r_category r = f_category b /\ r_subcategory r = f_subcategory b /\
                r_merchant r = (if is_empty (f_merchant b) then f_name b else f_merchant b).
Proof.
  intros blocks rules H. destruct (load_blocks_nth _ _ _ H) as [L N]. split; [exact L|].
  intros k b K. destruct (N k b K) as (r & A & B). cbn in B.
  destruct (load_block_fields _ _ _ B) as (P & M & C & S & _ & Me & _).
  exists r, (r_priority r). repeat split; auto.
  rewrite spec_of_components, M. reflexivity.
Qed.

(* every block with a non-empty [Name] "sets a merchant" once loaded (why tag-only rules compete for the merchant) *)
Lemma loaded_has_merchant : forall id b r, load_block id b = Some r -> is_empty (f_name b) = false -> has_merchant r = true.
Proof.
  intros id b r H N. destruct (load_block_fields _ _ _ H) as (_ & _ & _ & _ & _ & _ & Hm). rewrite Hm, N. reflexivity.
Qed.
