(* C03/ValueProofs.v — lemmas behind C03/ValueProps.v: the value-level half of "expressions are confined"
   over the evaluator model Expr/Eval.v (tied to evaluate_transaction by harness/c04.py). *)
From Coq Require Import String Ascii List Bool ZArith QArith Lia.
From Tally Require Import Lib.Str Expr.StrOps Expr.Date Expr.Syntax Expr.Funcs Expr.Eval C04.Proofs C04.NameCase.
Import ListNotations.
Open Scope string_scope.

(* ---------- the closed tables of the model ---------- *)
Definition special_call_names : list string := ["exists"; "len"; "sum"; "any"; "all"; "next"; "min"; "max"].
Definition model_function_names : list string :=
  ["abs"; "round"; "contains"; "regex"; "normalized"; "anyof"; "startswith"; "fuzzy"; "extract"; "split"; "substring";
   "trim"; "regex_replace"; "uppercase"; "lowercase"; "strip_prefix"; "strip_suffix"].
Definition model_str_methods : list string := ["lower"; "upper"; "strip"; "startswith"; "endswith"; "replace"].
Definition txn_attr_names : list string :=
  ["description"; "amount"; "date"; "source"; "location"; "month"; "year"; "day"; "weekday"].
Definition field_builtin_names : list string := ["description"; "amount"; "date"; "source"; "location"].

Lemma ctx_function_table E f : ctx_function E f = None <-> mem f model_function_names = false.
Proof.
  unfold ctx_function, model_function_names. cbn [mem].
  repeat match goal with
         | |- context [String.eqb f ?s] => destruct (String.eqb f s); [split; intros; discriminate|]
         end.
  split; reflexivity.
Qed.

Lemma str_method_table m : str_method_arity m = None <-> mem m model_str_methods = false.
Proof.
  unfold str_method_arity, model_str_methods. cbn [mem].
  destruct (String.eqb m "lower"), (String.eqb m "upper"), (String.eqb m "strip"), (String.eqb m "startswith"),
    (String.eqb m "endswith"), (String.eqb m "replace"); cbn [orb]; split; intros; try discriminate; reflexivity.
Qed.

Lemma txn_attr_table E a : mem a txn_attr_names = false -> txn_attr E a = ExprErr.
Proof.
  unfold txn_attr, txn_attr_names. cbn [mem].
  repeat match goal with
         | |- context [String.eqb a ?s] => destruct (String.eqb a s); [intros; discriminate|]
         end.
  reflexivity.
Qed.

Lemma field_attr_table E a :
  mem a field_builtin_names = false ->
  field_attr E a = match t_field (e_txn E) with
                   | Some d => match dict_get d a with Some v => Val v | None => ExprErr end
                   | None => ExprErr
                   end.
Proof.
  unfold field_attr, field_builtin_names. cbn [mem].
  repeat match goal with
         | |- context [String.eqb a ?s] => destruct (String.eqb a s); [intros; discriminate|]
         end.
  reflexivity.
Qed.

Section Closed.
  Variable E : env.
  Notation ev := (eval E).

  Lemma wrapped_of e sc o sc1 : ev e sc = (o, sc1) -> wrap o = o.
  Proof. intros H. pose proof (eval_wrapped E e sc) as W. now rewrite H in W. Qed.

  (* ---------- attribute access is closed ---------- *)
  Lemma attribute_closed v attr sc x sc' :
    ev (EAttribute v attr) sc = (Val x, sc') ->
    (exists id, v = EName id /\ lower id = "txn" /\ mem (lower attr) txn_attr_names = true /\
                txn_attr E (lower attr) = Val x /\ sc' = sc) \/
    (exists id, v = EName id /\ lower id = "field" /\ field_attr E (lower attr) = Val x /\ sc' = sc /\
                (mem (lower attr) field_builtin_names = true \/
                 exists d, t_field (e_txn E) = Some d /\ dict_get d (lower attr) = Some x)) \/
    (exists d, ev v sc = (Val (VDict d), sc') /\ dict_get d (lower attr) = Some x).
  Proof.
    intros H. cbn [eval] in H.
    assert (G : forall r : res,
               match ev v sc with
               | (Val (VDict d), sc1) => (match dict_get d (lower attr) with Some y => Val y | None => ExprErr end, sc1)
               | (Val _, sc1) => (ExprErr, sc1)
               | bad => bad
               end = r ->
               (wrap (fst r), snd r) = (Val x, sc') ->
               exists d, ev v sc = (Val (VDict d), sc') /\ dict_get d (lower attr) = Some x).
    { intros r Hr Hw. destruct (ev v sc) as [[w| |k|u] sc1]; subst r; cbn [fst snd wrap] in Hw; try discriminate.
      destruct w; cbn [fst snd wrap] in Hw; try discriminate.
      destruct (dict_get d (lower attr)) eqn:Dg; cbn [wrap] in Hw; [|discriminate].
      inversion Hw; subst. exists d. split; [reflexivity|exact Dg]. }
    destruct v as [c|id|op l|l op r|op y|l rest|a b c|fn args kws|obj a2|w s|k elt gens|t w|l|l|l|kd ch];
      try (right; right; eapply G; [reflexivity|exact H]).
    unfold eval_attribute in H.
    destruct (String.eqb (lower id) "txn") eqn:Et.
    - left. apply String.eqb_eq in Et. exists id. cbn [fst snd] in H.
      destruct (mem (lower attr) txn_attr_names) eqn:M.
      + destruct (txn_attr E (lower attr)) eqn:Ta; cbn [wrap] in H; inversion H; subst. repeat split; auto.
      + rewrite (txn_attr_table E _ M) in H. discriminate.
    - destruct (String.eqb (lower id) "field") eqn:Ef.
      + right. left. apply String.eqb_eq in Ef. exists id. cbn [fst snd] in H.
        destruct (field_attr E (lower attr)) eqn:Fa; cbn [wrap] in H; inversion H; subst.
        repeat split; auto.
        destruct (mem (lower attr) field_builtin_names) eqn:M; [left; reflexivity|right].
        rewrite (field_attr_table E _ M) in Fa.
        destruct (t_field (e_txn E)) as [d|]; [|discriminate]. exists d. split; [reflexivity|].
        destruct (dict_get d (lower attr)); inversion Fa; reflexivity.
      + right. right. eapply G; [reflexivity|exact H].
  Qed.

  (* every other receiver or name is an ExpressionError *)
  Lemma attribute_unknown_txn id attr sc :
    lower id = "txn" -> mem (lower attr) txn_attr_names = false -> ev (EAttribute (EName id) attr) sc = (ExprErr, sc).
  Proof. intros H M. cbn [eval eval_attribute]. rewrite H. cbn [String.eqb Ascii.eqb Bool.eqb fst snd]. now rewrite (txn_attr_table E _ M). Qed.

  Lemma attribute_unknown_field id attr sc :
    lower id = "field" -> mem (lower attr) field_builtin_names = false ->
    (forall d, t_field (e_txn E) = Some d -> dict_get d (lower attr) = None) ->
    ev (EAttribute (EName id) attr) sc = (ExprErr, sc).
  Proof.
    intros H M Hd. cbn [eval eval_attribute]. rewrite H. cbn [String.eqb Ascii.eqb Bool.eqb fst snd].
    rewrite (field_attr_table E _ M). destruct (t_field (e_txn E)) as [d|]; [|reflexivity]. now rewrite (Hd d eq_refl).
  Qed.

  Lemma attribute_non_row v attr sc w sc1 :
    (forall id, v = EName id -> lower id <> "txn" /\ lower id <> "field") ->
    ev v sc = (Val w, sc1) -> (forall d, w <> VDict d) -> ev (EAttribute v attr) sc = (ExprErr, sc1).
  Proof.
    intros Hn Hv Hw. cbn [eval].
    assert (G : match ev v sc with
                | (Val (VDict d), sc2) => (match dict_get d (lower attr) with Some y => Val y | None => ExprErr end, sc2)
                | (Val _, sc2) => (ExprErr, sc2)
                | bad => bad
                end = (ExprErr, sc1)).
    { rewrite Hv. destruct w; try reflexivity. exfalso. now apply (Hw d). }
    destruct v as [c|id|op l|l op r|op y|l rest|a b c|fn args kws|obj a2|w' s|k elt gens|t w'|l|l|l|kd ch];
      try (unfold eval_attribute; rewrite G; reflexivity).
    unfold eval_attribute.
    destruct (Hn id eq_refl) as [N1 N2].
    destruct (String.eqb_spec (lower id) "txn"); [contradiction|].
    destruct (String.eqb_spec (lower id) "field"); [contradiction|].
    rewrite G. reflexivity.
  Qed.

  (* ---------- calls are closed ---------- *)
  Lemma call_unknown_function id args kws sc :
    mem (lower id) special_call_names = false -> mem (lower id) model_function_names = false ->
    ev (ECall (EName id) args kws) sc = (ExprErr, sc).
  Proof.
    intros Hs Hf. cbn [eval eval_call]. cbn [mem special_call_names] in Hs.
    repeat match type of Hs with
           | (if String.eqb ?a ?b then true else _) = false => destruct (String.eqb a b); [discriminate|]
           end.
    apply (proj2 (ctx_function_table E _)) in Hf. rewrite Hf. reflexivity.
  Qed.

  Lemma call_unknown_method obj attr args kws sc s sc1 :
    ev obj sc = (Val (VStr s), sc1) -> mem (lower attr) model_str_methods = false ->
    ev (ECall (EAttribute obj attr) args kws) sc = (ExprErr, sc1).
  Proof.
    intros Ho Hm. cbn [eval eval_call]. rewrite Ho. apply (proj2 (str_method_table _)) in Hm. rewrite Hm. reflexivity.
  Qed.

  Lemma call_method_on_non_string obj attr args kws sc w sc1 :
    ev obj sc = (Val w, sc1) -> (forall s, w <> VStr s) -> ev (ECall (EAttribute obj attr) args kws) sc = (ExprErr, sc1).
  Proof.
    intros Ho Hw. cbn [eval eval_call]. rewrite Ho. destruct w; try reflexivity. exfalso. now apply (Hw s).
  Qed.

  Lemma call_non_name fn args kws sc :
    (forall id, fn <> EName id) -> (forall obj attr, fn <> EAttribute obj attr) ->
    ev (ECall fn args kws) sc = (ExprErr, sc).
  Proof.
    intros H1 H2. cbn [eval eval_call].
    destruct fn; try reflexivity; exfalso; [eapply H1|eapply H2]; reflexivity.
  Qed.

  (* a call that yields a value went through one of the closed tables *)
  Lemma call_closed fn args kws sc x sc' :
    ev (ECall fn args kws) sc = (Val x, sc') ->
    (exists id, fn = EName id /\
       (mem (lower id) special_call_names = true \/ mem (lower id) model_function_names = true)) \/
    (exists obj attr s sc1, fn = EAttribute obj attr /\ ev obj sc = (Val (VStr s), sc1) /\
       mem (lower attr) model_str_methods = true).
  Proof.
    intros H.
    destruct fn as [c|id|op l|l op r|op y|l rest|a b c|fn0 args0 kws0|obj attr|w s|k elt gens|t w|l|l|l|kd ch];
      try (rewrite call_non_name in H; [discriminate|intros; discriminate|intros; discriminate]).
    - left. exists id. split; [reflexivity|].
      destruct (mem (lower id) special_call_names) eqn:Ms; [now left|].
      destruct (mem (lower id) model_function_names) eqn:Mf; [now right|].
      rewrite (call_unknown_function id args kws sc Ms Mf) in H. discriminate.
    - right. destruct (ev obj sc) as [[w| |k|u] sc1] eqn:Eo.
      + destruct w; try (rewrite (call_method_on_non_string obj attr args kws sc _ sc1 Eo) in H; [discriminate|intros; discriminate]).
        exists obj, attr, s, sc1. repeat split; auto.
        destruct (mem (lower attr) model_str_methods) eqn:Mm; [reflexivity|].
        rewrite (call_unknown_method obj attr args kws sc s sc1 Eo Mm) in H. discriminate.
      + cbn [eval eval_call] in H. rewrite Eo in H. discriminate.
      + cbn [eval eval_call] in H. rewrite Eo in H. discriminate.
      + cbn [eval eval_call] in H. rewrite Eo in H. discriminate.
  Qed.

  (* ---------- rejected before evaluation ---------- *)
  Lemma rejected_before_eval t : validate allowed_nodes t = false -> eval_top E (PTree t) = ExprErr.
  Proof. intros H. cbn [eval_top]. now rewrite H. Qed.
End Closed.
