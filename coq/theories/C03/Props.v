(* C03 (part 1: static confinement certificate) — every capability the evaluator source uses lies
   inside the confined set. Gen/C03Caps.v is regenerated from src/tally/expr_parser.py on every run.
   The tables are finite: the obligations are decided by vm_compute and lifted to "for every
   extracted capability" with forallb_forall. *)
From Coq Require Import String List Bool.
From Tally Require Import Lib.Str Gen.C03Caps C03.Caps C03.Validate.
Import ListNotations.
Open Scope string_scope.

Lemma caps_safe_b : forallb (safe_cap C03Caps.defined_names) C03Caps.caps = true.
Proof. vm_compute. reflexivity. Qed.

Theorem c03_caps_safe :
  forall c, In c C03Caps.caps -> safe_cap C03Caps.defined_names c = true.
Proof. apply forallb_forall. exact caps_safe_b. Qed.
Print Assumptions c03_caps_safe.

Lemma imports_b : incl_b C03Caps.imports safe_imports = true.
Proof. vm_compute. reflexivity. Qed.
Theorem c03_imports_confined : forall m, In m C03Caps.imports -> In m safe_imports.
Proof. exact (incl_b_spec _ _ imports_b). Qed.
Print Assumptions c03_imports_confined.

Lemma allowed_b : incl_b C03Caps.allowed_nodes modelled_nodes = true.
Proof. vm_compute. reflexivity. Qed.
Theorem c03_allowed_nodes_modelled : forall n, In n C03Caps.allowed_nodes -> In n modelled_nodes.
Proof. exact (incl_b_spec _ _ allowed_b). Qed.
Print Assumptions c03_allowed_nodes_modelled.

Lemma handled_b : incl_b (map snd C03Caps.handled_nodes) modelled_nodes = true.
Proof. vm_compute. reflexivity. Qed.
Theorem c03_handled_nodes_modelled :
  forall cls n, In (cls, n) C03Caps.handled_nodes -> In n modelled_nodes.
Proof.
  intros cls n H. apply (incl_b_spec _ _ handled_b). change n with (snd (cls, n)). now apply in_map.
Qed.
Print Assumptions c03_handled_nodes_modelled.

Lemma str_methods_b : incl_b C03Caps.str_methods safe_str_methods = true.
Proof. vm_compute. reflexivity. Qed.
Theorem c03_str_methods_confined : forall m, In m C03Caps.str_methods -> In m safe_str_methods.
Proof. exact (incl_b_spec _ _ str_methods_b). Qed.
Print Assumptions c03_str_methods_confined.

Theorem c03_function_table_agrees : C03Caps.function_names = model_function_names.
Proof. vm_compute. reflexivity. Qed.
Print Assumptions c03_function_table_agrees.

(* validate_ast accepts a tree iff every node class in it — at any depth, in any position — is in
   the ALLOWED_NODES table read from the source; hence (with c03_allowed_nodes_modelled) an accepted
   expression consists only of node classes the evaluator model covers. *)
Theorem c03_validate_sound :
  forall t, validate C03Caps.allowed_nodes t = true -> forall k, In k (kinds t) -> In k modelled_nodes.
Proof. intros t Hv k Hk. apply c03_allowed_nodes_modelled. exact (validate_sound _ _ Hv k Hk). Qed.
Print Assumptions c03_validate_sound.

Theorem c03_validate_iff :
  forall t, validate C03Caps.allowed_nodes t = true <-> (forall k, In k (kinds t) -> In k C03Caps.allowed_nodes).
Proof. intros t; split; [apply validate_sound|apply validate_complete]. Qed.
Print Assumptions c03_validate_iff.

Example c03_validate_example :
  validate C03Caps.allowed_nodes
    (Node "Expression" [Node "Call" [Node "Name" [Node "Load" []]; Node "Lambda" [Node "arguments" []; Node "Constant" []]]]) = false
  /\ validate C03Caps.allowed_nodes
    (Node "Expression" [Node "Compare" [Node "Name" [Node "Load" []]; Node "Gt" []; Node "Constant" []]]) = true.
Proof. vm_compute. split; reflexivity. Qed.

(* non-vacuity: the predicate rejects the classic escapes *)
Example c03_rejects :
  map (safe_cap C03Caps.defined_names)
    [("call_global", "f", "eval", ""); ("call_global", "f", "__import__", ""); ("call_global", "f", "open", "");
     ("getattr", "f", "value", "dynamic"); ("getattr", "f", "self", "dynamic"); ("call_value_attr", "f", "format", "");
     ("call_value_attr", "f", "__class__", ""); ("call_module", "f", "os", "system"); ("setattr", "f", "self", "const:x");
     ("unclassified", "f", "lambda", ""); ("call_module", "f", "ast", "literal_eval")]
  = repeat false 11.
Proof. vm_compute. reflexivity. Qed.
