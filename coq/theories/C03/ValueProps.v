(* C03 (value level) — expressions are confined, over the evaluator model Expr/Eval.v (hand model of
   tally.expr_parser.TransactionEvaluator, tied to evaluate_transaction by harness/c04.py; its tables are tied
   to the source by Gen/C03Caps.v, regenerated on every run).  All theorems quantify over every environment,
   expression and scope. *)
From Coq Require Import String Ascii List Bool ZArith QArith.
From Tally Require Import Lib.Str Gen.C03Caps Expr.StrOps Expr.Date Expr.Syntax Expr.Funcs Expr.Eval
     C04.Proofs C04.NameCase C03.ValueProofs C03.ValueData C03.ValueFrame.
Import ListNotations.
Open Scope string_scope.

(* ---------------- (a) values are data ---------------- *)
(* data = None, bool, int, float, str, date, timedelta, and lists / dicts of data.  The value type of the model
   has one more constructor, VGen (a generator object), and none for functions, methods, types or modules. *)
Definition c03_values_are_data_statement : Prop :=
  forall E e sc v sc', data_env E -> DA sc -> eval E e sc = (Val v, sc') -> is_data v = true.

Definition ex_env3 : env :=
  {| e_txn := {| t_description := "UBER"; t_amount := VFloat 1; t_date := None; t_field := Some [("memo", VStr "m")];
                 t_source := ""; t_location := "" |};
     e_vars := []; e_ds := [("rows", VList [VDict [("amount", VInt 1)]; VDict [("amount", VInt 2)]])];
     re_search := fun _ _ => None; re_sub := fun _ _ _ => None; fuzzy_ratio := fun _ _ => None |}.
Lemma ex_env3_data : data_env ex_env3.
Proof. repeat split; try reflexivity; try (repeat constructor). intros d H. inversion H; subst. repeat constructor. Qed.

(* refuted: a generator expression is a value — (r for r in rows) — the known finding C03/generator-object-as-value *)
Theorem c03_values_are_data_refuted : ~ c03_values_are_data_statement.
Proof.
  intros H.
  specialize (H ex_env3 (EComp GeneratorExp (EName "r") [(EName "r", EName "rows", [])]) [] VGen []
                ex_env3_data (Forall_nil _) eq_refl).
  discriminate.
Qed.
Print Assumptions c03_values_are_data_refuted.

(* partial 1: an expression without a stored generator — no GeneratorExp except written in place as the argument
   that any/all/min/max (sole argument) or sum/next (first argument) pulls from — yields data, from any data
   environment and data scope, and leaves a data scope whatever the outcome *)
Theorem c03_values_are_data_partial :
  forall E e sc, data_env E -> DA sc -> gen_free e = true ->
    DA (snd (eval E e sc)) /\ (forall v, fst (eval E e sc) = Val v -> is_data v = true).
Proof.
  intros E e sc HE Hs Hg. destruct (generator_free_yields_data E HE e sc Hg Hs) as [A B]. split; [exact A|].
  intros v Hv. rewrite Hv in B. exact B.
Qed.
Print Assumptions c03_values_are_data_partial.

(* partial 2 (by construction of the model's value type): what is not data has a generator object in it, and
   nothing else — no function, method, type or module is a value of the model *)
Theorem c03_non_data_is_generator : forall v, is_data v = false -> has_gen v = true.
Proof. exact non_data_contains_generator. Qed.
Print Assumptions c03_non_data_is_generator.

(* ---------------- (b) attribute access is closed ---------------- *)
Theorem c03_attribute_closed :
  forall E v attr sc x sc',
    eval E (EAttribute v attr) sc = (Val x, sc') ->
    (exists id, v = EName id /\ lower id = "txn" /\ mem (lower attr) txn_attr_names = true /\
                txn_attr E (lower attr) = Val x /\ sc' = sc) \/
    (exists id, v = EName id /\ lower id = "field" /\ field_attr E (lower attr) = Val x /\ sc' = sc /\
                (mem (lower attr) field_builtin_names = true \/
                 exists d, t_field (e_txn E) = Some d /\ dict_get d (lower attr) = Some x)) \/
    (exists d, eval E v sc = (Val (VDict d), sc') /\ dict_get d (lower attr) = Some x).
Proof. exact attribute_closed. Qed.
Print Assumptions c03_attribute_closed.

Theorem c03_attribute_otherwise_error :
  forall E,
    (forall id attr sc, lower id = "txn" -> mem (lower attr) txn_attr_names = false ->
       eval E (EAttribute (EName id) attr) sc = (ExprErr, sc)) /\
    (forall id attr sc, lower id = "field" -> mem (lower attr) field_builtin_names = false ->
       (forall d, t_field (e_txn E) = Some d -> dict_get d (lower attr) = None) ->
       eval E (EAttribute (EName id) attr) sc = (ExprErr, sc)) /\
    (forall v attr sc w sc1, (forall id, v = EName id -> lower id <> "txn" /\ lower id <> "field") ->
       eval E v sc = (Val w, sc1) -> (forall d, w <> VDict d) -> eval E (EAttribute v attr) sc = (ExprErr, sc1)).
Proof.
  intros E. split; [apply attribute_unknown_txn|]. split; [apply attribute_unknown_field|apply attribute_non_row].
Qed.
Print Assumptions c03_attribute_otherwise_error.

(* ---------------- (c) calls are closed ---------------- *)
Theorem c03_call_closed :
  forall E fn args kws sc x sc',
    eval E (ECall fn args kws) sc = (Val x, sc') ->
    (exists id, fn = EName id /\
       (mem (lower id) special_call_names = true \/ mem (lower id) model_function_names = true)) \/
    (exists obj attr s sc1, fn = EAttribute obj attr /\ eval E obj sc = (Val (VStr s), sc1) /\
       mem (lower attr) model_str_methods = true).
Proof. exact call_closed. Qed.
Print Assumptions c03_call_closed.

Theorem c03_call_otherwise_error :
  forall E,
    (forall id args kws sc, mem (lower id) special_call_names = false -> mem (lower id) model_function_names = false ->
       eval E (ECall (EName id) args kws) sc = (ExprErr, sc)) /\
    (forall obj attr args kws sc s sc1, eval E obj sc = (Val (VStr s), sc1) -> mem (lower attr) model_str_methods = false ->
       eval E (ECall (EAttribute obj attr) args kws) sc = (ExprErr, sc1)) /\
    (forall obj attr args kws sc w sc1, eval E obj sc = (Val w, sc1) -> (forall s, w <> VStr s) ->
       eval E (ECall (EAttribute obj attr) args kws) sc = (ExprErr, sc1)) /\
    (forall fn args kws sc, (forall id, fn <> EName id) -> (forall obj attr, fn <> EAttribute obj attr) ->
       eval E (ECall fn args kws) sc = (ExprErr, sc)).
Proof.
  intros E. split; [apply call_unknown_function|]. split; [apply call_unknown_method|].
  split; [apply call_method_on_non_string|apply call_non_name].
Qed.
Print Assumptions c03_call_otherwise_error.

(* the tables used above are the evaluator's own dispatch *)
Theorem c03_model_tables :
  (forall E f, ctx_function E f = None <-> mem f model_function_names = false) /\
  (forall m, str_method_arity m = None <-> mem m model_str_methods = false).
Proof. split; [exact ctx_function_table|exact str_method_table]. Qed.
Print Assumptions c03_model_tables.

(* ---------------- (d) frame ---------------- *)
(* eval : env -> pyast -> scope -> outcome * scope: the transaction, variables, tables and AST are inputs only;
   in the scope, every name the expression does not itself bind (:= target or comprehension loop variable,
   lower-cased) is left exactly as found *)
Theorem c03_eval_frame :
  forall E e sc k, ~ List.In k (binders e) -> sget (snd (eval E e sc)) k = sget sc k.
Proof. exact eval_frame. Qed.
Print Assumptions c03_eval_frame.

Theorem c03_eval_frame_no_binders :
  forall E e sc, binders e = [] -> forall k, sget (snd (eval E e sc)) k = sget sc k.
Proof. exact eval_frame_no_binders. Qed.
Print Assumptions c03_eval_frame_no_binders.

(* ---------------- (e) rejected before evaluation ---------------- *)
Theorem c03_rejected_before_eval :
  forall E,
    (forall t, validate allowed_nodes t = false -> eval_top E (PTree t) = ExprErr) /\
    eval_top E PSyntaxError = ExprErr /\
    (forall t, eval_top E (PTree t) = if validate allowed_nodes t then fst (eval E t []) else ExprErr).
Proof. intros E. split; [apply rejected_before_eval|]. split; reflexivity. Qed.
Print Assumptions c03_rejected_before_eval.

(* ---------------- (f) the model's tables are the source's ---------------- *)
Definition subset_b (a b : list string) : bool := forallb (fun x => mem x b) a.
Definition same_set_b (a b : list string) : bool := subset_b a b && subset_b b a.
Lemma same_set_spec a b : same_set_b a b = true -> forall x, List.In x a <-> List.In x b.
Proof.
  unfold same_set_b, subset_b. intros H x. apply andb_true_iff in H. destruct H as [H1 H2].
  rewrite forallb_forall in H1, H2. split; intros Hx; apply mem_In; auto.
Qed.

Theorem c03_tables_agree :
  Expr.Syntax.allowed_nodes = C03Caps.allowed_nodes /\
  (forall f, List.In f model_function_names <-> List.In f C03Caps.function_names) /\
  (forall m, List.In m model_str_methods <-> List.In m C03Caps.str_methods) /\
  length model_function_names = length C03Caps.function_names /\
  length model_str_methods = length C03Caps.str_methods.
Proof.
  split; [reflexivity|]. split; [apply same_set_spec; vm_compute; reflexivity|].
  split; [apply same_set_spec; vm_compute; reflexivity|]. split; reflexivity.
Qed.
Print Assumptions c03_tables_agree.

(* ---------------- non-vacuity ---------------- *)
Definition callx (f : string) (args : list pyast) : pyast := ECall (EName f) args [].
Definition ex_gen : pyast := EComp GeneratorExp (EAttribute (EName "r") "amount") [(EName "r", EName "rows", [])].

Example c03_example_data :
  (* consumed in place: data; stored: a generator object (inside a list, too) *)
  gen_free (callx "sum" [ex_gen]) = true /\ fst (eval ex_env3 (callx "sum" [ex_gen]) []) = Val (VInt 3) /\
  gen_free (ENamedExpr (EName "g") ex_gen) = false /\ fst (eval ex_env3 (ENamedExpr (EName "g") ex_gen) []) = Val VGen /\
  fst (eval ex_env3 (EComp ListComp ex_gen [(EName "q", EName "rows", [])]) []) = Val (VList [VGen; VGen]) /\
  gen_free (EComp ListComp (EName "r") [(EName "r", EName "rows", [ECompare (EAttribute (EName "r") "amount") [(Gt, EConst (CInt 1))]])]) = true.
Proof. vm_compute. repeat split; reflexivity. Qed.

Example c03_example_closed :
  fst (eval ex_env3 (EAttribute (EName "txn") "__class__") []) = ExprErr /\
  fst (eval ex_env3 (EAttribute (EName "field") "memo") []) = Val (VStr "m") /\
  fst (eval ex_env3 (EAttribute (EName "field") "nope") []) = ExprErr /\
  fst (eval ex_env3 (EAttribute (EName "description") "upper") []) = ExprErr /\
  fst (eval ex_env3 (callx "eval" [EConst (CStr "1")]) []) = ExprErr /\
  fst (eval ex_env3 (callx "getattr" [EName "description"; EConst (CStr "upper")]) []) = ExprErr /\
  fst (eval ex_env3 (ECall (EAttribute (EName "description") "format") [] []) []) = ExprErr /\
  fst (eval ex_env3 (ECall (EAttribute (EName "description") "LOWER") [] []) []) = Val (VStr "uber") /\
  mem "eval" special_call_names = false /\ mem "eval" model_function_names = false /\ mem "format" model_str_methods = false.
Proof. vm_compute. repeat split; reflexivity. Qed.

Example c03_example_frame :
  (* binds m and r; amount (a scope entry here) is left alone *)
  binders (EBoolOp And [ENamedExpr (EName "M") (EComp ListComp (EName "r") [(EName "R", EName "rows", [])]); EName "m"]) = ["m"; "r"] /\
  snd (eval ex_env3 (EBoolOp And [ENamedExpr (EName "M") (EComp ListComp (EName "r") [(EName "R", EName "rows", [])]); EName "m"])
            [("amount", VInt 7)])
  = [("amount", VInt 7); ("m", VList [VDict [("amount", VInt 1)]; VDict [("amount", VInt 2)]])] /\
  validate allowed_nodes (EOther "Lambda" []) = false /\ eval_top ex_env3 (PTree (EOther "Lambda" [])) = ExprErr.
Proof. vm_compute. repeat split; reflexivity. Qed.
