(* C03/ValueData.v — "values are data": which values the evaluator model can produce.
   The only constructor of Expr.Syntax.value that is not plain data is VGen (a generator object); the model
   has no constructor at all for functions, methods, types or modules.  A value is *data* when no generator
   object occurs in it. *)
From Coq Require Import String Ascii List Bool ZArith QArith Lia.
From Tally Require Import Lib.Str Expr.StrOps Expr.Date Expr.Syntax Expr.Funcs Expr.Eval C04.Proofs C04.NameCase.
Import ListNotations.
Open Scope string_scope.

Fixpoint is_data (v : value) : bool :=
  match v with
  | VNone | VBool _ | VInt _ | VFloat _ | VStr _ | VDate _ | VTd _ => true
  | VList l => (fix go (l : list value) := match l with [] => true | x :: r => is_data x && go r end) l
  | VDict d => (fix go (d : list (string * value)) := match d with [] => true | (_, x) :: r => is_data x && go r end) d
  | VGen => false
  end.

Definition D (v : value) : Prop := is_data v = true.
Definition DL (l : list value) : Prop := Forall D l.
Definition DA (d : list (string * value)) : Prop := Forall (fun kv => D (snd kv)) d.
Definition data_out (o : outcome) : Prop := match o with Val v => D v | _ => True end.

Lemma D_list l : D (VList l) <-> DL l.
Proof.
  unfold D, DL. induction l as [|x r IH]; cbn [is_data].
  - split; [constructor|reflexivity].
  - split.
    + intros H. apply andb_true_iff in H. destruct H as [H1 H2]. constructor; [exact H1|]. apply IH. exact H2.
    + intros H. inversion H; subst. apply andb_true_iff. split; [assumption|]. apply IH. assumption.
Qed.

Lemma D_dict d : D (VDict d) <-> DA d.
Proof.
  unfold D, DA. induction d as [|[k x] r IH]; cbn [is_data].
  - split; [constructor|reflexivity].
  - split.
    + intros H. apply andb_true_iff in H. destruct H as [H1 H2]. constructor; [exact H1|]. apply IH. exact H2.
    + intros H. inversion H; subst. apply andb_true_iff. split; [assumption|]. apply IH. assumption.
Qed.

(* data has no generator inside: the comparison / arithmetic guards of the model do not fire on data *)
Lemma D_no_gen v : D v -> has_gen v = false.
Proof.
  revert v. fix IH 1. intros v. destruct v; cbn [has_gen]; try reflexivity.
  - intros H. apply D_list in H. induction l as [|x r IHl]; [reflexivity|].
    inversion H; subst. rewrite (IH x) by assumption. cbn [orb]. now apply IHl.
  - intros H. apply D_dict in H. induction d as [|[k x] r IHd]; [reflexivity|].
    inversion H; subst. cbn [snd] in *. rewrite (IH x) by assumption. cbn [orb]. now apply IHd.
  - discriminate.
Qed.

Definition scalar (v : value) : bool := match v with VList _ | VDict _ | VGen => false | _ => true end.
Lemma scalar_D v : scalar v = true -> D v.
Proof. destruct v; try discriminate; reflexivity. Qed.
Definition out_scalar (o : outcome) : Prop := match o with Val v => scalar v = true | _ => True end.
Lemma out_scalar_data o : out_scalar o -> data_out o.
Proof. destruct o; cbn; auto using scalar_D. Qed.

Lemma dict_get_D d k v : DA d -> dict_get d k = Some v -> D v.
Proof.
  induction d as [|[k' x] r IH]; cbn [dict_get]; [discriminate|]. intros H. inversion H; subst.
  destruct (String.eqb k k'); [intros E; inversion E; subst; assumption|now apply IH].
Qed.
Lemma sget_D sc k v : DA sc -> sget sc k = Some v -> D v.
Proof.
  induction sc as [|[k' x] r IH]; cbn [sget]; [discriminate|]. intros H. inversion H; subst.
  destruct (String.eqb k k'); [intros E; inversion E; subst; assumption|now apply IH].
Qed.
Lemma sset_D sc k v : DA sc -> D v -> DA (sset sc k v).
Proof.
  induction sc as [|[k' x] r IH]; cbn [sset]; intros H Hv.
  - constructor; [exact Hv|constructor].
  - inversion H; subst. destruct (String.eqb k k'); constructor; auto. now apply IH.
Qed.
Lemma sdel_D sc k : DA sc -> DA (sdel sc k).
Proof.
  induction sc as [|[k' x] r IH]; cbn [sdel]; intros H; [constructor|].
  inversion H; subst. destruct (String.eqb k k'); [assumption|constructor; auto]. now apply IH.
Qed.
Lemma restore_D var old sc : DA sc -> (forall v, old = Some v -> D v) -> DA (restore var old sc).
Proof.
  intros H Ho. unfold restore. destruct old as [v|]; [|now apply sdel_D].
  destruct v; try (apply sset_D; [assumption|apply Ho; reflexivity]). now apply sdel_D.
Qed.

Lemma DL_app a b : DL a -> DL b -> DL (a ++ b).
Proof. unfold DL. intros. apply Forall_app. split; assumption. Qed.
Lemma DL_rev a : DL a -> DL (rev a).
Proof. unfold DL. apply Forall_rev. Qed.
Lemma DL_firstn n a : DL a -> DL (firstn n a).
Proof. unfold DL. revert a. induction n; intros a H; cbn; [constructor|]. destruct a; [constructor|]. inversion H; subst. constructor; auto. Qed.
Lemma DL_skipn n a : DL a -> DL (skipn n a).
Proof. unfold DL. revert a. induction n; intros a H; cbn; [assumption|]. destruct a; [constructor|]. inversion H; subst. auto. Qed.
Lemma DL_slice a x y : DL a -> DL (slice_list a x y).
Proof. intros H. unfold slice_list. destruct (_ <=? _)%Z; [constructor|]. apply DL_firstn, DL_skipn, H. Qed.
Lemma DL_repeat n a : DL a -> DL (repeat_list n a).
Proof. intros H. induction n; cbn; [constructor|]. now apply DL_app. Qed.
Lemma DL_index a i v : DL a -> index_list a i = Some v -> D v.
Proof.
  intros H. unfold index_list. destruct (_ || _)%bool; [discriminate|]. intros E. apply nth_error_In in E.
  unfold DL in H. rewrite Forall_forall in H. now apply H.
Qed.
Lemma DL_strs l : DL (map VStr l).
Proof. induction l; constructor; auto. reflexivity. Qed.
Lemma DL_keys (d : list (string * value)) : DL (map (fun kv => VStr (fst kv)) d).
Proof. induction d; constructor; auto. reflexivity. Qed.

Lemma iter_items_D v items : D v -> iter_items v = ItItems items -> DL items.
Proof.
  destruct v; cbn [iter_items]; intros H E; inversion E; subst.
  - apply DL_strs.
  - now apply D_list.
  - apply DL_keys.
Qed.

(* ---------- operators ---------- *)
Lemma mkfloat_scalar q : out_scalar (mkfloat q).
Proof. unfold mkfloat. destruct (is_binary64 _); exact I || reflexivity. Qed.
Lemma float_op_scalar f a b : out_scalar (float_op f a b).
Proof. unfold float_op. destruct (_ && _)%bool; [apply mkfloat_scalar|exact I]. Qed.
Lemma date_in_range_scalar n : out_scalar (date_in_range n).
Proof. unfold date_in_range. destruct (_ && _)%bool; exact I || reflexivity. Qed.
Lemma td_in_range_scalar n : out_scalar (td_in_range n).
Proof. unfold td_in_range. destruct (_ <=? _)%Z; exact I || reflexivity. Qed.

Lemma seq_times_D s n : D s -> data_out (seq_times s n).
Proof.
  intros H. unfold seq_times. destruct (small_count n); [|exact I].
  destruct s; try exact I; cbn [data_out]; [reflexivity|]. apply D_list. apply DL_repeat. now apply D_list.
Qed.

Ltac finish_scalar :=
  first [ exact I | reflexivity | apply out_scalar_data; first [apply mkfloat_scalar | apply float_op_scalar
        | apply date_in_range_scalar | apply td_in_range_scalar] ].

Lemma py_add_D l r : D l -> D r -> data_out (py_add l r).
Proof.
  intros Hl Hr. unfold py_add.
  destruct (num_view l) as [[x|x]|] eqn:Nl; destruct (num_view r) as [[y|y]|] eqn:Nr; try finish_scalar;
    destruct l; try discriminate; destruct r; try discriminate; try finish_scalar.
  all: cbn [data_out]; apply D_list; apply DL_app; now apply D_list.
Qed.

Lemma py_sub_D l r : data_out (py_sub l r).
Proof.
  unfold py_sub.
  destruct (num_view l) as [[x|x]|] eqn:Nl; destruct (num_view r) as [[y|y]|] eqn:Nr; try finish_scalar;
    destruct l; try discriminate; destruct r; try discriminate; try finish_scalar.
Qed.

Lemma py_mul_D l r : D l -> D r -> data_out (py_mul l r).
Proof.
  intros Hl Hr. unfold py_mul.
  destruct (num_view l) as [[x|x]|] eqn:Nl; destruct (num_view r) as [[y|y]|] eqn:Nr; try finish_scalar;
    destruct l; try discriminate; destruct r; try discriminate; cbn [int_of]; try finish_scalar;
    try (apply seq_times_D; assumption);
    try (destruct b; apply seq_times_D; assumption).
  all: try (destruct b; finish_scalar).
Qed.

Lemma py_truediv_D l r : data_out (py_truediv l r).
Proof.
  unfold py_truediv.
  destruct (num_view l) as [[x|x]|] eqn:Nl; destruct (num_view r) as [[y|y]|] eqn:Nr; try finish_scalar;
    destruct l; try discriminate; destruct r; try discriminate; try finish_scalar.
Qed.
Lemma py_mod_D l r : data_out (py_mod l r).
Proof.
  unfold py_mod.
  destruct (num_view l) as [[x|x]|] eqn:Nl; destruct (num_view r) as [[y|y]|] eqn:Nr; try finish_scalar;
    destruct l; try discriminate; destruct r; try discriminate; try finish_scalar.
Qed.

Lemma binop_apply_D op l r : D l -> D r -> data_out (binop_apply op l r).
Proof.
  intros Hl Hr. unfold binop_apply. rewrite (D_no_gen l Hl), (D_no_gen r Hr). cbn [orb].
  destruct op; try exact I.
  - now apply py_add_D.
  - apply py_sub_D.
  - now apply py_mul_D.
  - destruct (eq_zero r); [reflexivity|apply py_truediv_D].
  - destruct (eq_zero r); [reflexivity|apply py_mod_D].
Qed.

Lemma unop_apply_D op v : data_out (unop_apply op v).
Proof. destruct op; cbn; try exact I; [reflexivity|]. destruct v; cbn; try exact I; reflexivity. Qed.

Lemma cmp_apply_D op l r : data_out (cmp_apply op l r).
Proof. pose proof (cmp_apply_shape op l r) as S. destruct (cmp_apply op l r) as [[]| | |]; try exact I; try contradiction. reflexivity. Qed.

Lemma compare_link_D op l r : data_out (compare_link op l r).
Proof.
  unfold compare_link, coerce_dates, iso_outcome.
  destruct l; destruct r; try apply cmp_apply_D; destruct (parse_iso s); try exact I; apply cmp_apply_D.
Qed.

Lemma py_subscript_D v i : D v -> data_out (py_subscript v i).
Proof.
  intros H. unfold py_subscript. destruct v; try exact I.
  - destruct (int_of i); [|exact I]. destruct (index_list (cps s) z); [reflexivity|exact I].
  - destruct (int_of i); [|exact I]. destruct (index_list l z) eqn:Ei; [|exact I]. cbn. eapply DL_index; [apply D_list; eassumption|eassumption].
  - destruct i; try exact I. destruct (dict_get d s) eqn:Eg; [|exact I]. cbn. eapply dict_get_D; [apply D_dict; eassumption|eassumption].
Qed.

Lemma py_len_D v : data_out (py_len v).
Proof. destruct v; cbn; try exact I; reflexivity. Qed.

Lemma str_method_D m s args : data_out (str_method m s args).
Proof.
  unfold str_method.
  repeat match goal with |- context [if String.eqb m ?x then _ else _] => destruct (String.eqb m x) end;
    try exact I; try reflexivity.
  all: destruct args as [|a [|b [|c r]]]; try exact I; try (destruct a; try exact I; try reflexivity).
  all: try (destruct b; try exact I; reflexivity).
Qed.

(* ---------- the context functions return data ---------- *)
Ltac crunch :=
  repeat match goal with
         | |- out_scalar (match ?x with _ => _ end) => destruct x
         | |- out_scalar (if ?x then _ else _) => destruct x
         | |- out_scalar (with_str ?v ?k) => unfold with_str
         | |- out_scalar (vbool _) => reflexivity
         end; try exact I; try reflexivity.

Section FnData.
  Variable E : env.

  Lemma ratio_ge_scalar a b thr : out_scalar (ratio_ge E a b thr).
  Proof. unfold ratio_ge. crunch. Qed.
  Lemma fuzzy_windows_scalar n k tl pu thr : out_scalar (fuzzy_windows E n k tl pu thr).
  Proof.
    revert tl. induction n as [|n IH]; intros tl; cbn [fuzzy_windows]; [reflexivity|].
    pose proof (ratio_ge_scalar (sconcat (firstn k tl)) pu thr) as R.
    destruct (ratio_ge E (sconcat (firstn k tl)) pu thr) as [[| [] | | | | | | | | ]| | |]; try exact I; try exact R; try reflexivity.
    apply IH.
  Qed.
  Lemma fn_anyof_scalar ps : out_scalar (fn_anyof E ps).
  Proof. induction ps as [|p r IH]; cbn [fn_anyof]; [reflexivity|]. destruct p; try exact I. destruct (is_infix _ _); [reflexivity|exact IH]. Qed.

  Lemma fn_contains_scalar args : out_scalar (fn_contains E args).
  Proof. unfold fn_contains, text_pattern. crunch. Qed.
  Lemma fn_startswith_scalar args : out_scalar (fn_startswith E args).
  Proof. unfold fn_startswith, text_pattern. crunch. Qed.
  Lemma fn_normalized_scalar args : out_scalar (fn_normalized E args).
  Proof. unfold fn_normalized, text_pattern. crunch. Qed.
  Lemma fn_regex_scalar args : out_scalar (fn_regex E args).
  Proof. unfold fn_regex, text_pattern. crunch. Qed.
  Lemma fn_extract_scalar args : out_scalar (fn_extract E args).
  Proof. unfold fn_extract, text_pattern. crunch. Qed.
  Lemma fn_split_scalar args : out_scalar (fn_split E args).
  Proof.
    unfold fn_split.
    assert (G : forall t d i,
      out_scalar (match int_of i with
                  | None => ExprErr
                  | Some n =>
                      match t with
                      | VStr ts =>
                          match match d with
                                | VStr "" => inr (PyErr ValueError)
                                | VStr ds => inl (split_on ds ts)
                                | VNone => inl (split_ws ts)
                                | _ => inr (PyErr TypeError)
                                end with
                          | inr o => o
                          | inl ps => if ((0 <=? n) && (n <? Z.of_nat (length ps)))%Z
                                      then Val (VStr (strip (nth (Z.to_nat n) ps ""))) else Val (VStr "")
                          end
                      | _ => PyErr AttributeError
                      end
                  end)).
    { intros t d i. destruct (int_of i); [|exact I]. destruct t; try exact I.
      destruct d; try exact I; try (destruct (_ && _)%bool; reflexivity).
      destruct s0; [exact I|]. destruct (_ && _)%bool; reflexivity. }
    destruct args as [|a [|b [|c [|d r]]]]; try exact I; apply G.
  Qed.
  Lemma fn_trim_scalar args : out_scalar (fn_trim E args).
  Proof. unfold fn_trim. crunch. Qed.
  Lemma fn_regex_replace_scalar args : out_scalar (fn_regex_replace E args).
  Proof. unfold fn_regex_replace. crunch. Qed.
  Lemma fn_fuzzy_scalar args : out_scalar (fn_fuzzy E args).
  Proof.
    unfold fn_fuzzy.
    assert (G : forall t p thr,
      out_scalar (match t with
                  | VStr ts => match p with
                               | VStr ps => if Nat.ltb (length (cps (upper ts))) (length (cps (upper ps)))
                                            then ratio_ge E (upper ts) (upper ps) thr
                                            else fuzzy_windows E (length (cps (upper ts)) - length (cps (upper ps)) + 1)
                                                               (length (cps (upper ps))) (cps (upper ts)) (upper ps) thr
                               | _ => PyErr AttributeError
                               end
                  | _ => PyErr AttributeError
                  end)).
    { intros t p thr. destruct t; try exact I. destruct p; try exact I.
      destruct (Nat.ltb _ _); [apply ratio_ge_scalar|apply fuzzy_windows_scalar]. }
    destruct args as [|a [|b [|c [|d r]]]]; try exact I; try apply G.
    destruct (is_number b); apply G.
  Qed.
  Lemma fn_substring_D args : DL args -> data_out (fn_substring E args).
  Proof.
    intros H. unfold fn_substring.
    assert (G : forall t a b, D t ->
      data_out (match int_of a, int_of b with
                | Some x, Some y => match t with
                                    | VStr s => Val (VStr (slice_str s x y))
                                    | VList l => Val (VList (slice_list l x y))
                                    | VDict _ => PyErr KeyError
                                    | _ => PyErr TypeError
                                    end
                | _, _ => ExprErr
                end)).
    { intros t a b Ht. destruct (int_of a); [|exact I]. destruct (int_of b); [|exact I].
      destruct t; try exact I; [reflexivity|]. cbn. apply D_list, DL_slice. now apply D_list. }
    destruct args as [|a [|b [|c [|d r]]]]; try exact I.
    - apply G. reflexivity.
    - apply G. inversion H; assumption.
  Qed.
End FnData.

Lemma fn_uppercase_scalar args : out_scalar (fn_uppercase args).
Proof. unfold fn_uppercase. crunch. Qed.
Lemma fn_lowercase_scalar args : out_scalar (fn_lowercase args).
Proof. unfold fn_lowercase. crunch. Qed.
Lemma fn_strip_prefix_scalar args : out_scalar (fn_strip_prefix args).
Proof. unfold fn_strip_prefix. crunch. Qed.
Lemma fn_strip_suffix_scalar args : out_scalar (fn_strip_suffix args).
Proof. unfold fn_strip_suffix. crunch. Qed.
Lemma fn_abs_scalar args : out_scalar (fn_abs args).
Proof. unfold fn_abs. crunch. Qed.
Lemma fn_round_scalar args : out_scalar (fn_round args).
Proof. unfold fn_round, round1. crunch. Qed.

Lemma ctx_function_D E f fn args : ctx_function E f = Some fn -> DL args -> data_out (fn args).
Proof.
  unfold ctx_function. intros H Ha.
  repeat match type of H with
         | (if String.eqb f ?s then _ else _) = _ => destruct (String.eqb f s)
         end; inversion H; subst; clear H;
    try (apply out_scalar_data;
         first [apply fn_abs_scalar|apply fn_round_scalar|apply fn_contains_scalar|apply fn_regex_scalar
               |apply fn_normalized_scalar|apply fn_anyof_scalar|apply fn_startswith_scalar|apply fn_fuzzy_scalar
               |apply fn_extract_scalar|apply fn_split_scalar|apply fn_trim_scalar|apply fn_regex_replace_scalar
               |apply fn_uppercase_scalar|apply fn_lowercase_scalar|apply fn_strip_prefix_scalar|apply fn_strip_suffix_scalar]).
  now apply fn_substring_D.
Qed.

(* ---------- consumers ---------- *)
Definition step_inv {A} (Inv : A -> Prop) (step : A -> value -> sres A) : Prop :=
  forall acc v, Inv acc -> D v -> match step acc v with SCont a | SStop a => Inv a | SFail o => data_out o end.
Definition sres_inv {A} (Inv : A -> Prop) (r : sres A) : Prop := match r with SCont a | SStop a => Inv a | SFail o => data_out o end.

Lemma step_list_inv : step_inv DL step_list.
Proof. intros acc v Ha Hv. cbn. constructor; assumption. Qed.
Lemma step_any_inv : step_inv (fun _ : bool => True) step_any.
Proof. intros acc v _ _. unfold step_any. destruct (truthy v); exact I. Qed.
Lemma step_all_inv : step_inv (fun _ : bool => True) step_all.
Proof. intros acc v _ _. unfold step_all. destruct (truthy v); exact I. Qed.
Lemma step_sum_inv : step_inv D step_sum.
Proof.
  intros acc v Ha Hv. unfold step_sum. pose proof (binop_apply_D Add acc v Ha Hv) as B.
  destruct (binop_apply Add acc v); try exact I. exact B.
Qed.
Definition optD (o : option value) : Prop := match o with Some v => D v | None => True end.
Lemma step_next_inv : step_inv optD step_next.
Proof. intros acc v _ Hv. exact Hv. Qed.
Lemma step_minmax_inv b : step_inv optD (step_minmax b).
Proof.
  intros acc v Ha Hv. unfold step_minmax. destruct acc as [c|]; [|exact Hv].
  destruct (has_gen v || has_gen c); [exact I|]. destruct (py_order v c) as [o|]; [|exact I].
  destruct (if b then _ else _); [exact Hv|exact Ha].
Qed.

Lemma feed_inv {A} (Inv : A -> Prop) step : step_inv Inv step -> forall items acc, DL items -> Inv acc -> sres_inv Inv (feed step acc items).
Proof.
  intros Hs items. induction items as [|x r IH]; intros acc Hl Ha; cbn [feed]; [exact Ha|].
  inversion Hl; subst. pose proof (Hs acc x Ha H1) as S.
  destruct (step acc x); cbn [sres_inv]; try exact S; try exact I. now apply IH.
Qed.

(* ---------- generator-free expressions ---------- *)
Definition single_consumers : list string := ["any"; "all"; "min"; "max"].
Definition first_consumers : list string := ["sum"; "next"].

(* no generator expression, except written in place as the argument a consuming call pulls from *)
Fixpoint gen_free (e : pyast) : bool :=
  match e with
  | EConst _ | EName _ => true
  | EBoolOp _ l => forallb gen_free l
  | EBinOp l _ r => gen_free l && gen_free r
  | EUnaryOp _ x => gen_free x
  | ECompare l rest => gen_free l && forallb (fun p : cmpop * pyast => gen_free (snd p)) rest
  | EIfExp a b c => gen_free a && gen_free b && gen_free c
  | ECall fn args _ =>
      match fn with
      | EName id =>
          match args with
          | EComp GeneratorExp elt gens :: rest =>
              ((mem (lower id) single_consumers && match rest with [] => true | _ => false end)
               || (mem (lower id) first_consumers && match rest with [] | [_] => true | _ => false end))
              && (gen_free elt && forallb (fun g : comp => gen_free (snd (fst g)) && forallb gen_free (snd g)) gens)
              && forallb gen_free rest
          | _ => forallb gen_free args
          end
      | EAttribute obj _ => gen_free obj && forallb gen_free args
      | _ => true
      end
  | EAttribute v _ => gen_free v
  | ESubscript v s => gen_free v && gen_free s
  | EComp GeneratorExp _ _ => false
  | EComp _ elt gens => gen_free elt && forallb (fun g : comp => gen_free (snd (fst g)) && forallb gen_free (snd g)) gens
  | ENamedExpr _ v => gen_free v
  | EList _ | ETuple _ | ESet _ | EOther _ _ => true
  end.

Section DataEval.
  Variable E : env.
  Notation ev := (eval E).
  Definition data_env : Prop :=
    D (t_amount (e_txn E)) /\ (forall d, t_field (e_txn E) = Some d -> DA d) /\ DA (e_vars E) /\ DA (e_ds E).
  Hypothesis HE : data_env.

  Definition good (r : res) : Prop := DA (snd r) /\ data_out (fst r).
  Definition Pb (e : pyast) : Prop := forall sc, DA sc -> good (ev e sc).
  Definition P (e : pyast) : Prop := gen_free e = true -> Pb e.
  Definition Pbg (g : comp) : Prop := Pb (snd (fst g)) /\ Forall Pb (snd g).

  Lemma wrap_data o : data_out o -> data_out (wrap o).
  Proof. destruct o; auto. Qed.
  Lemma good_wrap (r : res) : good r -> good (wrap (fst r), snd r).
  Proof. intros [A B]. split; [exact A|now apply wrap_data]. Qed.

  Lemma date_part_D f : D (date_part E f).
  Proof. unfold date_part. destruct (t_date (e_txn E)); reflexivity. Qed.
  Lemma date_value_D : D (date_value E).
  Proof. unfold date_value. destruct (t_date (e_txn E)); reflexivity. Qed.

  Lemma lookup_name_D name sc : DA sc -> data_out (lookup_name E name sc).
  Proof.
    intros Hs. destruct HE as [Ha [Hf [Hv Hd]]]. unfold lookup_name.
    destruct (sget sc name) eqn:S1; [exact (sget_D _ _ _ Hs S1)|].
    destruct (sget (e_vars E) name) eqn:S2; [exact (sget_D _ _ _ Hv S2)|].
    repeat match goal with |- context [if String.eqb name ?s then _ else _] => destruct (String.eqb name s) end;
      try reflexivity; try exact Ha; try apply date_part_D; try apply date_value_D.
    destruct (sget (e_ds E) name) eqn:S3; [exact (sget_D _ _ _ Hd S3)|exact I].
  Qed.
  Lemma txn_attr_D a : data_out (txn_attr E a).
  Proof.
    destruct HE as [Ha _]. unfold txn_attr.
    repeat match goal with |- context [if String.eqb a ?s then _ else _] => destruct (String.eqb a s) end;
      try reflexivity; try exact Ha; try apply date_part_D; try apply date_value_D; try exact I.
  Qed.
  Lemma field_attr_D a : data_out (field_attr E a).
  Proof.
    destruct HE as [Ha [Hf _]]. unfold field_attr.
    repeat match goal with |- context [if String.eqb a ?s then _ else _] => destruct (String.eqb a s) end;
      try reflexivity; try exact Ha; try apply date_value_D.
    destruct (t_field (e_txn E)) as [d|] eqn:Ef; [|exact I].
    destruct (dict_get d a) eqn:Eg; [|exact I]. eapply dict_get_D; [apply Hf; reflexivity|eassumption].
  Qed.

  Lemma eval_list_D l : Forall Pb l -> forall sc, DA sc ->
    DA (snd (eval_list ev l sc)) /\ match fst (eval_list ev l sc) with inl vs => DL vs | inr o => data_out o end.
  Proof.
    induction 1 as [|x r Hx Hr IH]; intros sc Hs; cbn [eval_list]; [split; [exact Hs|constructor]|].
    destruct (Hx sc Hs) as [A B]. destruct (ev x sc) as [[v| |k|u] sc1]; cbn [fst snd] in *; try (split; [exact A|exact Logic.I]).
    destruct (IH sc1 A) as [A2 B2]. destruct (eval_list ev r sc1) as [[vs|o] sc2]; cbn [fst snd] in *; split; auto.
    constructor; assumption.
  Qed.

  Lemma eval_boolop_D op l : Forall Pb l -> forall sc, DA sc -> good (eval_boolop ev op l sc).
  Proof.
    induction 1 as [|x r Hx Hr IH]; intros sc Hs; cbn [eval_boolop]; [split; [exact Hs|reflexivity]|].
    destruct (Hx sc Hs) as [A B]. destruct (ev x sc) as [[v| |k|u] sc1]; cbn [fst snd] in *; try (split; [exact A|exact I]).
    destruct op; destruct (truthy v); try (apply IH; exact A); split; try exact A; reflexivity.
  Qed.

  Lemma eval_compare_D rest : Forall (fun p : cmpop * pyast => Pb (snd p)) rest ->
    forall lv sc, DA sc -> good (eval_compare ev rest lv sc).
  Proof.
    induction 1 as [|[o x] r Hx Hr IH]; intros lv sc Hs; cbn [eval_compare]; [split; [exact Hs|reflexivity]|].
    cbn [snd] in Hx. destruct (Hx sc Hs) as [A B].
    destruct (ev x sc) as [[v| |k|u] sc1]; cbn [fst snd] in *; try (split; [exact A|exact I]).
    pose proof (compare_link_D o lv v) as C.
    destruct (compare_link o lv v) as [w| |k|u]; try (split; [exact A|exact I]).
    destruct (truthy w); [apply IH; exact A|split; [exact A|reflexivity]].
  Qed.

  Lemma eval_ifs_D l : Forall Pb l -> forall sc, DA sc ->
    DA (snd (eval_ifs ev l sc)) /\ match fst (eval_ifs ev l sc) with inr o => data_out o | inl _ => True end.
  Proof.
    induction 1 as [|x r Hx Hr IH]; intros sc Hs; cbn [eval_ifs]; [split; [exact Hs|exact Logic.I]|].
    destruct (Hx sc Hs) as [A B]. destruct (ev x sc) as [[v| |k|u] sc1]; cbn [fst snd] in *; try (split; [exact A|exact Logic.I]).
    destruct (truthy v); [apply IH; exact A|split; [exact A|exact Logic.I]].
  Qed.

  Lemma run_loop_D {A} (Inv : A -> Prop) (step : A -> value -> sres A) elt gens :
    step_inv Inv step -> Pb elt -> Forall Pbg gens ->
    forall acc sc, Inv acc -> DA sc ->
      DA (snd (run_loop ev elt step gens acc sc)) /\ sres_inv Inv (fst (run_loop ev elt step gens acc sc)).
  Proof.
    intros Hstep Helt Hg. induction Hg as [|[[t it] ifs] rest [Hit Hifs] Hrest IH]; intros acc sc Ha Hs; cbn [run_loop].
    - destruct (Helt sc Hs) as [A1 B1]. destruct (ev elt sc) as [[v| |k|u] sc1]; cbn [fst snd] in *; try (split; [exact A1|exact I]).
      split; [exact A1|]. exact (Hstep acc v Ha B1).
    - cbn [fst snd] in Hit, Hifs. destruct (Hit sc Hs) as [A1 B1].
      destruct (ev it sc) as [[itv| |k|u] sc1]; cbn [fst snd] in *; try (split; [exact A1|exact I]).
      destruct t; try (split; [exact A1|exact I]).
      destruct (iter_items itv) as [items| |] eqn:Ei; try (split; [exact A1|exact I]).
      pose proof (iter_items_D itv items B1 Ei) as Hitems. clear Ei.
      revert acc sc1 Ha A1. induction Hitems as [|x more Hx Hmore IHi]; intros acc sc1 Ha A1; [split; [exact A1|exact Ha]|].
      assert (Hset : DA (sset sc1 (lower id) x)) by (apply sset_D; assumption).
      destruct (eval_ifs_D ifs Hifs _ Hset) as [A3 B3].
      assert (Hold : forall v, sget sc1 (lower id) = Some v -> D v) by (intros v Hv; exact (sget_D _ _ _ A1 Hv)).
      destruct (eval_ifs ev ifs (sset sc1 (lower id) x)) as [[[|]|o] sc3]; cbn [fst snd] in *.
      + destruct (IH acc sc3 Ha A3) as [A4 B4].
        destruct (run_loop ev elt step rest acc sc3) as [[a'|a'|o] sc4]; cbn [fst snd] in *; try (split; assumption).
        apply IHi; [exact B4|]. apply restore_D; assumption.
      + apply IHi; [exact Ha|]. apply restore_D; assumption.
      + split; [exact A3|exact B3].
  Qed.

  Definition deep (e : pyast) : Prop :=
    match e with
    | EAttribute obj _ => P obj
    | EComp _ elt gens => P elt /\ Forall (fun g : comp => P (snd (fst g)) /\ Forall P (snd g)) gens
    | _ => True
    end.
  Definition Q (e : pyast) : Prop := P e /\ deep e.

  Lemma Forall_P_Pb l : Forall P l -> forallb gen_free l = true -> Forall Pb l.
  Proof.
    induction 1 as [|x r Hx Hr IH]; cbn [forallb]; intros H; [constructor|].
    apply andb_true_iff in H. destruct H as [H1 H2]. constructor; [now apply Hx|now apply IH].
  Qed.
  Lemma Forall_Q_P l : Forall Q l -> Forall P l.
  Proof. apply Forall_impl. intros a [H _]. exact H. Qed.

  Lemma parts_Pb elt gens :
    P elt -> Forall (fun g : comp => P (snd (fst g)) /\ Forall P (snd g)) gens ->
    gen_free elt && forallb (fun g : comp => gen_free (snd (fst g)) && forallb gen_free (snd g)) gens = true ->
    Pb elt /\ Forall Pbg gens.
  Proof.
    intros He Hg H. apply andb_true_iff in H. destruct H as [H1 H2]. split; [now apply He|].
    induction Hg as [|g r [Hgi Hgf] Hr IH]; [constructor|].
    cbn [forallb] in H2. apply andb_true_iff in H2. destruct H2 as [H2 H3]. apply andb_true_iff in H2. destruct H2 as [H4 H5].
    constructor; [split; [now apply Hgi|now apply Forall_P_Pb]|now apply IH].
  Qed.

  Lemma consume_D {A} (Inv : A -> Prop) (step : A -> value -> sres A) acc arg :
    step_inv Inv step -> Pb arg -> Inv acc -> forall sc, DA sc ->
    (forall elt gens, arg = EComp GeneratorExp elt gens -> False) ->
    DA (snd (consume ev step acc arg sc)) /\ sres_inv Inv (fst (consume ev step acc arg sc)).
  Proof.
    intros Hstep Harg Ha sc Hs Hng.
    assert (G : DA (snd (match ev arg sc with
                         | (Val v, sc1) => match iter_items v with
                                           | ItItems items => (feed step acc items, sc1)
                                           | ItGen => (SFail (Unmodelled "consume-stored-generator"), sc1)
                                           | ItNot => (SFail (PyErr TypeError), sc1)
                                           end
                         | (o, sc1) => (SFail o, sc1)
                         end)) /\
                sres_inv Inv (fst (match ev arg sc with
                                 | (Val v, sc1) => match iter_items v with
                                                   | ItItems items => (feed step acc items, sc1)
                                                   | ItGen => (SFail (Unmodelled "consume-stored-generator"), sc1)
                                                   | ItNot => (SFail (PyErr TypeError), sc1)
                                                   end
                                 | (o, sc1) => (SFail o, sc1)
                                 end))).
    { destruct (Harg sc Hs) as [A1 B1]. destruct (ev arg sc) as [[v| |k|u] sc1]; cbn [fst snd] in *; try (split; [exact A1|exact I]).
      destruct (iter_items v) as [items| |] eqn:Ei; cbn [fst snd]; try (split; [exact A1|exact I]).
      split; [exact A1|]. apply feed_inv; auto. eapply iter_items_D; eassumption. }
    destruct arg; try exact G. destruct k; try exact G. exfalso. eapply Hng. reflexivity.
  Qed.

  Lemma eval_minmax_args_D b l : Forall Pb l -> forall acc sc, optD acc -> DA sc ->
    DA (snd (eval_minmax_args ev b l acc sc)) /\ sres_inv optD (fst (eval_minmax_args ev b l acc sc)).
  Proof.
    induction 1 as [|x r Hx Hr IH]; intros acc sc Ha Hs; cbn [eval_minmax_args]; [split; assumption|].
    destruct (Hx sc Hs) as [A1 B1]. destruct (ev x sc) as [[v| |k|u] sc1]; cbn [fst snd] in *; try (split; [exact A1|exact I]).
    pose proof (step_minmax_inv b acc v Ha B1) as S.
    destruct (step_minmax b acc v); cbn [fst snd]; try (split; [exact A1|exact S]). now apply IH.
  Qed.


  Lemma finish_bool_good (r : sres bool * scope) :
    DA (snd r) -> sres_inv (fun _ => True) (fst r) -> good (finish_bool r).
  Proof. destruct r as [[b|b|o] sc]; cbn [finish_bool fst snd sres_inv]; intros H Ho; split; cbn [fst snd]; auto; reflexivity. Qed.
  Lemma finish_minmax_good (r : sres (option value) * scope) :
    DA (snd r) -> sres_inv optD (fst r) -> good (finish_minmax r).
  Proof.
    destruct r as [[[v|]|[v|]|o] sc]; cbn [finish_minmax fst snd sres_inv optD]; intros H Ho; split; cbn [fst snd]; auto; exact Logic.I.
  Qed.

  (* evaluate the next argument using its Pb fact; failing outcomes close the goal *)
  Ltac ev_arg Hx Hsc :=
    let A := fresh "A" in let B := fresh "B" in
    destruct (Hx _ Hsc) as [A B];
    match type of A with
    | DA (snd (ev ?x ?s)) =>
        destruct (ev x s) as [[?v| |?k|?u] ?sc1]; cbn [fst snd] in A, B |- *;
        try (split; cbn [fst snd]; [exact A|exact Logic.I])
    end.

  Lemma eval_call_D fn args kws :
    Q fn -> Forall Q args -> gen_free (ECall fn args kws) = true -> forall sc, DA sc -> good (eval_call E ev fn args sc).
  Proof.
    intros [Hf Hdeep] Hargs Hgf sc Hs.
    destruct fn as [c|id|op l|l op r|op x|l rest|a b c|fn0 args0 kws0|obj attr|v s|k elt gens|t v|l|l|l|kd ch];
      try (split; [exact Hs|exact Logic.I]).
    - (* function name *)
      cbn [gen_free] in Hgf.
      (* split on the head of the argument list: a generator written in place, or not *)
      assert (Hcases :
        (exists elt gens rest, args = EComp GeneratorExp elt gens :: rest /\
            Pb elt /\ Forall Pbg gens /\ Forall Pb rest /\
            ((mem (lower id) single_consumers = true /\ rest = []) \/
             (mem (lower id) first_consumers = true /\ (rest = [] \/ exists d, rest = [d])))) \/
        (Forall Pb args /\ forall elt gens rest, args <> EComp GeneratorExp elt gens :: rest)).
      { destruct args as [|a rest]; [right; split; [constructor|intros; discriminate]|].
        inversion Hargs as [|? ? [Ha Hda] Hrest]; subst.
        assert (Generic : forallb gen_free (a :: rest) = true -> (forall elt gens, a <> EComp GeneratorExp elt gens) ->
                          Forall Pb (a :: rest) /\ forall elt gens rest0, a :: rest <> EComp GeneratorExp elt gens :: rest0).
        { intros G N. split; [apply Forall_P_Pb; [constructor; [exact Ha|now apply Forall_Q_P]|exact G]|].
          intros elt gens rest0 Eq. inversion Eq; subst. eapply N; reflexivity. }
        destruct a as [c|id'|op l|l op r|op x|l rest'|a b c|fn0 args0 kws0|obj attr|v s|k elt gens|t v|l|l|l|kd ch];
          try (right; apply Generic; [exact Hgf|intros; discriminate]).
        destruct k; try (right; apply Generic; [exact Hgf|intros; discriminate]).
        left. exists elt, gens, rest. split; [reflexivity|].
        apply andb_true_iff in Hgf. destruct Hgf as [Hgf Hrest']. apply andb_true_iff in Hgf. destruct Hgf as [Hcons Hparts].
        destruct Hda as [He Hg]. destruct (parts_Pb elt gens He Hg Hparts) as [P1 P2].
        split; [exact P1|]. split; [exact P2|]. split; [apply Forall_P_Pb; [now apply Forall_Q_P|exact Hrest']|].
        apply orb_true_iff in Hcons. destruct Hcons as [Hc|Hc]; apply andb_true_iff in Hc; destruct Hc as [Hm Hl].
        - left. split; [exact Hm|]. destruct rest; [reflexivity|discriminate].
        - right. split; [exact Hm|]. destruct rest as [|d [|d2 r]]; [left; reflexivity|right; eexists; reflexivity|discriminate]. }
      clear Hgf Hargs. unfold eval_call.
      destruct Hcases as [[elt [gens [rest [-> [He [Hg [Hrest Hcons]]]]]]]|[Hall Hnog]].
      + (* a generator written in place, consumed by the call *)
        destruct Hcons as [[Hm ->]|[Hm Hr]].
        * cbn [mem single_consumers] in Hm.
          destruct (String.eqb (lower id) "exists") eqn:E1.
          { apply String.eqb_eq in E1. rewrite E1 in Hm. vm_compute in Hm. discriminate. }
          destruct (String.eqb (lower id) "len") eqn:E2.
          { apply String.eqb_eq in E2. rewrite E2 in Hm. vm_compute in Hm. discriminate. }
          destruct (String.eqb (lower id) "sum") eqn:E3.
          { apply String.eqb_eq in E3. rewrite E3 in Hm. vm_compute in Hm. discriminate. }
          destruct (String.eqb (lower id) "any").
          { apply finish_bool_good; cbn [consume]; apply (run_loop_D (fun _ : bool => True) step_any elt gens step_any_inv He Hg false sc Logic.I Hs). }
          destruct (String.eqb (lower id) "all").
          { apply finish_bool_good; cbn [consume]; apply (run_loop_D (fun _ : bool => True) step_all elt gens step_all_inv He Hg true sc Logic.I Hs). }
          destruct (String.eqb (lower id) "next") eqn:E6.
          { apply String.eqb_eq in E6. rewrite E6 in Hm. vm_compute in Hm. discriminate. }
          destruct (String.eqb (lower id) "min").
          { apply finish_minmax_good; cbn [consume]; apply (run_loop_D optD (step_minmax false) elt gens (step_minmax_inv false) He Hg None sc Logic.I Hs). }
          destruct (String.eqb (lower id) "max").
          { apply finish_minmax_good; cbn [consume]; apply (run_loop_D optD (step_minmax true) elt gens (step_minmax_inv true) He Hg None sc Logic.I Hs). }
          cbn in Hm. discriminate.
        * cbn [mem first_consumers] in Hm.
          destruct (String.eqb (lower id) "exists") eqn:E1.
          { apply String.eqb_eq in E1. rewrite E1 in Hm. vm_compute in Hm. discriminate. }
          destruct (String.eqb (lower id) "len") eqn:E2.
          { apply String.eqb_eq in E2. rewrite E2 in Hm. vm_compute in Hm. discriminate. }
          destruct (String.eqb (lower id) "sum").
          { destruct Hr as [->|[d ->]].
            - cbn [is_str]. pose proof (run_loop_D D step_sum elt gens step_sum_inv He Hg (VInt 0) sc eq_refl Hs) as [R1 R2].
              destruct (run_loop ev elt step_sum gens (VInt 0) sc) as [[w|w|o] sc']; cbn [fst snd sres_inv] in *; split; assumption.
            - inversion Hrest as [|? ? Hd _]; subst. ev_arg Hd Hs.
              destruct (is_str v); [split; [exact A|exact Logic.I]|].
              pose proof (run_loop_D D step_sum elt gens step_sum_inv He Hg v sc1 B A) as [R1 R2].
              destruct (run_loop ev elt step_sum gens v sc1) as [[w|w|o] sc']; cbn [fst snd sres_inv] in *; split; assumption. }
          destruct (String.eqb (lower id) "any") eqn:E4.
          { apply String.eqb_eq in E4. rewrite E4 in Hm. vm_compute in Hm. discriminate. }
          destruct (String.eqb (lower id) "all") eqn:E5.
          { apply String.eqb_eq in E5. rewrite E5 in Hm. vm_compute in Hm. discriminate. }
          destruct (String.eqb (lower id) "next").
          { destruct Hr as [->|[d ->]].
            - pose proof (run_loop_D optD step_next elt gens step_next_inv He Hg None sc Logic.I Hs) as [R1 R2].
              destruct (run_loop ev elt step_next gens None sc) as [[[w|]|[w|]|o] sc']; cbn [fst snd sres_inv optD] in *; split; auto; exact Logic.I.
            - inversion Hrest as [|? ? Hd _]; subst. ev_arg Hd Hs.
              pose proof (run_loop_D optD step_next elt gens step_next_inv He Hg None sc1 Logic.I A) as [R1 R2].
              destruct (run_loop ev elt step_next gens None sc1) as [[[w|]|[w|]|o] sc']; cbn [fst snd sres_inv optD] in *; split; auto. }
          cbn in Hm.
          destruct (String.eqb (lower id) "min"); [discriminate|]. destruct (String.eqb (lower id) "max"); discriminate.
      + (* every argument is evaluated to a value first *)
        destruct (String.eqb (lower id) "exists").
        { destruct args as [|a [|b r]]; try (split; [exact Hs|exact Logic.I]).
          inversion Hall as [|? ? Ha _]; subst. ev_arg Ha Hs; split; try exact A; reflexivity. }
        destruct (String.eqb (lower id) "len").
        { destruct args as [|a [|b r]]; try (split; [exact Hs|exact Logic.I]).
          inversion Hall as [|? ? Ha _]; subst. ev_arg Ha Hs. split; [exact A|apply py_len_D]. }
        destruct (String.eqb (lower id) "sum").
        { destruct args as [|a [|b [|c r]]]; try (split; [exact Hs|exact Logic.I]).
          - inversion Hall as [|? ? Ha _]; subst.
            assert (G : good (match ev a sc with
                              | (Val v, sc1) =>
                                  match iter_items v with
                                  | ItNot => (PyErr TypeError, sc1)
                                  | ItGen => (Unmodelled "consume-stored-generator", sc1)
                                  | ItItems items =>
                                      if is_str (VInt 0) then (PyErr TypeError, sc1)
                                      else match (feed step_sum (VInt 0) items, sc1) with
                                           | (SCont v0, sc') | (SStop v0, sc') => (Val v0, sc')
                                           | (SFail o, sc') => (o, sc')
                                           end
                                  end
                              | bad => bad
                              end)).
            { ev_arg Ha Hs. destruct (iter_items v) as [items| |] eqn:Ei; try (split; [exact A|exact Logic.I]).
              cbn [is_str]. pose proof (feed_inv D step_sum step_sum_inv items (VInt 0) (iter_items_D _ _ B Ei) eq_refl) as F.
              destruct (feed step_sum (VInt 0) items); cbn [sres_inv] in F; split; assumption. }
            destruct a; try exact G. destruct k; try exact G. exfalso. eapply Hnog; reflexivity.
          - inversion Hall as [|? ? Ha Hr]; subst. inversion Hr as [|? ? Hb _]; subst.
            assert (G : good (match ev a sc with
                              | (Val v, sc1) =>
                                  match ev b sc1 with
                                  | (Val v0, sc2) =>
                                      match iter_items v with
                                      | ItNot => (PyErr TypeError, sc2)
                                      | ItGen => (Unmodelled "consume-stored-generator", sc2)
                                      | ItItems items =>
                                          if is_str v0 then (PyErr TypeError, sc2)
                                          else match (feed step_sum v0 items, sc2) with
                                               | (SCont v1, sc') | (SStop v1, sc') => (Val v1, sc')
                                               | (SFail o, sc') => (o, sc')
                                               end
                                      end
                                  | bad => bad
                                  end
                              | bad => bad
                              end)).
            { ev_arg Ha Hs. ev_arg Hb A. destruct (iter_items v) as [items| |] eqn:Ei; try (split; [exact A0|exact Logic.I]).
              destruct (is_str v0); [split; [exact A0|exact Logic.I]|].
              pose proof (feed_inv D step_sum step_sum_inv items v0 (iter_items_D _ _ B Ei) B0) as F.
              destruct (feed step_sum v0 items); cbn [sres_inv] in F; split; assumption. }
            destruct a; try exact G. destruct k; try exact G. exfalso. eapply Hnog; reflexivity.
          - destruct a; try destruct k; (split; [exact Hs|exact Logic.I]). }
        destruct (String.eqb (lower id) "any").
        { destruct args as [|a [|b r]]; try (split; [exact Hs|exact Logic.I]).
          inversion Hall as [|? ? Ha _]; subst. apply finish_bool_good;
            apply (consume_D (fun _ : bool => True) step_any false a step_any_inv Ha Logic.I sc Hs); intros elt gens Eq; eapply Hnog; rewrite Eq; reflexivity. }
        destruct (String.eqb (lower id) "all").
        { destruct args as [|a [|b r]]; try (split; [exact Hs|exact Logic.I]).
          inversion Hall as [|? ? Ha _]; subst. apply finish_bool_good;
            apply (consume_D (fun _ : bool => True) step_all true a step_all_inv Ha Logic.I sc Hs); intros elt gens Eq; eapply Hnog; rewrite Eq; reflexivity. }
        destruct (String.eqb (lower id) "next").
        { destruct args as [|a [|b [|c r]]]; try (split; [exact Hs|exact Logic.I]).
          - inversion Hall as [|? ? Ha _]; subst.
            assert (G : good (match ev a sc with
                              | (Val v, sc1) => match v with VGen => (Unmodelled "consume-stored-generator", sc1) | _ => (PyErr TypeError, sc1) end
                              | bad => bad
                              end)).
            { ev_arg Ha Hs. destruct v; split; try exact A; exact Logic.I. }
            destruct a; try exact G. destruct k; try exact G. exfalso. eapply Hnog; reflexivity.
          - inversion Hall as [|? ? Ha Hr]; subst. inversion Hr as [|? ? Hb _]; subst.
            assert (G : good (match ev a sc with
                              | (Val v, sc1) =>
                                  match ev b sc1 with
                                  | (Val _, sc2) => match v with VGen => (Unmodelled "consume-stored-generator", sc2) | _ => (PyErr TypeError, sc2) end
                                  | bad => bad
                                  end
                              | bad => bad
                              end)).
            { ev_arg Ha Hs. ev_arg Hb A. destruct v; split; try exact A0; exact Logic.I. }
            destruct a; try exact G. destruct k; try exact G. exfalso. eapply Hnog; reflexivity.
          - destruct a; try destruct k; (split; [exact Hs|exact Logic.I]). }
        destruct (String.eqb (lower id) "min").
        { destruct args as [|a [|b r]].
          - apply finish_minmax_good; cbn [eval_minmax_args fst snd sres_inv optD]; auto.
          - inversion Hall as [|? ? Ha _]; subst. apply finish_minmax_good;
              apply (consume_D optD (step_minmax false) None a (step_minmax_inv false) Ha Logic.I sc Hs); intros elt gens Eq; eapply Hnog; rewrite Eq; reflexivity.
          - apply finish_minmax_good; apply (eval_minmax_args_D false (a :: b :: r) Hall None sc Logic.I Hs). }
        destruct (String.eqb (lower id) "max").
        { destruct args as [|a [|b r]].
          - apply finish_minmax_good; cbn [eval_minmax_args fst snd sres_inv optD]; auto.
          - inversion Hall as [|? ? Ha _]; subst. apply finish_minmax_good;
              apply (consume_D optD (step_minmax true) None a (step_minmax_inv true) Ha Logic.I sc Hs); intros elt gens Eq; eapply Hnog; rewrite Eq; reflexivity.
          - apply finish_minmax_good; apply (eval_minmax_args_D true (a :: b :: r) Hall None sc Logic.I Hs). }
        destruct (ctx_function E (lower id)) as [fn|] eqn:Ef; [|split; [exact Hs|exact Logic.I]].
        destruct (eval_list_D args Hall sc Hs) as [A1 B1].
        destruct (eval_list ev args sc) as [[vs|o] sc1]; cbn [fst snd] in *; split; try exact A1; try exact B1.
        eapply ctx_function_D; eassumption.
    - (* method call on a string *)
      cbn [gen_free] in Hgf. apply andb_true_iff in Hgf. destruct Hgf as [Hgo Hga].
      cbn [deep] in Hdeep. specialize (Hdeep Hgo).
      pose proof (Forall_P_Pb args (Forall_Q_P _ Hargs) Hga) as Hall.
      unfold eval_call. ev_arg Hdeep Hs.
      destruct v; try (split; [exact A|exact Logic.I]).
      destruct (str_method_arity (lower attr)) as [[|n]|]; try (split; [exact A|exact Logic.I]).
      + split; [exact A|apply str_method_D].
      + destruct (Nat.eqb (length args) (S n)); [|split; [exact A|exact Logic.I]].
        destruct (eval_list_D args Hall sc1 A) as [A1 B1].
        destruct (eval_list ev args sc1) as [[vs|o] sc2]; cbn [fst snd] in *; split; try exact A1; try exact B1.
        apply str_method_D.
  Qed.

  Lemma eval_attribute_D v attr : P v -> gen_free v = true -> forall sc, DA sc -> good (eval_attribute E ev v attr sc).
  Proof.
    intros Hv Hgf sc Hs. specialize (Hv Hgf).
    assert (G : good (match ev v sc with
                      | (Val (VDict d), sc1) => (match dict_get d (lower attr) with Some x => Val x | None => ExprErr end, sc1)
                      | (Val _, sc1) => (ExprErr, sc1)
                      | bad => bad
                      end)).
    { ev_arg Hv Hs. destruct v0; try (split; [exact A|exact Logic.I]).
      destruct (dict_get d (lower attr)) eqn:Eg; split; try exact A; try exact Logic.I.
      cbn. eapply dict_get_D; [apply D_dict; exact B|exact Eg]. }
    unfold eval_attribute. destruct v; try exact G.
    destruct (String.eqb (lower id) "txn"); [split; [exact Hs|apply txn_attr_D]|].
    destruct (String.eqb (lower id) "field"); [split; [exact Hs|apply field_attr_D]|]. exact G.
  Qed.

  Lemma data_Q : forall e, Q e.
  Proof.
    apply pyast_ind2; unfold Q, P.
    - intros c. split; [|exact Logic.I]. intros _ sc Hs. cbn [eval]. apply good_wrap. split; [exact Hs|].
      destruct c; cbn; try exact Logic.I; reflexivity.
    - intros id. split; [|exact Logic.I]. intros _ sc Hs. cbn [eval]. apply good_wrap. split; [exact Hs|now apply lookup_name_D].
    - intros op l Hl. split; [|exact Logic.I]. intros Hgf sc Hs. cbn [eval]. apply good_wrap.
      apply eval_boolop_D; [|exact Hs]. apply Forall_P_Pb; [now apply Forall_Q_P|exact Hgf].
    - intros l op r [Hl _] [Hr _]. split; [|exact Logic.I]. intros Hgf sc Hs. cbn [gen_free] in Hgf.
      apply andb_true_iff in Hgf. destruct Hgf as [G1 G2]. specialize (Hl G1). specialize (Hr G2).
      cbn [eval]. apply good_wrap. ev_arg Hl Hs. ev_arg Hr A. split; [exact A0|now apply binop_apply_D].
    - intros op x [Hx _]. split; [|exact Logic.I]. intros Hgf sc Hs. specialize (Hx Hgf).
      cbn [eval]. apply good_wrap. ev_arg Hx Hs. split; [exact A|apply unop_apply_D].
    - intros l rest [Hl _] Hrest. split; [|exact Logic.I]. intros Hgf sc Hs. cbn [gen_free] in Hgf.
      apply andb_true_iff in Hgf. destruct Hgf as [G1 G2]. specialize (Hl G1).
      cbn [eval]. apply good_wrap. ev_arg Hl Hs. apply eval_compare_D; [|exact A].
      clear - Hrest G2. induction Hrest as [|[o x] r [Hx _] Hr IH]; [constructor|].
      cbn [forallb snd] in G2. apply andb_true_iff in G2. destruct G2 as [G3 G4]. constructor; [now apply Hx|now apply IH].
    - intros a b c [Ha _] [Hb _] [Hc _]. split; [|exact Logic.I]. intros Hgf sc Hs. cbn [gen_free] in Hgf.
      apply andb_true_iff in Hgf. destruct Hgf as [G12 G3]. apply andb_true_iff in G12. destruct G12 as [G1 G2].
      specialize (Ha G1). specialize (Hb G2). specialize (Hc G3).
      cbn [eval]. apply good_wrap. ev_arg Ha Hs. destruct (truthy v); [now apply Hb|now apply Hc].
    - intros fn args kws Hfn Hargs _. split; [|exact Logic.I]. intros Hgf sc Hs.
      cbn [eval]. apply good_wrap. now apply (eval_call_D fn args kws Hfn Hargs Hgf).
    - intros v a [Hv _]. split; [|exact Hv]. intros Hgf sc Hs. cbn [gen_free] in Hgf.
      cbn [eval]. apply good_wrap. now apply eval_attribute_D.
    - intros v s0 [Hv _] [Hs0 _]. split; [|exact Logic.I]. intros Hgf sc Hs. cbn [gen_free] in Hgf.
      apply andb_true_iff in Hgf. destruct Hgf as [G1 G2]. specialize (Hv G1). specialize (Hs0 G2).
      cbn [eval]. apply good_wrap. ev_arg Hv Hs. ev_arg Hs0 A. split; [exact A0|now apply py_subscript_D].
    - intros k elt gens [He _] Hg.
      assert (HG : Forall (fun g : comp => (gen_free (snd (fst g)) = true -> Pb (snd (fst g))) /\
                                           Forall (fun e => gen_free e = true -> Pb e) (snd g)) gens).
      { eapply Forall_impl; [|exact Hg]. intros [[t it] ifs] [_ [[Hit _] Hifs]]. split; [exact Hit|].
        cbn [snd]. eapply Forall_impl; [|exact Hifs]. intros a [H _]. exact H. }
      split; [|split; assumption]. intros Hgf sc Hs. destruct k; cbn [gen_free] in Hgf; try discriminate.
      + destruct (parts_Pb elt gens He HG Hgf) as [P1 P2].
        cbn [eval]. apply good_wrap.
        pose proof (run_loop_D DL step_list elt gens step_list_inv P1 P2 [] sc (Forall_nil _) Hs) as [R1 R2].
        destruct (run_loop ev elt step_list gens [] sc) as [[acc|acc|o] sc1]; cbn [fst snd sres_inv] in *; split; try exact R1; try exact R2.
        * cbn. apply D_list. now apply DL_rev.
        * cbn. apply D_list. now apply DL_rev.
      + cbn [eval]. apply good_wrap. split; [exact Hs|exact Logic.I].
    - intros t v [Ht _] [Hv _]. split; [|exact Logic.I]. intros Hgf sc Hs. cbn [gen_free] in Hgf. specialize (Hv Hgf).
      cbn [eval]. apply good_wrap. ev_arg Hv Hs. destruct t; try (split; [exact A|exact Logic.I]).
      split; [now apply sset_D|exact B].
    - intros l _. split; [|exact Logic.I]. intros _ sc Hs. cbn [eval]. apply good_wrap. split; [exact Hs|exact Logic.I].
    - intros l _. split; [|exact Logic.I]. intros _ sc Hs. cbn [eval]. apply good_wrap. split; [exact Hs|exact Logic.I].
    - intros l _. split; [|exact Logic.I]. intros _ sc Hs. cbn [eval]. apply good_wrap. split; [exact Hs|exact Logic.I].
    - intros k ch _. split; [|exact Logic.I]. intros _ sc Hs. cbn [eval]. apply good_wrap. split; [exact Hs|exact Logic.I].
  Qed.

  (* a generator-free expression, evaluated in a data environment from a data scope, yields data and leaves
     a data scope (whatever the outcome) *)
  Theorem generator_free_yields_data e sc :
    gen_free e = true -> DA sc -> DA (snd (ev e sc)) /\ data_out (fst (ev e sc)).
  Proof. intros Hg Hs. exact (proj1 (data_Q e) Hg sc Hs). Qed.
End DataEval.

(* by construction of the value type: what is not data contains a generator object, nothing else *)
Lemma non_data_contains_generator v : is_data v = false -> has_gen v = true.
Proof.
  revert v. fix IH 1. intros v. destruct v; cbn [is_data has_gen]; try discriminate; try reflexivity.
  - induction l as [|x r IHl]; [discriminate|]. intros H. apply andb_false_iff in H. destruct H as [H|H].
    + rewrite (IH x H). reflexivity.
    + rewrite (IHl H). apply orb_true_r.
  - induction d as [|[k x] r IHd]; [discriminate|]. intros H. apply andb_false_iff in H. destruct H as [H|H].
    + rewrite (IH x H). reflexivity.
    + rewrite (IHd H). apply orb_true_r.
Qed.
