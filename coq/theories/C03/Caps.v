(* C03/Caps.v — what the model of the evaluators knows to be confined: the predicate the
   capability table extracted from expr_parser.py (Gen/C03Caps.v) must satisfy. A new import, a
   new builtin call, a getattr on an operand value, a dunder attribute, a new AST node class … is
   outside these tables and breaks the obligation in C03/Props.v. *)
From Coq Require Import String List Bool.
From Tally Require Import Lib.Str.
Import ListNotations.
Open Scope string_scope.

Definition safe_imports : list string :=
  ["ast"; "re"; "statistics"; "warnings"; "datetime.date"; "difflib.SequenceMatcher";
   "typing.Any"; "typing.Callable"; "typing.Dict"; "typing.List"; "typing.Optional"; "typing.Set"; "typing.Union";
   "typing.Tuple"; "typing.Iterable"].

(* modules whose functions the evaluator code may call (none of them does I/O or runs code) *)
Definition safe_modules : list string := ["ast"; "re"; "statistics"; "warnings"; "date_type"; "math"].
(* … except these attributes *)
Definition unsafe_module_attrs : list string := ["literal_eval"; "compile"].
Definition safe_module_call (m a : string) : bool :=
  (mem m safe_modules && (negb (mem a unsafe_module_attrs) || String.eqb m "re"))%bool.

(* pure builtins *)
Definition safe_builtins : list string :=
  ["abs"; "all"; "any"; "bool"; "dict"; "enumerate"; "filter"; "float"; "frozenset"; "int"; "isinstance";
   "issubclass"; "iter"; "len"; "list"; "map"; "max"; "min"; "next"; "range"; "repr"; "reversed"; "round";
   "set"; "sorted"; "str"; "sum"; "tuple"; "zip"; "type"; "divmod"; "pow"].

(* methods that may be called on operand-derived values: str / list / dict / set / Match /
   SequenceMatcher / date data methods. No dunder, no format/format_map, nothing that runs code. *)
Definition safe_value_methods : list string :=
  ["add"; "append"; "endswith"; "evaluate"; "extend"; "from_transaction"; "get"; "group"; "groups"; "join";
   "keys"; "lower"; "ratio"; "replace"; "search"; "setdefault"; "split"; "startswith"; "strftime"; "strip";
   "upper"; "values"; "weekday"; "items"; "pop"; "update"; "count"; "find"; "index"; "isdigit"; "isalpha";
   "lstrip"; "rstrip"; "title"; "casefold"; "match"; "fullmatch"; "sub"; "findall"; "copy"; "sort";
   "isoformat"; "fromisoformat"; "total_seconds"; "splitlines"; "partition"; "rpartition"; "zfill"; "insert";
   "remove"; "discard"; "union"; "intersection"; "difference"; "isocalendar"; "date"; "capitalize"; "swapcase";
   "removeprefix"; "removesuffix"; "rsplit"; "isspace"; "isupper"; "islower"; "isalnum"; "isnumeric";
   "toordinal"; "start"; "end"; "span"].

(* classes imported from the safe modules that the code instantiates *)
Definition safe_imported_callables : list string := ["SequenceMatcher"; "date_type"].

(* in-place mutation is only known to be safe on containers the function created itself: the sites are
   enumerated (enclosing function, method, receiver); any other mutating call on a value is outside the set *)
Definition safe_mutator_sites : list (string * string * string) :=
  [("ExpressionContext.get_months", "add", "months"); ("ExpressionContext.get_tags", "add", "tags");
   ("ExpressionContext.get_by", "append", "groups.setdefault(key, [])"); ("ExpressionContext.get_by", "setdefault", "groups");
   ("TransactionEvaluator._eval_Attribute", "extend", "available");
   ("TransactionEvaluator._eval_comprehension_loop", "append", "result")].
Definition triple_eqb (x y : string * string * string) : bool :=
  let '(a, b, c) := x in let '(d, e, f) := y in (String.eqb a d && String.eqb b e && String.eqb c f)%bool.

Definition safe_local_sources : list string :=
  ["localdef"; "from:self.ctx.get_function"; "from:self.functions.get"].

Definition starts_with (p s : string) : bool := String.eqb p (substring 0 (String.length p) s).

Definition safe_getattr_recv (r : string) : bool := mem r ["self"; "self.ctx"].
Definition safe_getattr_name (n : string) : bool :=
  (starts_with "const:" n && negb (starts_with "const:__" n)
   || String.eqb n "prefix:_eval_" || String.eqb n "prefix:_fn_")%bool.

Definition safe_cap (defined : list string) (c : string * string * string * string) : bool :=
  let '(kind, where_, a, b) := c in
  if String.eqb kind "call_module" then safe_module_call a b
  else if String.eqb kind "call_global" then (mem a safe_builtins || mem a defined || mem a safe_imported_callables)%bool
  else if String.eqb kind "call_local" then (mem b safe_local_sources || (String.eqb a "cls" && String.eqb b "param"))%bool
  else if String.eqb kind "call_self" then negb (starts_with "__" b)
  else if String.eqb kind "call_value_attr" then mem a safe_value_methods
  else if String.eqb kind "mutator_call" then existsb (triple_eqb (where_, a, b)) safe_mutator_sites
  else if String.eqb kind "getattr" then (safe_getattr_recv a && safe_getattr_name b)%bool
  else if String.eqb kind "hasattr" then (safe_getattr_recv a && safe_getattr_name b)%bool
  else if String.eqb kind "call_expr" then (String.eqb a "Call" && starts_with "Call(func=Name(id='getattr'" b)%bool
  else if String.eqb kind "dunder_attr" then String.eqb a "__name__"
  else false.  (* setattr, delattr, call_toplevel, unclassified, anything new *)

(* AST node classes the evaluator model covers (Expr/Syntax.v has a constructor for each);
   a node class outside this list in ALLOWED_NODES or with an _eval_ method is not modelled. *)
Definition modelled_nodes : list string :=
  ["Expression"; "BoolOp"; "BinOp"; "UnaryOp"; "Compare"; "Call"; "IfExp"; "And"; "Or"; "Not"; "Add"; "Sub";
   "Mult"; "Div"; "Mod"; "USub"; "Eq"; "NotEq"; "Lt"; "LtE"; "Gt"; "GtE"; "In"; "NotIn"; "Constant"; "Name";
   "Load"; "Store"; "Attribute"; "ListComp"; "comprehension"; "GeneratorExp"; "Subscript"; "Index"; "NamedExpr"].

Definition safe_str_methods : list string := ["lower"; "upper"; "strip"; "startswith"; "endswith"; "replace"].

Definition model_function_names : list string :=
  ["abs"; "anyof"; "contains"; "extract"; "fuzzy"; "lowercase"; "normalized"; "regex"; "regex_replace"; "round";
   "split"; "startswith"; "strip_prefix"; "strip_suffix"; "substring"; "trim"; "uppercase"].

Definition incl_b (a b : list string) : bool := forallb (fun x => mem x b) a.

Lemma incl_b_spec a b : incl_b a b = true -> forall x, In x a -> In x b.
Proof.
  unfold incl_b. intros H x Hx. rewrite forallb_forall in H. apply mem_In. now apply H.
Qed.
