(* C03/ValueFrame.v — the frame of an evaluation.  eval returns an outcome and a scope and nothing else (the
   transaction, the user variables, the supplemental tables and the AST are not part of what it can return);
   in the scope it can only touch the names that the expression itself binds: := targets and comprehension
   loop variables (lower-cased). *)
From Coq Require Import String Ascii List Bool ZArith QArith Lia.
From Tally Require Import Lib.Str Expr.StrOps Expr.Date Expr.Syntax Expr.Funcs Expr.Eval C04.Proofs C04.NameCase.
Import ListNotations.
Open Scope string_scope.

Definition target_name (t : pyast) : list string := match t with EName id => [lower id] | _ => [] end.

Fixpoint binders (e : pyast) : list string :=
  match e with
  | EConst _ | EName _ => []
  | EBoolOp _ l => flat_map binders l
  | EBinOp l _ r => binders l ++ binders r
  | EUnaryOp _ x => binders x
  | ECompare l rest => binders l ++ flat_map (fun p : cmpop * pyast => binders (snd p)) rest
  | EIfExp a b c => binders a ++ binders b ++ binders c
  | ECall fn args _ => binders fn ++ flat_map binders args
  | EAttribute v _ => binders v
  | ESubscript v s => binders v ++ binders s
  | EComp _ elt gens =>
      binders elt ++
      flat_map (fun g : comp => target_name (fst (fst g)) ++ binders (snd (fst g)) ++ flat_map binders (snd g)) gens
  | ENamedExpr t v => target_name t ++ binders v
  | EList _ | ETuple _ | ESet _ | EOther _ _ => []
  end%list.

Lemma sget_sset_other sc k k' v : k <> k' -> sget (sset sc k' v) k = sget sc k.
Proof.
  intros Hne. induction sc as [|[k2 v2] r IH]; cbn [sset sget].
  - destruct (String.eqb_spec k k'); [contradiction|reflexivity].
  - destruct (String.eqb_spec k' k2) as [->|Hk]; cbn [sget].
    + destruct (String.eqb_spec k k2); [contradiction|reflexivity].
    + destruct (String.eqb k k2); [reflexivity|exact IH].
Qed.
Lemma sget_sdel_other sc k k' : k <> k' -> sget (sdel sc k') k = sget sc k.
Proof.
  intros Hne. induction sc as [|[k2 v2] r IH]; cbn [sdel sget]; [reflexivity|].
  destruct (String.eqb_spec k' k2) as [->|Hk]; cbn [sget].
  - destruct (String.eqb_spec k k2); [contradiction|reflexivity].
  - destruct (String.eqb k k2); [reflexivity|exact IH].
Qed.
Lemma sget_restore_other sc k var old : k <> var -> sget (restore var old sc) k = sget sc k.
Proof.
  intros Hne. unfold restore. destruct old as [v|]; [|now apply sget_sdel_other].
  destruct v; try (now apply sget_sset_other). now apply sget_sdel_other.
Qed.

Section Frame.
  Variable E : env.
  Variable k : string.
  Notation ev := (eval E).

  Definition Fb (e : pyast) : Prop := forall sc, sget (snd (ev e sc)) k = sget sc k.
  Definition F (e : pyast) : Prop := ~ List.In k (binders e) -> Fb e.
  Definition Fg (g : comp) : Prop :=
    (forall id, fst (fst g) = EName id -> lower id <> k) /\ Fb (snd (fst g)) /\ Forall Fb (snd g).

  Lemma not_in_flat {A} (f : A -> list string) l : ~ List.In k (flat_map f l) -> Forall (fun x => ~ List.In k (f x)) l.
  Proof.
    induction l as [|x r IH]; cbn [flat_map]; intros H; constructor.
    - intros Hx. apply H. apply in_or_app. now left.
    - apply IH. intros Hx. apply H. apply in_or_app. now right.
  Qed.
  Lemma Forall_F_Fb l : Forall F l -> ~ List.In k (flat_map binders l) -> Forall Fb l.
  Proof.
    intros HF Hn. apply not_in_flat in Hn. induction HF as [|x r Hx Hr IH]; [constructor|].
    inversion Hn; subst. constructor; [now apply Hx|now apply IH].
  Qed.

  Lemma eval_list_F l : Forall Fb l -> forall sc, sget (snd (eval_list ev l sc)) k = sget sc k.
  Proof.
    induction 1 as [|x r Hx Hr IH]; intros sc; cbn [eval_list]; [reflexivity|].
    pose proof (Hx sc) as H1. destruct (ev x sc) as [[v| |e|u] sc1]; cbn [fst snd] in *; try exact H1.
    pose proof (IH sc1) as H2. destruct (eval_list ev r sc1) as [[vs|o] sc2]; cbn [fst snd] in *; congruence.
  Qed.
  Lemma eval_boolop_F op l : Forall Fb l -> forall sc, sget (snd (eval_boolop ev op l sc)) k = sget sc k.
  Proof.
    induction 1 as [|x r Hx Hr IH]; intros sc; cbn [eval_boolop]; [reflexivity|].
    pose proof (Hx sc) as H1. destruct (ev x sc) as [[v| |e|u] sc1]; cbn [fst snd] in *; try exact H1.
    destruct op; destruct (truthy v); cbn [snd]; try exact H1; rewrite IH; exact H1.
  Qed.
  Lemma eval_compare_F rest : Forall (fun p : cmpop * pyast => Fb (snd p)) rest ->
    forall lv sc, sget (snd (eval_compare ev rest lv sc)) k = sget sc k.
  Proof.
    induction 1 as [|[o x] r Hx Hr IH]; intros lv sc; cbn [eval_compare]; [reflexivity|].
    cbn [snd] in Hx. pose proof (Hx sc) as H1. destruct (ev x sc) as [[v| |e|u] sc1]; cbn [fst snd] in *; try exact H1.
    destruct (compare_link o lv v) as [w| |e|u]; cbn [snd]; try exact H1.
    destruct (truthy w); cbn [snd]; [rewrite IH|]; exact H1.
  Qed.
  Lemma eval_ifs_F l : Forall Fb l -> forall sc, sget (snd (eval_ifs ev l sc)) k = sget sc k.
  Proof.
    induction 1 as [|x r Hx Hr IH]; intros sc; cbn [eval_ifs]; [reflexivity|].
    pose proof (Hx sc) as H1. destruct (ev x sc) as [[v| |e|u] sc1]; cbn [fst snd] in *; try exact H1.
    destruct (truthy v); cbn [snd]; [rewrite IH|]; exact H1.
  Qed.

  Lemma run_loop_F {A} (step : A -> value -> sres A) elt gens :
    Fb elt -> Forall Fg gens -> forall acc sc, sget (snd (run_loop ev elt step gens acc sc)) k = sget sc k.
  Proof.
    intros Helt Hg. induction Hg as [|[[t it] ifs] rest [Ht [Hit Hifs]] Hrest IH]; intros acc sc; cbn [run_loop].
    - pose proof (Helt sc) as H1. destruct (ev elt sc) as [[v| |e|u] sc1]; cbn [fst snd] in *; exact H1.
    - cbn [fst snd] in Ht, Hit, Hifs. pose proof (Hit sc) as H1.
      destruct (ev it sc) as [[itv| |e|u] sc1]; cbn [fst snd] in *; try exact H1.
      destruct t; cbn [snd]; try exact H1.
      assert (Hne : k <> lower id) by (intros ->; now apply (Ht id eq_refl)).
      destruct (iter_items itv) as [items| |]; cbn [snd]; try exact H1.
      rewrite <- H1. clear H1. revert acc sc1. induction items as [|x more IHi]; intros acc sc1; [reflexivity|].
      pose proof (eval_ifs_F ifs Hifs (sset sc1 (lower id) x)) as H3. rewrite (sget_sset_other sc1 k (lower id) x Hne) in H3.
      destruct (eval_ifs ev ifs (sset sc1 (lower id) x)) as [[[|]|o] sc3]; cbn [fst snd] in *.
      + pose proof (IH acc sc3) as H4.
        destruct (run_loop ev elt step rest acc sc3) as [[a'|a'|o] sc4]; cbn [fst snd] in *; try congruence.
        rewrite IHi. rewrite sget_restore_other by exact Hne. congruence.
      + rewrite IHi. rewrite sget_restore_other by exact Hne. exact H3.
      + exact H3.
  Qed.

  Definition deep (e : pyast) : Prop :=
    match e with
    | EAttribute obj _ => F obj
    | EComp _ elt gens => F elt /\ Forall (fun g : comp => F (snd (fst g)) /\ Forall F (snd g)) gens
    | _ => True
    end.
  Definition Q (e : pyast) : Prop := F e /\ deep e.
  Lemma Forall_Q_F l : Forall Q l -> Forall F l.
  Proof. apply Forall_impl. intros a [H _]. exact H. Qed.

  Lemma parts_F elt gens :
    F elt -> Forall (fun g : comp => F (snd (fst g)) /\ Forall F (snd g)) gens ->
    ~ List.In k (binders elt ++ flat_map (fun g : comp => target_name (fst (fst g)) ++ binders (snd (fst g)) ++ flat_map binders (snd g)) gens)%list ->
    Fb elt /\ Forall Fg gens.
  Proof.
    intros He Hg Hn. split; [apply He; intros H; apply Hn; apply in_or_app; now left|].
    assert (Hn2 : ~ List.In k (flat_map (fun g : comp => target_name (fst (fst g)) ++ binders (snd (fst g)) ++ flat_map binders (snd g))%list gens))
      by (intros H; apply Hn; apply in_or_app; now right).
    clear Hn He. apply not_in_flat in Hn2.
    induction Hg as [|[[t it] ifs] r [Hgi Hgf] Hr IH]; [constructor|].
    inversion Hn2 as [|? ? Hx Hxr]; subst. cbn [fst snd] in *. constructor; [|now apply IH].
    split; [|split].
    - intros id Heq Hk. cbn [fst] in Heq. subst t. apply Hx. apply in_or_app. left. cbn [target_name]. left. exact Hk.
    - apply Hgi. intros H. apply Hx. apply in_or_app. right. apply in_or_app. now left.
    - apply Forall_F_Fb; [exact Hgf|]. intros H. apply Hx. apply in_or_app. right. apply in_or_app. now right.
  Qed.

  Lemma consume_F {A} (step : A -> value -> sres A) acc arg :
    Q arg -> ~ List.In k (binders arg) -> forall sc, sget (snd (consume ev step acc arg sc)) k = sget sc k.
  Proof.
    intros [Ha Hd] Hn sc. pose proof (Ha Hn) as Hb.
    assert (G : sget (snd (match ev arg sc with
                           | (Val v, sc1) => match iter_items v with
                                             | ItItems items => (feed step acc items, sc1)
                                             | ItGen => (SFail (Unmodelled "consume-stored-generator"), sc1)
                                             | ItNot => (SFail (PyErr TypeError), sc1)
                                             end
                           | (o, sc1) => (SFail o, sc1)
                           end)) k = sget sc k).
    { pose proof (Hb sc) as H1. destruct (ev arg sc) as [[v| |e|u] sc1]; cbn [fst snd] in *; try exact H1.
      destruct (iter_items v); exact H1. }
    destruct arg as [c|id|op l|l op r|op x|l rest|a b c|fn args kws|obj attr|v s|kk elt gens|t v|l|l|l|kd ch]; try exact G.
    destruct kk; try exact G.
    cbn [consume]. cbn [deep] in Hd. destruct Hd as [He Hg]. cbn [binders] in Hn.
    destruct (parts_F elt gens He Hg Hn) as [P1 P2]. now apply run_loop_F.
  Qed.

  Lemma eval_minmax_args_F b l : Forall Fb l -> forall acc sc, sget (snd (eval_minmax_args ev b l acc sc)) k = sget sc k.
  Proof.
    induction 1 as [|x r Hx Hr IH]; intros acc sc; cbn [eval_minmax_args]; [reflexivity|].
    pose proof (Hx sc) as H1. destruct (ev x sc) as [[v| |e|u] sc1]; cbn [fst snd] in *; try exact H1.
    destruct (step_minmax b acc v); cbn [snd]; try exact H1. rewrite IH. exact H1.
  Qed.

  Lemma snd_finish_bool r : snd (finish_bool r) = snd r.
  Proof. destruct r as [[b|b|o] sc]; reflexivity. Qed.
  Lemma snd_finish_minmax r : snd (finish_minmax r) = snd r.
  Proof. destruct r as [[[v|]|[v|]|o] sc]; reflexivity. Qed.

  Lemma eval_attribute_F v attr : F v -> ~ List.In k (binders v) -> forall sc, sget (snd (eval_attribute E ev v attr sc)) k = sget sc k.
  Proof.
    intros Hv Hn sc. specialize (Hv Hn).
    assert (G : sget (snd (match ev v sc with
                           | (Val (VDict d), sc1) => (match dict_get d (lower attr) with Some x => Val x | None => ExprErr end, sc1)
                           | (Val _, sc1) => (ExprErr, sc1)
                           | bad => bad
                           end)) k = sget sc k).
    { pose proof (Hv sc) as H1. destruct (ev v sc) as [[w| |e|u] sc1]; cbn [fst snd] in *; try exact H1. destruct w; exact H1. }
    unfold eval_attribute. destruct v; try exact G.
    destruct (String.eqb (lower id) "txn"); [reflexivity|]. destruct (String.eqb (lower id) "field"); [reflexivity|exact G].
  Qed.

  (* thread the k-lookup through one more evaluated argument *)
  Ltac ev_k Hx :=
    match goal with
    | |- context [ev ?x ?s] =>
        let H1 := fresh "H" in
        pose proof (Hx s) as H1; destruct (ev x s) as [[?v| |?e|?u] ?sc1]; cbn [fst snd] in H1 |- *; try exact H1; try congruence
    end.

  Lemma eval_call_F fn args kws :
    Q fn -> Forall Q args -> ~ List.In k (binders (ECall fn args kws)) ->
    forall sc, sget (snd (eval_call E ev fn args sc)) k = sget sc k.
  Proof.
    intros [Hf Hdeep] Hargs Hn sc. cbn [binders] in Hn.
    assert (Hnf : ~ List.In k (binders fn)) by (intros H; apply Hn; apply in_or_app; now left).
    assert (Hna : ~ List.In k (flat_map binders args)) by (intros H; apply Hn; apply in_or_app; now right).
    pose proof (Forall_F_Fb args (Forall_Q_F _ Hargs) Hna) as Hall.
    pose proof (not_in_flat binders args Hna) as Hnas.
    destruct fn as [c|id|op l|l op r|op x|l rest|a b c|fn0 args0 kws0|obj attr|v s|kk elt gens|t v|l|l|l|kd ch];
      try reflexivity.
    - unfold eval_call.
      destruct (String.eqb (lower id) "exists").
      { destruct args as [|a [|b r]]; try reflexivity. inversion Hall as [|? ? Ha _]; subst. ev_k Ha. }
      destruct (String.eqb (lower id) "len").
      { destruct args as [|a [|b r]]; try reflexivity. inversion Hall as [|? ? Ha _]; subst. ev_k Ha. }
      destruct (String.eqb (lower id) "sum").
      { destruct args as [|a [|b [|c r]]]; try reflexivity.
        - inversion Hall as [|? ? Ha _]; subst. inversion Hargs as [|? ? [_ Hda] _]; subst. inversion Hnas as [|? ? Hka _]; subst.
          assert (G : sget (snd (match ev a sc with
                                 | (Val v, sc1) =>
                                     match iter_items v with
                                     | ItNot => (PyErr TypeError, sc1)
                                     | ItGen => (Unmodelled "consume-stored-generator", sc1)
                                     | ItItems items =>
                                         if is_str (VInt 0) then (PyErr TypeError, sc1)
                                         else match (feed step_sum (VInt 0) items, sc1) with
                                              | (SCont v0, sc') | (SStop v0, sc') => (Val v0, sc')
                                              | (SFail o, sc') => (o, sc')
                                              end
                                     end
                                 | bad => bad
                                 end)) k = sget sc k).
          { ev_k Ha. destruct (iter_items v); try exact H. cbn [is_str]. destruct (feed step_sum (VInt 0) l); exact H. }
          destruct a as [c|id'|op l|l op r|op x|l rest|a b c|fn0 args0 kws0|obj attr|v s|kk elt gens|t v|l|l|l|kd ch]; try exact G.
          destruct kk; try exact G.
          cbn [deep] in Hda. destruct Hda as [He Hg]. cbn [binders] in Hka. destruct (parts_F elt gens He Hg Hka) as [P1 P2].
          cbn [is_str]. pose proof (run_loop_F step_sum elt gens P1 P2 (VInt 0) sc) as R.
          destruct (run_loop ev elt step_sum gens (VInt 0) sc) as [[w|w|o] sc']; exact R.
        - inversion Hall as [|? ? Ha Hr]; subst. inversion Hr as [|? ? Hb _]; subst.
          inversion Hargs as [|? ? [_ Hda] _]; subst. inversion Hnas as [|? ? Hka _]; subst.
          assert (G : sget (snd (match ev a sc with
                                 | (Val v, sc1) =>
                                     match ev b sc1 with
                                     | (Val v0, sc2) =>
                                         match iter_items v with
                                         | ItNot => (PyErr TypeError, sc2)
                                         | ItGen => (Unmodelled "consume-stored-generator", sc2)
                                         | ItItems items =>
                                             if is_str v0 then (PyErr TypeError, sc2)
                                             else match (feed step_sum v0 items, sc2) with
                                                  | (SCont v1, sc') | (SStop v1, sc') => (Val v1, sc')
                                                  | (SFail o, sc') => (o, sc')
                                                  end
                                         end
                                     | bad => bad
                                     end
                                 | bad => bad
                                 end)) k = sget sc k).
          { ev_k Ha. ev_k Hb. destruct (iter_items v); cbn [snd]; try congruence. destruct (is_str v0); [cbn [snd]; congruence|].
            destruct (feed step_sum v0 l); cbn [snd]; congruence. }
          destruct a as [c|id'|op l|l op r|op x|l rest|a b0 c|fn0 args0 kws0|obj attr|v s|kk elt gens|t v|l|l|l|kd ch]; try exact G.
          destruct kk; try exact G.
          cbn [deep] in Hda. destruct Hda as [He Hg]. cbn [binders] in Hka. destruct (parts_F elt gens He Hg Hka) as [P1 P2].
          ev_k Hb. destruct (is_str v); [exact H|].
          pose proof (run_loop_F step_sum elt gens P1 P2 v sc1) as R.
          destruct (run_loop ev elt step_sum gens v sc1) as [[w|w|o] sc']; cbn [snd] in *; congruence.
        - destruct a; try destruct k0; reflexivity. }
      destruct (String.eqb (lower id) "any").
      { destruct args as [|a [|b r]]; try reflexivity. inversion Hargs as [|? ? Ha _]; subst. inversion Hnas as [|? ? Hka _]; subst.
        rewrite snd_finish_bool. now apply consume_F. }
      destruct (String.eqb (lower id) "all").
      { destruct args as [|a [|b r]]; try reflexivity. inversion Hargs as [|? ? Ha _]; subst. inversion Hnas as [|? ? Hka _]; subst.
        rewrite snd_finish_bool. now apply consume_F. }
      destruct (String.eqb (lower id) "next").
      { destruct args as [|a [|b [|c r]]]; try reflexivity.
        - inversion Hall as [|? ? Ha _]; subst. inversion Hargs as [|? ? [_ Hda] _]; subst. inversion Hnas as [|? ? Hka _]; subst.
          assert (G : sget (snd (match ev a sc with
                                 | (Val v, sc1) => match v with VGen => (Unmodelled "consume-stored-generator", sc1) | _ => (PyErr TypeError, sc1) end
                                 | bad => bad
                                 end)) k = sget sc k).
          { ev_k Ha. destruct v; exact H. }
          destruct a as [c|id'|op l|l op r|op x|l rest|a b c|fn0 args0 kws0|obj attr|v s|kk elt gens|t v|l|l|l|kd ch]; try exact G.
          destruct kk; try exact G.
          cbn [deep] in Hda. destruct Hda as [He Hg]. cbn [binders] in Hka. destruct (parts_F elt gens He Hg Hka) as [P1 P2].
          pose proof (run_loop_F step_next elt gens P1 P2 None sc) as R.
          destruct (run_loop ev elt step_next gens None sc) as [[[w|]|[w|]|o] sc']; exact R.
        - inversion Hall as [|? ? Ha Hr]; subst. inversion Hr as [|? ? Hb _]; subst.
          inversion Hargs as [|? ? [_ Hda] _]; subst. inversion Hnas as [|? ? Hka _]; subst.
          assert (G : sget (snd (match ev a sc with
                                 | (Val v, sc1) =>
                                     match ev b sc1 with
                                     | (Val _, sc2) => match v with VGen => (Unmodelled "consume-stored-generator", sc2) | _ => (PyErr TypeError, sc2) end
                                     | bad => bad
                                     end
                                 | bad => bad
                                 end)) k = sget sc k).
          { ev_k Ha. ev_k Hb. destruct v; cbn [snd]; congruence. }
          destruct a as [c|id'|op l|l op r|op x|l rest|a b0 c|fn0 args0 kws0|obj attr|v s|kk elt gens|t v|l|l|l|kd ch]; try exact G.
          destruct kk; try exact G.
          cbn [deep] in Hda. destruct Hda as [He Hg]. cbn [binders] in Hka. destruct (parts_F elt gens He Hg Hka) as [P1 P2].
          ev_k Hb.
          pose proof (run_loop_F step_next elt gens P1 P2 None sc1) as R.
          destruct (run_loop ev elt step_next gens None sc1) as [[[w|]|[w|]|o] sc']; cbn [snd] in *; congruence.
        - destruct a; try destruct k0; reflexivity. }
      destruct (String.eqb (lower id) "min").
      { destruct args as [|a [|b r]].
        - reflexivity.
        - inversion Hargs as [|? ? Ha _]; subst. inversion Hnas as [|? ? Hka _]; subst. rewrite snd_finish_minmax. now apply consume_F.
        - rewrite snd_finish_minmax. now apply eval_minmax_args_F. }
      destruct (String.eqb (lower id) "max").
      { destruct args as [|a [|b r]].
        - reflexivity.
        - inversion Hargs as [|? ? Ha _]; subst. inversion Hnas as [|? ? Hka _]; subst. rewrite snd_finish_minmax. now apply consume_F.
        - rewrite snd_finish_minmax. now apply eval_minmax_args_F. }
      destruct (ctx_function E (lower id)); [|reflexivity].
      pose proof (eval_list_F args Hall sc) as H1. destruct (eval_list ev args sc) as [[vs|oo] sc1]; exact H1.
    - cbn [deep] in Hdeep. cbn [binders] in Hnf. specialize (Hdeep Hnf). unfold eval_call.
      ev_k Hdeep. destruct v; try exact H.
      destruct (str_method_arity (lower attr)) as [[|n]|]; try exact H.
      destruct (Nat.eqb (length args) (S n)); [|exact H].
      pose proof (eval_list_F args Hall sc1) as H1. destruct (eval_list ev args sc1) as [[vs|o] sc2]; cbn [snd] in *; congruence.
  Qed.

  Lemma frame_Q : forall e, Q e.
  Proof.
    apply pyast_ind2; unfold Q, F.
    - intros c. split; [|exact I]. intros _ sc. reflexivity.
    - intros id. split; [|exact I]. intros _ sc. reflexivity.
    - intros op l Hl. split; [|exact I]. intros Hn sc. cbn [eval snd]. cbn [binders] in Hn.
      apply eval_boolop_F. now apply Forall_F_Fb; [apply Forall_Q_F|].
    - intros l op r [Hl _] [Hr _]. split; [|exact I]. intros Hn sc. cbn [binders] in Hn.
      assert (Hl' := Hl (fun H => Hn (in_or_app _ _ _ (or_introl H)))).
      assert (Hr' := Hr (fun H => Hn (in_or_app _ _ _ (or_intror H)))).
      cbn [eval snd]. ev_k Hl'. ev_k Hr'.
    - intros op x [Hx _]. split; [|exact I]. intros Hn sc. cbn [binders] in Hn. specialize (Hx Hn).
      cbn [eval snd]. ev_k Hx.
    - intros l rest [Hl _] Hrest. split; [|exact I]. intros Hn sc. cbn [binders] in Hn.
      assert (Hl' := Hl (fun H => Hn (in_or_app _ _ _ (or_introl H)))).
      assert (Hn2 : ~ List.In k (flat_map (fun p : cmpop * pyast => binders (snd p)) rest)) by (intros H; apply Hn; apply in_or_app; now right).
      cbn [eval snd]. ev_k Hl'. rewrite eval_compare_F; [exact H|].
      apply not_in_flat in Hn2. clear - Hrest Hn2. induction Hrest as [|[o x] r [Hx _] Hr IH]; [constructor|].
      inversion Hn2; subst. constructor; [now apply Hx|now apply IH].
    - intros a b c [Ha _] [Hb _] [Hc _]. split; [|exact I]. intros Hn sc. cbn [binders] in Hn.
      assert (Ha' := Ha (fun H => Hn (in_or_app _ _ _ (or_introl H)))).
      assert (Hb' := Hb (fun H => Hn (in_or_app _ _ _ (or_intror (in_or_app _ _ _ (or_introl H)))))).
      assert (Hc' := Hc (fun H => Hn (in_or_app _ _ _ (or_intror (in_or_app _ _ _ (or_intror H)))))).
      cbn [eval snd]. ev_k Ha'. destruct (truthy v); [rewrite Hb'|rewrite Hc']; exact H.
    - intros fn args kws Hfn Hargs _. split; [|exact I]. intros Hn sc. cbn [eval snd]. now apply (eval_call_F fn args kws).
    - intros v a [Hv _]. split; [|exact Hv]. intros Hn sc. cbn [binders] in Hn. cbn [eval snd]. now apply eval_attribute_F.
    - intros v s0 [Hv _] [Hs0 _]. split; [|exact I]. intros Hn sc. cbn [binders] in Hn.
      assert (Hv' := Hv (fun H => Hn (in_or_app _ _ _ (or_introl H)))).
      assert (Hs' := Hs0 (fun H => Hn (in_or_app _ _ _ (or_intror H)))).
      cbn [eval snd]. ev_k Hv'. ev_k Hs'.
    - intros kk elt gens [He _] Hg.
      assert (HG : Forall (fun g : comp => F (snd (fst g)) /\ Forall F (snd g)) gens).
      { eapply Forall_impl; [|exact Hg]. intros [[t it] ifs] [_ [[Hit _] Hifs]]. split; [exact Hit|].
        cbn [snd]. eapply Forall_impl; [|exact Hifs]. intros a [H _]. exact H. }
      split; [|split; assumption]. intros Hn sc. cbn [binders] in Hn.
      destruct kk; try reflexivity.
      destruct (parts_F elt gens He HG Hn) as [P1 P2]. cbn [eval snd].
      pose proof (run_loop_F step_list elt gens P1 P2 [] sc) as R.
      destruct (run_loop ev elt step_list gens [] sc) as [[acc|acc|o] sc1]; exact R.
    - intros t v [Ht _] [Hv _]. split; [|exact I]. intros Hn sc. cbn [binders] in Hn.
      assert (Hv' := Hv (fun H => Hn (in_or_app _ _ _ (or_intror H)))).
      cbn [eval snd]. ev_k Hv'. destruct t; try exact H.
      cbn [snd]. rewrite sget_sset_other; [exact H|]. intros ->. apply Hn. apply in_or_app. left. cbn. now left.
    - intros l _. split; [|exact I]. intros _ sc. reflexivity.
    - intros l _. split; [|exact I]. intros _ sc. reflexivity.
    - intros l _. split; [|exact I]. intros _ sc. reflexivity.
    - intros kd ch _. split; [|exact I]. intros _ sc. reflexivity.
  Qed.
End Frame.

(* evaluation leaves every name it does not itself bind exactly as it found it (value or absence) *)
Theorem eval_frame E e sc k : ~ List.In k (binders e) -> sget (snd (eval E e sc)) k = sget sc k.
Proof. intros Hn. exact (proj1 (frame_Q E k e) Hn sc). Qed.

Corollary eval_frame_no_binders E e sc : binders e = [] -> forall k, sget (snd (eval E e sc)) k = sget sc k.
Proof. intros Hb k. apply eval_frame. rewrite Hb. intros []. Qed.
