(* C03/Validate.v — model of validate_ast: a recursive whitelist check over the node-kind tree
   of a Python expression (ast.iter_child_nodes), against the ALLOWED_NODES table regenerated from
   the source. CPython's parser (text -> tree) is a library outside the model. *)
From Coq Require Import String List Bool.
From Tally Require Import Lib.Str.
Import ListNotations.

Inductive tree := Node : string -> list tree -> tree.

Fixpoint validate (allowed : list string) (t : tree) : bool :=
  match t with
  | Node k cs => (mem k allowed && (fix all (l : list tree) : bool :=
                                      match l with [] => true | c :: r => (validate allowed c && all r)%bool end) cs)%bool
  end.

(* every node kind occurring anywhere in the tree *)
Fixpoint kinds (t : tree) : list string :=
  match t with
  | Node k cs => k :: (fix go (l : list tree) : list string :=
                         match l with [] => [] | c :: r => (kinds c ++ go r)%list end) cs
  end.

Section TreeInd.
  Variable P : tree -> Prop.
  Hypothesis H : forall k cs, Forall P cs -> P (Node k cs).
  Fixpoint tree_ind' (t : tree) : P t :=
    match t with
    | Node k cs => H k cs ((fix go (l : list tree) : Forall P l :=
                              match l with [] => Forall_nil P | c :: r => Forall_cons c (tree_ind' c) (go r) end) cs)
    end.
End TreeInd.

Lemma validate_sound allowed t : validate allowed t = true -> forall k, In k (kinds t) -> In k allowed.
Proof.
  induction t as [k0 cs IH] using tree_ind'. cbn [validate kinds]. intros Hv k Hk.
  apply andb_true_iff in Hv. destruct Hv as [Hm Hcs]. destruct Hk as [<-|Hk]; [now apply mem_In|].
  induction cs as [|c r IHr]; [contradiction|].
  apply andb_true_iff in Hcs. destruct Hcs as [Hc Hr]. inversion IH as [|? ? Pc Pr]; subst.
  apply in_app_or in Hk. destruct Hk as [Hk|Hk]; [now apply Pc|now apply IHr].
Qed.

Lemma validate_complete allowed t : (forall k, In k (kinds t) -> In k allowed) -> validate allowed t = true.
Proof.
  induction t as [k0 cs IH] using tree_ind'. cbn [validate kinds]. intros Hall.
  apply andb_true_iff. split; [apply mem_In, Hall; now left|].
  assert (Hcs : forall k, In k ((fix go (l : list tree) : list string :=
            match l with [] => [] | c :: r => (kinds c ++ go r)%list end) cs) -> In k allowed) by (intros; apply Hall; now right).
  clear Hall. induction cs as [|c r IHr]; [reflexivity|]. inversion IH as [|? ? Pc Pr]; subst.
  apply andb_true_iff. split.
  - apply Pc. intros k Hk. apply Hcs. apply in_or_app. now left.
  - apply IHr; [exact Pr|]. intros k Hk. apply Hcs. apply in_or_app. now right.
Qed.
