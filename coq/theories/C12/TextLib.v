(* C12/TextLib.v — texts as lists of Unicode code points (N) and the fragment of Python's str
   used by report.py: prefix tests, substring search, str.replace(old, new) for a non-empty
   constant `old` (all non-overlapping occurrences, left to right, the inserted text is not
   rescanned), ASCII lower().  Library model, not tally code.  Definitions only; the lemmas are
   in C12/Proofs.v. *)
From Coq Require Import String Ascii List Bool NArith Arith.
Import ListNotations.
Open Scope N_scope.

Definition text := list N.
Definition cps (s : string) : text := map N_of_ascii (list_ascii_of_string s).

Definition lowc (c : N) : N := if (65 <=? c) && (c <=? 90) then c + 32 else c.
Definition idc (c : N) : N := c.
Definition lower_text (s : text) : text := map lowc s.

Fixpoint memN (x : N) (l : text) : bool :=
  match l with [] => false | y :: r => (x =? y) || memN x r end.

Fixpoint text_eqb (a b : text) : bool :=
  match a, b with
  | [], [] => true
  | x :: r, y :: s => (x =? y) && text_eqb r s
  | _, _ => false
  end.

Section Match.
  Variable f : N -> N.   (* normaliser applied to the subject's characters: idc or lowc *)
  (* p (already normalised) is a prefix of s *)
  Fixpoint prefix (p s : text) : bool :=
    match p, s with
    | [], _ => true
    | _ :: _, [] => false
    | pc :: p', c :: s' => (f c =? pc) && prefix p' s'
    end.
  (* p occurs somewhere in s *)
  Fixpoint occurs (p s : text) : bool :=
    match s with
    | [] => prefix p []
    | _ :: r => prefix p s || occurs p r
    end.
End Match.

(* first occurrence of the non-empty pattern p: (text before it, text after it) *)
Fixpoint find_split (p s : text) : option (text * text) :=
  match s with
  | [] => None
  | c :: r =>
      if prefix idc p s then Some ([], skipn (length p) s)
      else match find_split p r with Some (a, b) => Some (c :: a, b) | None => None end
  end.

Fixpoint repl_fuel (n : nat) (p new s : text) : text :=
  match n with
  | O => s
  | S n' => match find_split p s with
            | None => s
            | Some (a, b) => a ++ new ++ repl_fuel n' p new b
            end
  end.
(* s.replace(p, new), p non-empty: every round consumes at least one character of s, so
   length s + 1 rounds always suffice (Proofs.repl_fuel_enough) *)
Definition repl (p new s : text) : text := repl_fuel (S (length s)) p new s.

Definition ends_with (s suffix : text) : bool := prefix idc (rev suffix) (rev s).
