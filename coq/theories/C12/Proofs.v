(* C12/Proofs.v — lemmas for C12/Props.v. *)
From Coq Require Import String Ascii List Bool NArith ZArith Arith Lia Permutation DecimalString DecimalN DecimalPos FinFun.
From Tally Require Import C12.TextLib Gen.C12MerchantId Gen.C12Embed C12.Model.
Import ListNotations.
Open Scope N_scope.

(* ===================================================================================== *)
(* 1. prefix / occurs / find_split / repl                                                 *)
(* ===================================================================================== *)
Section MatchLemmas.
  Variable f : N -> N.

  Lemma prefix_nil_r p : prefix f p [] = true -> p = [].
  Proof. destruct p; simpl; [reflexivity|discriminate]. Qed.

  (* a match of p that starts in t and is not contained in t runs into the next character *)
  Lemma prefix_app_hd p : forall t c y,
    prefix f p (t ++ c :: y) = true -> prefix f p t = true \/ memN (f c) p = true.
  Proof.
    induction p as [|pc p IH]; intros t c y H; [left; reflexivity|].
    destruct t as [|d t]; simpl in H.
    - apply andb_prop in H as [H1 _]. right. simpl. rewrite H1. reflexivity.
    - apply andb_prop in H as [H1 H2]. destruct (IH _ _ _ H2) as [Hl|Hr].
      + left. simpl. rewrite H1, Hl. reflexivity.
      + right. simpl. rewrite Hr. apply orb_true_r.
  Qed.

  Lemma prefix_app_r p : forall l z, prefix f p l = true -> prefix f p (l ++ z) = true.
  Proof.
    induction p as [|pc p IH]; intros l z H; [reflexivity|].
    destruct l as [|c l]; simpl in *; [discriminate|].
    apply andb_prop in H as [H1 H2]. rewrite H1, (IH _ _ H2). reflexivity.
  Qed.

  Lemma prefix_app_long p : forall l z, (length p <= length l)%nat -> prefix f p (l ++ z) = prefix f p l.
  Proof.
    induction p as [|pc p IH]; intros l z H; [reflexivity|].
    destruct l as [|c l]; simpl in *; [lia|]. rewrite IH by lia. reflexivity.
  Qed.

  Lemma occurs_false_prefix p s : occurs f p s = false -> prefix f p s = false.
  Proof. destruct s; simpl; [auto|]. intros H. apply orb_false_elim in H. tauto. Qed.

  Lemma occurs_app_hd p : p <> [] -> forall a c y,
    occurs f p a = false -> occurs f p (c :: y) = false -> memN (f c) p = false ->
    occurs f p (a ++ c :: y) = false.
  Proof.
    intros Hp a. induction a as [|d a IH]; intros c y Ha Hb Hc; [exact Hb|].
    change ((d :: a) ++ c :: y) with (d :: (a ++ c :: y)).
    cbn [occurs] in Ha |- *. apply orb_false_elim in Ha as [Ha1 Ha2].
    apply orb_false_intro.
    - destruct (prefix f p (d :: a ++ c :: y)) eqn:E; [|reflexivity].
      change (d :: a ++ c :: y) with ((d :: a) ++ c :: y) in E.
      destruct (prefix_app_hd _ _ _ _ E) as [H|H]; congruence.
    - apply IH; assumption.
  Qed.

  (* no character of a can start a match: occurrences in a ++ b are those in b *)
  Lemma occurs_skip p0 p : forall a b,
    forallb (fun x => negb (f x =? p0)) a = true ->
    occurs f (p0 :: p) (a ++ b) = occurs f (p0 :: p) b.
  Proof.
    induction a as [|c a IH]; intros b H; [reflexivity|].
    simpl in H. apply andb_prop in H as [H1 H2].
    change ((c :: a) ++ b) with (c :: (a ++ b)). cbn [occurs prefix].
    apply negb_true_iff in H1. rewrite H1. cbn [andb orb]. apply IH, H2.
  Qed.

  Lemma occurs_app_r p : forall a b, occurs f p b = true -> occurs f p (a ++ b) = true.
  Proof.
    induction a as [|c a IH]; intros b H; [exact H|].
    change ((c :: a) ++ b) with (c :: (a ++ b)). cbn [occurs]. rewrite (IH _ H). apply orb_true_r.
  Qed.

  Lemma occurs_prefix p s : prefix f p s = true -> occurs f p s = true.
  Proof. destruct s; simpl; [auto|]. intros ->. reflexivity. Qed.
End MatchLemmas.

Lemma prefix_id_self p : forall b, prefix idc p (p ++ b) = true.
Proof. induction p as [|c p IH]; intros b; [reflexivity|]. simpl. unfold idc at 1. rewrite N.eqb_refl. apply IH. Qed.

Lemma occurs_mid p a b : occurs idc p (a ++ p ++ b) = true.
Proof. apply occurs_app_r, occurs_prefix, prefix_id_self. Qed.

Lemma find_none p s : p <> [] -> occurs idc p s = false -> find_split p s = None.
Proof.
  intros Hp. induction s as [|c s IH]; intros H; [reflexivity|].
  cbn [occurs] in H. apply orb_false_elim in H as [H1 H2].
  cbn [find_split]. rewrite H1, (IH H2). reflexivity.
Qed.

Lemma find_none_occurs p s : find_split p s = None -> occurs idc p s = false \/ p = [].
Proof.
  induction s as [|c s IH]; intros H.
  - destruct p; [right; reflexivity|left; reflexivity].
  - cbn [find_split] in H. destruct (prefix idc p (c :: s)) eqn:E; [discriminate|].
    destruct (find_split p s) as [[a b]|] eqn:F; [discriminate|].
    destruct (IH eq_refl) as [G|G]; [left|right; exact G]. cbn [occurs]. rewrite E, G. reflexivity.
Qed.

Lemma find_app_hd p : p <> [] -> forall a c y,
  occurs idc p a = false -> memN c p = false ->
  find_split p (a ++ c :: y) =
  match find_split p (c :: y) with Some (u, v) => Some (a ++ u, v) | None => None end.
Proof.
  intros Hp a. induction a as [|d a IH]; intros c y Ha Hc.
  - simpl app. destruct (find_split p (c :: y)) as [[u v]|]; reflexivity.
  - change ((d :: a) ++ c :: y) with (d :: (a ++ c :: y)).
    cbn [occurs] in Ha. apply orb_false_elim in Ha as [Ha1 Ha2].
    specialize (IH _ y Ha2 Hc). remember (find_split p (c :: y)) as o eqn:Eo. clear Eo.
    cbn [find_split].
    destruct (prefix idc p (d :: a ++ c :: y)) eqn:E.
    + change (d :: a ++ c :: y) with ((d :: a) ++ c :: y) in E.
      destruct (prefix_app_hd idc _ _ _ _ E) as [H|H]; unfold idc in *; congruence.
    + rewrite IH. destruct o as [[u v]|]; reflexivity.
Qed.

Lemma find_split_nil p : find_split p [] = None.
Proof. reflexivity. Qed.

Lemma repl_none p new s : find_split p s = None -> repl p new s = s.
Proof. intros H. unfold repl. cbn [repl_fuel]. rewrite H. reflexivity. Qed.

Lemma repl_once p new s a b :
  find_split p s = Some (a, b) -> find_split p b = None -> repl p new s = a ++ new ++ b.
Proof.
  intros H1 H2. unfold repl. destruct s as [|c s]; [discriminate|].
  cbn [length repl_fuel]. rewrite H1, H2. reflexivity.
Qed.

(* the fuel of repl is always enough: more fuel changes nothing *)
Lemma prefix_id_split p : forall s, prefix idc p s = true -> s = p ++ skipn (length p) s.
Proof.
  induction p as [|pc p IH]; intros s H; [reflexivity|].
  destruct s as [|c s]; simpl in H; [discriminate|]. apply andb_prop in H as [H1 H2].
  apply N.eqb_eq in H1. unfold idc in H1. subst c. cbn [length skipn app]. f_equal. apply IH, H2.
Qed.

Lemma find_sound p : forall s a b, find_split p s = Some (a, b) -> s = a ++ p ++ b.
Proof.
  induction s as [|c s IH]; intros a b H; [discriminate|].
  cbn [find_split] in H. destruct (prefix idc p (c :: s)) eqn:E.
  - injection H as <- <-. apply (prefix_id_split _ _ E).
  - destruct (find_split p s) as [[a' b']|] eqn:F; [|discriminate]. injection H as <- <-.
    rewrite (IH _ _ eq_refl) at 1. reflexivity.
Qed.

Lemma find_shrinks p s a b : p <> [] -> find_split p s = Some (a, b) -> (length b < length s)%nat.
Proof.
  intros Hp H. apply find_sound in H. subst s. rewrite !app_length.
  destruct p; [congruence|]. simpl. lia.
Qed.

Lemma repl_fuel_enough p new : p <> [] -> forall n s, (length s < n)%nat ->
  repl_fuel n p new s = repl p new s.
Proof.
  intros Hp. unfold repl.
  assert (G : forall k n s, (length s < k)%nat -> (length s < n)%nat ->
                            repl_fuel n p new s = repl_fuel k p new s).
  { induction k as [|k IH]; intros n s Hk Hn; [lia|].
    destruct n as [|n]; [lia|]. cbn [repl_fuel].
    destruct (find_split p s) as [[a b]|] eqn:F; [|reflexivity].
    pose proof (find_shrinks _ _ _ _ Hp F). f_equal. f_equal. apply IH; lia. }
  intros n s Hn. apply G; lia.
Qed.

(* ===================================================================================== *)
(* 2. JSON strings: decode (encode s) = Some s                                            *)
(* ===================================================================================== *)
Lemma unhexd_hexd d : d < 16 -> unhexd (hexd d) = Some d.
Proof.
  intros H. unfold hexd, unhexd. destruct (N.ltb_spec d 10) as [L|L].
  - assert (E1 : (48 <=? 48 + d) = true) by (apply N.leb_le; lia).
    assert (E2 : (48 + d <=? 57) = true) by (apply N.leb_le; lia).
    rewrite E1, E2. cbn [andb]. f_equal. lia.
  - assert (E1 : (87 + d <=? 57) = false) by (apply N.leb_gt; lia).
    assert (E2 : (97 <=? 87 + d) = true) by (apply N.leb_le; lia).
    assert (E3 : (87 + d <=? 102) = true) by (apply N.leb_le; lia).
    rewrite E1, E2, E3, andb_false_r. cbn [andb]. f_equal. lia.
Qed.

Lemma unhex4_hex4 n : n < 65536 ->
  unhex4 (hexd (n / 4096)) (hexd ((n / 256) mod 16)) (hexd ((n / 16) mod 16)) (hexd (n mod 16)) = Some n.
Proof.
  intros Hn.
  assert (E1 : n / 256 = n / 16 / 16) by (rewrite N.div_div by lia; reflexivity).
  assert (E2 : n / 4096 = n / 16 / 16 / 16) by (rewrite !N.div_div by lia; reflexivity).
  rewrite E1, E2. clear E1 E2.
  pose proof (N.div_mod n 16) as D1. pose proof (N.mod_lt n 16) as M1.
  remember (n / 16) as q1 eqn:Q1. remember (n mod 16) as r1 eqn:R1. clear Q1 R1.
  pose proof (N.div_mod q1 16) as D2. pose proof (N.mod_lt q1 16) as M2.
  remember (q1 / 16) as q2 eqn:Q2. remember (q1 mod 16) as r2 eqn:R2. clear Q2 R2.
  pose proof (N.div_mod q2 16) as D3. pose proof (N.mod_lt q2 16) as M3.
  remember (q2 / 16) as q3 eqn:Q3. remember (q2 mod 16) as r3 eqn:R3. clear Q3 R3.
  assert (H16 : 16 <> 0) by lia.
  specialize (D1 H16). specialize (M1 H16). specialize (D2 H16). specialize (M2 H16).
  specialize (D3 H16). specialize (M3 H16).
  unfold unhex4. rewrite !unhexd_hexd by lia. f_equal. lia.
Qed.

Lemma dec_uesc a b c d rest :
  dec_body (92 :: 117 :: a :: b :: c :: d :: rest) =
  match unhex4 a b c d with
  | None => None
  | Some u =>
      if is_high u then
        match rest with
        | bs :: uu :: a' :: b' :: c' :: d' :: r3 =>
            if (bs =? 92) && (uu =? 117) then
              match unhex4 a' b' c' d' with
              | Some u2 => if is_low u2 then ocons (join_surrogates u u2) (dec_body r3) else ocons u (dec_body rest)
              | None => None
              end
            else ocons u (dec_body rest)
        | _ => ocons u (dec_body rest)
        end
      else ocons u (dec_body rest)
  end.
Proof. reflexivity. Qed.

Lemma dec_simple e x rest : (e =? 117) = false -> simple_esc e = Some x ->
  dec_body (92 :: e :: rest) = ocons x (dec_body rest).
Proof. intros H1 H2. cbn [dec_body]. change (92 =? 34) with false. change (92 =? 92) with true. cbn iota. rewrite H1, H2. reflexivity. Qed.

Lemma dec_plain c rest : (c =? 34) = false -> (c =? 92) = false -> (c <? 32) = false ->
  dec_body (c :: rest) = ocons c (dec_body rest).
Proof. intros H1 H2 H3. cbn [dec_body]. rewrite H1, H2, H3. reflexivity. Qed.

Lemma dec_enc_char c rest : is_scalar c = true -> dec_body (enc_char c ++ rest) = ocons c (dec_body rest).
Proof.
  intros Hs. unfold is_scalar in Hs. apply andb_prop in Hs as [Hs1 Hs2].
  apply N.ltb_lt in Hs1. apply negb_true_iff in Hs2.
  unfold enc_char.
  destruct (N.eqb_spec c 34) as [->|N34]; [reflexivity|].
  destruct (N.eqb_spec c 92) as [->|N92]; [reflexivity|].
  destruct (N.eqb_spec c 10) as [->|N10]; [reflexivity|].
  destruct (N.eqb_spec c 13) as [->|N13]; [reflexivity|].
  destruct (N.eqb_spec c 9) as [->|N9]; [reflexivity|].
  destruct (N.eqb_spec c 8) as [->|N8]; [reflexivity|].
  destruct (N.eqb_spec c 12) as [->|N12]; [reflexivity|].
  destruct ((32 <=? c) && (c <=? 126)) eqn:Ep.
  - apply andb_prop in Ep as [E1 E2]. apply N.leb_le in E1. cbn [app].
    apply dec_plain; [apply N.eqb_neq; assumption|apply N.eqb_neq; assumption|apply N.ltb_ge; assumption].
  - destruct (N.ltb_spec c 65536) as [Hb|Hb].
    + unfold uesc, hex4. cbn [app]. rewrite dec_uesc, (unhex4_hex4 _ Hb).
      assert (Hns : c < 55296 \/ 57343 < c).
      { apply andb_false_iff in Hs2 as [Hx|Hx]; apply N.leb_gt in Hx; lia. }
      assert (Hh : is_high c = false).
      { unfold is_high. apply andb_false_iff. destruct Hns; [left|right]; apply N.leb_gt; lia. }
      rewrite Hh. reflexivity.
    + remember (c - 65536) as v eqn:Ev.
      assert (Hcv : c = v + 65536) by lia.
      assert (Hv : v < 1048576) by lia.
      clear Ev.
      assert (Hq : v / 1024 < 1024) by (apply N.div_lt_upper_bound; lia).
      assert (Hr : v mod 1024 < 1024) by (apply N.mod_lt; lia).
      assert (Hdm : v = 1024 * (v / 1024) + v mod 1024) by (apply N.div_mod; lia).
      remember (v / 1024) as q eqn:Eq. remember (v mod 1024) as r eqn:Er. clear Eq Er.
      remember (55296 + q) as hi eqn:Ehi. remember (56320 + r) as lo eqn:Elo.
      assert (Hhi : hi < 65536 /\ 55296 <= hi /\ hi <= 56319) by lia.
      assert (Hlo : lo < 65536 /\ 56320 <= lo /\ lo <= 57343) by lia.
      unfold uesc, hex4. cbn [app]. rewrite dec_uesc, (unhex4_hex4 hi) by tauto.
      assert (Hh : is_high hi = true).
      { unfold is_high. apply andb_true_intro; split; apply N.leb_le; tauto. }
      rewrite Hh. change (92 =? 92) with true. change (117 =? 117) with true. cbn [andb].
      rewrite (unhex4_hex4 lo) by tauto.
      assert (Hl : is_low lo = true).
      { unfold is_low. apply andb_true_intro; split; apply N.leb_le; tauto. }
      rewrite Hl. f_equal. unfold join_surrogates. lia.
Qed.

Lemma dec_enc_body s : forallb is_scalar s = true -> dec_body (enc_body s ++ [34]) = Some s.
Proof.
  induction s as [|c s IH]; intros H; [reflexivity|].
  cbn [forallb] in H. apply andb_prop in H as [H1 H2].
  unfold enc_body. cbn [flat_map]. rewrite <- app_assoc. rewrite (dec_enc_char _ _ H1).
  fold (enc_body s). rewrite (IH H2). reflexivity.
Qed.

Lemma json_string_roundtrip s : forallb is_scalar s = true -> decode (encode s) = Some s.
Proof. intros H. unfold decode, encode. change (34 =? 34) with true. cbn iota. apply dec_enc_body, H. Qed.

(* what the encoder emits is printable ASCII (so it survives any ASCII-compatible file encoding) *)
Lemma hexd_printable d : d < 16 -> 32 <= hexd d /\ hexd d <= 126.
Proof. intros H. unfold hexd. destruct (N.ltb_spec d 10); lia. Qed.
Lemma uesc_printable n : n < 65536 -> Forall (fun x => 32 <= x /\ x <= 126) (uesc n).
Proof.
  intros H. unfold uesc, hex4.
  constructor; [lia|]. constructor; [lia|].
  constructor; [apply hexd_printable, N.div_lt_upper_bound; lia|].
  constructor; [apply hexd_printable, N.mod_lt; lia|].
  constructor; [apply hexd_printable, N.mod_lt; lia|].
  constructor; [apply hexd_printable, N.mod_lt; lia|]. constructor.
Qed.
Lemma enc_char_printable c : c < 1114112 -> Forall (fun x => 32 <= x /\ x <= 126) (enc_char c).
Proof.
  intros Hc. unfold enc_char.
  repeat match goal with |- context [if ?c =? ?k then _ else _] => destruct (N.eqb_spec c k); [repeat constructor; lia|] end.
  destruct ((32 <=? c) && (c <=? 126)) eqn:Ep.
  - apply andb_prop in Ep as [E1 E2]. apply N.leb_le in E1, E2. repeat constructor; lia.
  - destruct (N.ltb_spec c 65536).
    + apply uesc_printable; assumption.
    + assert (Hq : (c - 65536) / 1024 < 1024) by (apply N.div_lt_upper_bound; lia).
      assert (Hr : (c - 65536) mod 1024 < 1024) by (apply N.mod_lt; lia).
      remember ((c - 65536) / 1024) as q. remember ((c - 65536) mod 1024) as r.
      apply Forall_app; split; apply uesc_printable; lia.
Qed.
Lemma encode_printable s : Forall (fun c => c < 1114112) s -> Forall (fun x => 32 <= x /\ x <= 126) (encode s).
Proof.
  intros H. unfold encode. constructor; [lia|]. apply Forall_app; split; [|repeat constructor; lia].
  unfold enc_body. induction H as [|c s Hc Hs IH]; [constructor|]. cbn [flat_map]. apply Forall_app; split; [apply enc_char_printable, Hc|exact IH].
Qed.

(* ===================================================================================== *)
(* 3. embedding and extraction                                                            *)
(* ===================================================================================== *)
Lemma closes_app_long l z : (9 <= length l)%nat -> closes (l ++ z) = closes l.
Proof.
  intros H. unfold closes. rewrite prefix_app_long by (change (length CLOSE) with 8%nat; lia).
  rewrite nth_error_app1 by lia. reflexivity.
Qed.

Lemma closes_length l : closes l = true -> (9 <= length l)%nat.
Proof.
  unfold closes. intros H. apply andb_prop in H as [_ H].
  destruct (nth_error l 8) eqn:E; [|discriminate].
  assert (nth_error l 8 <> None) by congruence. apply nth_error_Some in H0. lia.
Qed.

Lemma closes_app_r l z : closes l = true -> closes (l ++ z) = true.
Proof. intros H. rewrite closes_app_long; [exact H|apply closes_length, H]. Qed.

Lemma scan_pre_sound : forall X m cur m' cur' found,
  scan_pre m cur X = Some (m', cur', found) ->
  forall Z, scan m cur (X ++ Z) = found ++ scan m' cur' Z.
Proof.
  induction X as [|c r IH]; intros m cur m' cur' found H Z.
  - cbn [scan_pre] in H. injection H as <- <- <-. reflexivity.
  - change ((c :: r) ++ Z) with (c :: (r ++ Z)).
    destruct m as [|k ok|s|].
    + cbn [scan_pre] in H. cbn [scan]. apply IH, H.
    + cbn [scan_pre] in H. cbn [scan]. destruct (is_term c); apply IH, H.
    + cbn [scan_pre] in H. cbn [scan]. apply IH, H.
    + cbn [scan_pre] in H. cbn [scan].
      destruct (Nat.leb 9 (length (c :: r))) eqn:L; [|discriminate]. apply Nat.leb_le in L.
      change (c :: r ++ Z) with ((c :: r) ++ Z). rewrite (closes_app_long _ Z L).
      destruct (closes (c :: r)).
      * destruct (scan_pre (MTag false) [] r) as [[[m2 cur2] f2]|] eqn:E; [|discriminate].
        injection H as <- <- <-. cbn [app]. f_equal. apply (IH _ _ _ _ _ E).
      * apply IH, H.
Qed.

Lemma CLOSE_eq : CLOSE = 60 :: tl CLOSE.
Proof. reflexivity. Qed.

(* script data that contains no "</script" and is followed by a character that is not in
   "</script" runs to the closing tag *)
Lemma scan_data_take : forall D0 cur e W,
  occurs lowc CLOSE D0 = false -> memN (lowc e) CLOSE = false -> closes W = true ->
  scan MScript cur (D0 ++ e :: W) = (rev cur ++ D0 ++ [e]) :: scan (MTag false) [] (tl W).
Proof.
  induction D0 as [|d D0 IH]; intros cur e W Ho He Hw.
  - cbn [app]. destruct W as [|w W']; [discriminate|].
    assert (Hc : closes (e :: w :: W') = false).
    { unfold closes. rewrite CLOSE_eq. cbn [prefix].
      rewrite CLOSE_eq in He. cbn [memN] in He. apply orb_false_elim in He as [He1 _].
      rewrite He1. reflexivity. }
    cbn [scan]. rewrite Hc.
    change (scan MScript (e :: cur) (w :: W')) with
      (if closes (w :: W') then rev (e :: cur) :: scan (MTag false) [] W' else scan MScript (w :: e :: cur) W').
    rewrite Hw. reflexivity.
  - change ((d :: D0) ++ e :: W) with (d :: (D0 ++ e :: W)).
    cbn [occurs] in Ho. apply orb_false_elim in Ho as [Ho1 Ho2].
    assert (Hc : closes (d :: D0 ++ e :: W) = false).
    { unfold closes. destruct (prefix lowc CLOSE (d :: D0 ++ e :: W)) eqn:E; [|reflexivity].
      change (d :: D0 ++ e :: W) with ((d :: D0) ++ e :: W) in E.
      destruct (prefix_app_hd lowc _ _ _ _ E); congruence. }
    cbn [scan]. rewrite Hc. rewrite (IH _ _ _ Ho2 He Hw). cbn [rev app]. rewrite <- !app_assoc. reflexivity.
Qed.

Lemma embed_unfold tpl css js j :
  embed tpl css js j = repl DATA_PH (data_script j) (repl JS_PH js (repl CSS_PH css tpl)).
Proof. reflexivity. Qed.

Lemma pfx_eq : Emb.data_prefix = 119 :: tl Emb.data_prefix.
Proof. reflexivity. Qed.
Lemma sfx_eq : Emb.data_suffix = [59].
Proof. reflexivity. Qed.

(* ---- the escaping of '<' ---------------------------------------------------------------- *)
Lemma esc_lt_app a b : esc_lt (a ++ b) = esc_lt a ++ esc_lt b.
Proof. unfold esc_lt. apply flat_map_app. Qed.

Lemma esc_lt_no_lt j : forallb (fun x => negb (lowc x =? 60)) (esc_lt j) = true.
Proof.
  induction j as [|c j IH]; [reflexivity|]. unfold esc_lt in *. cbn [flat_map].
  rewrite forallb_app, IH, andb_true_r. destruct (N.eqb_spec c 60) as [->|Hc]; [reflexivity|].
  cbn [forallb]. rewrite andb_true_r. apply negb_true_iff. apply N.eqb_neq.
  unfold lowc. destruct ((65 <=? c) && (c <=? 90)) eqn:E; [|exact Hc].
  apply andb_prop in E as [E1 E2]. apply N.leb_le in E1. lia.
Qed.

(* the escaped JSON text contains no "</script" (indeed no '<' at all) *)
Lemma esc_lt_no_close j : occurs lowc CLOSE (esc_lt j) = false.
Proof.
  pose proof (esc_lt_no_lt j) as H. rewrite CLOSE_eq.
  replace (esc_lt j) with (esc_lt j ++ []) by apply app_nil_r.
  rewrite (occurs_skip lowc 60 (tl CLOSE) _ [] H). reflexivity.
Qed.

Lemma esc_lt_id x : forallb (fun c => negb (c =? 60)) x = true -> esc_lt x = x.
Proof.
  induction x as [|c x IH]; intros H; [reflexivity|]. cbn [forallb] in H. apply andb_prop in H as [H1 H2].
  apply negb_true_iff in H1. unfold esc_lt in *. cbn [flat_map]. rewrite H1, (IH H2). reflexivity.
Qed.

(* str.replace with the one-character pattern "<" is this character-wise map *)
Lemma repl_unfold p new s : p <> [] ->
  repl p new s = match find_split p s with None => s | Some (a, b) => a ++ new ++ repl p new b end.
Proof.
  intros Hp. unfold repl at 1. cbn [repl_fuel]. destruct (find_split p s) as [[a b]|] eqn:F; [|reflexivity].
  rewrite (repl_fuel_enough p new Hp); [reflexivity|]. apply (find_shrinks _ _ _ _ Hp F).
Qed.

Lemma find_lt_esc : forall s,
  match find_split [60] s with
  | None => esc_lt s = s
  | Some (a, b) => esc_lt s = a ++ LT_ESC ++ esc_lt b
  end.
Proof.
  induction s as [|c s IH]; [reflexivity|]. cbn [find_split prefix]. unfold idc at 1.
  destruct (N.eqb_spec c 60) as [->|Hc].
  - cbn [andb skipn length]. reflexivity.
  - cbn [andb].
    assert (E : esc_lt (c :: s) = c :: esc_lt s).
    { unfold esc_lt. cbn [flat_map]. rewrite (proj2 (N.eqb_neq c 60) Hc). reflexivity. }
    destruct (find_split [60] s) as [[a b]|]; rewrite E, IH; reflexivity.
Qed.

Lemma esc_lt_is_repl s : esc_lt s = repl [60] LT_ESC s.
Proof.
  remember (length s) as n eqn:Hn. revert s Hn.
  induction n as [n IH] using lt_wf_ind. intros s Hn.
  rewrite repl_unfold by discriminate. pose proof (find_lt_esc s) as H.
  destruct (find_split [60] s) as [[a b]|] eqn:F; [|exact H].
  rewrite H. f_equal. f_equal. apply (IH (length b)); [|reflexivity].
  subst n. apply (find_shrinks [60] s a b); [discriminate|exact F].
Qed.

(* JSON: the escaped encoding of a string decodes to the string *)
Lemma enc_char_no_lt c : c <> 60 -> forallb (fun x => negb (x =? 60)) (enc_char c) = true.
Proof.
  intros Hc. unfold enc_char.
  repeat match goal with |- context [if ?c =? ?k then _ else _] => destruct (N.eqb_spec c k); [reflexivity|] end.
  assert (Hh : forall d, negb (hexd d =? 60) = true).
  { intros d. apply negb_true_iff, N.eqb_neq. unfold hexd. destruct (N.ltb_spec d 10); lia. }
  destruct ((32 <=? c) && (c <=? 126)).
  - cbn [forallb]. rewrite andb_true_r. apply negb_true_iff, N.eqb_neq, Hc.
  - destruct (c <? 65536); unfold uesc, hex4; cbn [app forallb]; rewrite !Hh; reflexivity.
Qed.

Lemma dec_esc_enc_char c rest : is_scalar c = true ->
  dec_body (esc_lt (enc_char c) ++ rest) = ocons c (dec_body rest).
Proof.
  intros Hs. destruct (N.eqb_spec c 60) as [->|Hc]; [reflexivity|].
  rewrite (esc_lt_id _ (enc_char_no_lt _ Hc)). apply dec_enc_char, Hs.
Qed.

Lemma dec_esc_enc_body s : forallb is_scalar s = true -> dec_body (esc_lt (enc_body s) ++ [34]) = Some s.
Proof.
  induction s as [|c s IH]; intros H; [reflexivity|].
  cbn [forallb] in H. apply andb_prop in H as [H1 H2].
  unfold enc_body. cbn [flat_map]. rewrite esc_lt_app, <- app_assoc, (dec_esc_enc_char _ _ H1).
  fold (enc_body s). rewrite (IH H2). reflexivity.
Qed.

Lemma json_escaped_roundtrip s : forallb is_scalar s = true -> decode (esc_lt (encode s)) = Some s.
Proof.
  intros H. unfold encode. change (34 :: enc_body s ++ [34]) with ([34] ++ enc_body s ++ [34]).
  rewrite !esc_lt_app. change (esc_lt [34]) with [34]. cbn [app]. unfold decode.
  change (34 =? 34) with true. cbn iota. apply dec_esc_enc_body, H.
Qed.

(* ---- shape of the assembled document ---------------------------------------------------- *)
Inductive shape (j doc : text) : Prop :=
| mk_shape (X Y : text) (found : list text)
    (sh_doc : doc = X ++ data_script j ++ Y)
    (sh_scan : scan_pre MData [] X = Some (MScript, [], found))
    (sh_none : forallb (fun t => negb (is_data_script t)) found = true)
    (sh_close : closes Y = true).

(* the data goes in last and str.replace does not rescan what it inserted: whatever the data contains,
   the data script sits verbatim in the data element *)
Lemma embed_shape tpl css js j : tpl_ok tpl css js = true -> shape j (embed tpl css js j).
Proof.
  intros Hok. rewrite embed_unfold. unfold tpl_ok in Hok.
  destruct (find_split DATA_PH (repl JS_PH js (repl CSS_PH css tpl))) as [[X Y]|] eqn:FD; [|discriminate].
  apply andb_prop in Hok as [Hok HC]. apply andb_prop in Hok as [HDY HSC].
  destruct (find_split DATA_PH Y) eqn:FDY; [discriminate|].
  destruct (scan_pre MData [] X) as [[[m0 cur0] found0]|] eqn:SP; [|discriminate].
  destruct m0; try discriminate. destruct cur0; [|discriminate].
  rewrite (repl_once _ _ _ _ _ FD FDY).
  apply (mk_shape _ _ X Y found0); [reflexivity|exact SP|exact HSC|exact HC].
Qed.

Lemma filter_none {A} (P : A -> bool) l : forallb (fun t => negb (P t)) l = true -> filter P l = [].
Proof.
  induction l as [|x l IH]; intros H; [reflexivity|]. cbn [forallb] in H. apply andb_prop in H as [H1 H2].
  apply negb_true_iff in H1. cbn [filter]. rewrite H1. apply IH, H2.
Qed.

Lemma skipn_app_exact {A} (a b : list A) : skipn (length a) (a ++ b) = b.
Proof. induction a; [reflexivity|assumption]. Qed.
Lemma firstn_app_exact {A} (a b : list A) : firstn (length a) (a ++ b) = a.
Proof. induction a as [|x a IH]; [reflexivity|]. cbn [length app firstn]. f_equal. exact IH. Qed.

Lemma strip_framed e : strip_data (Emb.data_prefix ++ e ++ Emb.data_suffix) = Some e.
Proof.
  unfold strip_data, is_data_script. rewrite prefix_id_self, skipn_app_exact.
  rewrite sfx_eq. unfold ends_with. rewrite rev_app_distr. cbn [rev app prefix].
  unfold idc at 1. rewrite N.eqb_refl. cbn [andb].
  rewrite app_length. cbn [length]. replace (length e + 1 - 1)%nat with (length e) by lia.
  rewrite firstn_app_exact. reflexivity.
Qed.

Lemma extract_of_shape j doc : shape j doc -> extract_script doc = Some (esc_lt j).
Proof.
  intros [X Y found0 Hdoc Hscan Hnone Hclose]. subst doc.
  unfold extract_script. rewrite (scan_pre_sound _ _ _ _ _ _ Hscan).
  assert (Hd : data_script j ++ Y = (Emb.data_prefix ++ esc_lt j) ++ 59 :: Y).
  { unfold data_script. rewrite sfx_eq, <- !app_assoc. reflexivity. }
  rewrite Hd. rewrite scan_data_take.
  - rewrite filter_app, (filter_none _ _ Hnone). cbn [app rev filter].
    assert (Hd2 : (Emb.data_prefix ++ esc_lt j) ++ [59] = Emb.data_prefix ++ esc_lt j ++ Emb.data_suffix).
    { rewrite sfx_eq, <- app_assoc. reflexivity. }
    rewrite Hd2.
    assert (Hi : is_data_script (Emb.data_prefix ++ esc_lt j ++ Emb.data_suffix) = true) by apply prefix_id_self.
    rewrite Hi. apply strip_framed.
  - rewrite CLOSE_eq, occurs_skip by (vm_compute; reflexivity). rewrite <- CLOSE_eq. apply esc_lt_no_close.
  - vm_compute; reflexivity.
  - exact Hclose.
Qed.

(* ===================================================================================== *)
(* 4. merchants by id, category view                                                      *)
(* ===================================================================================== *)
Open Scope Z_scope.

Lemma text_eqb_eq a : forall b, text_eqb a b = true <-> a = b.
Proof.
  induction a as [|x a IH]; intros [|y b]; simpl; split; intros H; try reflexivity; try discriminate.
  - apply andb_prop in H as [H1 H2]. apply N.eqb_eq in H1. apply IH in H2. congruence.
  - injection H as -> ->. rewrite N.eqb_refl. apply IH. reflexivity.
Qed.
Lemma text_eqb_refl a : text_eqb a a = true.
Proof. apply text_eqb_eq. reflexivity. Qed.
Lemma text_eqb_neq a b : a <> b -> text_eqb a b = false.
Proof. intros H. destruct (text_eqb a b) eqn:E; [apply text_eqb_eq in E; contradiction|reflexivity]. Qed.

Definition keys {V} (d : list (text * V)) : list text := map fst d.

Lemma tset_notin {V} (d : list (text * V)) k v : ~ In k (keys d) -> tset d k v = d ++ [(k, v)].
Proof.
  induction d as [|[k' v'] d IH]; intros H; [reflexivity|].
  cbn [tset]. rewrite text_eqb_neq by (intros ->; apply H; left; reflexivity).
  cbn [app]. f_equal. apply IH. intros G. apply H. right. exact G.
Qed.

Lemma tset_keys {V} (d : list (text * V)) k v :
  keys (tset d k v) = if existsb (text_eqb k) (keys d) then keys d else keys d ++ [k].
Proof.
  induction d as [|[k' v'] d IH]; [reflexivity|].
  cbn [tset keys map fst existsb]. destruct (text_eqb k k') eqn:E; cbn [orb]; [reflexivity|].
  cbn [map fst]. fold (keys (tset d k v)). rewrite IH. fold (keys d).
  destruct (existsb (text_eqb k) (keys d)); reflexivity.
Qed.

Lemma existsb_text_In k l : existsb (text_eqb k) l = true <-> In k l.
Proof.
  rewrite existsb_exists. split.
  - intros [x [Hx E]]. apply text_eqb_eq in E. subst. exact Hx.
  - intros H. exists k. split; [exact H|apply text_eqb_refl].
Qed.

Lemma nodup_snoc {A} (l : list A) k : NoDup l -> ~ In k l -> NoDup (l ++ [k]).
Proof.
  intros H1 H2. apply (Permutation_NoDup (Permutation_cons_append l k)). constructor; assumption.
Qed.

Lemma tset_keys_nodup {V} (d : list (text * V)) k v : NoDup (keys d) -> NoDup (keys (tset d k v)).
Proof.
  intros H. rewrite tset_keys. destruct (existsb (text_eqb k) (keys d)) eqn:E; [exact H|].
  apply nodup_snoc; [exact H|]. intros G. apply existsb_text_In in G. congruence.
Qed.

Definition jpair (m : merchant) : text * jmerchant := (mid m, to_j m).

Lemma by_id_fold_keys_nodup ms : forall acc, NoDup (keys acc) ->
  NoDup (keys (fold_left (fun d m => tset d (mid m) (to_j m)) ms acc)).
Proof. induction ms as [|m ms IH]; intros acc H; [exact H|]. cbn [fold_left]. apply IH, tset_keys_nodup, H. Qed.

(* ids are dict keys: build_section_merchants never lists an id twice *)
Lemma by_id_keys_nodup ms : NoDup (keys (by_id ms)).
Proof. apply by_id_fold_keys_nodup. constructor. Qed.

Lemma by_id_fold_nodup ms : forall acc, NoDup (keys acc ++ map mid ms) ->
  fold_left (fun d m => tset d (mid m) (to_j m)) ms acc = acc ++ map jpair ms.
Proof.
  induction ms as [|m ms IH]; intros acc H; [cbn; now rewrite app_nil_r|].
  cbn [fold_left map]. cbn [map] in H.
  assert (Hn : ~ In (mid m) (keys acc)).
  { intros G. apply NoDup_remove_2 in H. apply H. apply in_or_app. left. exact G. }
  rewrite (tset_notin _ _ _ Hn). rewrite IH.
  - rewrite <- app_assoc. reflexivity.
  - unfold keys. rewrite map_app. cbn [map fst]. rewrite <- app_assoc. exact H.
Qed.

(* when the derived ids are distinct every analysed merchant is listed, in order *)
Lemma by_id_nodup ms : NoDup (map mid ms) -> by_id ms = map jpair ms.
Proof. intros H. unfold by_id. rewrite by_id_fold_nodup; [reflexivity|exact H]. Qed.

(* ---- grouping by category / subcategory ------------------------------------------------ *)
Lemma add_sub_pairs subs sn id j : ~ In id (keys (flat_map sub_pairs subs)) ->
  Permutation (flat_map sub_pairs (add_sub subs sn id j)) ((id, j) :: flat_map sub_pairs subs).
Proof.
  induction subs as [|s r IH]; intros H; [apply Permutation_refl|].
  cbn [add_sub]. destruct (text_eqb sn (s_name s)).
  - cbn [flat_map]. unfold sub_pairs at 1 3. cbn [s_merchants].
    rewrite tset_notin.
    + rewrite <- app_assoc. cbn [app]. apply Permutation_sym, Permutation_middle.
    + intros G. apply H. cbn [flat_map]. unfold keys. rewrite map_app. apply in_or_app. left. exact G.
  - cbn [flat_map]. etransitivity; [apply Permutation_app_head, IH|apply Permutation_sym, Permutation_middle].
    intros G. apply H. cbn [flat_map]. unfold keys. rewrite map_app. apply in_or_app. right. exact G.
Qed.

Lemma add_cat_pairs cs cn sn id j : ~ In id (keys (view_pairs cs)) ->
  Permutation (view_pairs (add_cat cs cn sn id j)) ((id, j) :: view_pairs cs).
Proof.
  unfold view_pairs. induction cs as [|c r IH]; intros H.
  - cbn. apply Permutation_refl.
  - cbn [add_cat]. destruct (text_eqb cn (c_name c)).
    + cbn [flat_map]. unfold cat_pairs at 1 3. cbn [c_subs].
      change ((id, j) :: flat_map sub_pairs (c_subs c) ++ flat_map cat_pairs r)
        with (((id, j) :: flat_map sub_pairs (c_subs c)) ++ flat_map cat_pairs r).
      apply Permutation_app_tail, add_sub_pairs.
      intros G. apply H. cbn [flat_map]. unfold keys. rewrite map_app. apply in_or_app. left. exact G.
    + cbn [flat_map]. etransitivity; [apply Permutation_app_head, IH|apply Permutation_sym, Permutation_middle].
      intros G. apply H. cbn [flat_map]. unfold keys. rewrite map_app. apply in_or_app. right. exact G.
Qed.

Lemma ins_pairs cs p : ~ In (fst p) (keys (view_pairs cs)) ->
  Permutation (view_pairs (ins cs p)) (p :: view_pairs cs).
Proof. intros H. unfold ins. destruct p as [id j]. apply add_cat_pairs, H. Qed.

Lemma group_fold l : forall cs, NoDup (keys (view_pairs cs) ++ keys l) ->
  Permutation (view_pairs (fold_left ins l cs)) (view_pairs cs ++ l).
Proof.
  induction l as [|p l IH]; intros cs H; [cbn; now rewrite app_nil_r|].
  cbn [fold_left]. cbn [keys map] in H.
  assert (Hn : ~ In (fst p) (keys (view_pairs cs))).
  { intros G. apply NoDup_remove_2 in H. apply H. apply in_or_app. left. exact G. }
  pose proof (ins_pairs _ _ Hn) as HP.
  etransitivity; [apply IH|].
  - apply (Permutation_NoDup (l := fst p :: keys (view_pairs cs) ++ keys l)).
    + change (fst p :: keys (view_pairs cs) ++ keys l) with ((fst p :: keys (view_pairs cs)) ++ keys l).
      apply Permutation_app_tail. apply Permutation_sym. apply (Permutation_map fst) in HP. exact HP.
    + apply (Permutation_NoDup (Permutation_sym (Permutation_middle _ _ _))). exact H.
  - etransitivity; [apply Permutation_app_tail, HP|]. cbn [app]. apply Permutation_middle.
Qed.

(* the category view lists exactly the merchants of by_id, each once *)
Lemma group_pairs l : NoDup (keys l) -> Permutation (view_pairs (group l)) l.
Proof. intros H. unfold group. apply (group_fold l []). exact H. Qed.

Lemma category_view_pairs ms : Permutation (view_pairs (category_view ms)) (by_id ms).
Proof. apply group_pairs, by_id_keys_nodup. Qed.

Lemma category_view_merchants ms : NoDup (map mid ms) ->
  Permutation (view_merchants (category_view ms)) (map to_j ms).
Proof.
  intros H. unfold view_merchants. etransitivity; [apply Permutation_map, category_view_pairs|].
  rewrite (by_id_nodup _ H), map_map. apply Permutation_refl.
Qed.

(* ---- sums ------------------------------------------------------------------------------ *)
Lemma sumZ_app a b : sumZ (a ++ b) = sumZ a + sumZ b.
Proof. induction a as [|x a IH]; simpl; lia. Qed.
Lemma sumZ_perm a b : Permutation a b -> sumZ a = sumZ b.
Proof. induction 1; simpl; lia. Qed.

Lemma add_cat_total cs cn sn id j :
  sumZ (map c_total (add_cat cs cn sn id j)) = sumZ (map c_total cs) + j_ytd j /\
  sumZ (map c_count (add_cat cs cn sn id j)) = sumZ (map c_count cs) + j_count j.
Proof.
  induction cs as [|c r [IH1 IH2]]; [cbn; lia|].
  cbn [add_cat]. destruct (text_eqb cn (c_name c)); cbn [map sumZ fold_right c_total c_count].
  - fold (sumZ (map c_total r)). fold (sumZ (map c_count r)). lia.
  - fold (sumZ (map c_total (add_cat r cn sn id j))). fold (sumZ (map c_count (add_cat r cn sn id j))).
    fold (sumZ (map c_total r)). fold (sumZ (map c_count r)). lia.
Qed.

Lemma group_fold_total l : forall cs,
  sumZ (map c_total (fold_left ins l cs)) = sumZ (map c_total cs) + sumZ (map (fun p => j_ytd (snd p)) l) /\
  sumZ (map c_count (fold_left ins l cs)) = sumZ (map c_count cs) + sumZ (map (fun p => j_count (snd p)) l).
Proof.
  induction l as [|p l IH]; intros cs; [cbn [fold_left map]; change (sumZ []) with 0; lia|].
  cbn [fold_left map]. destruct (IH (ins cs p)) as [I1 I2]. rewrite I1, I2. unfold ins.
  destruct (add_cat_total cs (fst (cat_key (snd p))) (snd (cat_key (snd p))) (fst p) (snd p)) as [A1 A2].
  rewrite A1, A2. cbn [sumZ fold_right]. fold (sumZ (map (fun p0 => j_ytd (snd p0)) l)).
  fold (sumZ (map (fun p0 => j_count (snd p0)) l)). lia.
Qed.

(* the category totals add up to the totals of the merchants that are listed *)
Lemma category_totals_listed ms :
  sumZ (map c_total (category_view ms)) = sumZ (map j_ytd (view_merchants (category_view ms))) /\
  sumZ (map c_count (category_view ms)) = sumZ (map j_count (view_merchants (category_view ms))).
Proof.
  unfold category_view at 1 3, group. destruct (group_fold_total (by_id ms) []) as [H1 H2].
  rewrite H1, H2. cbn [map sumZ fold_right].
  pose proof (category_view_pairs ms) as HP. unfold view_merchants.
  split.
  - rewrite map_map. rewrite (sumZ_perm _ _ (Permutation_map (fun p => j_ytd (snd p)) HP)). reflexivity.
  - rewrite map_map. rewrite (sumZ_perm _ _ (Permutation_map (fun p => j_count (snd p)) HP)). reflexivity.
Qed.

Lemma category_totals ms : NoDup (map mid ms) ->
  sumZ (map c_total (category_view ms)) = sumZ (map m_total ms) /\
  sumZ (map c_count (category_view ms)) = sumZ (map m_count ms).
Proof.
  intros H. destruct (category_totals_listed ms) as [H1 H2]. rewrite H1, H2.
  pose proof (category_view_merchants _ H) as HP.
  rewrite (sumZ_perm _ _ (Permutation_map j_ytd HP)), (sumZ_perm _ _ (Permutation_map j_count HP)).
  rewrite !map_map. split; reflexivity.
Qed.

(* ---- transactions ---------------------------------------------------------------------- *)
Lemma perm_flat_map {A B} (f : A -> list B) l l' : Permutation l l' -> Permutation (flat_map f l) (flat_map f l').
Proof.
  induction 1; cbn [flat_map].
  - apply Permutation_refl.
  - apply Permutation_app_head. assumption.
  - rewrite !app_assoc. apply Permutation_app_tail, Permutation_app_comm.
  - etransitivity; eassumption.
Qed.

Lemma named_txns_to_j ms : named_txns_j (map to_j ms) = named_txns ms.
Proof. unfold named_txns_j, named_txns. induction ms as [|m ms IH]; [reflexivity|]. cbn [map flat_map]. rewrite IH. reflexivity. Qed.

Lemma category_view_txns ms : NoDup (map mid ms) ->
  Permutation (named_txns_j (view_merchants (category_view ms))) (named_txns ms).
Proof.
  intros H. rewrite <- named_txns_to_j. apply perm_flat_map, category_view_merchants, H.
Qed.

(* a view's merchants (sections): same statement for build_section_merchants on its own *)
Lemma section_merchants ms : NoDup (map mid ms) -> map snd (by_id ms) = map to_j ms.
Proof. intros H. rewrite (by_id_nodup _ H), map_map. reflexivity. Qed.

(* ---- every category / subcategory total is the sum over the merchants listed under it ----- *)
Definition sub_ok (s : subcat) : Prop :=
  s_total s = sumZ (map (fun p => j_ytd (snd p)) (s_merchants s)) /\
  s_count s = sumZ (map (fun p => j_count (snd p)) (s_merchants s)).
Definition cat_ok (c : category) : Prop :=
  c_total c = sumZ (map s_total (c_subs c)) /\ c_count c = sumZ (map s_count (c_subs c)) /\
  Forall sub_ok (c_subs c).

Lemma add_sub_ok subs sn id j :
  Forall sub_ok subs -> ~ In id (keys (flat_map sub_pairs subs)) ->
  Forall sub_ok (add_sub subs sn id j) /\
  sumZ (map s_total (add_sub subs sn id j)) = sumZ (map s_total subs) + j_ytd j /\
  sumZ (map s_count (add_sub subs sn id j)) = sumZ (map s_count subs) + j_count j.
Proof.
  induction subs as [|s r IH]; intros Hok Hn.
  - cbn [add_sub]. split; [|cbn; lia]. constructor; [|constructor]. split; cbn; lia.
  - inversion Hok as [|? ? Hs Hr]; subst. cbn [add_sub]. destruct (text_eqb sn (s_name s)).
    + assert (Hf : ~ In id (keys (s_merchants s))).
      { intros G. apply Hn. cbn [flat_map]. unfold keys. rewrite map_app. apply in_or_app. left. exact G. }
      split; [|cbn [map sumZ fold_right s_total s_count]; fold (sumZ (map s_total r)); fold (sumZ (map s_count r)); lia].
      constructor; [|exact Hr]. destruct Hs as [H1 H2]. unfold sub_ok. cbn [s_total s_count s_merchants].
      rewrite (tset_notin _ _ _ Hf), !map_app, !sumZ_app. cbn [map sumZ fold_right snd]. lia.
    + destruct IH as [I1 [I2 I3]]; [exact Hr| |].
      { intros G. apply Hn. cbn [flat_map]. unfold keys. rewrite map_app. apply in_or_app. right. exact G. }
      split; [constructor; assumption|]. cbn [map sumZ fold_right].
      fold (sumZ (map s_total (add_sub r sn id j))). fold (sumZ (map s_count (add_sub r sn id j))).
      fold (sumZ (map s_total r)). fold (sumZ (map s_count r)). lia.
Qed.

Lemma add_cat_ok cs cn sn id j :
  Forall cat_ok cs -> ~ In id (keys (view_pairs cs)) -> Forall cat_ok (add_cat cs cn sn id j).
Proof.
  unfold view_pairs. induction cs as [|c r IH]; intros Hok Hn.
  - cbn [add_cat]. constructor; [|constructor]. unfold cat_ok. cbn [c_total c_count c_subs].
    destruct (add_sub_ok [] sn id j) as [A1 [A2 A3]]; [constructor|intros []|].
    rewrite A2, A3. cbn. repeat split; try lia. exact A1.
  - inversion Hok as [|? ? Hc Hr]; subst. cbn [add_cat]. destruct (text_eqb cn (c_name c)).
    + constructor; [|exact Hr]. destruct Hc as [H1 [H2 H3]]. unfold cat_ok. cbn [c_total c_count c_subs].
      destruct (add_sub_ok (c_subs c) sn id j) as [A1 [A2 A3]]; [exact H3| |].
      { intros G. apply Hn. cbn [flat_map]. unfold keys. rewrite map_app. apply in_or_app. left. exact G. }
      rewrite A2, A3. repeat split; try lia. exact A1.
    + constructor; [exact Hc|]. apply IH; [exact Hr|].
      intros G. apply Hn. cbn [flat_map]. unfold keys. rewrite map_app. apply in_or_app. right. exact G.
Qed.

Lemma group_fold_ok l : forall cs, Forall cat_ok cs -> NoDup (keys (view_pairs cs) ++ keys l) ->
  Forall cat_ok (fold_left ins l cs).
Proof.
  induction l as [|p l IH]; intros cs Hok H; [exact Hok|].
  cbn [fold_left]. cbn [keys map] in H.
  assert (Hn : ~ In (fst p) (keys (view_pairs cs))).
  { intros G. apply NoDup_remove_2 in H. apply H. apply in_or_app. left. exact G. }
  pose proof (ins_pairs _ _ Hn) as HP.
  apply IH.
  - unfold ins. apply add_cat_ok; assumption.
  - apply (Permutation_NoDup (l := fst p :: keys (view_pairs cs) ++ keys l)).
    + change (fst p :: keys (view_pairs cs) ++ keys l) with ((fst p :: keys (view_pairs cs)) ++ keys l).
      apply Permutation_app_tail. apply Permutation_sym. apply (Permutation_map fst) in HP. exact HP.
    + apply (Permutation_NoDup (Permutation_sym (Permutation_middle _ _ _))). exact H.
Qed.

Lemma category_view_ok ms : Forall cat_ok (category_view ms).
Proof. unfold category_view, group. apply group_fold_ok; [constructor|]. cbn [view_pairs flat_map app]. apply by_id_keys_nodup. Qed.

(* ---- typeTotals ------------------------------------------------------------------------ *)
Lemma sumZ_flat_map {A} (g : A -> list Z) l : sumZ (flat_map g l) = sumZ (map (fun x => sumZ (g x)) l).
Proof. induction l as [|x l IH]; [reflexivity|]. cbn [flat_map map]. rewrite sumZ_app, IH. reflexivity. Qed.

Lemma map_flat_map {A B C} (f : B -> C) (g : A -> list B) l : map f (flat_map g l) = flat_map (fun x => map f (g x)) l.
Proof. induction l as [|x l IH]; [reflexivity|]. cbn [flat_map]. rewrite map_app, IH. reflexivity. Qed.

(* summed over the categories, each bucket is the sum over the transactions of the listed merchants *)
Lemma type_totals_listed f cv :
  sumZ (map (cat_tt f) cv) = sumZ (map f (flat_map j_txns (view_merchants cv))).
Proof.
  unfold view_merchants, view_pairs. induction cv as [|c cv IH]; [reflexivity|].
  cbn [map flat_map sumZ fold_right]. fold (sumZ (map (cat_tt f) cv)). rewrite IH.
  rewrite map_app, flat_map_app, map_app, sumZ_app. f_equal.
  unfold cat_tt, cat_txns. rewrite flat_map_concat_map, (flat_map_concat_map j_txns), map_map. reflexivity.
Qed.

Lemma type_totals_all f ms : NoDup (map mid ms) ->
  sumZ (map (cat_tt f) (category_view ms)) = sumZ (map f (flat_map m_txns ms)).
Proof.
  intros H. rewrite type_totals_listed.
  rewrite (sumZ_perm _ _ (Permutation_map f (perm_flat_map j_txns _ _ (category_view_merchants _ H)))).
  f_equal. f_equal. induction ms as [|m ms IH]; [reflexivity|]. cbn [map flat_map]. f_equal.
  apply IH. inversion H; assumption.
Qed.

(* ===================================================================================== *)
(* 5. the transaction rows of a merchant                                                  *)
(* ===================================================================================== *)
Lemma number_from_snd {A} (l : list A) : forall i, map snd (number_from i l) = l.
Proof. induction l as [|x l IH]; intros i; [reflexivity|]. cbn [number_from map snd]. rewrite IH. reflexivity. Qed.
Lemma number_from_fst {A} (l : list A) : forall i, map fst (number_from i l) = seq i (length l).
Proof. induction l as [|x l IH]; intros i; [reflexivity|]. cbn [number_from map fst length seq]. rewrite IH. reflexivity. Qed.

(* every analysed transaction is written, in order, unchanged — whatever their number *)
Lemma embedded_txns_all j : map snd (embedded_txns j) = j_txns j.
Proof. unfold embedded_txns. rewrite map_map. cbn [snd]. apply number_from_snd. Qed.
Lemma embedded_txns_ids j : map fst (embedded_txns j) = map (txn_id (j_id j)) (seq 0 (length (j_txns j))).
Proof. unfold embedded_txns. rewrite map_map. cbn [fst]. rewrite <- number_from_fst, map_map. reflexivity. Qed.

(* str(i) is injective and made of digits *)
Lemma cps_inj a b : cps a = cps b -> a = b.
Proof.
  unfold cps. intros H.
  assert (G : list_ascii_of_string a = list_ascii_of_string b).
  { revert H. generalize (list_ascii_of_string a) (list_ascii_of_string b).
    induction l as [|x l IH]; intros [|y m] H; try discriminate; [reflexivity|].
    cbn [map] in H. injection H as H1 H2. f_equal; [|apply IH, H2].
    rewrite <- (ascii_N_embedding x), <- (ascii_N_embedding y), H1. reflexivity. }
  rewrite <- (string_of_list_ascii_of_string a), <- (string_of_list_ascii_of_string b), G. reflexivity.
Qed.

Lemma to_uint_nonnil n : N.to_uint n <> Decimal.Nil.
Proof. destruct n as [|p]; [discriminate|]. cbn. unfold Pos.to_uint. intros H.
  pose proof (DecimalPos.Unsigned.to_uint_nonnil p) as G. apply G. unfold Pos.to_uint. exact H. Qed.

Lemma dec_text_inj a b : dec_text a = dec_text b -> a = b.
Proof.
  unfold dec_text. intros H. apply cps_inj in H.
  assert (G : Some (N.to_uint a) = Some (N.to_uint b)).
  { rewrite <- (NilZero.usu _ (to_uint_nonnil a)), <- (NilZero.usu _ (to_uint_nonnil b)), H. reflexivity. }
  injection G as G. rewrite <- (DecimalN.Unsigned.of_to a), <- (DecimalN.Unsigned.of_to b), G. reflexivity.
Qed.

Lemma txn_id_inj_index m a b : txn_id m a = txn_id m b -> a = b.
Proof.
  unfold txn_id. intros H. apply app_inv_head in H. injection H as H. apply dec_text_inj in H.
  apply Nat2N.inj, H.
Qed.

(* the ids of a merchant's rows are pairwise distinct *)
Lemma embedded_txns_ids_nodup j : NoDup (map fst (embedded_txns j)).
Proof.
  rewrite embedded_txns_ids. apply FinFun.Injective_map_NoDup; [|apply seq_NoDup].
  intros a b. apply txn_id_inj_index.
Qed.

(* the embedded JSON text is printable ASCII: it is the same bytes in any ASCII-compatible file encoding *)
Lemma esc_lt_printable j : Forall (fun x => 32 <= x /\ x <= 126)%N j -> Forall (fun x => 32 <= x /\ x <= 126)%N (esc_lt j).
Proof.
  intros H. unfold esc_lt. induction H as [|c j Hc Hj IH]; [constructor|]. cbn [flat_map].
  apply Forall_app; split; [|exact IH]. destruct (N.eqb_spec c 60); [|repeat constructor; tauto].
  unfold LT_ESC. apply uesc_printable. reflexivity.
Qed.
