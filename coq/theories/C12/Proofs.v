(* C12/Proofs.v — lemmas for C12/Props.v. *)
From Coq Require Import String Ascii List Bool NArith ZArith Arith Lia Permutation.
From Tally Require Import C12.TextLib Gen.C12MerchantId Gen.C12Embed C12.Model.
Import ListNotations.
Open Scope N_scope.

(* ===================================================================================== *)
(* 1. prefix / occurs / find_split / repl                                                 *)
(* ===================================================================================== *)
Section MatchLemmas.
  Variable f : N -> N.

  Lemma prefix_nil_r p : prefix f p [] = true -> p = [].
  Proof. destruct p; simpl; [reflexivity|discriminate]. Qed.

  (* a match of p that starts in t and is not contained in t runs into the next character *)
  Lemma prefix_app_hd p : forall t c y,
    prefix f p (t ++ c :: y) = true -> prefix f p t = true \/ memN (f c) p = true.
  Proof.
    induction p as [|pc p IH]; intros t c y H; [left; reflexivity|].
    destruct t as [|d t]; simpl in H.
    - apply andb_prop in H as [H1 _]. right. simpl. rewrite H1. reflexivity.
    - apply andb_prop in H as [H1 H2]. destruct (IH _ _ _ H2) as [Hl|Hr].
      + left. simpl. rewrite H1, Hl. reflexivity.
      + right. simpl. rewrite Hr. apply orb_true_r.
  Qed.

  Lemma prefix_app_r p : forall l z, prefix f p l = true -> prefix f p (l ++ z) = true.
  Proof.
    induction p as [|pc p IH]; intros l z H; [reflexivity|].
    destruct l as [|c l]; simpl in *; [discriminate|].
    apply andb_prop in H as [H1 H2]. rewrite H1, (IH _ _ H2). reflexivity.
  Qed.

  Lemma prefix_app_long p : forall l z, (length p <= length l)%nat -> prefix f p (l ++ z) = prefix f p l.
  Proof.
    induction p as [|pc p IH]; intros l z H; [reflexivity|].
    destruct l as [|c l]; simpl in *; [lia|]. rewrite IH by lia. reflexivity.
  Qed.

  Lemma occurs_false_prefix p s : occurs f p s = false -> prefix f p s = false.
  Proof. destruct s; simpl; [auto|]. intros H. apply orb_false_elim in H. tauto. Qed.

  Lemma occurs_app_hd p : p <> [] -> forall a c y,
    occurs f p a = false -> occurs f p (c :: y) = false -> memN (f c) p = false ->
    occurs f p (a ++ c :: y) = false.
  Proof.
    intros Hp a. induction a as [|d a IH]; intros c y Ha Hb Hc; [exact Hb|].
    change ((d :: a) ++ c :: y) with (d :: (a ++ c :: y)).
    cbn [occurs] in Ha |- *. apply orb_false_elim in Ha as [Ha1 Ha2].
    apply orb_false_intro.
    - destruct (prefix f p (d :: a ++ c :: y)) eqn:E; [|reflexivity].
      change (d :: a ++ c :: y) with ((d :: a) ++ c :: y) in E.
      destruct (prefix_app_hd _ _ _ _ E) as [H|H]; congruence.
    - apply IH; assumption.
  Qed.

  (* no character of a can start a match: occurrences in a ++ b are those in b *)
  Lemma occurs_skip p0 p : forall a b,
    forallb (fun x => negb (f x =? p0)) a = true ->
    occurs f (p0 :: p) (a ++ b) = occurs f (p0 :: p) b.
  Proof.
    induction a as [|c a IH]; intros b H; [reflexivity|].
    simpl in H. apply andb_prop in H as [H1 H2].
    change ((c :: a) ++ b) with (c :: (a ++ b)). cbn [occurs prefix].
    apply negb_true_iff in H1. rewrite H1. cbn [andb orb]. apply IH, H2.
  Qed.

  Lemma occurs_app_r p : forall a b, occurs f p b = true -> occurs f p (a ++ b) = true.
  Proof.
    induction a as [|c a IH]; intros b H; [exact H|].
    change ((c :: a) ++ b) with (c :: (a ++ b)). cbn [occurs]. rewrite (IH _ H). apply orb_true_r.
  Qed.

  Lemma occurs_prefix p s : prefix f p s = true -> occurs f p s = true.
  Proof. destruct s; simpl; [auto|]. intros ->. reflexivity. Qed.
End MatchLemmas.

Lemma prefix_id_self p : forall b, prefix idc p (p ++ b) = true.
Proof. induction p as [|c p IH]; intros b; [reflexivity|]. simpl. unfold idc at 1. rewrite N.eqb_refl. apply IH. Qed.

Lemma occurs_mid p a b : occurs idc p (a ++ p ++ b) = true.
Proof. apply occurs_app_r, occurs_prefix, prefix_id_self. Qed.

Lemma find_none p s : p <> [] -> occurs idc p s = false -> find_split p s = None.
Proof.
  intros Hp. induction s as [|c s IH]; intros H; [reflexivity|].
  cbn [occurs] in H. apply orb_false_elim in H as [H1 H2].
  cbn [find_split]. rewrite H1, (IH H2). reflexivity.
Qed.

Lemma find_none_occurs p s : find_split p s = None -> occurs idc p s = false \/ p = [].
Proof.
  induction s as [|c s IH]; intros H.
  - destruct p; [right; reflexivity|left; reflexivity].
  - cbn [find_split] in H. destruct (prefix idc p (c :: s)) eqn:E; [discriminate|].
    destruct (find_split p s) as [[a b]|] eqn:F; [discriminate|].
    destruct (IH eq_refl) as [G|G]; [left|right; exact G]. cbn [occurs]. rewrite E, G. reflexivity.
Qed.

Lemma find_app_hd p : p <> [] -> forall a c y,
  occurs idc p a = false -> memN c p = false ->
  find_split p (a ++ c :: y) =
  match find_split p (c :: y) with Some (u, v) => Some (a ++ u, v) | None => None end.
Proof.
  intros Hp a. induction a as [|d a IH]; intros c y Ha Hc.
  - simpl app. destruct (find_split p (c :: y)) as [[u v]|]; reflexivity.
  - change ((d :: a) ++ c :: y) with (d :: (a ++ c :: y)).
    cbn [occurs] in Ha. apply orb_false_elim in Ha as [Ha1 Ha2].
    specialize (IH _ y Ha2 Hc). remember (find_split p (c :: y)) as o eqn:Eo. clear Eo.
    cbn [find_split].
    destruct (prefix idc p (d :: a ++ c :: y)) eqn:E.
    + change (d :: a ++ c :: y) with ((d :: a) ++ c :: y) in E.
      destruct (prefix_app_hd idc _ _ _ _ E) as [H|H]; unfold idc in *; congruence.
    + rewrite IH. destruct o as [[u v]|]; reflexivity.
Qed.

Lemma find_split_nil p : find_split p [] = None.
Proof. reflexivity. Qed.

Lemma repl_none p new s : find_split p s = None -> repl p new s = s.
Proof. intros H. unfold repl. cbn [repl_fuel]. rewrite H. reflexivity. Qed.

Lemma repl_once p new s a b :
  find_split p s = Some (a, b) -> find_split p b = None -> repl p new s = a ++ new ++ b.
Proof.
  intros H1 H2. unfold repl. destruct s as [|c s]; [discriminate|].
  cbn [length repl_fuel]. rewrite H1, H2. reflexivity.
Qed.

(* the fuel of repl is always enough: more fuel changes nothing *)
Lemma prefix_id_split p : forall s, prefix idc p s = true -> s = p ++ skipn (length p) s.
Proof.
  induction p as [|pc p IH]; intros s H; [reflexivity|].
  destruct s as [|c s]; simpl in H; [discriminate|]. apply andb_prop in H as [H1 H2].
  apply N.eqb_eq in H1. unfold idc in H1. subst c. cbn [length skipn app]. f_equal. apply IH, H2.
Qed.

Lemma find_sound p : forall s a b, find_split p s = Some (a, b) -> s = a ++ p ++ b.
Proof.
  induction s as [|c s IH]; intros a b H; [discriminate|].
  cbn [find_split] in H. destruct (prefix idc p (c :: s)) eqn:E.
  - injection H as <- <-. apply (prefix_id_split _ _ E).
  - destruct (find_split p s) as [[a' b']|] eqn:F; [|discriminate]. injection H as <- <-.
    rewrite (IH _ _ eq_refl) at 1. reflexivity.
Qed.

Lemma find_shrinks p s a b : p <> [] -> find_split p s = Some (a, b) -> (length b < length s)%nat.
Proof.
  intros Hp H. apply find_sound in H. subst s. rewrite !app_length.
  destruct p; [congruence|]. simpl. lia.
Qed.

Lemma repl_fuel_enough p new : p <> [] -> forall n s, (length s < n)%nat ->
  repl_fuel n p new s = repl p new s.
Proof.
  intros Hp. unfold repl.
  assert (G : forall k n s, (length s < k)%nat -> (length s < n)%nat ->
                            repl_fuel n p new s = repl_fuel k p new s).
  { induction k as [|k IH]; intros n s Hk Hn; [lia|].
    destruct n as [|n]; [lia|]. cbn [repl_fuel].
    destruct (find_split p s) as [[a b]|] eqn:F; [|reflexivity].
    pose proof (find_shrinks _ _ _ _ Hp F). f_equal. f_equal. apply IH; lia. }
  intros n s Hn. apply G; lia.
Qed.

(* ===================================================================================== *)
(* 2. JSON strings: decode (encode s) = Some s                                            *)
(* ===================================================================================== *)
Definition hex_ok (n : N) : bool :=
  match unhex4 (hexd (n / 4096)) (hexd ((n / 256) mod 16)) (hexd ((n / 16) mod 16)) (hexd (n mod 16)) with
  | Some m => m =? n
  | None => false
  end.
Lemma hex_ok_all : forallb hex_ok (map N.of_nat (seq 0 (N.to_nat 65536))) = true.
Proof. vm_compute. reflexivity. Qed.

Lemma unhex4_hex4 n : n < 65536 ->
  unhex4 (hexd (n / 4096)) (hexd ((n / 256) mod 16)) (hexd ((n / 16) mod 16)) (hexd (n mod 16)) = Some n.
Proof.
  intros Hn. pose proof hex_ok_all as H. rewrite forallb_forall in H.
  assert (Hin : In n (map N.of_nat (seq 0 (N.to_nat 65536)))).
  { rewrite <- (N2Nat.id n). apply in_map. apply in_seq. lia. }
  specialize (H _ Hin). unfold hex_ok in H.
  destruct (unhex4 _ _ _ _) as [m|]; [|discriminate]. apply N.eqb_eq in H. now subst.
Qed.

Lemma dec_uesc a b c d rest :
  dec_body (92 :: 117 :: a :: b :: c :: d :: rest) =
  match unhex4 a b c d with
  | None => None
  | Some u =>
      if is_high u then
        match rest with
        | bs :: uu :: a' :: b' :: c' :: d' :: r3 =>
            if (bs =? 92) && (uu =? 117) then
              match unhex4 a' b' c' d' with
              | Some u2 => if is_low u2 then ocons (join_surrogates u u2) (dec_body r3) else ocons u (dec_body rest)
              | None => None
              end
            else ocons u (dec_body rest)
        | _ => ocons u (dec_body rest)
        end
      else ocons u (dec_body rest)
  end.
Proof. reflexivity. Qed.

Lemma dec_simple e x rest : (e =? 117) = false -> simple_esc e = Some x ->
  dec_body (92 :: e :: rest) = ocons x (dec_body rest).
Proof. intros H1 H2. cbn [dec_body]. change (92 =? 34) with false. change (92 =? 92) with true. cbn iota. rewrite H1, H2. reflexivity. Qed.

Lemma dec_plain c rest : (c =? 34) = false -> (c =? 92) = false -> (c <? 32) = false ->
  dec_body (c :: rest) = ocons c (dec_body rest).
Proof. intros H1 H2 H3. cbn [dec_body]. rewrite H1, H2, H3. reflexivity. Qed.

Lemma dec_enc_char c rest : is_scalar c = true -> dec_body (enc_char c ++ rest) = ocons c (dec_body rest).
Proof.
  intros Hs. unfold is_scalar in Hs. apply andb_prop in Hs as [Hs1 Hs2].
  apply N.ltb_lt in Hs1. apply negb_true_iff in Hs2.
  unfold enc_char.
  destruct (N.eqb_spec c 34) as [->|N34]; [reflexivity|].
  destruct (N.eqb_spec c 92) as [->|N92]; [reflexivity|].
  destruct (N.eqb_spec c 10) as [->|N10]; [reflexivity|].
  destruct (N.eqb_spec c 13) as [->|N13]; [reflexivity|].
  destruct (N.eqb_spec c 9) as [->|N9]; [reflexivity|].
  destruct (N.eqb_spec c 8) as [->|N8]; [reflexivity|].
  destruct (N.eqb_spec c 12) as [->|N12]; [reflexivity|].
  destruct ((32 <=? c) && (c <=? 126)) eqn:Ep.
  - apply andb_prop in Ep as [E1 E2]. apply N.leb_le in E1. cbn [app].
    apply dec_plain; [apply N.eqb_neq; assumption|apply N.eqb_neq; assumption|apply N.ltb_ge; assumption].
  - destruct (N.ltb_spec c 65536) as [Hb|Hb].
    + unfold uesc, hex4. cbn [app]. rewrite dec_uesc, (unhex4_hex4 _ Hb).
      assert (Hns : c < 55296 \/ 57343 < c).
      { apply andb_false_iff in Hs2 as [Hx|Hx]; apply N.leb_gt in Hx; lia. }
      assert (Hh : is_high c = false).
      { unfold is_high. apply andb_false_iff. destruct Hns; [left|right]; apply N.leb_gt; lia. }
      rewrite Hh. reflexivity.
    + set (v := c - 65536). set (hi := 55296 + v / 1024). set (lo := 56320 + v mod 1024).
      assert (Hv : v < 1048576) by (unfold v; lia).
      assert (Hq : v / 1024 < 1024) by (apply N.div_lt_upper_bound; lia).
      assert (Hr : v mod 1024 < 1024) by (apply N.mod_lt; lia).
      assert (Hdm : v = 1024 * (v / 1024) + v mod 1024) by (apply N.div_mod; lia).
      assert (Hhi : hi < 65536 /\ 55296 <= hi /\ hi <= 56319) by (unfold hi; lia).
      assert (Hlo : lo < 65536 /\ 56320 <= lo /\ lo <= 57343) by (unfold lo; lia).
      unfold uesc, hex4. cbn [app]. rewrite dec_uesc, (unhex4_hex4 hi) by tauto.
      assert (Hh : is_high hi = true).
      { unfold is_high. apply andb_true_intro; split; apply N.leb_le; tauto. }
      rewrite Hh. change (92 =? 92) with true. change (117 =? 117) with true. cbn [andb].
      rewrite (unhex4_hex4 lo) by tauto.
      assert (Hl : is_low lo = true).
      { unfold is_low. apply andb_true_intro; split; apply N.leb_le; tauto. }
      rewrite Hl. f_equal. unfold join_surrogates, hi, lo. fold v. assert (c = v + 65536) by (unfold v; lia). lia.
Qed.

Lemma dec_enc_body s : forallb is_scalar s = true -> dec_body (enc_body s ++ [34]) = Some s.
Proof.
  induction s as [|c s IH]; intros H; [reflexivity|].
  cbn [forallb] in H. apply andb_prop in H as [H1 H2].
  unfold enc_body. cbn [flat_map]. rewrite <- app_assoc. rewrite (dec_enc_char _ _ H1).
  fold (enc_body s). rewrite (IH H2). reflexivity.
Qed.

Lemma json_string_roundtrip s : forallb is_scalar s = true -> decode (encode s) = Some s.
Proof. intros H. unfold decode, encode. change (34 =? 34) with true. cbn iota. apply dec_enc_body, H. Qed.

(* what the encoder emits is printable ASCII (so it survives any ASCII-compatible file encoding) *)
Lemma hexd_printable d : d < 16 -> 32 <= hexd d /\ hexd d <= 126.
Proof. intros H. unfold hexd. destruct (N.ltb_spec d 10); lia. Qed.
Lemma enc_char_printable c : c < 1114112 -> Forall (fun x => 32 <= x /\ x <= 126) (enc_char c).
Proof.
  intros Hc. unfold enc_char.
  repeat match goal with |- context [if ?c =? ?k then _ else _] => destruct (N.eqb_spec c k); [repeat constructor; lia|] end.
  destruct ((32 <=? c) && (c <=? 126)) eqn:Ep.
  - apply andb_prop in Ep as [E1 E2]. apply N.leb_le in E1, E2. repeat constructor; lia.
  - destruct (N.ltb_spec c 65536).
    + unfold uesc, hex4. repeat constructor; try lia; apply hexd_printable; lia.
    + unfold uesc, hex4. apply Forall_app; split; repeat constructor; try lia; apply hexd_printable; lia.
Qed.
Lemma encode_printable s : Forall (fun c => c < 1114112) s -> Forall (fun x => 32 <= x /\ x <= 126) (encode s).
Proof.
  intros H. unfold encode. constructor; [lia|]. apply Forall_app; split; [|repeat constructor; lia].
  unfold enc_body. induction H as [|c s Hc Hs IH]; [constructor|]. cbn [flat_map]. apply Forall_app; split; [apply enc_char_printable, Hc|exact IH].
Qed.
