(* C12/Model.v — executable model of what report.py / analyzer.py do with an analysis result:
   (a) json.dumps' string encoder (default settings: ensure_ascii) and json.loads' string decoder;
   (b) the embedded-HTML assembly: the escaping of '<' in the JSON text, the placeholder replacements of
       Gen/C12Embed.v (regenerated from report.py, in source order: style sheet, script, data last) and
       the HTML "script data" scan that gets the data back
       (a <script> element's text ends at the first "</script" — ASCII case-insensitive — that
       is followed by whitespace, '/' or '>');
   (c) make_merchant_id / section_id: Gen/C12MerchantId.v (translated);
   (d) build_section_merchants / build_category_view as folds over the analysed merchants with
       dict-assignment semantics on the derived ids; money in exact integer ticks;
   (e) which figure each output format prints.
   Texts are lists of code points (TextLib).  No proofs here. *)
From Coq Require Import String Ascii List Bool NArith ZArith DecimalString DecimalN.
From Tally Require Import C12.TextLib Gen.C12MerchantId Gen.C12Embed.
Import ListNotations.
Open Scope N_scope.
Module Id := C12MerchantId.
Module Emb := C12Embed.

(* ===================================================================================== *)
(* (a) JSON strings                                                                       *)
(* ===================================================================================== *)
(* a Python str that came from decoding UTF-8: every element is a Unicode scalar value *)
Definition is_scalar (c : N) : bool := (c <? 1114112) && negb ((55296 <=? c) && (c <=? 57343)).

Definition hexd (d : N) : N := if d <? 10 then 48 + d else 87 + d.          (* lowercase, as '{:04x}' *)
Definition hex4 (n : N) : text := [hexd (n / 4096); hexd ((n / 256) mod 16); hexd ((n / 16) mod 16); hexd (n mod 16)].
Definition uesc (n : N) : text := 92 :: 117 :: hex4 n.                       (* \uXXXX *)

(* json.encoder.py_encode_basestring_ascii: backslash, double quote and everything outside space..~ are escaped *)
Definition enc_char (c : N) : text :=
  if c =? 34 then [92; 34] else if c =? 92 then [92; 92]
  else if c =? 10 then [92; 110] else if c =? 13 then [92; 114] else if c =? 9 then [92; 116]
  else if c =? 8 then [92; 98] else if c =? 12 then [92; 102]
  else if (32 <=? c) && (c <=? 126) then [c]
  else if c <? 65536 then uesc c
  else let v := c - 65536 in uesc (55296 + v / 1024) ++ uesc (56320 + v mod 1024).
Definition enc_body (s : text) : text := flat_map enc_char s.
Definition encode (s : text) : text := 34 :: enc_body s ++ [34].

Definition unhexd (c : N) : option N :=
  if (48 <=? c) && (c <=? 57) then Some (c - 48)
  else if (97 <=? c) && (c <=? 102) then Some (c - 87)
  else if (65 <=? c) && (c <=? 70) then Some (c - 55) else None.
Definition unhex4 (a b c d : N) : option N :=
  match unhexd a, unhexd b, unhexd c, unhexd d with
  | Some w, Some x, Some y, Some z => Some (w * 4096 + x * 256 + y * 16 + z)
  | _, _, _, _ => None
  end.
Definition is_high (u : N) : bool := (55296 <=? u) && (u <=? 56319).
Definition is_low (u : N) : bool := (56320 <=? u) && (u <=? 57343).
Definition join_surrogates (hi lo : N) : N := 65536 + (hi - 55296) * 1024 + (lo - 56320).
Definition simple_esc (e : N) : option N :=
  if e =? 34 then Some 34 else if e =? 92 then Some 92 else if e =? 47 then Some 47
  else if e =? 98 then Some 8 else if e =? 102 then Some 12 else if e =? 110 then Some 10
  else if e =? 114 then Some 13 else if e =? 116 then Some 9 else None.
Definition ocons (c : N) (o : option text) : option text :=
  match o with Some l => Some (c :: l) | None => None end.

(* json.decoder scanstring (strict) after the opening quote; the closing quote must end the input *)
Fixpoint dec_body (l : text) : option text :=
  match l with
  | [] => None
  | c :: r =>
    if c =? 34 then (match r with [] => Some [] | _ :: _ => None end)
    else if c =? 92 then
      match r with
      | [] => None
      | e :: r1 =>
        if e =? 117 then
          match r1 with
          | a :: b :: c2 :: d :: r2 =>
            match unhex4 a b c2 d with
            | None => None
            | Some u =>
              if is_high u then
                match r2 with
                | bs :: uu :: a' :: b' :: c' :: d' :: r3 =>
                  if (bs =? 92) && (uu =? 117) then
                    match unhex4 a' b' c' d' with
                    | Some u2 => if is_low u2 then ocons (join_surrogates u u2) (dec_body r3)
                                 else ocons u (dec_body r2)
                    | None => None
                    end
                  else ocons u (dec_body r2)
                | _ => ocons u (dec_body r2)
                end
              else ocons u (dec_body r2)
            end
          | _ => None
          end
        else match simple_esc e with Some x => ocons x (dec_body r1) | None => None end
      end
    else if c <? 32 then None
    else ocons c (dec_body r)
  end.
Definition decode (l : text) : option text :=
  match l with c :: r => if c =? 34 then dec_body r else None | [] => None end.

(* ===================================================================================== *)
(* (b) embedding and extraction                                                           *)
(* ===================================================================================== *)
(* json.dumps(spending_data).replace('<', '\u003c'): every '<' of the JSON text becomes the six characters
   \u003c (hand model of the replace chain Emb.data_escape_steps; Props.c12_escape_is_replace ties the two) *)
Definition LT_ESC : text := uesc 60.
Definition esc_lt (j : text) : text := flat_map (fun c => if c =? 60 then LT_ESC else [c]) j.
Definition data_script (j : text) : text := Emb.data_prefix ++ esc_lt j ++ Emb.data_suffix.
Definition slot_text (css js ds : text) (s : Emb.slot) : text :=
  match s with Emb.SCss => css | Emb.SData => ds | Emb.SJs => js end.
(* final_html = html_template.replace(..).replace(..).replace(..), in the order found in report.py,
   ds = the data script text *)
Definition embed_ds (tpl css js ds : text) : text :=
  fold_left (fun t st => repl (fst st) (slot_text css js ds (snd st)) t) Emb.embed_steps tpl.
Definition embed (tpl css js j : text) : text := embed_ds tpl css js (data_script j).

Definition CLOSE : text := cps "</script".
Definition SCRIPT : text := cps "script".
Definition is_term (c : N) : bool :=
  (c =? 9) || (c =? 10) || (c =? 12) || (c =? 13) || (c =? 32) || (c =? 47) || (c =? 62).
(* the script data ends here *)
Definition closes (l : text) : bool :=
  prefix lowc CLOSE l && match nth_error l 8 with Some c => is_term c | None => false end.

Inductive mode :=
| MData                          (* outside any tag *)
| MName (k : nat) (ok : bool)    (* after '<': k name characters read; ok = they spell a prefix of "script" *)
| MTag (is_script : bool)        (* inside a tag after its name, up to '>' *)
| MScript.                       (* script data *)

Definition after_tag (s : bool) : mode := if s then MScript else MData.

(* texts of the finished <script> elements of a document, in order.  Fragment: every '<' in
   ordinary data starts a tag or comment whose first '>' closes it (true of the templates; the
   check compares with html.parser on every rendered document). *)
Fixpoint scan (m : mode) (cur : text) (l : text) : list text :=
  match l with
  | [] => []
  | c :: r =>
    match m with
    | MData => scan (if c =? 60 then MName 0 true else MData) [] r
    | MName k ok =>
        if is_term c then
          let s := ok && Nat.eqb k 6 in
          scan (if c =? 62 then after_tag s else MTag s) [] r
        else scan (MName (S k) (ok && (nth k SCRIPT 0 =? lowc c))) [] r
    | MTag s => scan (if c =? 62 then after_tag s else MTag s) [] r
    | MScript => if closes l then rev cur :: scan (MTag false) [] r
                 else scan MScript (c :: cur) r
    end
  end.

(* the same scan over a prefix of a document: final mode, pending script text and finished scripts;
   None when a decision would need characters beyond the prefix *)
Fixpoint scan_pre (m : mode) (cur : text) (l : text) : option (mode * text * list text) :=
  match l with
  | [] => Some (m, cur, [])
  | c :: r =>
    match m with
    | MData => scan_pre (if c =? 60 then MName 0 true else MData) [] r
    | MName k ok =>
        if is_term c then
          let s := ok && Nat.eqb k 6 in
          scan_pre (if c =? 62 then after_tag s else MTag s) [] r
        else scan_pre (MName (S k) (ok && (nth k SCRIPT 0 =? lowc c))) [] r
    | MTag s => scan_pre (if c =? 62 then after_tag s else MTag s) [] r
    | MScript =>
        if Nat.leb 9 (length l) then
          if closes l then
            match scan_pre (MTag false) [] r with
            | Some (m', cur', found) => Some (m', cur', rev cur :: found)
            | None => None
            end
          else scan_pre MScript (c :: cur) r
        else None
    end
  end.

Definition is_data_script (t : text) : bool := prefix idc Emb.data_prefix t.
(* "window.spendingData = <J>;"  ->  J *)
Definition strip_data (t : text) : option text :=
  if is_data_script t then
    let b := skipn (length Emb.data_prefix) t in
    if ends_with b Emb.data_suffix then Some (firstn (length b - length Emb.data_suffix) b) else None
  else None.
Definition extract_script (doc : text) : option text :=
  match filter is_data_script (scan MData [] doc) with
  | t :: _ => strip_data t
  | [] => None
  end.

Definition CSS_PH : text := cps "/* CSS_PLACEHOLDER */".
Definition DATA_PH : text := cps "/* DATA_PLACEHOLDER */".
Definition JS_PH : text := cps "/* JS_PLACEHOLDER */".
Definition is_none {A} (o : option A) : bool := match o with None => true | Some _ => false end.

(* what the proofs need of the template, the style sheet and the script (checked on the real files every
   run): after the style sheet and the script are inserted the data placeholder occurs exactly once,
   directly inside "<script>…</script>", and no earlier script looks like the data script. *)
Definition tpl_ok (tpl css js : text) : bool :=
  match find_split DATA_PH (repl JS_PH js (repl CSS_PH css tpl)) with
  | None => false
  | Some (X, Y) =>
      is_none (find_split DATA_PH Y)
      && match scan_pre MData [] X with
         | Some (MScript, [], found) => forallb (fun t => negb (is_data_script t)) found
         | _ => false
         end
      && closes Y
  end.

(* the pre-fix variant of report.py (history): data inserted before the JS placeholder is replaced, no escaping *)
Definition embed_prefix_variant (tpl css js j : text) : text :=
  repl JS_PH js (repl DATA_PH (Emb.data_prefix ++ j ++ Emb.data_suffix) (repl CSS_PH css tpl)).

(* computable predicates on a data text (used for the pre-fix history examples) *)
Definition no_script_close (j : text) : bool := negb (occurs lowc CLOSE j).
Definition no_js_placeholder (j : text) : bool := negb (occurs idc JS_PH j).

(* ===================================================================================== *)
(* (d) merchants, sections, category view                                                 *)
(* ===================================================================================== *)
Open Scope Z_scope.
Record txn := { t_desc : text; t_amount : Z; t_month : text; t_tags : list text; t_source : text;
                t_extra : list (text * text) }.
(* one entry of stats['by_merchant'] (names are dict keys: distinct) *)
Record merchant := { m_name : text; m_cat : text; m_sub : text; m_total : Z; m_count : Z; m_txns : list txn }.
(* the JSON object written for a merchant *)
Record jmerchant := { j_id : text; j_name : text; j_cat : text; j_sub : text; j_ytd : Z; j_count : Z;
                      j_txns : list txn }.
Definition mid (m : merchant) : text := Id.make_merchant_id (m_name m).
Definition to_j (m : merchant) : jmerchant :=
  {| j_id := mid m; j_name := m_name m; j_cat := m_cat m; j_sub := m_sub m; j_ytd := m_total m;
     j_count := m_count m; j_txns := m_txns m |}.

(* the transaction rows written under a merchant: EVERY analysed transaction, in order, the i-th with
   id f"{merchant_id}_{i}" (no cap on the number of rows) and its fields copied as they are
   (description, amount, month, tags, source; extra_fields when non-empty — the empty dict is falsy) *)
Definition dec_text (n : N) : text := cps (NilZero.string_of_uint (N.to_uint n)).      (* str(i) *)
Definition txn_id (merchant_id : text) (i : nat) : text := merchant_id ++ 95%N :: dec_text (N.of_nat i).
Fixpoint number_from {A} (i : nat) (l : list A) : list (nat * A) :=
  match l with [] => [] | x :: r => (i, x) :: number_from (S i) r end.                 (* enumerate(l, i) *)
Definition embedded_txns (j : jmerchant) : list (text * txn) :=
  map (fun p => (txn_id (j_id j) (fst p), snd p)) (number_from 0 (j_txns j)).

(* d[k] = v on an insertion-ordered dict *)
Fixpoint tset {V : Type} (d : list (text * V)) (k : text) (v : V) : list (text * V) :=
  match d with
  | [] => [(k, v)]
  | (k', v') :: r => if text_eqb k k' then (k', v) :: r else (k', v') :: tset r k v
  end.

(* build_section_merchants: merchants[make_merchant_id(name)] = {...} for every (name, data) *)
Definition by_id (ms : list merchant) : list (text * jmerchant) :=
  fold_left (fun d m => tset d (mid m) (to_j m)) ms [].

(* sections[section_id] = {title, merchants}; views without merchants are skipped *)
Record jsection := { sec_title : text; sec_merchants : list (text * jmerchant) }.
Definition is_nil {A} (l : list A) : bool := match l with [] => true | _ => false end.
Definition sections_view (views : list (text * list merchant)) : list (text * jsection) :=
  fold_left (fun d v => if is_nil (snd v) then d
                        else tset d (Id.section_id (fst v)) {| sec_title := fst v; sec_merchants := by_id (snd v) |})
            views [].

Record subcat := { s_name : text; s_total : Z; s_count : Z; s_merchants : list (text * jmerchant) }.
Record category := { c_name : text; c_total : Z; c_count : Z; c_subs : list subcat }.

Definition cat_key (j : jmerchant) : text * text :=
  let cat := if is_nil (j_cat j) then cps "Uncategorized" else j_cat j in
  let sub := if is_nil (j_sub j) then cps "Other" else j_sub j in
  if text_eqb cat (cps "Unknown") then (cps "Uncategorized", cps "Unknown") else (cat, sub).

Fixpoint add_sub (subs : list subcat) (sn id : text) (j : jmerchant) : list subcat :=
  match subs with
  | [] => [ {| s_name := sn; s_total := j_ytd j; s_count := j_count j; s_merchants := [(id, j)] |} ]
  | s :: r =>
      if text_eqb sn (s_name s)
      then {| s_name := s_name s; s_total := s_total s + j_ytd j; s_count := s_count s + j_count j;
              s_merchants := tset (s_merchants s) id j |} :: r
      else s :: add_sub r sn id j
  end.
Fixpoint add_cat (cs : list category) (cn sn id : text) (j : jmerchant) : list category :=
  match cs with
  | [] => [ {| c_name := cn; c_total := j_ytd j; c_count := j_count j; c_subs := add_sub [] sn id j |} ]
  | c :: r =>
      if text_eqb cn (c_name c)
      then {| c_name := c_name c; c_total := c_total c + j_ytd j; c_count := c_count c + j_count j;
              c_subs := add_sub (c_subs c) sn id j |} :: r
      else c :: add_cat r cn sn id j
  end.
Definition ins (cs : list category) (p : text * jmerchant) : list category :=
  add_cat cs (fst (cat_key (snd p))) (snd (cat_key (snd p))) (fst p) (snd p).
Definition group (l : list (text * jmerchant)) : list category := fold_left ins l [].
(* build_category_view *)
Definition category_view (ms : list merchant) : list category := group (by_id ms).

Definition sub_pairs (s : subcat) : list (text * jmerchant) := s_merchants s.
Definition cat_pairs (c : category) : list (text * jmerchant) := flat_map sub_pairs (c_subs c).
Definition view_pairs (cv : list category) : list (text * jmerchant) := flat_map cat_pairs cv.
Definition view_merchants (cv : list category) : list jmerchant := map snd (view_pairs cv).

Definition sumZ (l : list Z) : Z := fold_right Z.add 0 l.

(* categories[cat]['typeTotals']: computed after grouping, from the transactions of the merchants
   listed under the category, each classified by ITS OWN tags (lower-cased):
   income > investment > transfer > (amount >= 0: spending); other negatives are credits (not kept) *)
Definition txn_has (w : text) (t : txn) : bool := existsb (fun g => text_eqb (lower_text g) w) (t_tags t).
Definition tt_income (t : txn) : Z := if txn_has (cps "income") t then Z.abs (t_amount t) else 0.
Definition tt_investment (t : txn) : Z :=
  if txn_has (cps "income") t then 0 else if txn_has (cps "investment") t then Z.abs (t_amount t) else 0.
Definition tt_transfer (t : txn) : Z :=
  if txn_has (cps "income") t then 0 else if txn_has (cps "investment") t then 0
  else if txn_has (cps "transfer") t then Z.abs (t_amount t) else 0.
Definition tt_spending (t : txn) : Z :=
  if txn_has (cps "income") t then 0 else if txn_has (cps "investment") t then 0
  else if txn_has (cps "transfer") t then 0 else if 0 <=? t_amount t then t_amount t else 0.
Definition cat_txns (c : category) : list txn := flat_map (fun p => j_txns (snd p)) (cat_pairs c).
Definition cat_tt (f : txn -> Z) (c : category) : Z := sumZ (map f (cat_txns c)).
(* (spending, income, investment, transfer) *)
Definition type_totals (c : category) : Z * (Z * (Z * Z)) :=
  (cat_tt tt_spending c, (cat_tt tt_income c, (cat_tt tt_investment c, cat_tt tt_transfer c))).
Definition named_txns_j (js : list jmerchant) : list (text * txn) :=
  flat_map (fun j => map (pair (j_name j)) (j_txns j)) js.
Definition named_txns (ms : list merchant) : list (text * txn) :=
  flat_map (fun m => map (pair (m_name m)) (m_txns m)) ms.

(* ===================================================================================== *)
(* (e) the figures each format prints                                                     *)
(* ===================================================================================== *)
Inductive figure := FIncome | FSpending | FCredits | FCashFlow | FTransfersIn | FTransfersOut | FTransfersNet.
(* the analysed totals (analyze_transactions) plus what export_json looks at instead *)
Record msum := { ms_tags : list text; ms_total : Z }.       (* by_merchant[name]: tags, total *)
Record astats := { a_income : Z; a_spending : Z; a_credits : Z; a_cash_flow : Z;
                   a_transfers_in : Z; a_transfers_out : Z; a_transfers_net : Z;
                   a_total_raw : Z;                          (* stats['total'] = sum of raw amounts *)
                   a_merchants : list msum }.
Definition stats_fig (s : astats) (f : figure) : option Z :=
  Some (match f with
        | FIncome => a_income s | FSpending => a_spending s | FCredits => a_credits s
        | FCashFlow => a_cash_flow s | FTransfersIn => a_transfers_in s | FTransfersOut => a_transfers_out s
        | FTransfersNet => a_transfers_net s
        end).
(* write_summary_file_vue, export_markdown and print_summary bind all seven figures to the
   stats keys (Gen.C12Embed.binds_html etc.); print_sections_summary prints four of them *)
Definition html_fig := stats_fig.
Definition markdown_fig := stats_fig.
Definition text_fig := stats_fig.
Definition sections_prints (f : figure) : bool :=
  match f with FIncome | FSpending | FCredits | FCashFlow => true | _ => false end.
Definition sections_fig (s : astats) (f : figure) : option Z := if sections_prints f then stats_fig s f else None.
(* export_json recomputes per merchant *)
Definition has_tag (w : text) (m : msum) : bool := existsb (fun t => text_eqb (lower_text t) w) (ms_tags m).
Definition json_income (s : astats) : Z := sumZ (map ms_total (filter (has_tag (cps "income")) (a_merchants s))).
Definition json_fig (s : astats) (f : figure) : option Z :=
  match f with
  | FIncome => Some (json_income s)
  | FSpending => Some (sumZ (map ms_total (filter (fun m => 0 <? ms_total m) (a_merchants s))))
  | FCredits => Some (Z.abs (sumZ (map ms_total (filter (fun m => ms_total m <? 0) (a_merchants s)))))
  | FCashFlow => if 0 <? json_income s then Some (json_income s - a_total_raw s) else None
  | FTransfersNet => Some (Z.abs (sumZ (map ms_total (filter (has_tag (cps "transfer")) (a_merchants s)))))
  | FTransfersIn | FTransfersOut => None
  end.
(* the stats key each figure is read from (tie to Gen.C12Embed.binds_html etc.) *)
Definition fig_key (f : figure) : string :=
  match f with
  | FIncome => "income_total" | FSpending => "spending_total" | FCredits => "credits_total"
  | FCashFlow => "cash_flow" | FTransfersIn => "transfers_in" | FTransfersOut => "transfers_out"
  | FTransfersNet => "transfers_net"
  end%string.
Definition all_figures := [FIncome; FSpending; FCredits; FCashFlow; FTransfersIn; FTransfersOut; FTransfersNet].
Definition binds_has (b : list (string * string)) (k : string) : bool :=
  existsb (fun p => String.eqb (snd p) k) b.
