(* C12 — HTML, JSON, Markdown and text outputs all render and carry the same data.
   Model: C12/Model.v.  make_merchant_id / section_id, the placeholder replacement order, the data
   script's prefix/suffix and the stats keys each output function binds are regenerated from
   /repo/src/tally/report.py and analyzer.py on every run (Gen/C12MerchantId.v, Gen/C12Embed.v).
   Texts are lists of code points; money is exact integer ticks.

   Status after the adopted fixes (data inserted last; '<' written as \u003c in the embedded JSON;
   gross_spending defined in export_markdown): the extraction and placeholder statements hold at
   full strength, for every data text.  For the parts the code still does not satisfy (derived ids
   not injective, export_json's recomputation) the full statement is a [Definition …_statement],
   refuted by a witness, and the strongest guarded version is proved as […_partial]; the witnesses
   are replayed on the real code by harness/c12.py (known findings C12/...). *)
From Coq Require Import String List Bool NArith ZArith Permutation.
From Tally Require Import C12.TextLib Gen.C12MerchantId Gen.C12Embed C12.Model C12.Proofs.
From Tally Require Lib.Str Gen.ClassificationPy C06.Model C12.Classify.
Import ListNotations.
Open Scope N_scope.

(* ---- witnesses ------------------------------------------------------------------------- *)
Definition w_tpl : text := cps "<!DOCTYPE html><html><head><style>/* CSS_PLACEHOLDER */</style></head><body><!-- deps --><script src=""v.js""></script><script>/* DATA_PLACEHOLDER */</script><script>/* JS_PLACEHOLDER */</script></body></html>".
Definition w_css : text := cps "b{c:d}".
Definition w_js : text := cps "app();".
Lemma w_tpl_ok : tpl_ok w_tpl w_css w_js = true.
Proof. vm_compute. reflexivity. Qed.

(* ===================================================================================== *)
(* JSON strings                                                                           *)
(* ===================================================================================== *)
(* json.loads(json.dumps(s)) == s for every text of Unicode scalar values (what decoding a UTF-8
   file yields), whatever it contains: quotes, backslashes, control characters, non-ASCII, astral *)
Theorem c12_json_string_roundtrip :
  forall s : text, forallb is_scalar s = true -> decode (encode s) = Some s.
Proof. exact json_string_roundtrip. Qed.
Print Assumptions c12_json_string_roundtrip.

(* and what json.dumps emits for a string is printable ASCII *)
Theorem c12_json_string_ascii :
  forall s : text, Forall (fun c => c < 1114112) s -> Forall (fun x => 32 <= x /\ x <= 126) (encode s).
Proof. exact encode_printable. Qed.
Print Assumptions c12_json_string_ascii.

Example c12_json_example :
  let s := [34; 92; 60; 47; 10; 0; 31; 127; 233; 8364; 65535; 65536; 128512; 1114111] in
  forallb is_scalar s = true /\ decode (encode s) = Some s /\
  encode (cps "</script>") = cps """</script>""".
Proof. vm_compute. repeat split; reflexivity. Qed.
(* the scalar-value guard is needed: a str holding the two code points of a surrogate pair
   (impossible after UTF-8 decoding) comes back as one character *)
Example c12_json_surrogates_merge : decode (encode [55357; 56832]) = Some [128512].
Proof. vm_compute. reflexivity. Qed.

(* ===================================================================================== *)
(* the data embedded in the HTML report comes back unchanged                              *)
(* ===================================================================================== *)
(* Whatever the JSON text j contains — "</script>", "<!--", the placeholder texts, anything — parsing the
   written document gives back exactly the escaped JSON text that was put in … *)
Theorem c12_script_extract :
  forall tpl css js j : text, tpl_ok tpl css js = true ->
    extract_script (embed tpl css js j) = Some (esc_lt j).
Proof. intros tpl css js j Hok. apply extract_of_shape, embed_shape, Hok. Qed.
Print Assumptions c12_script_extract.

(* … which contains no '<' at all (so neither "</script" nor "<!--" nor "<script": the script-data
   escaped states of the HTML grammar cannot be entered from inside the data) … *)
Theorem c12_escaped_data_has_no_lt :
  forall j : text, forallb (fun x => negb (lowc x =? 60)) (esc_lt j) = true /\ no_script_close (esc_lt j) = true.
Proof. intros j. split; [apply esc_lt_no_lt|]. unfold no_script_close. rewrite esc_lt_no_close. reflexivity. Qed.
Print Assumptions c12_escaped_data_has_no_lt.

(* … and JSON-decodes to the same strings: json.loads(json.dumps(s).replace('<', '\u003c')) == s *)
Theorem c12_json_embedded_roundtrip :
  forall s : text, forallb is_scalar s = true -> decode (esc_lt (encode s)) = Some s.
Proof. exact json_escaped_roundtrip. Qed.
Print Assumptions c12_json_embedded_roundtrip.

(* the embedded JSON text of a string is printable ASCII: the same bytes in every ASCII-compatible encoding *)
Theorem c12_embedded_string_ascii :
  forall s : text, Forall (fun c => c < 1114112) s -> Forall (fun x => 32 <= x /\ x <= 126) (esc_lt (encode s)).
Proof. intros s H. apply esc_lt_printable, encode_printable, H. Qed.
Print Assumptions c12_embedded_string_ascii.

(* hence, for string data d: extract, then decode = d *)
Theorem c12_script_extract_decode :
  forall tpl css js d, tpl_ok tpl css js = true -> forallb is_scalar d = true ->
    match extract_script (embed tpl css js (encode d)) with Some t => decode t | None => None end = Some d.
Proof. intros tpl css js d Hok Hd. rewrite (c12_script_extract _ _ _ _ Hok). apply json_escaped_roundtrip, Hd. Qed.
Print Assumptions c12_script_extract_decode.

(* tie of the hand model of the escaping to the translated replace chain *)
Theorem c12_escape_is_replace :
  forall j, esc_lt j = fold_left (fun t st => repl (fst st) (snd st) t) Emb.data_escape_steps j.
Proof. intros j. apply esc_lt_is_repl. Qed.
Print Assumptions c12_escape_is_replace.

(* the placeholder texts are inert inside the data: the data script is in the document verbatim *)
Theorem c12_placeholders_inert :
  forall tpl css js j : text, tpl_ok tpl css js = true ->
    occurs idc (data_script j) (embed tpl css js j) = true.
Proof.
  intros tpl css js j Hok. destruct (embed_shape tpl css js j Hok) as [X Y found Hdoc _ _ _].
  rewrite Hdoc. apply occurs_mid.
Qed.
Print Assumptions c12_placeholders_inert.

(* non-vacuity: adversarial data — "</script>", "</SCRIPT >", "<!--<script>", all three placeholder texts,
   quotes, backslashes, non-ASCII — is extracted and decoded intact from the witness template *)
Example c12_extract_example :
  let d := cps "Caf\ ""q"" </script></SCRIPT ><!--<script> /* CSS_PLACEHOLDER */ /* DATA_PLACEHOLDER */ /* JS_PLACEHOLDER */" ++ [233; 128512] in
  let j := encode d in
  no_script_close j = false /\ no_js_placeholder j = false /\
  extract_script (embed w_tpl w_css w_js j) = Some (esc_lt j) /\ decode (esc_lt j) = Some d.
Proof. vm_compute. repeat split; reflexivity. Qed.

(* HISTORY — the pre-fix variant of report.py (data inserted before the JS placeholder was replaced, '<' not
   escaped) did not have these properties; a tree that regresses to it fails the ties below (c12_embed_tie)
   and the direct oracle (signatures C12/script-end-tag-in-data, C12/placeholder-in-data) *)
Example c12_prefix_variant_history :
  extract_script (embed_prefix_variant w_tpl w_css w_js (encode (cps "</script>"))) = None /\
  occurs idc (Emb.data_prefix ++ encode (cps "x /* JS_PLACEHOLDER */ y") ++ Emb.data_suffix)
         (embed_prefix_variant w_tpl w_css w_js (encode (cps "x /* JS_PLACEHOLDER */ y"))) = false.
Proof. vm_compute. split; reflexivity. Qed.

(* str.replace model: the fuel is sufficient *)
Theorem c12_replace_total :
  forall p new s n, p <> [] -> (length s < n)%nat -> repl_fuel n p new s = repl p new s.
Proof. intros. now apply repl_fuel_enough. Qed.
Print Assumptions c12_replace_total.

(* ===================================================================================== *)
(* every merchant and every transaction exactly once; category sums                       *)
(* ===================================================================================== *)
Open Scope Z_scope.
Definition w_txn (d : string) (a : Z) : txn :=
  {| t_desc := cps d; t_amount := a; t_month := cps "2025-01"; t_tags := []; t_source := cps "S"; t_extra := [] |}.
Definition w_ms : list merchant :=
  [ {| m_name := cps "A B"; m_cat := cps "Food"; m_sub := cps "Grocery"; m_total := 640; m_count := 1;
       m_txns := [w_txn "first" 640] |};
    {| m_name := cps "A_B"; m_cat := cps "Food"; m_sub := cps "Grocery"; m_total := 320; m_count := 1;
       m_txns := [w_txn "second" 320] |} ].
Lemma w_ms_names : NoDup (map m_name w_ms).
Proof. vm_compute. repeat constructor; simpl; intuition discriminate. Qed.

(* make_merchant_id (translated from report.py) is not injective *)
Theorem c12_merchant_id_not_injective :
  exists a b : text, a <> b /\ Id.make_merchant_id a = Id.make_merchant_id b.
Proof. exists (cps "A B"), (cps "A_B"). split; [vm_compute; discriminate|vm_compute; reflexivity]. Qed.
Print Assumptions c12_merchant_id_not_injective.

Definition c12_each_merchant_once_statement : Prop :=
  forall ms, NoDup (map m_name ms) ->
    Permutation (map j_name (view_merchants (category_view ms))) (map m_name ms).

Theorem c12_each_merchant_once_refuted : ~ c12_each_merchant_once_statement.
Proof.
  intros H. specialize (H w_ms w_ms_names). apply Permutation_length in H. vm_compute in H. discriminate.
Qed.
Print Assumptions c12_each_merchant_once_refuted.

(* when the derived ids are distinct, the category view lists every analysed merchant exactly once
   with its data (name, category, totals, transactions) *)
Theorem c12_each_merchant_once_partial :
  forall ms, NoDup (map mid ms) -> Permutation (view_merchants (category_view ms)) (map to_j ms).
Proof. exact category_view_merchants. Qed.
Print Assumptions c12_each_merchant_once_partial.

(* without any guard: the category view lists exactly what build_section_merchants kept, no id twice *)
Theorem c12_category_view_is_by_id :
  forall ms, Permutation (view_pairs (category_view ms)) (by_id ms) /\ NoDup (map fst (by_id ms)).
Proof. intros ms. split; [apply category_view_pairs|apply by_id_keys_nodup]. Qed.
Print Assumptions c12_category_view_is_by_id.

(* a view (section) lists its merchants once each, in order, when their ids are distinct *)
Theorem c12_section_merchants_partial :
  forall ms, NoDup (map mid ms) -> map snd (by_id ms) = map to_j ms.
Proof. exact section_merchants. Qed.
Print Assumptions c12_section_merchants_partial.

Definition c12_each_transaction_once_statement : Prop :=
  forall ms, NoDup (map m_name ms) ->
    Permutation (named_txns_j (view_merchants (category_view ms))) (named_txns ms).

Theorem c12_each_transaction_once_refuted : ~ c12_each_transaction_once_statement.
Proof.
  intros H. specialize (H w_ms w_ms_names). apply Permutation_length in H. vm_compute in H. discriminate.
Qed.
Print Assumptions c12_each_transaction_once_refuted.

(* every transaction (description, amount, month, tags, source, extra fields), under its merchant, once *)
Theorem c12_each_transaction_once_partial :
  forall ms, NoDup (map mid ms) ->
    Permutation (named_txns_j (view_merchants (category_view ms))) (named_txns ms).
Proof. exact category_view_txns. Qed.
Print Assumptions c12_each_transaction_once_partial.

(* the rows written under a merchant: every analysed transaction, in order, unchanged, whatever their number
   (no cap), the i-th with id "<merchant id>_<i>"; the ids of one merchant are pairwise distinct *)
Theorem c12_transactions_all_embedded :
  forall m : merchant,
    map snd (embedded_txns (to_j m)) = m_txns m /\ length (embedded_txns (to_j m)) = length (m_txns m) /\
    map fst (embedded_txns (to_j m)) = map (txn_id (mid m)) (seq 0 (length (m_txns m))).
Proof.
  intros m. pose proof (embedded_txns_all (to_j m)) as H. repeat split; [exact H| |apply embedded_txns_ids].
  rewrite <- (map_length snd), H. reflexivity.
Qed.
Print Assumptions c12_transactions_all_embedded.

Theorem c12_transaction_ids_distinct : forall j : jmerchant, NoDup (map fst (embedded_txns j)).
Proof. exact embedded_txns_ids_nodup. Qed.
Print Assumptions c12_transaction_ids_distinct.

(* the whole category view: the embedded rows of all listed merchants are exactly the analysed transactions *)
Theorem c12_embedded_rows_partial :
  forall ms, NoDup (map mid ms) ->
    Permutation (flat_map (fun j => map (pair (j_name j)) (map snd (embedded_txns j))) (view_merchants (category_view ms)))
                (named_txns ms).
Proof.
  intros ms H. erewrite flat_map_ext; [apply (category_view_txns ms H)|].
  intros j. rewrite embedded_txns_all. reflexivity.
Qed.
Print Assumptions c12_embedded_rows_partial.

(* non-vacuity at a size boundary: 1001 transactions under one merchant are 1001 rows, ids ..._0 to ..._1000 *)
Example c12_transactions_example :
  let m := {| m_name := cps "Metro Fare"; m_cat := cps "Transit"; m_sub := cps "Fares"; m_total := 176176; m_count := 1001;
              m_txns := repeat (w_txn "FARE" 176) 1001 |} in
  length (embedded_txns (to_j m)) = 1001%nat /\
  map fst (firstn 2 (embedded_txns (to_j m))) = [cps "Metro_Fare_0"; cps "Metro_Fare_1"] /\
  map fst (skipn 1000 (embedded_txns (to_j m))) = [cps "Metro_Fare_1000"].
Proof. vm_compute. repeat split; reflexivity. Qed.

Definition c12_category_sums_statement : Prop :=
  forall ms, NoDup (map m_name ms) ->
    sumZ (map c_total (category_view ms)) = sumZ (map m_total ms) /\
    sumZ (map c_count (category_view ms)) = sumZ (map m_count ms).

Theorem c12_category_sums_refuted : ~ c12_category_sums_statement.
Proof. intros H. destruct (H w_ms w_ms_names) as [H1 _]. vm_compute in H1. discriminate. Qed.
Print Assumptions c12_category_sums_refuted.

Theorem c12_category_sums_partial :
  forall ms, NoDup (map mid ms) ->
    sumZ (map c_total (category_view ms)) = sumZ (map m_total ms) /\
    sumZ (map c_count (category_view ms)) = sumZ (map m_count ms).
Proof. exact category_totals. Qed.
Print Assumptions c12_category_sums_partial.

(* without any guard the category totals are the totals of the merchants that are listed *)
Theorem c12_category_sums_listed :
  forall ms,
    sumZ (map c_total (category_view ms)) = sumZ (map j_ytd (view_merchants (category_view ms))) /\
    sumZ (map c_count (category_view ms)) = sumZ (map j_count (view_merchants (category_view ms))).
Proof. exact category_totals_listed. Qed.
Print Assumptions c12_category_sums_listed.

(* and, for every category and subcategory separately, its total and count are the sums over the
   merchants listed under it (no guard needed) *)
Theorem c12_category_entries :
  forall ms, Forall (fun c =>
    c_total c = sumZ (map s_total (c_subs c)) /\ c_count c = sumZ (map s_count (c_subs c)) /\
    Forall (fun s => s_total s = sumZ (map (fun p => j_ytd (snd p)) (s_merchants s)) /\
                     s_count s = sumZ (map (fun p => j_count (snd p)) (s_merchants s))) (c_subs c))
    (category_view ms).
Proof. exact category_view_ok. Qed.
Print Assumptions c12_category_entries.

(* typeTotals: summed over the categories, each bucket (spending / income / investment / transfer) is the
   sum of that bucket's contributions over ALL analysed transactions, each classified by its own tags —
   i.e. the analysed spending / income / investment / transfers-in+out totals *)
Definition c12_type_totals_statement : Prop :=
  forall (f : txn -> Z) ms, NoDup (map m_name ms) ->
    sumZ (map (cat_tt f) (category_view ms)) = sumZ (map f (flat_map m_txns ms)).
Theorem c12_type_totals_refuted : ~ c12_type_totals_statement.
Proof. intros H. specialize (H tt_spending w_ms w_ms_names). vm_compute in H. discriminate. Qed.
Print Assumptions c12_type_totals_refuted.

Theorem c12_type_totals_partial :
  forall (f : txn -> Z) ms, NoDup (map mid ms) ->
    sumZ (map (cat_tt f) (category_view ms)) = sumZ (map f (flat_map m_txns ms)).
Proof. exact type_totals_all. Qed.
Print Assumptions c12_type_totals_partial.

Theorem c12_type_totals_listed :
  forall (f : txn -> Z) cv, sumZ (map (cat_tt f) cv) = sumZ (map f (flat_map j_txns (view_merchants cv))).
Proof. exact type_totals_listed. Qed.
Print Assumptions c12_type_totals_listed.

(* the bucket table that report.py restates for typeTotals is the one of classification.categorize_amount as
   translated from /repo on this run (same precedence income > investment > transfer, same sign tests):
   for every amount and every list of (ASCII) tags, bucket by bucket *)
Theorem c12_type_totals_match_classification :
  forall (a : Z) (tg : list string),
    let cat := Tally.Gen.ClassificationPy.ClassificationPy.categorize_amount Tally.C06.Model.z_ops a (Some tg) in
    let t := Tally.C12.Classify.mk_txn a tg in
    (tt_income t = Tally.Lib.Str.dget cat "income"%string 0 /\
     tt_investment t = Tally.Lib.Str.dget cat "investment"%string 0 /\
     tt_transfer t = Tally.Lib.Str.dget cat "transfer_in"%string 0 + Tally.Lib.Str.dget cat "transfer_out"%string 0 /\
     tt_spending t = Tally.Lib.Str.dget cat "spending"%string 0)%Z.
Proof. exact Tally.C12.Classify.type_totals_are_classification. Qed.
Print Assumptions c12_type_totals_match_classification.

Example c12_type_totals_classification_example :
  let t := Tally.C12.Classify.mk_txn (-32000) ["Transfer"; "INVESTMENT"]%string in
  (tt_investment t, tt_transfer t) = (32000, 0)%Z /\
  Tally.Lib.Str.dget (Tally.Gen.ClassificationPy.ClassificationPy.categorize_amount Tally.C06.Model.z_ops (-32000) (Some ["Transfer"; "INVESTMENT"]%string))
                     "investment"%string 0%Z = 32000%Z.
Proof. vm_compute. split; reflexivity. Qed.

(* non-vacuity: one merchant whose transactions carry different special tags (two purchases, one payout
   tagged Income, one TRANSFER): classified per transaction, not by the merchant's collected tags *)
Example c12_type_totals_example :
  let T a tg := {| t_desc := cps "x"; t_amount := a; t_month := cps "2025-01"; t_tags := tg; t_source := cps "S"; t_extra := [] |} in
  let ms := [ {| m_name := cps "PayPal"; m_cat := cps "Shopping"; m_sub := cps "Online"; m_total := 38400; m_count := 4;
                 m_txns := [T 2560 []; T 3840 []; T 32000 [cps "Income"]; T (-6400) [cps "TRANSFER"; cps "x"]] |} ] in
  map type_totals (category_view ms) = [(6400, (32000, (0, 6400)))].
Proof. vm_compute. reflexivity. Qed.

(* non-vacuity: distinct ids, three categories (one of them "Unknown", one empty), negative and zero totals *)
Example c12_category_example :
  let ms := [ {| m_name := cps "O'Neil ""Q"""; m_cat := cps "Food"; m_sub := cps "Grocery"; m_total := 640; m_count := 2;
                 m_txns := [w_txn "a" 320; w_txn "</script>" 320] |};
              {| m_name := cps "Refund Co"; m_cat := cps "Food"; m_sub := []; m_total := -128; m_count := 1;
                 m_txns := [w_txn "r" (-128)] |};
              {| m_name := cps "Zero"; m_cat := cps "Unknown"; m_sub := cps "x"; m_total := 0; m_count := 1;
                 m_txns := [w_txn "z" 0] |} ] in
  NoDup (map mid ms) /\ length (category_view ms) = 2%nat /\
  map c_total (category_view ms) = [512; 0] /\ sumZ (map m_total ms) = 512 /\
  map j_id (view_merchants (category_view ms)) = [cps "ONeil_Q"; cps "Refund_Co"; cps "Zero"].
Proof. vm_compute. repeat split; try reflexivity. repeat constructor; simpl; intuition discriminate. Qed.

(* ===================================================================================== *)
(* all formats report the same figures                                                    *)
(* ===================================================================================== *)
Definition c12_formats_agree_statement : Prop :=
  forall (s : astats) (f : figure),
    markdown_fig s f = html_fig s f /\ text_fig s f = html_fig s f /\
    (sections_prints f = true -> sections_fig s f = html_fig s f) /\
    json_fig s f = html_fig s f.

(* one merchant with a purchase of 10 and a refund of 3 (ticks of 1/64): spending 640, credits 192
   everywhere except export_json, which recomputes per merchant: spending 448, credits 0 *)
Definition w_stats : astats :=
  {| a_income := 0; a_spending := 640; a_credits := 192; a_cash_flow := -448; a_transfers_in := 0;
     a_transfers_out := 0; a_transfers_net := 0; a_total_raw := 448;
     a_merchants := [ {| ms_tags := []; ms_total := 448 |} ] |}.
Theorem c12_formats_agree_refuted : ~ c12_formats_agree_statement.
Proof. intros H. destruct (H w_stats FSpending) as [_ [_ [_ H4]]]. vm_compute in H4. discriminate. Qed.
Print Assumptions c12_formats_agree_refuted.

(* HTML, Markdown and the two text summaries print the same fields of the analysed totals *)
Theorem c12_formats_agree_partial :
  forall (s : astats) (f : figure),
    markdown_fig s f = html_fig s f /\ text_fig s f = html_fig s f /\
    (sections_prints f = true -> sections_fig s f = html_fig s f).
Proof. intros s f. repeat split. intros H. unfold sections_fig. rewrite H. reflexivity. Qed.
Print Assumptions c12_formats_agree_partial.

(* tie of the figure table to the source: in write_summary_file_vue, export_markdown and
   print_summary every figure is bound to its stats key; print_sections_summary binds the four it
   prints; export_json binds none of them (it recomputes) *)
Example c12_binds_tie :
  forallb (fun f => binds_has Emb.binds_html (fig_key f)) all_figures = true /\
  forallb (fun f => binds_has Emb.binds_markdown (fig_key f)) all_figures = true /\
  forallb (fun f => binds_has Emb.binds_text (fig_key f)) all_figures = true /\
  forallb (fun f => Bool.eqb (binds_has Emb.binds_sections (fig_key f)) (sections_prints f)) all_figures = true /\
  forallb (fun f => negb (binds_has Emb.binds_json (fig_key f))) all_figures = true.
Proof. vm_compute. repeat split; reflexivity. Qed.

(* tie of the embedding model to the source: replacement order (data last), escaping, data script framing *)
Example c12_embed_tie :
  map fst Emb.embed_steps = [CSS_PH; JS_PH; DATA_PH] /\
  map snd Emb.embed_steps = [Emb.SCss; Emb.SJs; Emb.SData] /\
  Emb.data_escape_steps = [(cps "<", LT_ESC)] /\ LT_ESC = cps "\u003c" /\
  Emb.data_prefix = cps "window.spendingData = " /\ Emb.data_suffix = cps ";".
Proof. vm_compute. repeat split; reflexivity. Qed.
