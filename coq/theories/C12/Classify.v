(* C12/Classify.v — the category view's typeTotals bucket table (report.py, restated there on its own) agrees
   with classification.categorize_amount as TRANSLATED from /repo (Gen/ClassificationPy.v): the two sites
   cannot drift apart (different precedence of income / investment / transfer, different sign test)
   without this file failing to compile. Uses C06's decision-table lemma for the translated function. *)
From Coq Require Import String Ascii List Bool NArith ZArith Lia.
From Tally Require Import Lib.Str Lib.NumOps Gen.ClassificationPy C06.Model C06.Proofs.
From Tally Require Import C12.TextLib Gen.C12MerchantId Gen.C12Embed C12.Model C12.Proofs.
Import ListNotations.

Lemma lowc_ascii c : lowc (N_of_ascii c) = N_of_ascii (lower_char c).
Proof.
  unfold lowc, lower_char, is_upper_ascii. destruct ((65 <=? N_of_ascii c)%N && (N_of_ascii c <=? 90)%N) eqn:E; [|reflexivity].
  apply andb_prop in E as [E1 E2]. apply N.leb_le in E2. rewrite N_ascii_embedding; [reflexivity|lia].
Qed.

Lemma lower_text_cps s : lower_text (cps s) = cps (lower s).
Proof.
  unfold lower_text, cps, lower. induction s as [|c s IH]; [reflexivity|].
  cbn [list_ascii_of_string map smap]. rewrite lowc_ascii. f_equal. exact IH.
Qed.

Lemma text_eqb_cps a b : text_eqb (cps a) (cps b) = String.eqb a b.
Proof.
  destruct (String.eqb_spec a b) as [->|Hne]; [apply text_eqb_refl|].
  apply text_eqb_neq. intros H. apply Hne, cps_inj, H.
Qed.

Definition mk_txn (a : Z) (tg : list string) : C12.Model.txn :=
  {| t_desc := []; t_amount := a; t_month := []; t_tags := map cps tg; t_source := []; t_extra := [] |}.

Lemma txn_has_cps w a tg : txn_has (cps w) (mk_txn a tg) = has (Some tg) w.
Proof.
  unfold txn_has, has, mk_txn. cbn [t_tags or_nil]. induction tg as [|g tg IH]; [reflexivity|].
  cbn [map existsb mem]. rewrite lower_text_cps, text_eqb_cps, IH.
  rewrite String.eqb_sym. destruct (String.eqb w (lower g)); reflexivity.
Qed.

(* bucket by bucket, typeTotals books a transaction where the translated categorize_amount books it
   (transfer = transfers in + out; credits are not kept in typeTotals) *)
Lemma type_totals_are_classification a tg :
  let cat := Py.categorize_amount z_ops a (Some tg) in
  let t := mk_txn a tg in
  (tt_income t = dget cat "income" 0 /\
   tt_investment t = dget cat "investment" 0 /\
   tt_transfer t = dget cat "transfer_in" 0 + dget cat "transfer_out" 0 /\
   tt_spending t = dget cat "spending" 0)%Z.
Proof.
  cbv zeta. fold (cat_of a (Some tg)).
  rewrite !categorize_table by (cbn; tauto).
  unfold tt_income, tt_investment, tt_transfer, tt_spending, bucket_of.
  change (cps "income") with (cps "income"%string). rewrite !txn_has_cps.
  cbn [t_amount mk_txn].
  destruct (has (Some tg) "income"); [cbn; lia|].
  destruct (has (Some tg) "investment"); [cbn; lia|].
  destruct (has (Some tg) "transfer").
  - destruct (Z.ltb_spec 0 a); cbn; lia.
  - destruct (Z.ltb_spec 0 a); destruct (Z.leb_spec 0 a); cbn; lia.
Qed.
