(* Lib/NumOps.v — the abstract numeric signature translated leaf code is emitted over.
   Instantiated at Z (exact money, C06) and at PrimFloat.float (IEEE doubles, C13). *)
From Coq Require Import String ZArith.
Record numops (num : Type) := {
  nzero : num;
  nabs : num -> num;
  ngt0 : num -> bool;  (* x > 0 *)
  nlt0 : num -> bool;
  nge0 : num -> bool;
  nle0 : num -> bool;
  nadd : num -> num -> num;
  nsub : num -> num -> num;
  lower_fn : string -> string   (* str.lower / String.prototype.toLowerCase *)
}.
Arguments nzero {num}. Arguments nabs {num}. Arguments ngt0 {num}. Arguments nlt0 {num}.
Arguments nge0 {num}. Arguments nle0 {num}. Arguments nadd {num}. Arguments nsub {num}.
Arguments lower_fn {num}.
