(* Lib/Str.v — byte strings (Coq [string]; non-ASCII text is its UTF-8 bytes) and the
   ASCII fragment of Python's str methods.  Library model, not tally code. *)
From Coq Require Import String Ascii List Bool NArith Arith Lia.
Import ListNotations.
Open Scope string_scope.

Definition is_upper_ascii (c : ascii) : bool :=
  let n := N_of_ascii c in (N.leb 65 n && N.leb n 90)%bool.
Definition is_lower_ascii (c : ascii) : bool :=
  let n := N_of_ascii c in (N.leb 97 n && N.leb n 122)%bool.
Definition lower_char (c : ascii) : ascii :=
  if is_upper_ascii c then ascii_of_N (N_of_ascii c + 32) else c.
Definition upper_char (c : ascii) : ascii :=
  if is_lower_ascii c then ascii_of_N (N_of_ascii c - 32) else c.

Fixpoint smap (f : ascii -> ascii) (s : string) : string :=
  match s with EmptyString => EmptyString | String c r => String (f c) (smap f r) end.
Definition lower (s : string) : string := smap lower_char s.
Definition upper (s : string) : string := smap upper_char s.

Fixpoint mem (x : string) (l : list string) : bool :=
  match l with [] => false | y :: r => if String.eqb x y then true else mem x r end.

Lemma mem_In x l : mem x l = true <-> In x l.
Proof.
  induction l as [|y r IH]; simpl; [split; [discriminate|tauto]|].
  destruct (String.eqb_spec x y) as [->|Hne]; [tauto|].
  rewrite IH. split; [tauto|]. intros [H|H]; [congruence|exact H].
Qed.

Lemma mem_map_iff (f : string -> string) x l :
  mem x (map f l) = true <-> exists y, In y l /\ f y = x.
Proof.
  rewrite mem_In, in_map_iff. split; intros [y [A B]]; exists y; tauto.
Qed.

(* sets represented as lists: intersection non-empty *)
Definition inter_nonempty (a b : list string) : bool := existsb (fun x => mem x b) a.

(* Python dicts with a fixed set of string keys: association lists *)
Section Dict.
  Context {V : Type}.
  Definition dict := list (string * V).
  Fixpoint dget (d : dict) (k : string) (dflt : V) : V :=
    match d with [] => dflt | (k', v) :: r => if String.eqb k k' then v else dget r k dflt end.
  Fixpoint dset (d : dict) (k : string) (v : V) : dict :=
    match d with
    | [] => [(k, v)]
    | (k', v') :: r => if String.eqb k k' then (k', v) :: r else (k', v') :: dset r k v
    end.
  Lemma dget_dset_same d k v dflt : dget (dset d k v) k dflt = v.
  Proof.
    induction d as [|[k' v'] r IH]; simpl.
    - now rewrite String.eqb_refl.
    - destruct (String.eqb k k') eqn:E; simpl; rewrite E; auto.
  Qed.
  Lemma dget_dset_other d k k2 v dflt : k2 <> k -> dget (dset d k v) k2 dflt = dget d k2 dflt.
  Proof.
    intros Hne. induction d as [|[k' v'] r IH]; simpl.
    - destruct (String.eqb_spec k2 k); [contradiction|reflexivity].
    - destruct (String.eqb_spec k k') as [->|Hk]; simpl.
      + destruct (String.eqb_spec k2 k'); [contradiction|reflexivity].
      + destruct (String.eqb k2 k'); auto.
  Qed.
End Dict.
Arguments dict : clear implicits.

Definition or_nil {A} (o : option (list A)) : list A :=
  match o with Some l => l | None => [] end.
