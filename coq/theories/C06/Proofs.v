(* C06/Proofs.v — conservation, decision table, breakdown sums, permutation and partition
   invariance for the analyze model. *)
From Coq Require Import String List Bool ZArith Lia Permutation.
From Tally Require Import Lib.Str Lib.NumOps Gen.ClassificationPy C06.Model.
Import ListNotations.
Open Scope Z_scope.

Definition sumZ (l : list Z) : Z := fold_right Z.add 0 l.
Lemma sumZ_app a b : sumZ (a ++ b) = sumZ a + sumZ b.
Proof. induction a as [|x a IH]; simpl; lia. Qed.
Lemma sumZ_perm a b : Permutation a b -> sumZ a = sumZ b.
Proof. induction 1; simpl; lia. Qed.

(* ---- the decision table ------------------------------------------------------------- *)
Definition has (tg : option (list string)) (w : string) : bool := mem w (map lower (or_nil tg)).

Inductive bucket := BIncome | BInvestment | BTransferIn | BTransferOut | BSpending | BCredits.
Definition bucket_of (a : Z) (tg : option (list string)) : bucket :=
  if has tg "income" then BIncome
  else if has tg "investment" then BInvestment
  else if has tg "transfer" then (if 0 <? a then BTransferIn else BTransferOut)
  else (if 0 <? a then BSpending else BCredits).
Definition bucket_key (b : bucket) : string :=
  match b with BIncome => "income" | BInvestment => "investment" | BTransferIn => "transfer_in"
             | BTransferOut => "transfer_out" | BSpending => "spending" | BCredits => "credits" end.
Definition all_keys := ["income"; "investment"; "transfer_in"; "transfer_out"; "spending"; "credits"]%string.

Definition cat_of (a : Z) (tg : option (list string)) := Py.categorize_amount z_ops a tg.

Lemma categorize_table a tg k :
  In k all_keys ->
  dget (cat_of a tg) k 0 = if String.eqb k (bucket_key (bucket_of a tg)) then Z.abs a else 0.
Proof.
  intros Hk. unfold cat_of, bucket_of, has, Py.categorize_amount, Py.get_tags_lower.
  change (lower_fn z_ops) with lower. change (ngt0 z_ops a) with (0 <? a).
  change (nabs z_ops a) with (Z.abs a). change (nzero z_ops) with 0.
  change Py.INCOME_TAG with "income"%string. change Py.INVESTMENT_TAG with "investment"%string.
  change Py.TRANSFER_TAG with "transfer"%string.
  destruct (mem "income" (map lower (or_nil tg)));
  [|destruct (mem "investment" (map lower (or_nil tg)));
    [|destruct (mem "transfer" (map lower (or_nil tg))); destruct (Z.ltb_spec 0 a)]];
  simpl in Hk; repeat (destruct Hk as [<-|Hk]; [cbn; try reflexivity; try lia|]); try contradiction.
Qed.

Lemma categorize_keys a tg : map fst (cat_of a tg) = all_keys.
Proof.
  unfold cat_of, Py.categorize_amount.
  destruct (mem Py.INCOME_TAG (Py.get_tags_lower z_ops tg)), (mem Py.INVESTMENT_TAG (Py.get_tags_lower z_ops tg)),
    (mem Py.TRANSFER_TAG (Py.get_tags_lower z_ops tg)), (ngt0 z_ops a); reflexivity.
Qed.

Definition b (k : string) (t : txn) : Z := dget (cat_of (amount t) (tags_or_empty t)) k 0.

Lemma buckets_sum t :
  b "income" t + b "investment" t + b "transfer_in" t + b "transfer_out" t + b "spending" t + b "credits" t
  = Z.abs (amount t).
Proof.
  unfold b. rewrite !categorize_table by (simpl; tauto).
  destruct (bucket_of (amount t) (tags_or_empty t)); cbn; lia.
Qed.

Lemma one_bucket t k :
  In k all_keys ->
  b k t = if String.eqb k (bucket_key (bucket_of (amount t) (tags_or_empty t))) then Z.abs (amount t) else 0.
Proof. intros; unfold b; now apply categorize_table. Qed.

Lemma effective_spec t :
  effective t = if (has (tags_or_empty t) "income" || has (tags_or_empty t) "investment")%bool
                then Z.abs (amount t) else amount t.
Proof. reflexivity. Qed.

(* ---- scalar totals are sums ---------------------------------------------------------- *)
Lemma fold_scalars l : forall s,
  let r := fold_left step l s in
  income_total r = income_total s + sumZ (map (b "income") l) /\
  investment_total r = investment_total s + sumZ (map (b "investment") l) /\
  spending_total r = spending_total s + sumZ (map (b "spending") l) /\
  credits_total r = credits_total s + sumZ (map (b "credits") l) /\
  transfers_in r = transfers_in s + sumZ (map (b "transfer_in") l) /\
  transfers_out r = transfers_out s + sumZ (map (b "transfer_out") l) /\
  total r = total s + sumZ (map amount l) /\
  count r = count s + Z.of_nat (length l).
Proof.
  induction l as [|t l IH]; intros s; cbv zeta; cbn [fold_left map sumZ fold_right length].
  - change (Z.of_nat 0) with 0. repeat split. all: lia.
  - specialize (IH (step s t)). cbv zeta in IH. fold sumZ.
    destruct IH as (A & B & C & D & E & F & G & H).
    rewrite A, B, C, D, E, F, G, H. unfold step; cbn [income_total investment_total spending_total credits_total
      transfers_in transfers_out total count]. fold (cat_of (amount t) (tags_or_empty t)). unfold b, sumZ.
    repeat split. all: lia.
Qed.

(* ---- keyed accumulators ---------------------------------------------------------------- *)
Section AccProofs.
  Context {K : Type} (keqb : K -> K -> bool) (keqb_spec : forall a c, reflect (a = c) (keqb a c)).
  Definition padd (x y : Z * Z) : Z * Z := (fst x + fst y, snd x + snd y).
  Definition sumc (m : list (K * (Z * Z))) := sumZ (map (fun e => fst (snd e)) m).
  Definition sumt (m : list (K * (Z * Z))) := sumZ (map (fun e => snd (snd e)) m).

  Lemma look_bump k k' c t m :
    look keqb k (bump keqb k' c t m) = if keqb k k' then padd (look keqb k m) (c, t) else look keqb k m.
  Proof.
    induction m as [|[k2 [c2 t2]] r IH]; cbn [bump look].
    - destruct (keqb k k'); reflexivity.
    - destruct (keqb_spec k' k2) as [->|Hne]; cbn [look].
      + destruct (keqb k k2); reflexivity.
      + destruct (keqb_spec k k2) as [->|Hne2].
        * destruct (keqb_spec k2 k'); [congruence|reflexivity].
        * exact IH.
  Qed.
  Lemma sumc_bump k c t m : sumc (bump keqb k c t m) = sumc m + c.
  Proof.
    unfold sumc, sumZ. induction m as [|[k2 [c2 t2]] r IH]; cbn [bump map fold_right fst snd]; [lia|].
    destruct (keqb k k2); cbn [map fold_right fst snd]; lia.
  Qed.
  Lemma sumt_bump k c t m : sumt (bump keqb k c t m) = sumt m + t.
  Proof.
    unfold sumt, sumZ. induction m as [|[k2 [c2 t2]] r IH]; cbn [bump map fold_right fst snd]; [lia|].
    destruct (keqb k k2); cbn [map fold_right fst snd]; lia.
  Qed.

  Variable key : txn -> K.
  Variable proj : stats -> list (K * (Z * Z)).
  Hypothesis proj_step : forall s t, proj (step s t) = bump keqb (key t) 1 (effective t) (proj s).

  Definition sel (k : K) (l : list txn) := filter (fun t => keqb k (key t)) l.

  Lemma fold_look l : forall s k,
    look keqb k (proj (fold_left step l s))
    = padd (look keqb k (proj s)) (Z.of_nat (length (sel k l)), sumZ (map effective (sel k l))).
  Proof.
    induction l as [|t l IH]; intros s k; cbn [fold_left sel filter].
    - unfold padd; cbn. destruct (look keqb k (proj s)); cbn; f_equal; lia.
    - rewrite IH, proj_step, look_bump. fold (sel k l).
      destruct (keqb k (key t)); unfold padd, sumZ; cbn [fst snd length map fold_right];
        f_equal; lia.
  Qed.
  Lemma fold_sums l : forall s,
    sumc (proj (fold_left step l s)) = sumc (proj s) + Z.of_nat (length l) /\
    sumt (proj (fold_left step l s)) = sumt (proj s) + sumZ (map effective l).
  Proof.
    induction l as [|t l IH]; intros s; cbn [fold_left length map]; [unfold sumZ; cbn [fold_right]; lia|].
    destruct (IH (step s t)) as [A B]. rewrite A, B, proj_step, sumc_bump, sumt_bump.
    unfold sumZ; cbn [fold_right]. lia.
  Qed.
End AccProofs.

Lemma string_eqb_spec' a c : reflect (a = c) (String.eqb a c).
Proof. apply String.eqb_spec. Qed.
Lemma pair_eqb_spec a c : reflect (a = c) (pair_eqb a c).
Proof.
  destruct a as [a1 a2], c as [c1 c2]; unfold pair_eqb; cbn.
  destruct (String.eqb_spec a1 c1), (String.eqb_spec a2 c2); cbn; constructor; congruence.
Qed.

Definition key_cat (t : txn) := (category t, subcategory t).

Lemma sel_perm {K} (keqb : K -> K -> bool) key k l l' :
  Permutation l l' -> Permutation (sel keqb key k l) (sel keqb key k l').
Proof.
  unfold sel. induction 1; cbn [filter].
  - constructor.
  - destruct (keqb k (key x)); auto.
  - destruct (keqb k (key x)), (keqb k (key y)); auto using perm_swap.
  - eauto using Permutation_trans.
Qed.

(* observable summary of a run: the six flow totals, total, count, and the derived figures *)
Definition scalars (s : stats) : list Z :=
  [income_total s; investment_total s; spending_total s; credits_total s; transfers_in s; transfers_out s;
   total s; count s; cash_flow s; transfers_net s].

Lemma scalars_spec l :
  scalars (analyze l) =
  let i := sumZ (map (b "income") l) in let v := sumZ (map (b "investment") l) in
  let sp := sumZ (map (b "spending") l) in let cr := sumZ (map (b "credits") l) in
  let ti := sumZ (map (b "transfer_in") l) in let to := sumZ (map (b "transfer_out") l) in
  [i; v; sp; cr; ti; to; sumZ (map amount l); Z.of_nat (length l); i - sp + cr; ti - to].
Proof.
  unfold scalars, analyze, cash_flow, transfers_net, Py.calculate_cash_flow, Py.calculate_transfers_net.
  pose proof (fold_scalars l empty_stats) as H. cbv zeta in H.
  destruct H as (A & B & C & D & E & F & G & H). rewrite A, B, C, D, E, F, G, H. cbn. reflexivity.
Qed.

Lemma scalars_perm l l' : Permutation l l' -> scalars (analyze l) = scalars (analyze l').
Proof.
  intros P. rewrite !scalars_spec. cbv zeta.
  rewrite (sumZ_perm _ _ (Permutation_map (b "income") P)), (sumZ_perm _ _ (Permutation_map (b "investment") P)),
    (sumZ_perm _ _ (Permutation_map (b "spending") P)), (sumZ_perm _ _ (Permutation_map (b "credits") P)),
    (sumZ_perm _ _ (Permutation_map (b "transfer_in") P)), (sumZ_perm _ _ (Permutation_map (b "transfer_out") P)),
    (sumZ_perm _ _ (Permutation_map amount P)), (Permutation_length P). reflexivity.
Qed.

Lemma merchant_look l k :
  look String.eqb k (by_merchant (analyze l))
  = (Z.of_nat (length (sel String.eqb merchant k l)), sumZ (map effective (sel String.eqb merchant k l))).
Proof.
  unfold analyze. rewrite (fold_look String.eqb string_eqb_spec' merchant by_merchant) by reflexivity.
  cbn. reflexivity.
Qed.
Lemma month_look l k :
  look String.eqb k (by_month (analyze l))
  = (Z.of_nat (length (sel String.eqb month k l)), sumZ (map effective (sel String.eqb month k l))).
Proof.
  unfold analyze. rewrite (fold_look String.eqb string_eqb_spec' month by_month) by reflexivity.
  cbn. reflexivity.
Qed.
Lemma category_look l k :
  look pair_eqb k (by_category (analyze l))
  = (Z.of_nat (length (sel pair_eqb key_cat k l)), sumZ (map effective (sel pair_eqb key_cat k l))).
Proof.
  unfold analyze. rewrite (fold_look pair_eqb pair_eqb_spec key_cat by_category) by reflexivity.
  cbn. reflexivity.
Qed.

Lemma look_perm_gen {K} (keqb : K -> K -> bool) key k l l' :
  Permutation l l' ->
  (Z.of_nat (length (sel keqb key k l)), sumZ (map effective (sel keqb key k l)))
  = (Z.of_nat (length (sel keqb key k l')), sumZ (map effective (sel keqb key k l'))).
Proof.
  intros P. pose proof (sel_perm keqb key k _ _ P) as Q.
  rewrite (Permutation_length Q), (sumZ_perm _ _ (Permutation_map effective Q)). reflexivity.
Qed.

Lemma breakdown_sums l :
  sumt (by_merchant (analyze l)) = sumZ (map effective l) /\
  sumt (by_category (analyze l)) = sumZ (map effective l) /\
  sumt (by_month (analyze l)) = sumZ (map effective l) /\
  sumc (by_merchant (analyze l)) = Z.of_nat (length l) /\
  sumc (by_category (analyze l)) = Z.of_nat (length l).
Proof.
  unfold analyze.
  destruct (fold_sums String.eqb merchant by_merchant (fun _ _ => eq_refl) l empty_stats) as [A1 A2].
  destruct (fold_sums pair_eqb key_cat by_category (fun _ _ => eq_refl) l empty_stats) as [B1 B2].
  destruct (fold_sums String.eqb month by_month (fun _ _ => eq_refl) l empty_stats) as [C1 C2].
  cbn in *. repeat split; lia.
Qed.

Lemma sel_app {K} (keqb : K -> K -> bool) key k l1 l2 :
  sel keqb key k (l1 ++ l2)%list = (sel keqb key k l1 ++ sel keqb key k l2)%list.
Proof. unfold sel. apply filter_app. Qed.

Lemma conservation l :
  let s := analyze l in
  income_total s + investment_total s + transfers_in s + transfers_out s + spending_total s + credits_total s
  = sumZ (map (fun t => Z.abs (amount t)) l).
Proof.
  intros s. subst s. pose proof (scalars_spec l) as H. unfold scalars in H. cbv zeta in H.
  injection H as -> -> -> -> -> -> _ _ _ _.
  induction l as [|t l IH]; [reflexivity|]. cbn [map].
  pose proof (buckets_sum t). unfold sumZ in *. cbn [fold_right] in *. lia.
Qed.

Lemma permutation_invariant l l' : Permutation l l' ->
    scalars (analyze l) = scalars (analyze l') /\
    (forall k, look String.eqb k (by_merchant (analyze l)) = look String.eqb k (by_merchant (analyze l'))) /\
    (forall k, look pair_eqb k (by_category (analyze l)) = look pair_eqb k (by_category (analyze l'))) /\
    (forall k, look String.eqb k (by_month (analyze l)) = look String.eqb k (by_month (analyze l'))).
Proof.
  intros P. split; [now apply scalars_perm|].
  repeat split; intros k; rewrite ?merchant_look, ?category_look, ?month_look; now apply look_perm_gen.
Qed.

Lemma merge l1 l2 :
    scalars (analyze (l1 ++ l2)) = map (fun p => fst p + snd p) (combine (scalars (analyze l1)) (scalars (analyze l2))) /\
    (forall k, look String.eqb k (by_merchant (analyze (l1 ++ l2)))
               = padd (look String.eqb k (by_merchant (analyze l1))) (look String.eqb k (by_merchant (analyze l2)))) /\
    (forall k, look pair_eqb k (by_category (analyze (l1 ++ l2)))
               = padd (look pair_eqb k (by_category (analyze l1))) (look pair_eqb k (by_category (analyze l2)))) /\
    (forall k, look String.eqb k (by_month (analyze (l1 ++ l2)))
               = padd (look String.eqb k (by_month (analyze l1))) (look String.eqb k (by_month (analyze l2)))).
Proof.
  split.
  - rewrite !scalars_spec. cbv zeta. rewrite !map_app, !sumZ_app, app_length, Nat2Z.inj_add.
    cbn [combine map fst snd]. repeat (f_equal; try lia).
  - repeat split; intros k; rewrite ?merchant_look, ?category_look, ?month_look, !sel_app, app_length,
      map_app, sumZ_app, Nat2Z.inj_add; reflexivity.
Qed.

Lemma breakdown_entries l :
    (forall k, look String.eqb k (by_merchant (analyze l))
       = (Z.of_nat (length (sel String.eqb merchant k l)), sumZ (map effective (sel String.eqb merchant k l)))) /\
    (forall k, look pair_eqb k (by_category (analyze l))
       = (Z.of_nat (length (sel pair_eqb key_cat k l)), sumZ (map effective (sel pair_eqb key_cat k l)))) /\
    (forall k, look String.eqb k (by_month (analyze l))
       = (Z.of_nat (length (sel String.eqb month k l)), sumZ (map effective (sel String.eqb month k l)))).
Proof. repeat split; intros k; [apply merchant_look|apply category_look|apply month_look]. Qed.
