(* C06/Keys.v — which keys a breakdown has: a merchant / (category, subcategory) / month has an
   entry exactly when some analysed transaction carries it, and never two entries (so "the" bucket
   of a transaction in each breakdown is unique); entries appear in first-occurrence order (the
   order of a Python dict). Proofs only; the statements exported are in C06/Props.v. *)
From Coq Require Import String List Bool ZArith Lia.
From Tally Require Import Lib.Str Lib.NumOps C06.Model C06.Proofs.
Import ListNotations.
Open Scope Z_scope.

Section KeyProofs.
  Context {K : Type} (keqb : K -> K -> bool) (keqb_spec : forall a c, reflect (a = c) (keqb a c)).

  (* order-preserving first-occurrence de-duplication, accumulating on the right *)
  Fixpoint memk (k : K) (l : list K) : bool :=
    match l with [] => false | x :: r => if keqb k x then true else memk k r end.
  Definition add_key (ks : list K) (k : K) : list K := if memk k ks then ks else ks ++ [k].
  Definition first_occ (ks0 l : list K) : list K := fold_left add_key l ks0.

  Lemma memk_in k l : memk k l = true <-> In k l.
  Proof.
    induction l as [|x r IH]; cbn [memk In]; [split; [discriminate|tauto]|].
    destruct (keqb_spec k x) as [->|Hne]; [tauto|].
    rewrite IH. split; [tauto|]. intros [E|H]; [congruence|exact H].
  Qed.

  Lemma bump_keys k c t m : map fst (bump keqb k c t m) = add_key (map fst m) k.
  Proof.
    unfold add_key. induction m as [|[k2 [c2 t2]] r IH]; cbn [bump map fst memk app]; [reflexivity|].
    destruct (keqb k k2); cbn [map fst]; [reflexivity|].
    rewrite IH. destruct (memk k (map fst r)); reflexivity.
  Qed.

  Lemma add_key_in ks k x : In x (add_key ks k) <-> In x ks \/ x = k.
  Proof.
    unfold add_key. destruct (memk k ks) eqn:E.
    - apply memk_in in E. split; [tauto|]. intros [H| ->]; assumption.
    - rewrite in_app_iff. cbn [In]. split; intros [H|H]; try tauto; [destruct H as [->|[]]; tauto|subst; tauto].
  Qed.

  Lemma add_key_nodup ks k : NoDup ks -> NoDup (add_key ks k).
  Proof.
    intros H. unfold add_key. destruct (memk k ks) eqn:E; [exact H|].
    assert (~ In k ks) as Hn by (intros Hi; apply memk_in in Hi; congruence).
    clear E. induction H as [|x r Hx Hr IH]; cbn [app]; [constructor; [intros []|constructor]|].
    constructor.
    - rewrite in_app_iff. cbn [In]. intros [Hi|[->|[]]]; [tauto|]. apply Hn. left; reflexivity.
    - apply IH. intros Hi. apply Hn. right; exact Hi.
  Qed.

  Lemma first_occ_in l : forall ks0 x, In x (first_occ ks0 l) <-> In x ks0 \/ In x l.
  Proof.
    unfold first_occ. induction l as [|k l IH]; intros ks0 x; cbn [fold_left In]; [tauto|].
    rewrite IH, add_key_in. split; [intros [[H|H]|H]|intros [H|[H|H]]]; subst; tauto.
  Qed.

  Lemma first_occ_nodup l : forall ks0, NoDup ks0 -> NoDup (first_occ ks0 l).
  Proof.
    unfold first_occ. induction l as [|k l IH]; intros ks0 H; cbn [fold_left]; [exact H|].
    apply IH, add_key_nodup, H.
  Qed.

  Variable key : txn -> K.
  Variable proj : stats -> list (K * (Z * Z)).
  Hypothesis proj_step : forall s t, proj (step s t) = bump keqb (key t) 1 (effective t) (proj s).

  Lemma fold_keys l : forall s,
    map fst (proj (fold_left step l s)) = first_occ (map fst (proj s)) (map key l).
  Proof.
    unfold first_occ. induction l as [|t l IH]; intros s; cbn [fold_left map]; [reflexivity|].
    rewrite IH, proj_step, bump_keys. reflexivity.
  Qed.

  (* a present key's entry has a positive count: no empty entries *)
  Lemma look_count_pos l k : In k (map key l) -> 0 < Z.of_nat (length (sel keqb key k l)).
  Proof.
    intros H. apply in_map_iff in H. destruct H as [t [E Hi]]. subst k.
    assert (In t (sel keqb key (key t) l)) as Hs.
    { unfold sel. apply filter_In. split; [exact Hi|]. destruct (keqb_spec (key t) (key t)); congruence. }
    destruct (sel keqb key (key t) l); [destruct Hs|]. cbn [length]. lia.
  Qed.
End KeyProofs.

Lemma merchant_keys l :
  map fst (by_merchant (analyze l)) = first_occ String.eqb [] (map merchant l).
Proof. unfold analyze. rewrite (fold_keys String.eqb merchant by_merchant) by reflexivity. reflexivity. Qed.
Lemma month_keys l :
  map fst (by_month (analyze l)) = first_occ String.eqb [] (map month l).
Proof. unfold analyze. rewrite (fold_keys String.eqb month by_month) by reflexivity. reflexivity. Qed.
Lemma category_keys l :
  map fst (by_category (analyze l)) = first_occ pair_eqb [] (map key_cat l).
Proof. unfold analyze. rewrite (fold_keys pair_eqb key_cat by_category) by reflexivity. reflexivity. Qed.

Lemma breakdown_keys l :
  (forall k, In k (map fst (by_merchant (analyze l))) <-> In k (map merchant l)) /\
  (forall k, In k (map fst (by_category (analyze l))) <-> In k (map key_cat l)) /\
  (forall k, In k (map fst (by_month (analyze l))) <-> In k (map month l)) /\
  NoDup (map fst (by_merchant (analyze l))) /\
  NoDup (map fst (by_category (analyze l))) /\
  NoDup (map fst (by_month (analyze l))).
Proof.
  rewrite merchant_keys, month_keys, category_keys.
  repeat split; try (apply first_occ_nodup; [exact string_eqb_spec' || exact pair_eqb_spec | constructor]).
  all: try (intros H; apply (first_occ_in _ string_eqb_spec') in H; cbn [In] in H; tauto).
  all: try (intros H; apply (first_occ_in _ pair_eqb_spec) in H; cbn [In] in H; tauto).
  all: try (intros H; apply (first_occ_in _ string_eqb_spec'); tauto).
  all: try (intros H; apply (first_occ_in _ pair_eqb_spec); tauto).
Qed.

Lemma total_and_count l :
  total (analyze l) = sumZ (map amount l) /\ count (analyze l) = Z.of_nat (length l).
Proof.
  unfold analyze.
  assert (forall s, total (fold_left step l s) = total s + sumZ (map amount l) /\
                    count (fold_left step l s) = count s + Z.of_nat (length l)) as G.
  { induction l as [|t l IH]; intros s; cbn [fold_left map length]; [unfold sumZ; cbn [fold_right]; lia|].
    destruct (IH (step s t)) as [A B]. rewrite A, B. unfold sumZ; cbn [step total count fold_right]. lia. }
  destruct (G empty_stats) as [A B]. rewrite A, B. cbn [empty_stats total count]. lia.
Qed.

Lemma entries_nonempty l :
  (forall k, In k (map merchant l) -> 0 < fst (look String.eqb k (by_merchant (analyze l)))) /\
  (forall k, In k (map key_cat l) -> 0 < fst (look pair_eqb k (by_category (analyze l)))) /\
  (forall k, In k (map month l) -> 0 < fst (look String.eqb k (by_month (analyze l)))).
Proof.
  destruct (breakdown_entries l) as [A [B C]].
  repeat split; intros k H; rewrite ?A, ?B, ?C; cbn [fst].
  - exact (look_count_pos String.eqb string_eqb_spec' merchant l k H).
  - exact (look_count_pos pair_eqb pair_eqb_spec key_cat l k H).
  - exact (look_count_pos String.eqb string_eqb_spec' month l k H).
Qed.
