(* C06/Model.v — hand model of analyzer.analyze_transactions' accumulation pass (money in exact
   integer ticks), on top of the *translated* classification.py (Gen/ClassificationPy.v). *)
From Coq Require Import String List Bool ZArith.
From Tally Require Import Lib.Str Lib.NumOps Gen.ClassificationPy.
Import ListNotations.
Open Scope Z_scope.
Module Py := ClassificationPy.

Definition z_ops : numops Z := {|
  nzero := 0; nabs := Z.abs;
  ngt0 := fun x => 0 <? x; nlt0 := fun x => x <? 0; nge0 := fun x => 0 <=? x; nle0 := fun x => x <=? 0;
  nadd := Z.add; nsub := Z.sub; lower_fn := lower |}.

Record txn := { amount : Z; tags : option (list string);   (* None: the 'tags' key is absent *)
                merchant : string; category : string; subcategory : string; month : string }.

(* generic keyed accumulator: association list, first occurrence order (Python dict order) *)
Section Acc.
  Context {K : Type} (keqb : K -> K -> bool).
  Fixpoint bump (k : K) (c t : Z) (m : list (K * (Z * Z))) : list (K * (Z * Z)) :=
    match m with
    | [] => [(k, (c, t))]
    | (k', (c', t')) :: r => if keqb k k' then (k', (c' + c, t' + t)) :: r else (k', (c', t')) :: bump k c t r
    end.
  Fixpoint look (k : K) (m : list (K * (Z * Z))) : Z * Z :=
    match m with [] => (0, 0) | (k', v) :: r => if keqb k k' then v else look k r end.
End Acc.

Definition pair_eqb (a b : string * string) : bool := (String.eqb (fst a) (fst b) && String.eqb (snd a) (snd b))%bool.

Record stats := {
  income_total : Z; investment_total : Z; spending_total : Z; credits_total : Z;
  transfers_in : Z; transfers_out : Z;
  by_category : list ((string * string) * (Z * Z));   (* key -> (count, total) *)
  by_merchant : list (string * (Z * Z));
  by_month : list (string * (Z * Z));                 (* count unused by the code; kept for uniformity *)
  total : Z; count : Z }.

Definition empty_stats : stats :=
  {| income_total := 0; investment_total := 0; spending_total := 0; credits_total := 0; transfers_in := 0;
     transfers_out := 0; by_category := []; by_merchant := []; by_month := []; total := 0; count := 0 |}.

Definition tags_or_empty (t : txn) : option (list string) :=
  match tags t with Some l => Some l | None => Some [] end.   (* txn.get('tags', []) *)

Definition step (s : stats) (t : txn) : stats :=
  let tg := tags_or_empty t in
  let eff := Py.normalize_amount z_ops (amount t) tg in
  let cat := Py.categorize_amount z_ops (amount t) tg in
  {| income_total := income_total s + dget cat "income" 0;
     investment_total := investment_total s + dget cat "investment" 0;
     spending_total := spending_total s + dget cat "spending" 0;
     credits_total := credits_total s + dget cat "credits" 0;
     transfers_in := transfers_in s + dget cat "transfer_in" 0;
     transfers_out := transfers_out s + dget cat "transfer_out" 0;
     by_category := bump pair_eqb (category t, subcategory t) 1 eff (by_category s);
     by_merchant := bump String.eqb (merchant t) 1 eff (by_merchant s);
     by_month := bump String.eqb (month t) 1 eff (by_month s);
     total := total s + amount t; count := count s + 1 |}.

Definition analyze (l : list txn) : stats := fold_left step l empty_stats.

Definition cash_flow (s : stats) : Z :=
  Py.calculate_cash_flow z_ops (income_total s) (spending_total s) (credits_total s).
Definition transfers_net (s : stats) : Z :=
  Py.calculate_transfers_net z_ops (transfers_in s) (transfers_out s).
Definition effective (t : txn) : Z := Py.normalize_amount z_ops (amount t) (tags_or_empty t).
