(* C06 — totals conserve money: each transaction is counted once, in exactly one bucket.
   The classification functions are regenerated from /repo/src/tally/classification.py on every
   run (Gen/ClassificationPy.v); the accumulation pass of analyze_transactions is the hand model
   C06/Model.v, tied to the code by the correspondence check (harness/c06.py). Money is in exact
   integer ticks (Z): binary floating-point rounding is outside the model (DESIGN §6). *)
From Coq Require Import String List Bool ZArith Permutation.
From Tally Require Import Lib.Str Lib.NumOps C06.Model C06.Proofs C06.Keys.
Import ListNotations.
Open Scope Z_scope.

(* exactly one bucket, chosen by income > investment > transfer > sign, compared case-insensitively,
   and it receives |amount|; every other bucket receives 0 *)
Theorem c06_one_bucket :
  forall (t : txn) (k : string), In k all_keys ->
    b k t = if String.eqb k (bucket_key (bucket_of (amount t) (tags_or_empty t))) then Z.abs (amount t) else 0.
Proof. exact one_bucket. Qed.
Print Assumptions c06_one_bucket.

Theorem c06_only_six_buckets : forall a tg, map fst (cat_of a tg) = all_keys.
Proof. exact categorize_keys. Qed.
Print Assumptions c06_only_six_buckets.

Theorem c06_conservation :
  forall l : list txn,
    let s := analyze l in
    income_total s + investment_total s + transfers_in s + transfers_out s + spending_total s + credits_total s
    = sumZ (map (fun t => Z.abs (amount t)) l).
Proof. exact conservation. Qed.
Print Assumptions c06_conservation.

Theorem c06_cash_flow_and_net :
  forall l, let s := analyze l in
    cash_flow s = income_total s - spending_total s + credits_total s /\
    transfers_net s = transfers_in s - transfers_out s.
Proof. intros; split; reflexivity. Qed.
Print Assumptions c06_cash_flow_and_net.

(* per-merchant, per-category, per-month totals and counts add up to the same grand total / count *)
Theorem c06_breakdowns_agree :
  forall l,
    sumt (by_merchant (analyze l)) = sumZ (map effective l) /\
    sumt (by_category (analyze l)) = sumZ (map effective l) /\
    sumt (by_month (analyze l)) = sumZ (map effective l) /\
    sumc (by_merchant (analyze l)) = Z.of_nat (length l) /\
    sumc (by_category (analyze l)) = Z.of_nat (length l).
Proof. exact breakdown_sums. Qed.
Print Assumptions c06_breakdowns_agree.

(* each breakdown entry is (count, sum of effective amounts) of exactly the transactions with that key *)
Theorem c06_breakdown_entries :
  forall l,
    (forall k, look String.eqb k (by_merchant (analyze l))
       = (Z.of_nat (length (sel String.eqb merchant k l)), sumZ (map effective (sel String.eqb merchant k l)))) /\
    (forall k, look pair_eqb k (by_category (analyze l))
       = (Z.of_nat (length (sel pair_eqb key_cat k l)), sumZ (map effective (sel pair_eqb key_cat k l)))) /\
    (forall k, look String.eqb k (by_month (analyze l))
       = (Z.of_nat (length (sel String.eqb month k l)), sumZ (map effective (sel String.eqb month k l)))).
Proof. exact breakdown_entries. Qed.
Print Assumptions c06_breakdown_entries.

(* no figure depends on the order in which the transactions are supplied *)
Theorem c06_permutation_invariant :
  forall l l', Permutation l l' ->
    scalars (analyze l) = scalars (analyze l') /\
    (forall k, look String.eqb k (by_merchant (analyze l)) = look String.eqb k (by_merchant (analyze l'))) /\
    (forall k, look pair_eqb k (by_category (analyze l)) = look pair_eqb k (by_category (analyze l'))) /\
    (forall k, look String.eqb k (by_month (analyze l)) = look String.eqb k (by_month (analyze l'))).
Proof. exact permutation_invariant. Qed.
Print Assumptions c06_permutation_invariant.

(* ... nor on how they are split across data sources: analysing the concatenation = adding the parts *)
Theorem c06_merge :
  forall l1 l2,
    scalars (analyze (l1 ++ l2)) = map (fun p => fst p + snd p) (combine (scalars (analyze l1)) (scalars (analyze l2))) /\
    (forall k, look String.eqb k (by_merchant (analyze (l1 ++ l2)))
               = padd (look String.eqb k (by_merchant (analyze l1))) (look String.eqb k (by_merchant (analyze l2)))) /\
    (forall k, look pair_eqb k (by_category (analyze (l1 ++ l2)))
               = padd (look pair_eqb k (by_category (analyze l1))) (look pair_eqb k (by_category (analyze l2)))) /\
    (forall k, look String.eqb k (by_month (analyze (l1 ++ l2)))
               = padd (look String.eqb k (by_month (analyze l1))) (look String.eqb k (by_month (analyze l2)))).
Proof. exact merge. Qed.
Print Assumptions c06_merge.

(* a breakdown has an entry for a merchant / (category, subcategory) / month exactly when some analysed
   transaction carries that key, and never two entries for one key: "the" entry of a transaction is unique *)
Theorem c06_breakdown_keys_exact :
  forall l,
    (forall k, In k (map fst (by_merchant (analyze l))) <-> In k (map merchant l)) /\
    (forall k, In k (map fst (by_category (analyze l))) <-> In k (map key_cat l)) /\
    (forall k, In k (map fst (by_month (analyze l))) <-> In k (map month l)) /\
    NoDup (map fst (by_merchant (analyze l))) /\
    NoDup (map fst (by_category (analyze l))) /\
    NoDup (map fst (by_month (analyze l))).
Proof. exact breakdown_keys. Qed.
Print Assumptions c06_breakdown_keys_exact.

(* entries appear in the order in which their key is first seen (Python dict order). The correspondence
   check compares key sets, counts and totals but sorts the implementation's entries, so the ORDER part of
   this statement is about the model only (iteration order of the real dicts is not observed). *)
Theorem c06_breakdown_order :
  forall l,
    map fst (by_merchant (analyze l)) = first_occ String.eqb [] (map merchant l) /\
    map fst (by_category (analyze l)) = first_occ pair_eqb [] (map key_cat l) /\
    map fst (by_month (analyze l)) = first_occ String.eqb [] (map month l).
Proof. intros l. split; [exact (merchant_keys l)|split; [exact (category_keys l)|exact (month_keys l)]]. Qed.
Print Assumptions c06_breakdown_order.

(* no entry is empty: a key that is present has counted at least one transaction *)
Theorem c06_entries_nonempty :
  forall l,
    (forall k, In k (map merchant l) -> 0 < fst (look String.eqb k (by_merchant (analyze l)))) /\
    (forall k, In k (map key_cat l) -> 0 < fst (look pair_eqb k (by_category (analyze l)))) /\
    (forall k, In k (map month l) -> 0 < fst (look String.eqb k (by_month (analyze l)))).
Proof. exact entries_nonempty. Qed.
Print Assumptions c06_entries_nonempty.

(* the signed grand total and the count are those of the input: nothing dropped, nothing counted twice *)
Theorem c06_total_and_count :
  forall l, total (analyze l) = sumZ (map amount l) /\ count (analyze l) = Z.of_nat (length l).
Proof. exact total_and_count. Qed.
Print Assumptions c06_total_and_count.

(* non-vacuity: a list hitting four buckets, mixed-case tags, a missing tags key *)
Example c06_example :
  let l := [ {| amount := 640; tags := Some ["Food"]; merchant := "A"; category := "X"; subcategory := "x"; month := "2025-01" |};
             {| amount := -128; tags := None; merchant := "A"; category := "X"; subcategory := "x"; month := "2025-02" |};
             {| amount := -3200; tags := Some ["INCOME"; "transfer"]; merchant := "B"; category := "Y"; subcategory := "y"; month := "2025-02" |};
             {| amount := -64; tags := Some ["Transfer"]; merchant := "C"; category := "Y"; subcategory := "z"; month := "2025-01" |} ]%string in
  scalars (analyze l) = [3200; 0; 640; 128; 0; 64; -2752; 4; 2688; -64] /\
  look String.eqb "A" (by_merchant (analyze l)) = (2, 512) /\ map effective l = [640; -128; 3200; -64] /\
  map fst (by_merchant (analyze l)) = ["A"; "B"; "C"]%string /\ map fst (by_month (analyze l)) = ["2025-01"; "2025-02"]%string.
Proof. vm_compute. repeat split; reflexivity. Qed.
