(* C17 — rule files are read by structure alone; malformed ones are rejected, not trimmed.
   Model: C17/Model.v (line classifier + section assembler of MerchantEngine.parse/_add_rule and of
   parse_sections — as they are AFTER the three C17 fixes — both parametrised by the ORACLE
   pyparse = "expr_parser.parse_expression accepts";
   tiny step functions for get_all_rules / get_transforms / the views branch of load_config).
   The model is tied to /repo by the correspondence check of harness/c17.py on every run.
   Every theorem below quantifies over ALL files (lists of lines) and ALL oracles. *)
From Coq Require Import String Ascii List Bool NArith Arith ZArith Permutation Relations.
From Tally Require Import Lib.Str C17.Model C17.Proofs.
Import ListNotations.
Open Scope string_scope.
Open Scope list_scope.

(* ============================ layout: one theorem per edit ================================== *)

(* a comment line (optional indentation, '#', anything) inserted anywhere: same result; the line
   numbers recorded after the insertion point move down by one (so does the line of an error) *)
Theorem c17_insert_comment :
  forall pyparse l1 w t l2, all_ws w = true ->
    parse_merchants pyparse (l1 ++ (w ++ String "#" t)%string :: l2)
      = renum_m (shift (length l1)) (parse_merchants pyparse (l1 ++ l2)) /\
    parse_views pyparse (l1 ++ (w ++ String "#" t)%string :: l2)
      = renum_v (shift (length l1)) (parse_views pyparse (l1 ++ l2)).
Proof. exact c17_insert_comment_holds. Qed.
Print Assumptions c17_insert_comment.

Theorem c17_insert_blank :
  forall pyparse l1 c l2, all_ws c = true ->
    parse_merchants pyparse (l1 ++ c :: l2) = renum_m (shift (length l1)) (parse_merchants pyparse (l1 ++ l2)) /\
    parse_views pyparse (l1 ++ c :: l2) = renum_v (shift (length l1)) (parse_views pyparse (l1 ++ l2)).
Proof. exact c17_insert_blank_holds. Qed.
Print Assumptions c17_insert_blank.

Theorem c17_trailing_blanks :
  forall pyparse l1 l w l2, all_ws w = true ->
    parse_merchants pyparse (l1 ++ (l ++ w)%string :: l2) = parse_merchants pyparse (l1 ++ l :: l2) /\
    parse_views pyparse (l1 ++ (l ++ w)%string :: l2) = parse_views pyparse (l1 ++ l :: l2).
Proof. exact c17_trailing_blanks_holds. Qed.
Print Assumptions c17_trailing_blanks.

(* CR LF line ends: every line, or any subset of the lines (e.g. all but an unterminated last line) *)
Theorem c17_crlf :
  forall pyparse ls ls', Forall2 (fun a b => a = b \/ a = add_cr b) ls ls' ->
    parse_merchants pyparse ls = parse_merchants pyparse ls' /\ parse_views pyparse ls = parse_views pyparse ls'.
Proof. exact c17_crlf_holds. Qed.
Print Assumptions c17_crlf.

(* any change of the leading blanks of a line. Merchants files: every line (property lines, variables,
   and headers too).  Views files: every line that is not header-shaped — there an indented [header] is
   not a header (SECTION_HEADER is matched on the raw line), which is why the property excludes it. *)
Theorem c17_reindent_property :
  forall pyparse l1 l w l2, all_ws w = true ->
    parse_merchants pyparse (l1 ++ (w ++ l)%string :: l2) = parse_merchants pyparse (l1 ++ l :: l2) /\
    (first_is "[" (strip l) = false ->
     parse_views pyparse (l1 ++ (w ++ l)%string :: l2) = parse_views pyparse (l1 ++ l :: l2)).
Proof. exact c17_reindent_property_holds. Qed.
Print Assumptions c17_reindent_property.

Theorem c17_reindent_header :
  forall pyparse l1 l w l2 name, all_ws w = true -> classify_m l = Header name ->
    classify_m (w ++ l)%string = Header name /\
    parse_merchants pyparse (l1 ++ (w ++ l)%string :: l2) = parse_merchants pyparse (l1 ++ l :: l2).
Proof. exact c17_reindent_header_holds. Qed.
Print Assumptions c17_reindent_header.

(* the key of a property line of a section written in any letter case *)
Theorem c17_key_case :
  forall pyparse l1 l l' l2 k k' v,
    in_section l1 = true ->
    strip l = (k ++ String ":" v)%string -> strip l' = (k' ++ String ":" v)%string ->
    has_char ":" k = false -> has_char ":" k' = false -> lower k' = lower k ->
    is_content (strip l) = true ->
    parse_merchants pyparse (l1 ++ l :: l2) = parse_merchants pyparse (l1 ++ l' :: l2).
Proof. exact m_key_case. Qed.
Print Assumptions c17_key_case.

(* any reordering of a block of property lines of one section whose keys are pairwise different:
   the same result, or an error both before and after (possibly naming another of the offending lines) *)
Theorem c17_permute_distinct_properties :
  forall pyparse block block', Permutation block block' ->
    (forall l1 l2, in_section l1 = true -> Forall is_content_line block -> NoDup (map lk block) ->
       sim (parse_merchants pyparse (l1 ++ block ++ l2)) (parse_merchants pyparse (l1 ++ block' ++ l2))) /\
    (forall l1 l2, in_section_v l1 = true -> Forall is_content_line_v block -> NoDup (map vk block) ->
       sim (parse_views pyparse (l1 ++ block ++ l2)) (parse_views pyparse (l1 ++ block' ++ l2))).
Proof. exact c17_permute_distinct_properties_holds. Qed.
Print Assumptions c17_permute_distinct_properties.

(* all of it at once: files related by any chain of layout edits (in either direction) have the same
   outcome once line numbers are erased *)
Theorem c17_layout_insensitive :
  forall pyparse,
    (forall a b, clos_refl_sym_trans _ layout_edit_m a b -> same_outcome_m pyparse a b) /\
    (forall a b, clos_refl_sym_trans _ layout_edit_v a b -> same_outcome_v pyparse a b).
Proof. exact c17_layout_insensitive_holds. Qed.
Print Assumptions c17_layout_insensitive.

(* ============================ one rule / view per section =================================== *)

(* count, order, names and line numbers: the rules are the headers of the file, one for one *)
Theorem c17_one_rule_per_section :
  forall pyparse ls,
    (forall f, parse_merchants pyparse ls = Ok f ->
       map (fun r => (r_line r, r_name r)) (m_rules f) = headers classify_m ls) /\
    (forall f, parse_views pyparse ls = Ok f ->
       map (fun v => (v_line v, v_name v)) (f_views f) = headers classify_v ls).
Proof. exact c17_one_rule_per_section_holds. Qed.
Print Assumptions c17_one_rule_per_section.

(* exactly the stated properties: each rule is determined by the lines of its own section alone — for a
   single-valued property the LAST line with that key (else the default), all let bindings in order, the
   field dictionary — and every content line of the section is a well-formed, known property *)
Theorem c17_exactly_stated_properties :
  forall pyparse ls f, parse_merchants pyparse ls = Ok f ->
    Forall2 (fun (sec : section) r =>
      let '(n0, name, props) := sec in
      let L := kvs props in
      r_name r = name /\ r_line r = n0 /\ name <> EmptyString /\
      last_of KMatch L = Some (r_match r) /\
      r_category r = or_empty (last_of KCategory L) /\
      r_subcategory r = or_empty (last_of KSubcategory L) /\
      r_merchant r = (if is_empty (or_empty (last_of KMerchant L)) then name else or_empty (last_of KMerchant L)) /\
      r_tags r = match last_of KTags L with Some v => parse_tags v | None => [] end /\
      Some (r_priority r) = match last_of KPriority L with Some v => parse_int v | None => Some 50%Z end /\
      r_lets r = lets_of L /\ r_fields r = dict_of [] (fields_of L) /\
      Forall (fun p => prop_check (snd p) = None) props /\
      pyparse (r_match r) = true /\ forallb (fun b => pyparse (snd b)) (r_lets r) = true /\
      forallb (fun b => pyparse (snd b)) (r_fields r) = true)
    (sections_m ls) (m_rules f).
Proof. exact c17_exactly_stated_properties_holds. Qed.
Print Assumptions c17_exactly_stated_properties.

Theorem c17_exactly_stated_properties_views :
  forall pyparse ls f, parse_views pyparse ls = Ok f ->
    Forall2 (fun (sec : section) v =>
      let '(n0, name, lines) := sec in
      v_name v = name /\ v_line v = n0 /\
      last_filter (vitems lines) = Some (v_filter v) /\
      v_desc v = last_desc (vitems lines) /\
      v_vars v = dict_of [] (vars_of (vitems lines)) /\
      Forall (fun p => vline_check pyparse (snd p) = None) lines)
    (sections_v ls) (f_views f).
Proof. exact c17_exactly_stated_properties_views_holds. Qed.
Print Assumptions c17_exactly_stated_properties_views.

(* ============================ rejection ===================================================== *)
(* Each: (a) a file with that defect is an error; (b) an error of that kind carries the line number of
   the offending section header / line. *)

Theorem c17_reject_missing_match :
  forall pyparse ls,
    (forall n0 name ps, In (n0, name, ps) (sections_m ls) -> last_of KMatch (kvs ps) = None ->
       is_ok (parse_merchants pyparse ls) = false) /\
    (forall n, parse_merchants pyparse ls = Err n EMissingMatch ->
       exists name ps, In (n, name, ps) (sections_m ls) /\ last_of KMatch (kvs ps) = None).
Proof. exact c17_reject_missing_match_holds. Qed.
Print Assumptions c17_reject_missing_match.

Theorem c17_reject_unknown_property :
  forall pyparse ls,
    (forall n0 name ps n s k v, In (n0, name, ps) (sections_m ls) -> In (n, s) ps ->
       prop_of s = Some (k, v) -> key_of k = KUnknown -> is_ok (parse_merchants pyparse ls) = false) /\
    (forall n, parse_merchants pyparse ls = Err n EUnknownProperty ->
       exists n0 name ps s, In (n0, name, ps) (sections_m ls) /\ In (n, s) ps /\ prop_check s = Some EUnknownProperty).
Proof. exact c17_reject_unknown_property_holds. Qed.
Print Assumptions c17_reject_unknown_property.

Theorem c17_reject_bad_let :
  forall pyparse ls,
    (forall n0 name ps n s k v, In (n0, name, ps) (sections_m ls) -> In (n, s) ps ->
       prop_of s = Some (k, v) -> key_of k = KLet -> ident_eq v = None -> is_ok (parse_merchants pyparse ls) = false) /\
    (forall n, parse_merchants pyparse ls = Err n EBadLet ->
       exists n0 name ps s, In (n0, name, ps) (sections_m ls) /\ In (n, s) ps /\ prop_check s = Some EBadLet).
Proof. exact c17_reject_bad_let_holds. Qed.
Print Assumptions c17_reject_bad_let.

Theorem c17_reject_bad_field :
  forall pyparse ls,
    (forall n0 name ps n s k v, In (n0, name, ps) (sections_m ls) -> In (n, s) ps ->
       prop_of s = Some (k, v) -> key_of k = KField -> ident_eq v = None -> is_ok (parse_merchants pyparse ls) = false) /\
    (forall n, parse_merchants pyparse ls = Err n EBadField ->
       exists n0 name ps s, In (n0, name, ps) (sections_m ls) /\ In (n, s) ps /\ prop_check s = Some EBadField).
Proof. exact c17_reject_bad_field_holds. Qed.
Print Assumptions c17_reject_bad_field.

Theorem c17_reject_bad_priority :
  forall pyparse ls,
    (forall n0 name ps n s k v, In (n0, name, ps) (sections_m ls) -> In (n, s) ps ->
       prop_of s = Some (k, v) -> key_of k = KPriority -> parse_int v = None -> is_ok (parse_merchants pyparse ls) = false) /\
    (forall n, parse_merchants pyparse ls = Err n EBadPriority ->
       exists n0 name ps s, In (n0, name, ps) (sections_m ls) /\ In (n, s) ps /\ prop_check s = Some EBadPriority).
Proof. exact c17_reject_bad_priority_holds. Qed.
Print Assumptions c17_reject_bad_priority.

(* Invalid expressions.  FULL statement: whatever expression of the file the oracle rejects — the right-hand
   side of a top-level `name = expr` / `field.x = expr` line, a section's effective match, any let binding, any
   effective field — the file is rejected.  (History: before the fix "validate top-level expressions" the
   faithful model refuted this with ["x = )("; "[A]"; "match: x"; "category: c"]; finding
   C17/toplevel-expression-not-validated, now status fixed.) *)
Theorem c17_reject_invalid_expression : reject_invalid_expression_statement.
Proof. exact c17_reject_invalid_expression_holds. Qed.
Print Assumptions c17_reject_invalid_expression.

Theorem c17_invalid_expression_names_line :
  forall pyparse ls,
    (forall n, parse_merchants pyparse ls = Err n EInvalidTop ->
       exists s, In (n, s) (preamble_m ls) /\ pre_check pyparse s = Some EInvalidTop) /\
    (forall n k, k = EInvalidLet \/ k = EInvalidField \/ k = EInvalidMatch ->
       parse_merchants pyparse ls = Err n k ->
       exists name ps e, In (n, name, ps) (sections_m ls) /\ pyparse e = false /\
         ((k = EInvalidLet /\ exists x, In (x, e) (lets_of (kvs ps))) \/
          (k = EInvalidField /\ exists x, In (x, e) (dict_of [] (fields_of (kvs ps)))) \/
          (k = EInvalidMatch /\ last_of KMatch (kvs ps) = Some e))) /\
    (forall n0 name lines n s k, In (n0, name, lines) (sections_v ls) -> In (n, s) lines ->
       vline_check pyparse s = Some k -> is_ok (parse_views pyparse ls) = false).
Proof. exact c17_invalid_expression_names_line_holds. Qed.
Print Assumptions c17_invalid_expression_names_line.

Theorem c17_reject_missing_filter :
  forall pyparse ls,
    (forall n0 name lines, In (n0, name, lines) (sections_v ls) -> last_filter (vitems lines) = None ->
       is_ok (parse_views pyparse ls) = false) /\
    (forall n, parse_views pyparse ls = Err n VMissingFilter ->
       exists name lines, In (n, name, lines) (sections_v ls) /\ last_filter (vitems lines) = None).
Proof. exact c17_reject_missing_filter_holds. Qed.
Print Assumptions c17_reject_missing_filter.

(* views: a [header] whose name exactly equals that of an earlier section is rejected at its own line (the
   results are keyed by view name); an accepted file has pairwise different view names *)
Theorem c17_reject_duplicate_view_name :
  forall pyparse ls,
    (forall s1 n name lines s2, sections_v ls = s1 ++ (n, name, lines) :: s2 -> In name (map sec_name s1) ->
       is_ok (parse_views pyparse ls) = false) /\
    (forall n, parse_views pyparse ls = Err n VDuplicateName ->
       exists s1 name lines s2, sections_v ls = s1 ++ (n, name, lines) :: s2 /\ In name (map sec_name s1)) /\
    (forall f, parse_views pyparse ls = Ok f -> NoDup (map v_name (f_views f))).
Proof. exact c17_reject_duplicate_view_name_holds. Qed.
Print Assumptions c17_reject_duplicate_view_name.

(* ============================ no silent drop ================================================ *)
(* "Every non-blank, non-comment line contributes to the result or causes an error", stated
   extensionally: in an accepted file no such line can be overwritten with garbage ("%%%": not blank, not a
   comment, not a header, no ':' and no '=') without the outcome changing.
   (History: before the fix "content before the first [Rule] header is an error" the faithful model refuted
   this with [] / "category: Lost" / ["[A]"; "match: m"; "category: c"]; finding
   C17/property-before-first-header-ignored, now status fixed.) *)
Theorem c17_no_silent_drop : no_silent_drop_statement.
Proof. exact c17_no_silent_drop_holds. Qed.
Print Assumptions c17_no_silent_drop.

(* sharper: the garbage line is an error naming that very line, in both kinds of file *)
Theorem c17_no_silent_drop_exact :
  forall pyparse l1 l l2,
    (is_ok (parse_merchants pyparse (l1 ++ l :: l2)) = true ->
     parse_merchants pyparse (l1 ++ garbage :: l2)
     = Err (S (length l1)) (if in_section l1 then EUnexpected else EOutside)) /\
    (is_ok (parse_views pyparse (l1 ++ l :: l2)) = true ->
     parse_views pyparse (l1 ++ garbage :: l2) = Err (S (length l1)) VUnexpected).
Proof. exact c17_no_silent_drop_exact_holds. Qed.
Print Assumptions c17_no_silent_drop_exact.

(* ============================ command level ================================================= *)
(* A .rules file that cannot be loaded is reported: get_all_rules and get_transforms hand the error (which
   names the line) to the user on stderr before carrying on without the rules.
   (History: before the fix both swallowed every exception; finding C17/load-error-swallowed, now fixed.) *)
Theorem c17_load_error_is_reported : load_error_is_reported_statement.
Proof. exact c17_load_error_is_reported_holds. Qed.
Print Assumptions c17_load_error_is_reported.

Theorem c17_load_outcomes :
  forall pyparse csv_rules ls,
    (forall f, parse_merchants pyparse ls = Ok f ->
       get_all_rules pyparse csv_rules ls = {| lr_value := map r_name (m_rules f); lr_reported := None |} /\
       get_transforms pyparse ls = {| lr_value := m_transforms f; lr_reported := None |}) /\
    (forall n k, parse_merchants pyparse ls = Err n k ->
       get_all_rules pyparse csv_rules ls = {| lr_value := csv_rules ls; lr_reported := Some n |} /\
       get_transforms pyparse ls = {| lr_value := []; lr_reported := Some n |}) /\
    (forall n k, parse_views pyparse ls = Err n k ->
       load_views pyparse ls = {| lr_value := []; lr_reported := Some n |}).
Proof. exact c17_load_outcomes_holds. Qed.
Print Assumptions c17_load_outcomes.

(* ============================ the engine loop and the match mode =========================== *)
(* MerchantEngine.parse as the code runs it — one pass over the lines with current_rule / rule_start_line,
   _add_rule appending to self.rules, the engine carrying its match mode — reads exactly what the grouped
   model reads (so every theorem above holds of it), in either mode, and leaves the mode alone. *)
Theorem c17_engine_loop_reads_the_same :
  forall pyparse mode ls,
    res_map mfile_of (parse_engine pyparse mode ls) = parse_merchants pyparse ls /\
    (forall e, parse_engine pyparse mode ls = Ok e -> e_mode e = mode).
Proof. exact parse_engine_eq. Qed.
Print Assumptions c17_engine_loop_reads_the_same.

Theorem c17_match_mode_independent :
  forall pyparse m1 m2 ls,
    res_map mfile_of (parse_engine pyparse m1 ls) = res_map mfile_of (parse_engine pyparse m2 ls).
Proof. exact parse_engine_mode_independent. Qed.
Print Assumptions c17_match_mode_independent.

(* ============================ the report memory, for every history of calls =================== *)
(* One process; any sequence of loader calls on any paths (each either loads or fails with a message) and
   of clear_engine_cache() calls.  run_calls gives, call by call, whether a message reached the user. *)

(* an error that has not occurred before in the process reaches the user *)
Theorem c17_new_load_error_reaches_user :
  forall (P E : Type) peq eeq, (forall a b, peq a b = true <-> a = b) -> (forall a b, eeq a b = true <-> a = b) ->
  forall shown pre (p : P) (e : E) post,
    known P E peq eeq p e shown = false -> (forall c, In c pre -> c <> Load p (Some e)) ->
    nth_error (run_calls P E peq eeq shown (pre ++ Load p (Some e) :: post)) (length pre) = Some true.
Proof. exact new_error_is_reported. Qed.
Print Assumptions c17_new_load_error_reaches_user.

(* no error is ever lost: a failing call is silent only if the very same (path, message) was shown by an
   earlier call of this process and the memory has not been cleared since *)
Theorem c17_no_load_error_is_lost :
  forall (P E : Type) peq eeq, (forall a b, peq a b = true <-> a = b) -> (forall a b, eeq a b = true <-> a = b) ->
  forall pre (p : P) (e : E) post,
    nth_error (run_calls P E peq eeq [] (pre ++ Load p (Some e) :: post)) (length pre) = Some false ->
    exists a b, pre = a ++ Load p (Some e) :: b /\ (forall c, In c b -> c <> ClearCache) /\
                nth_error (run_calls P E peq eeq [] (pre ++ Load p (Some e) :: post)) (length a) = Some true.
Proof. exact silent_error_was_shown. Qed.
Print Assumptions c17_no_load_error_is_lost.

Theorem c17_loaded_file_is_quiet :
  forall (P E : Type) peq eeq shown pre (p : P) post,
    nth_error (run_calls P E peq eeq shown (pre ++ Load p None :: post)) (length pre) = Some false.
Proof. exact loaded_is_quiet. Qed.
Print Assumptions c17_loaded_file_is_quiet.

(* ============================ non-vacuity =================================================== *)
Definition cr : string := String (ascii_of_nat 13) "".
Definition tab : string := String (ascii_of_nat 9) "".

(* a file exercising every property kind, with comments, blank lines, an indented header, a mixed-case
   key and CR LF line ends *)
Example c17_example_parse :
  parse_merchants (fun e => negb (String.eqb e ")("))
    [ ("# rules" ++ cr)%string; ("is_large = amount > 500" ++ cr)%string; "field.memo = trim(field.memo)"; "";
      "  [Netflix]  "; (tab ++ "MATCH: contains(""NETFLIX"")" ++ cr)%string; "category : Subs"; "tags: a, f(x,y), a,,";
      "priority: 1_0"; "let: Q = 1"; "field: Kind = ""tv""";
      "[Big]"; "match: is_large"; "tags: large" ]
  = Ok {| m_rules :=
            [ {| r_name := "Netflix"; r_match := "contains(""NETFLIX"")"; r_category := "Subs"; r_subcategory := "";
                 r_merchant := "Netflix"; r_tags := ["f(x,y)"; "a"]; r_priority := 10%Z; r_line := 5;
                 r_lets := [("q", "1")]; r_fields := [("kind", """tv""")] |};
              {| r_name := "Big"; r_match := "is_large"; r_category := ""; r_subcategory := ""; r_merchant := "Big";
                 r_tags := ["large"]; r_priority := 50%Z; r_line := 12; r_lets := []; r_fields := [] |} ];
          m_vars := [("is_large", "amount > 500")];
          m_transforms := [("field.memo", "trim(field.memo)")] |}.
Proof. vm_compute. reflexivity. Qed.

Example c17_example_views :
  parse_views (fun _ => true)
    [ "cv = 1"; ("[Every Month]  " ++ cr)%string; "  filter: months >= 6"; "description: all of it"; "x = 2"; "# c"; "[B]"; "filter: cv" ]
  = Ok {| f_globals := [("cv", "1")];
          f_views := [ {| v_name := "Every Month"; v_filter := "months >= 6"; v_desc := Some "all of it";
                          v_vars := [("x", "2")]; v_line := 2 |};
                       {| v_name := "B"; v_filter := "cv"; v_desc := None; v_vars := []; v_line := 7 |} ] |}.
Proof. vm_compute. reflexivity. Qed.

(* every rejection theorem has inhabitants, and the error carries the expected line *)
Example c17_example_rejections :
  let p := fun e => negb (String.eqb e ")(") in
  parse_merchants p ["[A]"; "match: x"; "category: c"; "[B]"; "category: d"] = Err 4 EMissingMatch /\
  parse_merchants p ["[A]"; "match: x"; "colour: red"; "category: c"] = Err 3 EUnknownProperty /\
  parse_merchants p ["[A]"; "match: x"; "let: = 1"] = Err 3 EBadLet /\
  parse_merchants p ["[A]"; "match: x"; "field: a.b = 1"] = Err 3 EBadField /\
  parse_merchants p ["[A]"; "match: x"; "category: c"; "priority: 1.5"] = Err 4 EBadPriority /\
  parse_merchants p ["# c"; "[A]"; "match: )("; "category: c"] = Err 2 EInvalidMatch /\
  parse_merchants p ["[A]"; "match: x"; "category: c"; "let: y = )("] = Err 1 EInvalidLet /\
  parse_merchants p ["[A]"; "match: x"; "category: c"; "what is this"] = Err 4 EUnexpected /\
  parse_views p ["[V]"; "filter: x"; "[W]"; "description: d"] = Err 3 VMissingFilter /\
  parse_views p ["[V]"; "filter: )("] = Err 2 VInvalidFilter /\
  parse_views p ["  [V]"; "filter: x"] = Err 1 VUnexpected /\
  parse_views p ["filter: x"] = Err 1 VFilterOutside /\
  parse_merchants p ["v = 1"; "category: Lost"; "[A]"; "match: m"; "category: c"] = Err 2 EOutside /\
  parse_merchants p ["v = 1"; "x = )("; "[A]"; "match: x"; "category: c"] = Err 2 EInvalidTop /\
  lr_reported (get_all_rules p (fun _ => []) ["[Uber]"; "category: Transport"]) = Some 1 /\
  parse_views p ["[V]"; "filter: x"; "[v]"; "filter: y"; " [V] "; "filter: z"] = Err 5 VUnexpected /\
  parse_views p ["[V]"; "filter: x"; "[v]"; "filter: y"; "[ V ]  "; "filter: z"] = Err 5 VDuplicateName /\
  parse_views p ["Big = 1"; "[V]"; "filter: x"; "bIG = 2"; "BIG = 3"]
  = Ok {| f_globals := [("big", "1")];
          f_views := [ {| v_name := "V"; v_filter := "x"; v_desc := None; v_vars := [("big", "3")]; v_line := 2 |} ] |}.
Proof. vm_compute. repeat split; reflexivity. Qed.

(* the hypotheses of the key-case and permutation theorems are satisfiable by non-trivial cases *)
Example c17_example_key_case :
  in_section ["[A]"] = true /\ strip "  MaTcH : x" = ("MaTcH " ++ String ":" " x")%string /\
  strip "match: x" = ("match" ++ String ":" " x")%string /\ lower "match" <> lower "MaTcH " /\
  prop_of (strip "  MaTcH : x") = prop_of (strip "match: x") /\
  parse_merchants (fun _ => true) ["[A]"; "  MaTcH : x"; "tags: t"] = parse_merchants (fun _ => true) ["[A]"; "match: x"; "tags: t"].
Proof. vm_compute. repeat split; try reflexivity. discriminate. Qed.

Example c17_example_permute :
  let block := ["match: x"; "category: c"; "tags: t"; "let: a = 1"] in
  in_section ["v = 1"; "[A]"] = true /\ Forall is_content_line block /\ NoDup (map lk block) /\
  parse_merchants (fun _ => true) (["v = 1"; "[A]"] ++ block ++ ["[B]"; "match: y"; "tags: u"])
  = parse_merchants (fun _ => true) (["v = 1"; "[A]"] ++ rev block ++ ["[B]"; "match: y"; "tags: u"]).
Proof.
  cbv zeta. split; [reflexivity|]. split; [repeat constructor|]. split; [|vm_compute; reflexivity].
  vm_compute. repeat constructor; intros H; repeat (destruct H as [H|H]; try discriminate H); assumption.
Qed.

(* the engine loop on a file with priorities out of order: rules in FILE order in both modes *)
Example c17_example_engine :
  let ls := ["v = 1"; "[Low]"; "match: x"; "category: C"; "priority: 1"; "[High]"; "priority: 100"; "match: y"; "tags: t"] in
  res_map (fun e => map r_name (e_rules e)) (parse_engine (fun _ => true) MostSpecific ls) = Ok ["Low"; "High"] /\
  res_map (fun e => map r_priority (e_rules e)) (parse_engine (fun _ => true) FirstMatch ls) = Ok [1%Z; 100%Z] /\
  parse_engine (fun _ => true) MostSpecific ["[A]"; "match: x"; "category: c"; "[B]"; "tags: t"] = Err 4 EMissingMatch.
Proof. vm_compute. repeat split; reflexivity. Qed.

(* a history: two different errors on one path, the first again, a clear, the first once more; a second path *)
Example c17_example_report_memory :
  run_calls nat string Nat.eqb String.eqb []
    [Load 0 (Some "Line 1: a"); Load 0 (Some "Line 1: a"); Load 0 (Some "Line 2: b"); Load 0 None; Load 0 (Some "Line 1: a");
     Load 1 (Some "Line 1: a"); ClearCache; Load 0 (Some "Line 1: a")]
  = [true; false; true; false; false; true; false; true].
Proof. vm_compute. reflexivity. Qed.
