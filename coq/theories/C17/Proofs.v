(* C17/Proofs.v — lemmas about the line-level model of the two section-file parsers. *)
From Coq Require Import String Ascii List Bool NArith Arith ZArith Lia Permutation.
From Tally Require Import Lib.Str C17.Model.
Import ListNotations.
Open Scope string_scope.

(* ========================================================================================== *)
(* A. strings                                                                                   *)

Lemma lstrip_app_ws w s : all_ws w = true -> lstrip (w ++ s) = lstrip s.
Proof.
  induction w as [|c w IH]; simpl; intros H; [reflexivity|].
  apply andb_true_iff in H as [Hc Hw]. rewrite Hc. auto.
Qed.

Lemma rstrip_all_ws w : all_ws w = true -> rstrip w = "".
Proof.
  induction w as [|c w IH]; simpl; intros H; [reflexivity|].
  apply andb_true_iff in H as [Hc Hw]. rewrite (IH Hw), Hc. reflexivity.
Qed.

Lemma rstrip_app_ws s w : all_ws w = true -> rstrip (s ++ w) = rstrip s.
Proof.
  intros Hw. induction s as [|c s IH]; simpl.
  - now apply rstrip_all_ws.
  - now rewrite IH.
Qed.

Lemma rstrip_ws_app w s :
  all_ws w = true -> rstrip (w ++ s) = if is_empty (rstrip s) then "" else w ++ rstrip s.
Proof.
  induction w as [|c w IH]; simpl; intros H.
  - destruct (rstrip s); reflexivity.
  - apply andb_true_iff in H as [Hc Hw]. rewrite (IH Hw).
    destruct (rstrip s) as [|d r]; simpl; [now rewrite Hc|].
    destruct (w ++ String d r) eqn:E; [|reflexivity].
    destruct w; discriminate.
Qed.

Lemma strip_app_ws_r s w : all_ws w = true -> strip (s ++ w) = strip s.
Proof. intros H. unfold strip. now rewrite rstrip_app_ws. Qed.

Lemma strip_app_ws_l w s : all_ws w = true -> strip (w ++ s) = strip s.
Proof.
  intros H. unfold strip. rewrite rstrip_ws_app by assumption.
  destruct (rstrip s) eqn:E; simpl; [reflexivity|].
  now rewrite lstrip_app_ws.
Qed.

Lemma strip_ws_both w1 s w2 : all_ws w1 = true -> all_ws w2 = true -> strip (w1 ++ s ++ w2) = strip s.
Proof. intros H1 H2. now rewrite strip_app_ws_l, strip_app_ws_r. Qed.

Lemma all_ws_cr : all_ws (String (ascii_of_nat 13) "") = true.
Proof. reflexivity. Qed.

(* ========================================================================================== *)
(* B. numbering, grouping                                                                       *)
Open Scope list_scope.   (* from here on ++ is list append; string append is written (a ++ b)%string *)

Definition on_fst {A} (f : nat -> nat) (p : nat * A) : nat * A := (f (fst p), snd p).

Lemma number_app {A} (a b : list A) k : number k (a ++ b) = number k a ++ number (k + length a) b.
Proof.
  revert k. induction a as [|x a IH]; intros k; simpl.
  - now rewrite Nat.add_0_r.
  - rewrite IH. now rewrite Nat.add_succ_r.
Qed.

Lemma number_map_S {A} (l : list A) k : map (on_fst S) (number k l) = number (S k) l.
Proof. revert k. induction l as [|x l IH]; intros k; simpl; [reflexivity|]. now rewrite IH. Qed.

Lemma number_bounds {A} (l : list A) k n x : In (n, x) (number k l) -> k <= n < k + length l.
Proof.
  revert k. induction l as [|y l IH]; intros k; simpl; [tauto|].
  intros [H|H]; [inversion H; subst; lia|]. apply IH in H. lia.
Qed.

Lemma number_length {A} (l : list A) k : length (number k l) = length l.
Proof. revert k. induction l; intros; simpl; auto. Qed.

Lemma number_nth {A} (l : list A) k n x : In (n, x) (number k l) -> nth_error l (n - k) = Some x.
Proof.
  revert k. induction l as [|y l IH]; intros k; simpl; [tauto|].
  intros [H|H].
  - inversion H; subst. now rewrite Nat.sub_diag.
  - pose proof (number_bounds _ _ _ _ H) as B. apply IH in H.
    replace (n - k) with (S (n - S k)) by lia. exact H.
Qed.

Definition shift (k n : nat) : nat := if Nat.leb n k then n else S n.

(* numbering of a file with one line inserted after the first |l1| lines *)
Lemma number_ins_l {A} (l1 l2 : list A) (c : A) :
  number 1 (l1 ++ c :: l2) = number 1 l1 ++ (S (length l1), c) :: number (S (S (length l1))) l2.
Proof. rewrite number_app. reflexivity. Qed.

Lemma number_ins_r {A} (l1 l2 : list A) :
  map (on_fst (shift (length l1))) (number 1 (l1 ++ l2)) = number 1 l1 ++ number (S (S (length l1))) l2.
Proof.
  rewrite number_app, map_app. f_equal.
  - rewrite <- (map_id (number 1 l1)) at 2. apply map_ext_in. intros [n x] Hin.
    apply number_bounds in Hin. unfold on_fst, shift; simpl.
    destruct (Nat.leb_spec n (length l1)); [reflexivity|lia].
  - transitivity (map (on_fst S) (number (1 + length l1) l2)); [|apply number_map_S].
    apply map_ext_in. intros [n x] Hin.
    apply number_bounds in Hin. unfold on_fst, shift; simpl.
    destruct (Nat.leb_spec n (length l1)); [lia|reflexivity].
Qed.

Section Group.
  Definition gmap (f : nat -> nat) (g : list (nat * string) * list section) : list (nat * string) * list section :=
    (map (on_fst f) (fst g),
     map (fun s : section => let '(n, name, ps) := s in (f n, name, map (on_fst f) ps)) (snd g)).

  Lemma group_map f toks : group (map (on_fst f) toks) = gmap f (group toks).
  Proof.
    induction toks as [|[n t] r IH]; [reflexivity|].
    simpl. rewrite IH. destruct (group r) as [pre secs]. destruct t; reflexivity.
  Qed.

  Lemma group_skip xs n ys : group (xs ++ (n, Skip) :: ys) = group (xs ++ ys).
  Proof.
    induction xs as [|[m t] r IH]; simpl.
    - destruct (group ys); reflexivity.
    - now rewrite IH.
  Qed.

  Definition contents (toks : list (nat * cline)) : list (nat * string) :=
    flat_map (fun p => match snd p with Content s => [(fst p, s)] | _ => [] end) toks.
  Definition has_header (toks : list (nat * cline)) : bool :=
    existsb (fun p => match snd p with Header _ => true | _ => false end) toks.

  (* tokens before the first header only extend the preamble *)
  Lemma group_app_nohdr t1 rest :
    has_header t1 = false ->
    group (t1 ++ rest) = (contents t1 ++ fst (group rest), snd (group rest)).
  Proof.
    induction t1 as [|[n t] r IH]; simpl; intros H.
    - destruct (group rest); reflexivity.
    - destruct t; simpl in *; try discriminate; rewrite (IH H); reflexivity.
  Qed.

  (* once a header has been seen, what follows extends the last open section *)
  Lemma group_app_hdr t1 :
    has_header t1 = true ->
    exists pre1 s1 n0 name p,
      forall rest, group (t1 ++ rest)
                   = (pre1, s1 ++ (n0, name, p ++ fst (group rest)) :: snd (group rest)).
  Proof.
    induction t1 as [|[n t] r IH]; simpl; intros H; [discriminate|].
    destruct (has_header r) eqn:Hr.
    - destruct (IH eq_refl) as (pre1 & s1 & n0 & name & p & E).
      destruct t as [|hn|cs].
      + exists pre1, s1, n0, name, p. intros rest. now rewrite E.
      + exists [], ((n, hn, pre1) :: s1), n0, name, p. intros rest. now rewrite E.
      + exists ((n, cs) :: pre1), s1, n0, name, p. intros rest. now rewrite E.
    - destruct t as [|hn|cs]; simpl in H; try discriminate.
      exists [], [], n, hn, (contents r). intros rest.
      rewrite (group_app_nohdr r rest Hr). simpl. reflexivity.
  Qed.

  Lemma group_contents c rest :
    (forall p, In p c -> exists s, snd p = Content s) ->
    group (c ++ rest) = (contents c ++ fst (group rest), snd (group rest)).
  Proof.
    intros H. apply group_app_nohdr.
    unfold has_header. apply not_true_is_false. intros E.
    apply existsb_exists in E as [p [Hin Hp]]. destruct (H p Hin) as [s Hs]. rewrite Hs in Hp. discriminate.
  Qed.
End Group.

(* ========================================================================================== *)
(* C. the monadic helpers                                                                       *)

Definition emap {A} (f : nat -> nat) (g : A -> A) (r : res A) : res A :=
  match r with Ok a => Ok (g a) | Err n k => Err (f n) k end.

Lemma foldM_app {A S} (f : S -> A -> res S) l1 l2 s :
  foldM f (l1 ++ l2) s = bind (foldM f l1 s) (foldM f l2).
Proof.
  revert s. induction l1 as [|x l1 IH]; intros s; simpl; [reflexivity|].
  destruct (f s x); simpl; auto.
Qed.

Lemma mapM_app {A B} (f : A -> res B) l1 l2 :
  mapM f (l1 ++ l2) = bind (mapM f l1) (fun a => bind (mapM f l2) (fun b => Ok (a ++ b))).
Proof.
  induction l1 as [|x l1 IH]; simpl.
  - destruct (mapM f l2); reflexivity.
  - destruct (f x); simpl; [|reflexivity]. rewrite IH.
    destruct (mapM f l1); simpl; [|reflexivity]. destruct (mapM f l2); reflexivity.
Qed.

Lemma mapM_Err {A B} (f : A -> res B) l n k :
  mapM f l = Err n k -> exists x, In x l /\ f x = Err n k.
Proof.
  induction l as [|x l IH]; simpl; [discriminate|].
  destruct (f x) eqn:E; simpl.
  - destruct (mapM f l) eqn:E2; simpl; [discriminate|].
    intros H; inversion H; subst. destruct (IH eq_refl) as [y [Hin Hy]]. exists y; auto.
  - intros H; inversion H; subst. exists x; auto.
Qed.

Lemma mapM_Ok {A B} (f : A -> res B) l ys :
  mapM f l = Ok ys -> Forall2 (fun x y => f x = Ok y) l ys.
Proof.
  revert ys. induction l as [|x l IH]; simpl; intros ys H.
  - inversion H. constructor.
  - destruct (f x) eqn:E; simpl in H; [|discriminate].
    destruct (mapM f l) eqn:E2; simpl in H; [|discriminate].
    inversion H; subst. constructor; auto.
Qed.

Lemma mapM_some_Err {A B} (f : A -> res B) l x n k :
  In x l -> f x = Err n k -> is_ok (mapM f l) = false.
Proof.
  intros Hin Hx. destruct (mapM f l) eqn:E; [|reflexivity].
  apply mapM_Ok in E. exfalso.
  induction E as [|a b l' ys' Hab _ IH]; [inversion Hin|].
  destruct Hin as [->|Hin]; [congruence|auto].
Qed.

Lemma foldM_renum_gen {S} (step : S -> nat * string -> res S) f :
  (forall st ln, step st (on_fst f ln) = emap f (fun x => x) (step st ln)) ->
  forall l st, foldM step (map (on_fst f) l) st = emap f (fun x => x) (foldM step l st).
Proof.
  intros H. induction l as [|ln r IH]; intros st; simpl; [reflexivity|].
  rewrite H. destruct (step st ln); simpl; auto.
Qed.

Lemma foldM_Err {A S} (f : S -> A -> res S) l s n k :
  foldM f l s = Err n k -> exists s' x, In x l /\ f s' x = Err n k.
Proof.
  revert s. induction l as [|x l IH]; intros s; simpl; [discriminate|].
  destruct (f s x) eqn:E; simpl.
  - intros H. destruct (IH _ H) as (s' & y & Hin & Hy). exists s', y; auto.
  - intros H; inversion H; subst. exists s, x; auto.
Qed.

(* ========================================================================================== *)
(* D. layout edits that leave every line's classification unchanged                              *)

Lemma Forall2_refl {A} (R : A -> A -> Prop) l : (forall x, R x x) -> Forall2 R l l.
Proof. intros H. induction l; constructor; auto. Qed.

Lemma Forall2_replace {A} (R : A -> A -> Prop) l1 a b l2 :
  (forall x, R x x) -> R a b -> Forall2 R (l1 ++ a :: l2) (l1 ++ b :: l2).
Proof.
  intros Hr Hab. apply Forall2_app; [now apply Forall2_refl|].
  constructor; [exact Hab|now apply Forall2_refl].
Qed.

Lemma toks_ext (cl : string -> cline) ls ls' k :
  Forall2 (fun a b => cl a = cl b) ls ls' ->
  map (fun p => (fst p, cl (snd p))) (number k ls) = map (fun p => (fst p, cl (snd p))) (number k ls').
Proof.
  intros H. revert k. induction H as [|a b l l' Hab _ IH]; intros k; simpl; [reflexivity|].
  now rewrite Hab, IH.
Qed.

Lemma classify_m_strip a b : strip a = strip b -> classify_m a = classify_m b.
Proof. unfold classify_m. now intros ->. Qed.

Lemma view_header_none_of_strip l : first_is "[" (strip l) = false -> view_header l = None.
Proof.
  unfold view_header, strip. destruct (rstrip l) as [|c t] eqn:E; [reflexivity|].
  simpl. destruct (is_ws c) eqn:W.
  - destruct c as [[] [] [] [] [] [] [] []]; try discriminate W; reflexivity.
  - simpl. intros H.
    destruct c as [[] [] [] [] [] [] [] []]; try reflexivity; discriminate H.
Qed.

Lemma classify_v_rstrip a b : rstrip a = rstrip b -> classify_v a = classify_v b.
Proof. unfold classify_v, view_header, strip. now intros ->. Qed.

Lemma classify_v_strip a b :
  strip a = strip b -> first_is "[" (strip a) = false -> classify_v a = classify_v b.
Proof.
  intros E H. unfold classify_v. rewrite <- E.
  rewrite (view_header_none_of_strip a H).
  rewrite E in H. now rewrite (view_header_none_of_strip b H).
Qed.

Section Merchants.
  Variable pyparse : string -> bool.

  Lemma parse_m_ext ls ls' :
    Forall2 (fun a b => classify_m a = classify_m b) ls ls' ->
    parse_merchants pyparse ls = parse_merchants pyparse ls'.
  Proof.
    intros H. unfold parse_merchants, parse_m_numbered. now rewrite (toks_ext classify_m ls ls' 1 H).
  Qed.

  Lemma parse_m_strip_ext ls ls' :
    Forall2 (fun a b => strip a = strip b) ls ls' ->
    parse_merchants pyparse ls = parse_merchants pyparse ls'.
  Proof.
    intros H. apply parse_m_ext. induction H; constructor; auto using classify_m_strip.
  Qed.

  Lemma m_trailing_blanks l1 l w l2 :
    all_ws w = true ->
    parse_merchants pyparse (l1 ++ (l ++ w)%string :: l2) = parse_merchants pyparse (l1 ++ l :: l2).
  Proof.
    intros H. apply parse_m_strip_ext. apply Forall2_replace; [reflexivity|]. now apply strip_app_ws_r.
  Qed.

  Lemma m_reindent l1 l w l2 :
    all_ws w = true ->
    parse_merchants pyparse (l1 ++ (w ++ l)%string :: l2) = parse_merchants pyparse (l1 ++ l :: l2).
  Proof.
    intros H. apply parse_m_strip_ext. apply Forall2_replace; [reflexivity|]. now apply strip_app_ws_l.
  Qed.

  Definition add_cr (l : string) : string := (l ++ String (ascii_of_nat 13) "")%string.

  Lemma m_crlf ls : parse_merchants pyparse (map add_cr ls) = parse_merchants pyparse ls.
  Proof.
    apply parse_m_strip_ext. induction ls; simpl; constructor; auto.
    unfold add_cr. apply strip_app_ws_r. reflexivity.
  Qed.

  (* CRLF file whose last line has no terminator: any subset of lines may carry the CR *)
  Lemma m_crlf_some ls ls' :
    Forall2 (fun a b => a = b \/ a = add_cr b) ls ls' ->
    parse_merchants pyparse ls = parse_merchants pyparse ls'.
  Proof.
    intros H. apply parse_m_strip_ext. induction H as [|a b l l' [->| ->] _ IH]; constructor; auto.
    unfold add_cr. apply strip_app_ws_r. reflexivity.
  Qed.

  (* ---------------------------------------------------------------------------------------- *)
  (* line numbers are carried, never inspected                                                  *)

  Definition renum_rule (f : nat -> nat) (r : rule) : rule :=
    {| r_name := r_name r; r_match := r_match r; r_category := r_category r; r_subcategory := r_subcategory r;
       r_merchant := r_merchant r; r_tags := r_tags r; r_priority := r_priority r; r_line := f (r_line r);
       r_lets := r_lets r; r_fields := r_fields r |}.
  Definition renum_mfile (f : nat -> nat) (m : mfile) : mfile :=
    {| m_rules := map (renum_rule f) (m_rules m); m_vars := m_vars m; m_transforms := m_transforms m |}.
  Definition renum_m (f : nat -> nat) (r : res mfile) : res mfile := emap f (renum_mfile f) r.

  Lemma apply_prop_renum f st ln : apply_prop st (on_fst f ln) = emap f (fun x => x) (apply_prop st ln).
  Proof.
    unfold apply_prop, on_fst; simpl. destruct (prop_of (snd ln)) as [[k v]|]; [|reflexivity].
    unfold apply_kv. destruct (key_of k); try reflexivity;
      try (destruct (ident_eq v) as [[? ?]|]; reflexivity).
    destruct (parse_int v); reflexivity.
  Qed.

  Lemma foldM_apply_prop_renum f props st :
    foldM apply_prop (map (on_fst f) props) st = emap f (fun x => x) (foldM apply_prop props st).
  Proof.
    revert st. induction props as [|ln r IH]; intros st; simpl; [reflexivity|].
    rewrite apply_prop_renum. destruct (apply_prop st ln); simpl; auto.
  Qed.

  Lemma finish_rule_renum f n0 name pr :
    finish_rule pyparse (f n0) name pr = emap f (renum_rule f) (finish_rule pyparse n0 name pr).
  Proof.
    unfold finish_rule. destruct (p_match pr); [|reflexivity].
    repeat match goal with |- context [if ?b then _ else _] => destruct b; try reflexivity end.
  Qed.

  Lemma build_rule_renum f n0 name props :
    build_rule pyparse (f n0, name, map (on_fst f) props)
    = emap f (renum_rule f) (build_rule pyparse (n0, name, props)).
  Proof.
    unfold build_rule. destruct (is_empty name); [reflexivity|].
    rewrite foldM_apply_prop_renum. destruct (foldM apply_prop props prule0); simpl; [|reflexivity].
    apply finish_rule_renum.
  Qed.

  Lemma mapM_build_rule_renum f secs :
    mapM (build_rule pyparse) (map (fun s : section => let '(n, name, ps) := s in (f n, name, map (on_fst f) ps)) secs)
    = emap f (map (renum_rule f)) (mapM (build_rule pyparse) secs).
  Proof.
    induction secs as [|[[n name] ps] r IH]; [reflexivity|].
    cbn [map mapM]. rewrite build_rule_renum. destruct (build_rule pyparse (n, name, ps)); cbn [bind emap]; [|reflexivity].
    rewrite IH. destruct (mapM (build_rule pyparse) r); reflexivity.
  Qed.

  Lemma pre_step_renum f st ln :
    pre_step pyparse st (on_fst f ln) = emap f (fun x => x) (pre_step pyparse st ln).
  Proof.
    destruct st as [vars tr]. unfold pre_step, on_fst; simpl.
    destruct (asg_of (snd ln)) as [[lhs rhs]|]; [|reflexivity].
    destruct (pyparse rhs); [|reflexivity]. destruct (String.prefix "field." lhs); reflexivity.
  Qed.

  Lemma parse_m_numbered_renum f nl :
    parse_m_numbered pyparse (map (on_fst f) nl) = renum_m f (parse_m_numbered pyparse nl).
  Proof.
    unfold parse_m_numbered.
    replace (map (fun p => (fst p, classify_m (snd p))) (map (on_fst f) nl))
      with (map (on_fst f) (map (fun p => (fst p, classify_m (snd p))) nl))
      by (rewrite !map_map; reflexivity).
    rewrite group_map. destruct (group _) as [pre secs]. unfold gmap; simpl.
    rewrite (foldM_renum_gen _ f (pre_step_renum f)).
    destruct (foldM (pre_step pyparse) pre ([], [])) as [vt|]; simpl; [|reflexivity].
    rewrite mapM_build_rule_renum. destruct (mapM (build_rule pyparse) secs); reflexivity.
  Qed.

  Lemma parse_m_numbered_skip xs n c ys :
    classify_m c = Skip ->
    parse_m_numbered pyparse (xs ++ (n, c) :: ys) = parse_m_numbered pyparse (xs ++ ys).
  Proof.
    intros H. unfold parse_m_numbered. rewrite !map_app. simpl. rewrite H, group_skip. reflexivity.
  Qed.

  (* inserting a blank or comment line anywhere: same result, later line numbers move down by one *)
  Lemma m_insert_skip l1 c l2 :
    classify_m c = Skip ->
    parse_merchants pyparse (l1 ++ c :: l2)
    = renum_m (shift (length l1)) (parse_merchants pyparse (l1 ++ l2)).
  Proof.
    intros H. unfold parse_merchants.
    rewrite number_ins_l, parse_m_numbered_skip by exact H.
    rewrite <- number_ins_r. apply parse_m_numbered_renum.
  Qed.
End Merchants.

Lemma classify_m_blank c : all_ws c = true -> classify_m c = Skip.
Proof.
  intros H. unfold classify_m, strip. rewrite rstrip_all_ws by exact H. reflexivity.
Qed.

Lemma classify_m_comment w t : all_ws w = true -> classify_m (w ++ String "#" t)%string = Skip.
Proof.
  intros H. unfold classify_m. rewrite strip_app_ws_l by exact H.
  unfold strip. simpl. destruct (rstrip t); reflexivity.
Qed.

(* ========================================================================================== *)
(* E. edits inside a section: key letter case, order of distinct properties                      *)

Definition sim {A} (r r' : res A) : Prop := r = r' \/ (is_ok r = false /\ is_ok r' = false).

Lemma sim_refl {A} (r : res A) : sim r r.
Proof. now left. Qed.
Lemma sim_sym {A} (r r' : res A) : sim r r' -> sim r' r.
Proof. intros [H|[H1 H2]]; [left; auto|right; auto]. Qed.
Lemma sim_trans {A} (a b c : res A) : sim a b -> sim b c -> sim a c.
Proof.
  intros [->|[H1 H2]] [H|[H3 H4]]; subst; try (left; reflexivity); try (right; split; assumption).
Qed.
Lemma sim_bind {A B} (r r' : res A) (f : A -> res B) : sim r r' -> sim (bind r f) (bind r' f).
Proof.
  intros [->|[H1 H2]]; [apply sim_refl|]. right.
  destruct r; [discriminate|]. destruct r'; [discriminate|]. split; reflexivity.
Qed.
Lemma sim_bind_r {A B} (r : res A) (f g : A -> res B) : (forall a, sim (f a) (g a)) -> sim (bind r f) (bind r g).
Proof. intros H. destruct r; simpl; [apply H|apply sim_refl]. Qed.

(* state-independent validity of a property line, and its effect *)
Definition kv_check (key : pkey) (v : string) : option ekind :=
  match key with
  | KLet => match ident_eq v with Some _ => None | None => Some EBadLet end
  | KField => match ident_eq v with Some _ => None | None => Some EBadField end
  | KPriority => match parse_int v with Some _ => None | None => Some EBadPriority end
  | KUnknown => Some EUnknownProperty
  | _ => None
  end.
Definition kv_upd (key : pkey) (v : string) (pr : prule) : prule :=
  match key with
  | KLet => match ident_eq v with Some (id, e) => add_let pr (lower id) e | None => pr end
  | KField => match ident_eq v with Some (id, e) => set_field pr (lower id) e | None => pr end
  | KMatch => set_match pr v
  | KCategory => set_category pr v
  | KSubcategory => set_subcategory pr v
  | KMerchant => set_merchant pr v
  | KTags => set_tags pr (parse_tags v)
  | KPriority => match parse_int v with Some z => set_priority pr z | None => pr end
  | KUnknown => pr
  end.
Definition prop_check (s : string) : option ekind :=
  match prop_of s with None => Some EUnexpected | Some (k, v) => kv_check (key_of k) v end.
Definition prop_upd (s : string) (pr : prule) : prule :=
  match prop_of s with None => pr | Some (k, v) => kv_upd (key_of k) v pr end.

Lemma apply_prop_split st ln :
  apply_prop st ln = match prop_check (snd ln) with Some k => Err (fst ln) k | None => Ok (prop_upd (snd ln) st) end.
Proof.
  unfold apply_prop, prop_check, prop_upd. destruct (prop_of (snd ln)) as [[k v]|]; [|reflexivity].
  unfold apply_kv, kv_check, kv_upd. destruct (key_of k); try reflexivity;
    try (destruct (ident_eq v) as [[? ?]|]; reflexivity).
  destruct (parse_int v); reflexivity.
Qed.

Lemma key_of_known_inj k1 k2 : key_of k1 = key_of k2 -> key_of k1 <> KUnknown -> k1 = k2.
Proof.
  unfold key_of.
  destruct (String.eqb_spec k1 "let"); [destruct (String.eqb_spec k2 "let"); [congruence|]|].
  { repeat match goal with |- context [String.eqb ?a ?b] => destruct (String.eqb a b) end; discriminate. }
  destruct (String.eqb_spec k1 "field"); [destruct (String.eqb_spec k2 "let"); [discriminate|destruct (String.eqb_spec k2 "field"); [congruence|]]|].
  { repeat match goal with |- context [String.eqb ?a ?b] => destruct (String.eqb a b) end; discriminate. }
  destruct (String.eqb_spec k1 "match").
  { repeat match goal with |- context [String.eqb k2 ?b] => destruct (String.eqb_spec k2 b) end; try discriminate; congruence. }
  destruct (String.eqb_spec k1 "category").
  { repeat match goal with |- context [String.eqb k2 ?b] => destruct (String.eqb_spec k2 b) end; try discriminate; congruence. }
  destruct (String.eqb_spec k1 "subcategory").
  { repeat match goal with |- context [String.eqb k2 ?b] => destruct (String.eqb_spec k2 b) end; try discriminate; congruence. }
  destruct (String.eqb_spec k1 "merchant").
  { repeat match goal with |- context [String.eqb k2 ?b] => destruct (String.eqb_spec k2 b) end; try discriminate; congruence. }
  destruct (String.eqb_spec k1 "tags").
  { repeat match goal with |- context [String.eqb k2 ?b] => destruct (String.eqb_spec k2 b) end; try discriminate; congruence. }
  destruct (String.eqb_spec k1 "priority").
  { repeat match goal with |- context [String.eqb k2 ?b] => destruct (String.eqb_spec k2 b) end; try discriminate; congruence. }
  intros _ H. congruence.
Qed.

Lemma kv_upd_comm key1 v1 key2 v2 pr :
  key1 <> key2 -> kv_upd key1 v1 (kv_upd key2 v2 pr) = kv_upd key2 v2 (kv_upd key1 v1 pr).
Proof.
  intros Hne. destruct key1, key2; try congruence; unfold kv_upd;
    repeat match goal with
           | |- context [ident_eq ?v] => destruct (ident_eq v) as [[? ?]|]
           | |- context [parse_int ?v] => destruct (parse_int v)
           end; reflexivity.
Qed.

Definition line_key (s : string) : option string :=
  match prop_of s with Some (k, _) => Some k | None => None end.

Lemma swap_props n1 s1 n2 s2 st :
  line_key s1 <> line_key s2 ->
  sim (foldM apply_prop [(n1, s1); (n2, s2)] st) (foldM apply_prop [(n1, s2); (n2, s1)] st).
Proof.
  intros Hk. cbn [foldM]. rewrite !apply_prop_split. cbn [fst snd].
  destruct (prop_check s1) eqn:C1, (prop_check s2) eqn:C2; cbn [bind];
    rewrite ?apply_prop_split; cbn [fst snd]; rewrite ?C1, ?C2; cbn [bind];
    try (right; split; reflexivity).
  left. f_equal.
  unfold prop_check, prop_upd, line_key in *.
  destruct (prop_of s1) as [[k1 v1]|]; [|discriminate].
  destruct (prop_of s2) as [[k2 v2]|]; [|discriminate].
  apply kv_upd_comm. intros E.
  assert (key_of k2 <> KUnknown) by (intros U; rewrite U in C2; discriminate).
  apply Hk. f_equal. symmetry. apply key_of_known_inj; congruence.
Qed.

Section MerchantsSection.
  Variable pyparse : string -> bool.
  Let tk := fun p : nat * string => (fst p, classify_m (snd p)).

  Lemma build_replace_sim n0 name p c c' q :
    (forall st, sim (foldM apply_prop c st) (foldM apply_prop c' st)) ->
    sim (build_rule pyparse (n0, name, p ++ c ++ q)) (build_rule pyparse (n0, name, p ++ c' ++ q)).
  Proof.
    intros H. unfold build_rule. destruct (is_empty name); [apply sim_refl|].
    apply sim_bind. rewrite !foldM_app. apply sim_bind_r. intros st. rewrite !foldM_app. apply sim_bind. apply H.
  Qed.

  Lemma mapM_replace_sim {A B} (f : A -> res B) s1 x x' s2 :
    sim (f x) (f x') -> sim (mapM f (s1 ++ x :: s2)) (mapM f (s1 ++ x' :: s2)).
  Proof.
    intros H. rewrite !mapM_app. apply sim_bind_r. intros a. apply sim_bind.
    cbn [mapM]. apply sim_bind. exact H.
  Qed.

  (* replacing a block of content lines that sits inside a section *)
  Lemma m_section_replace_sim xs cb cb' ys :
    has_header (map tk xs) = true ->
    (forall p, In p (map tk cb) -> exists s, snd p = Content s) ->
    (forall p, In p (map tk cb') -> exists s, snd p = Content s) ->
    (forall st, sim (foldM apply_prop (contents (map tk cb)) st) (foldM apply_prop (contents (map tk cb')) st)) ->
    sim (parse_m_numbered pyparse (xs ++ cb ++ ys)) (parse_m_numbered pyparse (xs ++ cb' ++ ys)).
  Proof.
    intros Hh Hc Hc' Hs. unfold parse_m_numbered. fold tk. rewrite !map_app.
    destruct (group_app_hdr _ Hh) as (pre1 & s1 & n0 & name & p & E).
    rewrite !E, (group_contents _ _ Hc), (group_contents _ _ Hc'). cbn [fst snd].
    apply sim_bind_r. intros vt.
    apply sim_bind. apply mapM_replace_sim. apply build_replace_sim. exact Hs.
  Qed.

  Lemma has_header_number l1 k :
    has_header (map tk (number k l1)) = existsb (fun l => match classify_m l with Header _ => true | _ => false end) l1.
  Proof. revert k. induction l1 as [|a l IH]; intros k; simpl; [reflexivity|]. now rewrite IH. Qed.

  Definition in_section (l1 : list string) : bool :=
    existsb (fun l => match classify_m l with Header _ => true | _ => false end) l1.

  Lemma bind_ext {A B} (r : res A) (f g : A -> res B) : (forall a, f a = g a) -> bind r f = bind r g.
  Proof. intros H. destruct r; simpl; auto. Qed.

  Lemma m_section_replace_eq xs cb cb' ys :
    has_header (map tk xs) = true ->
    (forall p, In p (map tk cb) -> exists s, snd p = Content s) ->
    (forall p, In p (map tk cb') -> exists s, snd p = Content s) ->
    (forall st, foldM apply_prop (contents (map tk cb)) st = foldM apply_prop (contents (map tk cb')) st) ->
    parse_m_numbered pyparse (xs ++ cb ++ ys) = parse_m_numbered pyparse (xs ++ cb' ++ ys).
  Proof.
    intros Hh Hc Hc' Hs. unfold parse_m_numbered. fold tk. rewrite !map_app.
    destruct (group_app_hdr _ Hh) as (pre1 & s1 & n0 & name & p & E).
    rewrite !E, (group_contents _ _ Hc), (group_contents _ _ Hc'). cbn [fst snd].
    apply bind_ext. intros vt.
    f_equal. rewrite !mapM_app. apply bind_ext. intros a. f_equal. cbn [mapM]. f_equal.
    unfold build_rule. destruct (is_empty name); [reflexivity|]. f_equal.
    rewrite !foldM_app. apply bind_ext. intros st. rewrite !foldM_app. now rewrite Hs.
  Qed.

  (* --- key letter case ------------------------------------------------------------------- *)
  Lemma m_prop_equiv l1 l l' l2 s s' :
    in_section l1 = true ->
    classify_m l = Content s -> classify_m l' = Content s' -> prop_of s = prop_of s' ->
    parse_merchants pyparse (l1 ++ l :: l2) = parse_merchants pyparse (l1 ++ l' :: l2).
  Proof.
    intros Hin Hl Hl' Hp. unfold parse_merchants. rewrite !number_app. cbn [number].
    apply (m_section_replace_eq (number 1 l1) [(1 + length l1, l)] [(1 + length l1, l')]
                  (number (S (1 + length l1)) l2)).
    - now rewrite has_header_number.
    - intros p [<-|[]]. unfold tk; cbn. rewrite Hl. eauto.
    - intros p [<-|[]]. unfold tk; cbn. rewrite Hl'. eauto.
    - intros st. unfold tk; cbn [map contents flat_map fst snd]. rewrite Hl, Hl'. cbn [app foldM].
      unfold apply_prop; cbn [fst snd]. now rewrite Hp.
  Qed.

  (* --- two adjacent property lines with different keys ------------------------------------ *)
  Lemma m_swap_adjacent l1 a b l2 sa sb :
    in_section l1 = true ->
    classify_m a = Content sa -> classify_m b = Content sb -> line_key sa <> line_key sb ->
    sim (parse_merchants pyparse (l1 ++ a :: b :: l2)) (parse_merchants pyparse (l1 ++ b :: a :: l2)).
  Proof.
    intros Hin Ha Hb Hk. unfold parse_merchants. rewrite !number_app. cbn [number].
    apply (m_section_replace_sim (number 1 l1)
             [(1 + length l1, a); (S (1 + length l1), b)] [(1 + length l1, b); (S (1 + length l1), a)]
             (number (S (S (1 + length l1))) l2)).
    - now rewrite has_header_number.
    - intros p [<-|[<-|[]]]; unfold tk; cbn; rewrite ?Ha, ?Hb; eauto.
    - intros p [<-|[<-|[]]]; unfold tk; cbn; rewrite ?Ha, ?Hb; eauto.
    - intros st. unfold tk; cbn [map contents flat_map fst snd]. rewrite Ha, Hb. cbn [app].
      now apply swap_props.
  Qed.
End MerchantsSection.

(* ---- key letter case: the string side ------------------------------------------------------- *)
Open Scope string_scope.

Lemma is_ws_lower c : is_ws (lower_char c) = is_ws c.
Proof. destruct c as [[] [] [] [] [] [] [] []]; reflexivity. Qed.

Lemma lower_lstrip s : lower (lstrip s) = lstrip (lower s).
Proof.
  induction s as [|c r IH]; simpl; [reflexivity|].
  rewrite is_ws_lower. destruct (is_ws c); [exact IH|reflexivity].
Qed.

Lemma lower_rstrip s : lower (rstrip s) = rstrip (lower s).
Proof.
  induction s as [|c r IH]; simpl; [reflexivity|].
  fold (lower r). rewrite <- IH. rewrite is_ws_lower.
  destruct (rstrip r); simpl; [destruct (is_ws c); reflexivity|reflexivity].
Qed.

Lemma lower_strip s : lower (strip s) = strip (lower s).
Proof. unfold strip. now rewrite lower_lstrip, lower_rstrip. Qed.

Lemma split_at_app d k v : has_char d k = false -> split_at d (k ++ String d v)%string = Some (k, v).
Proof.
  induction k as [|c r IH]; simpl; intros H.
  - now rewrite Ascii.eqb_refl.
  - apply orb_false_iff in H as [Hc Hr]. rewrite Hc, (IH Hr). reflexivity.
Qed.

Lemma prop_of_key_case k k' v :
  has_char ":" k = false -> has_char ":" k' = false -> lower k' = lower k ->
  prop_of (k ++ String ":" v)%string = prop_of (k' ++ String ":" v)%string.
Proof.
  intros H H' E. unfold prop_of. rewrite (split_at_app _ _ _ H), (split_at_app _ _ _ H').
  now rewrite !lower_strip, E.
Qed.

Lemma lower_char_hash c : lower_char c = "#"%char -> c = "#"%char.
Proof. destruct c as [[] [] [] [] [] [] [] []]; vm_compute; intros H; try reflexivity; discriminate H. Qed.
Lemma lower_char_lbr c : lower_char c = "["%char -> c = "["%char.
Proof. destruct c as [[] [] [] [] [] [] [] []]; vm_compute; intros H; try reflexivity; discriminate H. Qed.

Definition is_content (s : string) : bool :=
  match s with
  | EmptyString => false
  | String c r => (negb (Ascii.eqb c "#") && negb (Ascii.eqb c "[" && ends_with "]" r))%bool
  end.

Lemma classify_m_content l s : classify_m l = Content s <-> strip l = s /\ is_content s = true.
Proof.
  unfold classify_m. destruct (strip l) as [|c r] eqn:E.
  - split; [discriminate|]. intros [<- H]. discriminate H.
  - unfold is_content. destruct (Ascii.eqb c "#") eqn:Eh.
    + split; [discriminate|]. intros [<- H]. rewrite Eh in H. discriminate H.
    + destruct (Ascii.eqb c "[" && ends_with "]" r)%bool eqn:Eb.
      * split; [discriminate|]. intros [<- H]. rewrite Eh, Eb in H. discriminate H.
      * split; [intros H; inversion H; subst; rewrite Eh, Eb; auto|]. intros [<- _]. reflexivity.
Qed.

Lemma last_char_cons c t : t <> "" -> last_char (String c t) = last_char t.
Proof. destruct t; [congruence|reflexivity]. Qed.

Lemma last_char_app a x b : last_char (a ++ String x b)%string = last_char (String x b).
Proof.
  induction a as [|c r IH]; [reflexivity|].
  change ((String c r ++ String x b)%string) with (String c (r ++ String x b)%string).
  rewrite last_char_cons by (destruct r; discriminate). exact IH.
Qed.

Lemma ends_with_app d a x b : ends_with d (a ++ String x b)%string = ends_with d (String x b).
Proof. unfold ends_with. now rewrite last_char_app. Qed.

Lemma eqb_lower_fixed c c' d :
  (forall x, lower_char x = d -> x = d) -> lower_char d = d ->
  lower_char c' = lower_char c -> Ascii.eqb c' d = Ascii.eqb c d.
Proof.
  intros Hd Hdd E. destruct (Ascii.eqb_spec c d) as [->|Hn].
  - rewrite Hdd in E. apply Hd in E. subst. apply Ascii.eqb_refl.
  - destruct (Ascii.eqb_spec c' d) as [->|]; [|reflexivity].
    rewrite Hdd in E. symmetry in E. apply Hd in E. congruence.
Qed.

Lemma is_content_key_case k k' v :
  lower k' = lower k -> is_content (k ++ String ":" v)%string = is_content (k' ++ String ":" v)%string.
Proof.
  intros E. destruct k as [|c r], k' as [|c' r']; try discriminate E; [reflexivity|].
  unfold lower in E; cbn [smap] in E; injection E as Ec Er. cbn [append is_content].
  rewrite (eqb_lower_fixed c c' "#" lower_char_hash eq_refl Ec).
  rewrite (eqb_lower_fixed c c' "[" lower_char_lbr eq_refl Ec).
  now rewrite !ends_with_app.
Qed.
Open Scope list_scope.

Section KeyCase.
  Variable pyparse : string -> bool.

  (* a property line of a section whose key is written in another letter case *)
  Lemma m_key_case l1 l l' l2 k k' v :
    in_section l1 = true ->
    strip l = (k ++ String ":" v)%string -> strip l' = (k' ++ String ":" v)%string ->
    has_char ":" k = false -> has_char ":" k' = false -> lower k' = lower k ->
    is_content (strip l) = true ->
    parse_merchants pyparse (l1 ++ l :: l2) = parse_merchants pyparse (l1 ++ l' :: l2).
  Proof.
    intros Hin El El' Hk Hk' E Hc.
    apply (m_prop_equiv pyparse l1 l l' l2 (strip l) (strip l') Hin).
    - apply classify_m_content. auto.
    - apply classify_m_content. split; [reflexivity|].
      rewrite El'. rewrite <- (is_content_key_case k k' v E). now rewrite <- El.
    - rewrite El, El'. now apply prop_of_key_case.
  Qed.
End KeyCase.

Section PermuteM.
  Variable pyparse : string -> bool.

  Definition is_content_line (l : string) : Prop := classify_m l = Content (strip l).
  Definition lk (l : string) : option string := line_key (strip l).

  Lemma in_section_app l1 x : in_section l1 = true -> in_section (l1 ++ x) = true.
  Proof. unfold in_section. rewrite existsb_app. now intros ->. Qed.

  (* any reordering of a block of property lines with pairwise different keys, inside a section *)
  Lemma m_permute_distinct block block' :
    Permutation block block' ->
    forall l1 l2, in_section l1 = true -> Forall is_content_line block -> NoDup (map lk block) ->
      sim (parse_merchants pyparse (l1 ++ block ++ l2)) (parse_merchants pyparse (l1 ++ block' ++ l2)).
  Proof.
    induction 1 as [|x l l' HP IH|x y l|l l' l'' HP1 IH1 HP2 IH2]; intros l1 l2 Hin Hc Hn.
    - apply sim_refl.
    - inversion Hc; subst. inversion Hn; subst.
      replace (l1 ++ (x :: l) ++ l2) with ((l1 ++ [x]) ++ l ++ l2) by (rewrite <- app_assoc; reflexivity).
      replace (l1 ++ (x :: l') ++ l2) with ((l1 ++ [x]) ++ l' ++ l2) by (rewrite <- app_assoc; reflexivity).
      apply IH; auto using in_section_app.
    - inversion Hc as [|? ? Hy Hc']; subst. inversion Hc' as [|? ? Hx Hc'']; subst.
      inversion Hn as [|? ? Hny Hn']; subst.
      cbn [app]. apply (m_swap_adjacent pyparse l1 y x (l ++ l2) (strip y) (strip x) Hin Hy Hx).
      intros E. apply Hny. left. unfold lk. now rewrite E.
    - eapply sim_trans; [apply IH1; auto|].
      apply IH2; auto.
      + eapply Permutation_Forall; eauto.
      + eapply Permutation_NoDup; [|exact Hn]. now apply Permutation_map.
  Qed.
End PermuteM.

(* ========================================================================================== *)
(* F. views files                                                                               *)

Section Views.
  Variable pyparse : string -> bool.
  Let tkv := fun p : nat * string => (fst p, classify_v (snd p)).

  Lemma parse_v_ext ls ls' :
    Forall2 (fun a b => classify_v a = classify_v b) ls ls' ->
    parse_views pyparse ls = parse_views pyparse ls'.
  Proof.
    intros H. unfold parse_views, parse_v_numbered. now rewrite (toks_ext classify_v ls ls' 1 H).
  Qed.

  Lemma v_trailing_blanks l1 l w l2 :
    all_ws w = true ->
    parse_views pyparse (l1 ++ (l ++ w)%string :: l2) = parse_views pyparse (l1 ++ l :: l2).
  Proof.
    intros H. apply parse_v_ext. apply Forall2_replace; [reflexivity|].
    apply classify_v_rstrip. now apply rstrip_app_ws.
  Qed.

  Lemma v_crlf_some ls ls' :
    Forall2 (fun a b => a = b \/ a = add_cr b) ls ls' ->
    parse_views pyparse ls = parse_views pyparse ls'.
  Proof.
    intros H. apply parse_v_ext. induction H as [|a b l l' [->| ->] _ IH]; constructor; auto.
    apply classify_v_rstrip. unfold add_cr. apply rstrip_app_ws. reflexivity.
  Qed.

  Lemma v_crlf ls : parse_views pyparse (map add_cr ls) = parse_views pyparse ls.
  Proof. apply v_crlf_some. induction ls; simpl; constructor; auto. Qed.

  (* re-indenting a line that is not header-shaped (an indented header is NOT a header in a views file) *)
  Lemma v_reindent l1 l w l2 :
    all_ws w = true -> first_is "[" (strip l) = false ->
    parse_views pyparse (l1 ++ (w ++ l)%string :: l2) = parse_views pyparse (l1 ++ l :: l2).
  Proof.
    intros H Hb. apply parse_v_ext. apply Forall2_replace; [reflexivity|].
    apply classify_v_strip; rewrite strip_app_ws_l by exact H; auto.
  Qed.

  (* ---- line numbers are carried, never inspected ---- *)
  Definition renum_view (f : nat -> nat) (v : view) : view :=
    {| v_name := v_name v; v_filter := v_filter v; v_desc := v_desc v; v_vars := v_vars v; v_line := f (v_line v) |}.
  Definition renum_vfile (f : nat -> nat) (m : vfile) : vfile :=
    {| f_globals := f_globals m; f_views := map (renum_view f) (f_views m) |}.
  Definition renum_v (f : nat -> nat) (r : res vfile) : res vfile := emap f (renum_vfile f) r.

  Lemma apply_vline_renum f st ln :
    apply_vline pyparse st (on_fst f ln) = emap f (fun x => x) (apply_vline pyparse st ln).
  Proof.
    destruct ln as [n s]. unfold apply_vline, on_fst; simpl.
    destruct (vitem_of s); try reflexivity; destruct (pyparse e); reflexivity.
  Qed.

  Lemma vpre_step_renum f st ln :
    vpre_step pyparse st (on_fst f ln) = emap f (fun x => x) (vpre_step pyparse st ln).
  Proof.
    destruct ln as [n s]. unfold vpre_step, on_fst; simpl.
    destruct (vitem_of s); try reflexivity; destruct (pyparse e); reflexivity.
  Qed.

  Lemma foldM_renum {S} (step : S -> nat * string -> res S) f :
    (forall st ln, step st (on_fst f ln) = emap f (fun x => x) (step st ln)) ->
    forall l st, foldM step (map (on_fst f) l) st = emap f (fun x => x) (foldM step l st).
  Proof.
    intros H. induction l as [|ln r IH]; intros st; simpl; [reflexivity|].
    rewrite H. destruct (step st ln); simpl; auto.
  Qed.

  Lemma build_view_renum f n0 name lines :
    build_view pyparse (f n0, name, map (on_fst f) lines)
    = emap f (renum_view f) (build_view pyparse (n0, name, lines)).
  Proof.
    unfold build_view. rewrite (foldM_renum _ f (apply_vline_renum f)).
    destruct (foldM (apply_vline pyparse) lines pview0) as [pv|]; simpl; [|reflexivity].
    destruct (q_filter pv); reflexivity.
  Qed.

  Lemma build_view_d_renum f seen n0 name lines :
    build_view_d pyparse (seen, (f n0, name, map (on_fst f) lines))
    = emap f (renum_view f) (build_view_d pyparse (seen, (n0, name, lines))).
  Proof.
    unfold build_view_d. cbn [fst snd]. destruct (mem name seen); [reflexivity|]. apply build_view_renum.
  Qed.

  Lemma mapM_build_view_renum f secs : forall seen,
    mapM (build_view_d pyparse)
      (with_seen seen (map (fun s : section => let '(n, name, ps) := s in (f n, name, map (on_fst f) ps)) secs))
    = emap f (map (renum_view f)) (mapM (build_view_d pyparse) (with_seen seen secs)).
  Proof.
    induction secs as [|[[n name] ps] r IH]; intros seen; [reflexivity|].
    cbn [map with_seen mapM fst snd]. rewrite build_view_d_renum.
    set (b := build_view_d pyparse (seen, (n, name, ps))).
    change (build_view_d pyparse (seen, (n, name, ps))) with b. clearbody b.
    destruct b; cbn [bind emap]; [|reflexivity].
    rewrite IH. destruct (mapM (build_view_d pyparse) (with_seen (seen ++ [name]) r)); reflexivity.
  Qed.

  Lemma parse_v_numbered_renum f nl :
    parse_v_numbered pyparse (map (on_fst f) nl) = renum_v f (parse_v_numbered pyparse nl).
  Proof.
    unfold parse_v_numbered.
    replace (map (fun p => (fst p, classify_v (snd p))) (map (on_fst f) nl))
      with (map (on_fst f) (map (fun p => (fst p, classify_v (snd p))) nl))
      by (rewrite !map_map; reflexivity).
    rewrite group_map. destruct (group _) as [pre secs]. unfold gmap; simpl.
    rewrite (foldM_renum _ f (vpre_step_renum f)).
    destruct (foldM (vpre_step pyparse) pre []); simpl; [|reflexivity].
    rewrite mapM_build_view_renum. destruct (mapM (build_view_d pyparse) (with_seen [] secs)); reflexivity.
  Qed.

  Lemma v_insert_skip l1 c l2 :
    classify_v c = Skip ->
    parse_views pyparse (l1 ++ c :: l2)
    = renum_v (shift (length l1)) (parse_views pyparse (l1 ++ l2)).
  Proof.
    intros H. unfold parse_views.
    rewrite number_ins_l.
    assert (E : parse_v_numbered pyparse (number 1 l1 ++ (S (length l1), c) :: number (S (S (length l1))) l2)
                = parse_v_numbered pyparse (number 1 l1 ++ number (S (S (length l1))) l2)).
    { unfold parse_v_numbered. rewrite !map_app. simpl. rewrite H, group_skip. reflexivity. }
    rewrite E, <- number_ins_r. apply parse_v_numbered_renum.
  Qed.

  (* ---- inside a section ---- *)
  Definition vline_check (s : string) : option ekind :=
    match vitem_of s with
    | IFilter e => if pyparse e then None else Some VInvalidFilter
    | IDesc _ => None
    | IVar _ e => if pyparse e then None else Some VInvalidVar
    | IOther => Some VUnexpected
    end.
  Definition vline_upd (s : string) (pv : pview) : pview :=
    match vitem_of s with
    | IFilter e => {| q_filter := Some e; q_desc := q_desc pv; q_vars := q_vars pv |}
    | IDesc d => {| q_filter := q_filter pv; q_desc := Some d; q_vars := q_vars pv |}
    | IVar x e => {| q_filter := q_filter pv; q_desc := q_desc pv; q_vars := dset (q_vars pv) x e |}
    | IOther => pv
    end.
  Definition vclass (s : string) : nat :=
    match vitem_of s with IFilter _ => 0 | IDesc _ => 1 | IVar _ _ => 2 | IOther => 3 end.

  Lemma apply_vline_split st ln :
    apply_vline pyparse st ln
    = match vline_check (snd ln) with Some k => Err (fst ln) k | None => Ok (vline_upd (snd ln) st) end.
  Proof.
    destruct ln as [n s]. unfold apply_vline, vline_check, vline_upd; simpl.
    destruct (vitem_of s); try reflexivity; destruct (pyparse e); reflexivity.
  Qed.

  Lemma swap_vlines n1 s1 n2 s2 st :
    vclass s1 <> vclass s2 ->
    sim (foldM (apply_vline pyparse) [(n1, s1); (n2, s2)] st) (foldM (apply_vline pyparse) [(n1, s2); (n2, s1)] st).
  Proof.
    intros Hk. cbn [foldM]. rewrite !apply_vline_split. cbn [fst snd].
    destruct (vline_check s1) eqn:C1, (vline_check s2) eqn:C2; cbn [bind];
      rewrite ?apply_vline_split; cbn [fst snd]; rewrite ?C1, ?C2; cbn [bind];
      try (right; split; reflexivity).
    left. f_equal. unfold vline_upd, vclass in *.
    destruct (vitem_of s1), (vitem_of s2); try reflexivity; congruence.
  Qed.

  Lemma with_seen_app a b : forall seen,
    with_seen seen (a ++ b) = with_seen seen a ++ with_seen (seen ++ map (fun s : section => snd (fst s)) a) b.
  Proof.
    induction a as [|x a IH]; intros seen; cbn [app with_seen map]; [now rewrite app_nil_r|].
    rewrite IH, <- app_assoc. reflexivity.
  Qed.

  Lemma with_seen_in sec secs : forall seen, In sec secs -> exists sn, In (sn, sec) (with_seen seen secs).
  Proof.
    induction secs as [|x r IH]; intros seen; [intros []|]. intros [->|H]; cbn [with_seen].
    - eexists; left; reflexivity.
    - destruct (IH (seen ++ [snd (fst x)]) H) as [sn Hsn]. exists sn. now right.
  Qed.

  Lemma with_seen_in_inv sn sec secs : forall seen, In (sn, sec) (with_seen seen secs) -> In sec secs.
  Proof.
    induction secs as [|x r IH]; intros seen; [intros []|]. cbn [with_seen]. intros [H|H].
    - inversion H; subst. now left.
    - right. eapply IH; eauto.
  Qed.

  Lemma v_section_replace_sim xs cb cb' ys :
    has_header (map tkv xs) = true ->
    (forall p, In p (map tkv cb) -> exists s, snd p = Content s) ->
    (forall p, In p (map tkv cb') -> exists s, snd p = Content s) ->
    (forall st, sim (foldM (apply_vline pyparse) (contents (map tkv cb)) st)
                    (foldM (apply_vline pyparse) (contents (map tkv cb')) st)) ->
    sim (parse_v_numbered pyparse (xs ++ cb ++ ys)) (parse_v_numbered pyparse (xs ++ cb' ++ ys)).
  Proof.
    intros Hh Hc Hc' Hs. unfold parse_v_numbered. fold tkv. rewrite !map_app.
    destruct (group_app_hdr _ Hh) as (pre1 & s1 & n0 & name & p & E).
    rewrite !E, (group_contents _ _ Hc), (group_contents _ _ Hc'). cbn [fst snd].
    apply sim_bind_r. intros g. apply sim_bind. rewrite !with_seen_app. cbn [with_seen fst snd].
    apply mapM_replace_sim.
    unfold build_view_d. cbn [fst snd]. destruct (mem name _); [apply sim_refl|].
    unfold build_view. apply sim_bind. rewrite !foldM_app. apply sim_bind_r. intros st.
    rewrite !foldM_app. apply sim_bind. apply Hs.
  Qed.

  Definition in_section_v (l1 : list string) : bool :=
    existsb (fun l => match classify_v l with Header _ => true | _ => false end) l1.

  Lemma has_header_number_v l1 k : has_header (map tkv (number k l1)) = in_section_v l1.
  Proof. revert k. induction l1 as [|a l IH]; intros k; simpl; [reflexivity|]. now rewrite IH. Qed.

  Lemma v_swap_adjacent l1 a b l2 sa sb :
    in_section_v l1 = true ->
    classify_v a = Content sa -> classify_v b = Content sb -> vclass sa <> vclass sb ->
    sim (parse_views pyparse (l1 ++ a :: b :: l2)) (parse_views pyparse (l1 ++ b :: a :: l2)).
  Proof.
    intros Hin Ha Hb Hk. unfold parse_views. rewrite !number_app. cbn [number].
    apply (v_section_replace_sim (number 1 l1)
             [(1 + length l1, a); (S (1 + length l1), b)] [(1 + length l1, b); (S (1 + length l1), a)]
             (number (S (S (1 + length l1))) l2)).
    - now rewrite has_header_number_v.
    - intros p [<-|[<-|[]]]; unfold tkv; cbn; rewrite ?Ha, ?Hb; eauto.
    - intros p [<-|[<-|[]]]; unfold tkv; cbn; rewrite ?Ha, ?Hb; eauto.
    - intros st. unfold tkv; cbn [map contents flat_map fst snd]. rewrite Ha, Hb. cbn [app].
      now apply swap_vlines.
  Qed.

  Definition is_content_line_v (l : string) : Prop := classify_v l = Content (strip l).
  Definition vk (l : string) : nat := vclass (strip l).

  Lemma in_section_v_app l1 x : in_section_v l1 = true -> in_section_v (l1 ++ x) = true.
  Proof. unfold in_section_v. rewrite existsb_app. now intros ->. Qed.

  Lemma v_permute_distinct block block' :
    Permutation block block' ->
    forall l1 l2, in_section_v l1 = true -> Forall is_content_line_v block -> NoDup (map vk block) ->
      sim (parse_views pyparse (l1 ++ block ++ l2)) (parse_views pyparse (l1 ++ block' ++ l2)).
  Proof.
    induction 1 as [|x l l' HP IH|x y l|l l' l'' HP1 IH1 HP2 IH2]; intros l1 l2 Hin Hc Hn.
    - apply sim_refl.
    - inversion Hc; subst. inversion Hn; subst.
      replace (l1 ++ (x :: l) ++ l2) with ((l1 ++ [x]) ++ l ++ l2) by (rewrite <- app_assoc; reflexivity).
      replace (l1 ++ (x :: l') ++ l2) with ((l1 ++ [x]) ++ l' ++ l2) by (rewrite <- app_assoc; reflexivity).
      apply IH; auto using in_section_v_app.
    - inversion Hc as [|? ? Hy Hc']; subst. inversion Hc' as [|? ? Hx Hc'']; subst.
      inversion Hn as [|? ? Hny Hn']; subst.
      cbn [app]. apply (v_swap_adjacent l1 y x (l ++ l2) (strip y) (strip x) Hin Hy Hx).
      intros E. apply Hny. left. unfold vk. now rewrite E.
    - eapply sim_trans; [apply IH1; auto|].
      apply IH2; auto.
      + eapply Permutation_Forall; eauto.
      + eapply Permutation_NoDup; [|exact Hn]. now apply Permutation_map.
  Qed.
End Views.

Lemma classify_v_blank c : all_ws c = true -> classify_v c = Skip.
Proof. intros H. unfold classify_v, strip. rewrite rstrip_all_ws by exact H. reflexivity. Qed.

Lemma classify_v_comment w t : all_ws w = true -> classify_v (w ++ String "#" t)%string = Skip.
Proof.
  intros H. unfold classify_v. rewrite strip_app_ws_l by exact H.
  unfold strip. simpl. destruct (rstrip t); reflexivity.
Qed.

(* ========================================================================================== *)
(* G. one rule / view per section, in file order, with exactly the stated properties             *)

Definition headers (cl : string -> cline) (ls : list string) : list (nat * string) :=
  flat_map (fun p => match cl (snd p) with Header nm => [(fst p, nm)] | _ => [] end) (number 1 ls).

Definition sec_head (s : section) : nat * string := let '(n, nm, _) := s in (n, nm).

Lemma group_headers toks :
  map sec_head (snd (group toks))
  = flat_map (fun p : nat * cline => match snd p with Header nm => [(fst p, nm)] | _ => [] end) toks.
Proof.
  induction toks as [|[n t] r IH]; [reflexivity|].
  simpl. destruct (group r) as [pre secs]. destruct t; simpl in *; now rewrite <- IH.
Qed.

Lemma headers_toks cl ls :
  headers cl ls = flat_map (fun p : nat * cline => match snd p with Header nm => [(fst p, nm)] | _ => [] end)
                           (map (fun p => (fst p, cl (snd p))) (number 1 ls)).
Proof.
  unfold headers. generalize (number 1 ls). intros l. induction l as [|p r IH]; [reflexivity|].
  simpl. now rewrite IH.
Qed.

Definition sections_m (ls : list string) : list section :=
  snd (group (map (fun p => (fst p, classify_m (snd p))) (number 1 ls))).
Definition preamble_m (ls : list string) : list (nat * string) :=
  fst (group (map (fun p => (fst p, classify_m (snd p))) (number 1 ls))).
Definition sections_v (ls : list string) : list section :=
  snd (group (map (fun p => (fst p, classify_v (snd p))) (number 1 ls))).

Lemma pkey_eq_dec (a b : pkey) : {a = b} + {a <> b}.
Proof. decide equality. Defined.

Definition kvs (props : list (nat * string)) : list (pkey * string) :=
  flat_map (fun p => match prop_of (snd p) with Some (k, v) => [(key_of k, v)] | None => [] end) props.

(* the value of the LAST line with the given key *)
Fixpoint last_of (key : pkey) (l : list (pkey * string)) : option string :=
  match l with
  | [] => None
  | (k, v) :: r =>
      match last_of key r with
      | Some x => Some x
      | None => if pkey_eq_dec k key then Some v else None
      end
  end.

Definition orelse {A} (a b : option A) : option A := match a with Some _ => a | None => b end.

Definition lets_of (l : list (pkey * string)) : list (string * string) :=
  flat_map (fun kv => match fst kv with
                      | KLet => match ident_eq (snd kv) with Some (id, e) => [(lower id, e)] | None => [] end
                      | _ => [] end) l.
Definition fields_of (l : list (pkey * string)) : list (string * string) :=
  flat_map (fun kv => match fst kv with
                      | KField => match ident_eq (snd kv) with Some (id, e) => [(lower id, e)] | None => [] end
                      | _ => [] end) l.
Definition dict_of (init : dict string) (l : list (string * string)) : dict string :=
  fold_left (fun d xe => dset d (fst xe) (snd xe)) l init.

Lemma fold_props_spec props : forall st st',
  foldM apply_prop props st = Ok st' ->
  let L := kvs props in
  p_match st' = orelse (last_of KMatch L) (p_match st) /\
  p_category st' = orelse (last_of KCategory L) (p_category st) /\
  p_subcategory st' = orelse (last_of KSubcategory L) (p_subcategory st) /\
  p_merchant st' = orelse (last_of KMerchant L) (p_merchant st) /\
  p_tags st' = orelse (option_map parse_tags (last_of KTags L)) (p_tags st) /\
  p_priority st' = match last_of KPriority L with Some v => parse_int v | None => p_priority st end /\
  p_lets st' = p_lets st ++ lets_of L /\
  p_fields st' = dict_of (p_fields st) (fields_of L) /\
  Forall (fun p => prop_check (snd p) = None) props.
Proof.
  induction props as [|[n s] r IH]; intros st st' H.
  - inversion H; subst. cbn. rewrite app_nil_r. repeat split; auto.
  - cbn [foldM] in H. rewrite apply_prop_split in H. cbn [fst snd] in H.
    destruct (prop_check s) eqn:C; [discriminate H|]. cbn [bind] in H.
    specialize (IH _ _ H). cbn zeta in IH.
    destruct IH as (I1 & I2 & I3 & I4 & I5 & I6 & I7 & I8 & I9).
    assert (F : Forall (fun p => prop_check (snd p) = None) ((n, s) :: r)) by (constructor; assumption).
    unfold kvs; cbn [flat_map snd]. fold (kvs r).
    unfold prop_check in C. unfold prop_upd in *.
    destruct (prop_of s) as [[k v]|]; [|discriminate C].
    cbn [app last_of].
    rewrite I1, I2, I3, I4, I5, I6, I7, I8. clear I1 I2 I3 I4 I5 I6 I7 I8 H.
    destruct (key_of k) eqn:K; cbn [kv_upd kv_check] in *;
      repeat match goal with
             | H : match ident_eq ?v with _ => _ end = None |- _ =>
                 destruct (ident_eq v) as [[? ?]|] eqn:?; [|discriminate H]
             | H : match parse_int ?v with _ => _ end = None |- _ =>
                 destruct (parse_int v) eqn:?; [|discriminate H]
             end; try discriminate C;
      (repeat split; [..|exact F]);
      unfold lets_of, fields_of, dict_of; cbn [flat_map fst snd fold_left app
        p_match p_category p_subcategory p_merchant p_tags p_priority p_lets p_fields
        set_match set_category set_subcategory set_merchant set_tags set_priority add_let set_field];
      repeat match goal with |- context [last_of ?a ?b] => destruct (last_of a b) end;
      cbn; rewrite ?app_nil_r; try reflexivity; try congruence;
      try (match goal with E : ident_eq _ = Some _ |- _ => rewrite E end; cbn; rewrite <- ?app_assoc; reflexivity).
Qed.


Lemma last_of_in key L v : last_of key L = Some v -> In (key, v) L.
Proof.
  induction L as [|[k x] r IH]; [discriminate|]. cbn [last_of].
  destruct (last_of key r) as [y|].
  - intros H; inversion H; subst. right. auto.
  - destruct (pkey_eq_dec k key) as [->|]; [|discriminate]. intros H; inversion H; subst. now left.
Qed.

Lemma kvs_in key v props :
  In (key, v) (kvs props) -> exists n s k, In (n, s) props /\ prop_of s = Some (k, v) /\ key_of k = key.
Proof.
  unfold kvs. intros H. apply in_flat_map in H as [[n s] [Hin H]]. cbn [snd] in H.
  destruct (prop_of s) as [[k v']|] eqn:P; [|destruct H].
  destruct H as [H|[]]. inversion H; subst. exists n, s, k. auto.
Qed.

Lemma in_kvs n s k v props : In (n, s) props -> prop_of s = Some (k, v) -> In (key_of k, v) (kvs props).
Proof.
  intros Hin P. unfold kvs. apply in_flat_map. exists (n, s). split; [exact Hin|]. cbn [snd]. rewrite P. now left.
Qed.

Lemma last_of_some key L v : In (key, v) L -> exists v', last_of key L = Some v'.
Proof.
  induction L as [|[k x] r IH]; [intros []|]. intros [H|H]; cbn [last_of].
  - inversion H; subst. destruct (last_of key r); [eauto|]. destruct (pkey_eq_dec key key); [eauto|congruence].
  - destruct (IH H) as [v' ->]. eauto.
Qed.

Section OnePerSection.
  Variable pyparse : string -> bool.

  Lemma finish_rule_ok n0 name pr r :
    finish_rule pyparse n0 name pr = Ok r ->
    r_name r = name /\ r_line r = n0 /\ p_match pr = Some (r_match r) /\
    r_category r = or_empty (p_category pr) /\ r_subcategory r = or_empty (p_subcategory pr) /\
    r_merchant r = (if is_empty (or_empty (p_merchant pr)) then name else or_empty (p_merchant pr)) /\
    r_tags r = match p_tags pr with Some t => t | None => [] end /\
    r_priority r = match p_priority pr with Some z => z | None => 50%Z end /\
    r_lets r = p_lets pr /\ r_fields r = p_fields pr /\
    pyparse (r_match r) = true /\ forallb (fun b => pyparse (snd b)) (r_lets r) = true /\
    forallb (fun b => pyparse (snd b)) (r_fields r) = true /\
    (is_empty (r_category r) = false \/ r_tags r <> []).
  Proof.
    unfold finish_rule. destruct (p_match pr) as [m|]; [|discriminate].
    destruct (negb (is_empty (or_empty (p_category pr))) || match p_tags pr with Some (_ :: _) => true | _ => false end)%bool eqn:E1;
      cbn [negb]; [|discriminate].
    destruct (forallb (fun b => pyparse (snd b)) (p_lets pr)) eqn:E2; cbn [negb]; [|discriminate].
    destruct (forallb (fun b => pyparse (snd b)) (p_fields pr)) eqn:E3; cbn [negb]; [|discriminate].
    destruct (pyparse m) eqn:E4; cbn [negb]; [|discriminate].
    intros H; inversion H; subst; cbn. repeat split; auto.
    apply orb_true_iff in E1 as [E1|E1].
    - left. now apply negb_true_iff in E1.
    - right. destruct (p_tags pr) as [[|? ?]|]; discriminate.
  Qed.

  (* a built rule carries exactly what its section states: for every single-valued property the value of
     the LAST line with that key (or the default), all let bindings in order, the field dictionary;
     and every content line of the section is a well-formed known property *)
  Lemma build_rule_spec n0 name props r :
    build_rule pyparse (n0, name, props) = Ok r ->
    let L := kvs props in
    r_name r = name /\ r_line r = n0 /\ name <> EmptyString /\
    last_of KMatch L = Some (r_match r) /\
    r_category r = or_empty (last_of KCategory L) /\
    r_subcategory r = or_empty (last_of KSubcategory L) /\
    r_merchant r = (if is_empty (or_empty (last_of KMerchant L)) then name else or_empty (last_of KMerchant L)) /\
    r_tags r = match last_of KTags L with Some v => parse_tags v | None => [] end /\
    Some (r_priority r) = match last_of KPriority L with Some v => parse_int v | None => Some 50%Z end /\
    r_lets r = lets_of L /\ r_fields r = dict_of [] (fields_of L) /\
    Forall (fun p => prop_check (snd p) = None) props /\
    pyparse (r_match r) = true /\ forallb (fun b => pyparse (snd b)) (r_lets r) = true /\
    forallb (fun b => pyparse (snd b)) (r_fields r) = true.
  Proof.
    unfold build_rule. destruct (is_empty name) eqn:En; [discriminate|].
    destruct (foldM apply_prop props prule0) as [pr|] eqn:F; [|discriminate]. cbn [bind].
    intros H. apply finish_rule_ok in H.
    destruct H as (H1 & H2 & H3 & H4 & H5 & H6 & H7 & H8 & H9 & H10 & H11 & H12 & H13 & _).
    apply fold_props_spec in F. cbn zeta in F.
    destruct F as (F1 & F2 & F3 & F4 & F5 & F6 & F7 & F8 & F9). cbn in F1, F2, F3, F4, F5, F6, F7, F8.
    cbn zeta.
    assert (O : forall o : option string, orelse o None = o) by (intros [|]; reflexivity).
    rewrite O in F1, F2, F3, F4.
    repeat split; auto.
    - destruct name; [discriminate|congruence].
    - congruence.
    - congruence.
    - congruence.
    - rewrite H6, F4. reflexivity.
    - rewrite H7, F5. destruct (last_of KTags (kvs props)); reflexivity.
    - destruct (last_of KPriority (kvs props)) as [v|] eqn:LP.
      + apply last_of_in, kvs_in in LP. destruct LP as (n & s & k & Hin & P & K).
        rewrite Forall_forall in F9. specialize (F9 _ Hin). cbn [snd] in F9.
        unfold prop_check in F9. rewrite P, K in F9. cbn [kv_check] in F9.
        rewrite H8, F6. destruct (parse_int v); [reflexivity|discriminate F9].
      + rewrite H8, F6. reflexivity.
    - congruence.
    - congruence.
  Qed.
End OnePerSection.

Section FileLevel.
  Variable pyparse : string -> bool.

  Lemma parse_m_sections ls f :
    parse_merchants pyparse ls = Ok f ->
    Forall2 (fun sec r => build_rule pyparse sec = Ok r) (sections_m ls) (m_rules f).
  Proof.
    unfold parse_merchants, parse_m_numbered, sections_m.
    destruct (group _) as [pre secs]. destruct (foldM (pre_step pyparse) pre ([], [])) as [vt|]; [|discriminate].
    cbn [bind snd].
    destruct (mapM (build_rule pyparse) secs) as [rules|] eqn:E; [|discriminate].
    intros H; inversion H; subst; cbn. now apply mapM_Ok.
  Qed.

  Definition pre_check (s : string) : option ekind :=
    match asg_of s with
    | Some (_, rhs) => if pyparse rhs then None else Some EInvalidTop
    | None => Some EOutside
    end.

  Lemma pre_step_split st ln :
    (exists st', pre_step pyparse st ln = Ok st' /\ pre_check (snd ln) = None) \/
    (exists k, pre_step pyparse st ln = Err (fst ln) k /\ pre_check (snd ln) = Some k).
  Proof.
    destruct st as [vars tr]. unfold pre_step, pre_check.
    destruct (asg_of (snd ln)) as [[lhs rhs]|]; [|right; eauto].
    destruct (pyparse rhs); [|right; eauto]. left.
    destruct (String.prefix "field." lhs); eauto.
  Qed.

  Lemma parse_m_err_sections ls n k :
    parse_merchants pyparse ls = Err n k ->
    (exists s, In (n, s) (preamble_m ls) /\ pre_check s = Some k) \/
    (exists sec, In sec (sections_m ls) /\ build_rule pyparse sec = Err n k).
  Proof.
    unfold parse_merchants, parse_m_numbered, sections_m, preamble_m.
    destruct (group _) as [pre secs]. cbn [fst snd].
    destruct (foldM (pre_step pyparse) pre ([], [])) as [vt|n' k'] eqn:F; cbn [bind].
    - destruct (mapM (build_rule pyparse) secs) as [rules|] eqn:E; [discriminate|].
      intros H; inversion H; subst; cbn. right. now apply mapM_Err.
    - intros H; inversion H; subst. left.
      apply foldM_Err in F as (st' & [n' s] & Hin & E).
      destruct (pre_step_split st' (n', s)) as [(st2 & E2 & _)|(k2 & E2 & C)]; [congruence|].
      rewrite E2 in E. inversion E; subst. cbn [fst snd] in *. eauto.
  Qed.

  (* an accepted file has only valid assignments before its first header *)
  Lemma parse_m_preamble_ok ls :
    is_ok (parse_merchants pyparse ls) = true -> Forall (fun ln => pre_check (snd ln) = None) (preamble_m ls).
  Proof.
    unfold parse_merchants, parse_m_numbered, preamble_m.
    destruct (group _) as [pre secs]. cbn [fst].
    destruct (foldM (pre_step pyparse) pre ([], [])) as [vt|] eqn:F; [|discriminate]. intros _.
    revert F. generalize (([], []) : dict string * list (string * string)).
    induction pre as [|ln r IH]; intros st F; constructor.
    - cbn [foldM] in F. destruct (pre_step_split st ln) as [(st2 & E2 & C)|(k2 & E2 & C)]; [exact C|].
      rewrite E2 in F. discriminate F.
    - cbn [foldM] in F. destruct (pre_step pyparse st ln) as [st2|] eqn:E; [|discriminate F]. eapply IH; eauto.
  Qed.

  Lemma parse_m_bad_section ls sec n k :
    In sec (sections_m ls) -> build_rule pyparse sec = Err n k -> is_ok (parse_merchants pyparse ls) = false.
  Proof.
    unfold parse_merchants, parse_m_numbered, sections_m.
    destruct (group _) as [pre secs]. cbn [snd].
    intros Hin Hb. destruct (foldM (pre_step pyparse) pre ([], [])); [|reflexivity]. cbn [bind].
    pose proof (mapM_some_Err _ _ _ _ _ Hin Hb) as E.
    destruct (mapM (build_rule pyparse) secs); [discriminate E|reflexivity].
  Qed.

  Lemma sections_m_heads ls : map sec_head (sections_m ls) = headers classify_m ls.
  Proof. unfold sections_m. now rewrite group_headers, headers_toks. Qed.

  (* as many rules as headers, in file order, each named after its header and carrying its line *)
  Lemma m_one_rule_per_section ls f :
    parse_merchants pyparse ls = Ok f ->
    map (fun r => (r_line r, r_name r)) (m_rules f) = headers classify_m ls.
  Proof.
    intros H. apply parse_m_sections in H. rewrite <- sections_m_heads.
    induction H as [|[[n nm] ps] r secs rules Hb _ IH]; [reflexivity|].
    cbn [map sec_head]. rewrite IH. apply build_rule_spec in Hb. cbn zeta in Hb.
    destruct Hb as (H1 & H2 & _). now rewrite H1, H2.
  Qed.

  (* ---- views ---- *)
  Definition sec_name (s : section) : string := snd (fst s).

  Lemma with_seen_ok vs : forall secs seen,
    Forall2 (fun p v => build_view_d pyparse p = Ok v) (with_seen seen secs) vs ->
    Forall2 (fun sec v => build_view pyparse sec = Ok v) secs vs /\
    NoDup (map sec_name secs) /\ (forall x, In x seen -> ~ In x (map sec_name secs)).
  Proof.
    induction vs as [|v vs IH]; intros [|sec r] seen H; cbn [with_seen] in H; inversion H; subst.
    - repeat split; [constructor|constructor|intros x _ []].
    - destruct (IH _ _ H5) as (F & N & D). unfold build_view_d in H3. cbn [fst snd] in H3.
      destruct (mem (snd (fst sec)) seen) eqn:M; [discriminate H3|].
      assert (Hs : ~ In (sec_name sec) seen).
      { intros Hin. apply mem_In in Hin. unfold sec_name in Hin. congruence. }
      repeat split.
      + constructor; assumption.
      + cbn [map]. constructor; [|exact N]. apply (D (sec_name sec)). apply in_or_app. right. now left.
      + intros x Hx [E|Hr]; [subst; contradiction|]. apply (D x); [apply in_or_app; now left|exact Hr].
  Qed.

  Lemma parse_v_sections_nodup ls f :
    parse_views pyparse ls = Ok f ->
    Forall2 (fun sec v => build_view pyparse sec = Ok v) (sections_v ls) (f_views f) /\
    NoDup (map sec_name (sections_v ls)).
  Proof.
    unfold parse_views, parse_v_numbered, sections_v.
    destruct (group _) as [pre secs]. destruct (foldM (vpre_step pyparse) pre []) as [g|]; [|discriminate].
    cbn [bind snd].
    destruct (mapM (build_view_d pyparse) (with_seen [] secs)) as [vs|] eqn:E; [|discriminate].
    intros H; inversion H; subst; cbn. apply mapM_Ok in E. apply with_seen_ok in E. tauto.
  Qed.

  Lemma parse_v_sections ls f :
    parse_views pyparse ls = Ok f ->
    Forall2 (fun sec v => build_view pyparse sec = Ok v) (sections_v ls) (f_views f).
  Proof. intros H. now apply parse_v_sections_nodup in H. Qed.

  Definition vitems (lines : list (nat * string)) : list vitem := map (fun p => vitem_of (snd p)) lines.
  Fixpoint last_filter (l : list vitem) : option string :=
    match l with
    | [] => None
    | i :: r => match last_filter r with Some e => Some e | None => match i with IFilter e => Some e | _ => None end end
    end.
  Fixpoint last_desc (l : list vitem) : option string :=
    match l with
    | [] => None
    | i :: r => match last_desc r with Some e => Some e | None => match i with IDesc e => Some e | _ => None end end
    end.
  Definition vars_of (l : list vitem) : list (string * string) :=
    flat_map (fun i => match i with IVar x e => [(x, e)] | _ => [] end) l.

  Lemma fold_vlines_spec lines : forall st st',
    foldM (apply_vline pyparse) lines st = Ok st' ->
    q_filter st' = orelse (last_filter (vitems lines)) (q_filter st) /\
    q_desc st' = orelse (last_desc (vitems lines)) (q_desc st) /\
    q_vars st' = dict_of (q_vars st) (vars_of (vitems lines)) /\
    Forall (fun p => vline_check pyparse (snd p) = None) lines.
  Proof.
    induction lines as [|[n s] r IH]; intros st st' H.
    - inversion H; subst. cbn. repeat split; auto.
    - cbn [foldM] in H. rewrite apply_vline_split in H. cbn [fst snd] in H.
      destruct (vline_check pyparse s) eqn:C; [discriminate H|]. cbn [bind] in H.
      destruct (IH _ _ H) as (I1 & I2 & I3 & I4).
      assert (F : Forall (fun p => vline_check pyparse (snd p) = None) ((n, s) :: r)) by (constructor; assumption).
      unfold vitems; cbn [map snd]. fold (vitems r). cbn [last_filter last_desc vars_of flat_map].
      fold (vars_of (vitems r)).
      rewrite I1, I2, I3. unfold vline_upd, vline_check in *.
      destruct (vitem_of s); cbn; repeat split; auto;
        try (destruct (last_filter (vitems r)); reflexivity);
        try (destruct (last_desc (vitems r)); reflexivity).
  Qed.

  Lemma build_view_spec n0 name lines v :
    build_view pyparse (n0, name, lines) = Ok v ->
    v_name v = name /\ v_line v = n0 /\
    last_filter (vitems lines) = Some (v_filter v) /\
    v_desc v = last_desc (vitems lines) /\
    v_vars v = dict_of [] (vars_of (vitems lines)) /\
    Forall (fun p => vline_check pyparse (snd p) = None) lines.
  Proof.
    unfold build_view. destruct (foldM (apply_vline pyparse) lines pview0) as [pv|] eqn:F; [|discriminate].
    cbn [bind]. apply fold_vlines_spec in F. destruct F as (F1 & F2 & F3 & F4). cbn in F1, F2, F3.
    destruct (q_filter pv) as [fe|] eqn:Q; [|discriminate].
    intros H; inversion H; subst; cbn.
    assert (O : forall o : option string, orelse o None = o) by (intros [|]; reflexivity).
    rewrite O in F1, F2. repeat split; auto; congruence.
  Qed.

  Lemma sections_v_heads ls : map sec_head (sections_v ls) = headers classify_v ls.
  Proof. unfold sections_v. now rewrite group_headers, headers_toks. Qed.

  Lemma v_one_view_per_section ls f :
    parse_views pyparse ls = Ok f ->
    map (fun v => (v_line v, v_name v)) (f_views f) = headers classify_v ls.
  Proof.
    intros H. apply parse_v_sections in H. rewrite <- sections_v_heads.
    induction H as [|[[n nm] ps] r secs rules Hb _ IH]; [reflexivity|].
    cbn [map sec_head]. rewrite IH. apply build_view_spec in Hb.
    destruct Hb as (H1 & H2 & _). now rewrite H1, H2.
  Qed.
End FileLevel.

(* ========================================================================================== *)
(* H. malformed files are rejected, and the error names the offending line                       *)

Section Reject.
  Variable pyparse : string -> bool.

  Lemma foldM_apply_prop_err ps st n k :
    foldM apply_prop ps st = Err n k -> exists s, In (n, s) ps /\ prop_check s = Some k.
  Proof.
    intros H. apply foldM_Err in H as (st' & [n' s] & Hin & H).
    rewrite apply_prop_split in H. cbn [fst snd] in H.
    destruct (prop_check s) eqn:C; [|discriminate]. inversion H; subst. eauto.
  Qed.

  Lemma foldM_apply_prop_bad ps st n s k :
    In (n, s) ps -> prop_check s = Some k -> is_ok (foldM apply_prop ps st) = false.
  Proof.
    intros Hin C. destruct (foldM apply_prop ps st) as [st'|] eqn:F; [|reflexivity].
    apply fold_props_spec in F. destruct F as (_ & _ & _ & _ & _ & _ & _ & _ & F).
    rewrite Forall_forall in F. specialize (F _ Hin). cbn in F. congruence.
  Qed.

  Inductive finish_defect (pr : prule) : ekind -> Prop :=
  | FD_match : p_match pr = None -> finish_defect pr EMissingMatch
  | FD_cat : finish_defect pr ENoCategoryOrTags
  | FD_let b : In b (p_lets pr) -> pyparse (snd b) = false -> finish_defect pr EInvalidLet
  | FD_field b : In b (p_fields pr) -> pyparse (snd b) = false -> finish_defect pr EInvalidField
  | FD_expr m : p_match pr = Some m -> pyparse m = false -> finish_defect pr EInvalidMatch.

  Lemma forallb_false_ex {A} (f : A -> bool) l : forallb f l = false -> exists x, In x l /\ f x = false.
  Proof.
    induction l as [|a l IH]; [discriminate|]. simpl. destruct (f a) eqn:E.
    - intros H. destruct (IH H) as [x [Hin Hx]]. eauto.
    - intros _. eauto.
  Qed.

  Lemma finish_rule_err n0 name pr n k :
    finish_rule pyparse n0 name pr = Err n k -> n = n0 /\ finish_defect pr k.
  Proof.
    unfold finish_rule. destruct (p_match pr) as [m|] eqn:M.
    2:{ intros H; inversion H; subst. split; [reflexivity|now constructor]. }
    destruct (negb _) eqn:E1; [intros H; inversion H; subst; split; [reflexivity|constructor]|].
    destruct (forallb (fun b => pyparse (snd b)) (p_lets pr)) eqn:E2; cbn [negb].
    2:{ intros H; inversion H; subst. split; [reflexivity|].
        apply forallb_false_ex in E2 as [b [Hin Hb]]. eapply FD_let; eauto. }
    destruct (forallb (fun b => pyparse (snd b)) (p_fields pr)) eqn:E3; cbn [negb].
    2:{ intros H; inversion H; subst. split; [reflexivity|].
        apply forallb_false_ex in E3 as [b [Hin Hb]]. eapply FD_field; eauto. }
    destruct (pyparse m) eqn:E4; cbn [negb]; [discriminate|].
    intros H; inversion H; subst. split; [reflexivity|]. eapply FD_expr; eauto.
  Qed.

  (* every way a section can fail *)
  Lemma build_rule_err n0 name ps n k :
    build_rule pyparse (n0, name, ps) = Err n k ->
    (k = EEmptyName /\ n = n0 /\ name = EmptyString) \/
    (exists s, In (n, s) ps /\ prop_check s = Some k) \/
    (n = n0 /\ exists pr, foldM apply_prop ps prule0 = Ok pr /\ finish_defect pr k).
  Proof.
    unfold build_rule. destruct (is_empty name) eqn:En.
    - intros H; inversion H; subst. left. destruct name; [auto|discriminate].
    - destruct (foldM apply_prop ps prule0) as [pr|] eqn:F; cbn [bind].
      + intros H. apply finish_rule_err in H as [-> D]. right. right. eauto.
      + intros H; inversion H; subst. right. left. now apply foldM_apply_prop_err in F.
  Qed.

  Lemma prop_check_kinds s k :
    prop_check s = Some k ->
    (k = EUnexpected /\ prop_of s = None) \/
    exists key v, prop_of s = Some (key, v) /\
      ((k = EUnknownProperty /\ key_of key = KUnknown) \/
       (k = EBadLet /\ key_of key = KLet /\ ident_eq v = None) \/
       (k = EBadField /\ key_of key = KField /\ ident_eq v = None) \/
       (k = EBadPriority /\ key_of key = KPriority /\ parse_int v = None)).
  Proof.
    unfold prop_check. destruct (prop_of s) as [[key v]|]; [|intros H; inversion H; auto].
    intros H. right. exists key, v. split; [reflexivity|].
    destruct (key_of key); cbn [kv_check] in H; try discriminate H.
    - destruct (ident_eq v); [discriminate H|]. inversion H. auto.
    - destruct (ident_eq v); [discriminate H|]. inversion H. auto 6.
    - destruct (parse_int v); [discriminate H|]. inversion H. auto 8.
    - inversion H. auto.
  Qed.

  (* ---- completeness: a defective section makes the whole file an error ---- *)
  Lemma m_reject_bad_line ls n0 name ps n s k :
    In (n0, name, ps) (sections_m ls) -> In (n, s) ps -> prop_check s = Some k ->
    is_ok (parse_merchants pyparse ls) = false.
  Proof.
    intros Hs Hin C.
    destruct (build_rule pyparse (n0, name, ps)) as [r|n' k'] eqn:B.
    - apply build_rule_spec in B. cbn zeta in B.
      destruct B as (_ & _ & _ & _ & _ & _ & _ & _ & _ & _ & _ & F & _).
      rewrite Forall_forall in F. specialize (F _ Hin). cbn in F. congruence.
    - eapply parse_m_bad_section; eauto.
  Qed.

  Lemma m_reject_missing_match ls n0 name ps :
    In (n0, name, ps) (sections_m ls) -> last_of KMatch (kvs ps) = None ->
    is_ok (parse_merchants pyparse ls) = false.
  Proof.
    intros Hs Hm.
    destruct (build_rule pyparse (n0, name, ps)) as [r|n' k'] eqn:B.
    - apply build_rule_spec in B. cbn zeta in B. destruct B as (_ & _ & _ & B & _). congruence.
    - eapply parse_m_bad_section; eauto.
  Qed.

  Lemma m_reject_invalid_match ls n0 name ps m :
    In (n0, name, ps) (sections_m ls) -> last_of KMatch (kvs ps) = Some m -> pyparse m = false ->
    is_ok (parse_merchants pyparse ls) = false.
  Proof.
    intros Hs Hm Hp.
    destruct (build_rule pyparse (n0, name, ps)) as [r|n' k'] eqn:B.
    - apply build_rule_spec in B. cbn zeta in B.
      destruct B as (_ & _ & _ & B & _ & _ & _ & _ & _ & _ & _ & _ & P & _). congruence.
    - eapply parse_m_bad_section; eauto.
  Qed.

  Lemma forallb_in {A} (f : A -> bool) l x : forallb f l = true -> In x l -> f x = true.
  Proof. intros H Hin. rewrite forallb_forall in H. auto. Qed.

  Lemma m_reject_invalid_let ls n0 name ps n s k v id e :
    In (n0, name, ps) (sections_m ls) -> In (n, s) ps -> prop_of s = Some (k, v) -> key_of k = KLet ->
    ident_eq v = Some (id, e) -> pyparse e = false ->
    is_ok (parse_merchants pyparse ls) = false.
  Proof.
    intros Hs Hin P K I Hp.
    destruct (build_rule pyparse (n0, name, ps)) as [r|n' k'] eqn:B.
    - apply build_rule_spec in B. cbn zeta in B.
      destruct B as (_ & _ & _ & _ & _ & _ & _ & _ & _ & L & _ & _ & _ & PL & _).
      assert (X : In (lower id, e) (r_lets r)).
      { rewrite L. unfold lets_of. apply in_flat_map. exists (KLet, v). split.
        - rewrite <- K. eapply in_kvs; eauto.
        - cbn. rewrite I. now left. }
      pose proof (forallb_in _ _ _ PL X) as Y. cbn in Y. congruence.
    - eapply parse_m_bad_section; eauto.
  Qed.

  Lemma m_reject_invalid_field ls n0 name ps x e :
    In (n0, name, ps) (sections_m ls) -> In (x, e) (dict_of [] (fields_of (kvs ps))) -> pyparse e = false ->
    is_ok (parse_merchants pyparse ls) = false.
  Proof.
    intros Hs Hin Hp.
    destruct (build_rule pyparse (n0, name, ps)) as [r|n' k'] eqn:B.
    - apply build_rule_spec in B. cbn zeta in B.
      destruct B as (_ & _ & _ & _ & _ & _ & _ & _ & _ & _ & F & _ & _ & _ & PF).
      rewrite F in PF. pose proof (forallb_in _ _ _ PF Hin) as Y. cbn in Y. congruence.
    - eapply parse_m_bad_section; eauto.
  Qed.

  (* ---- naming: what an error of a given kind says about the line it carries ---- *)
  Lemma m_err_names_line ls n k :
    parse_merchants pyparse ls = Err n k ->
    (exists s, In (n, s) (preamble_m ls) /\ pre_check pyparse s = Some k) \/
    exists n0 name ps, In (n0, name, ps) (sections_m ls) /\
      ((k = EEmptyName /\ n = n0 /\ name = EmptyString) \/
       (exists s, In (n, s) ps /\ prop_check s = Some k) \/
       (n = n0 /\ exists pr, foldM apply_prop ps prule0 = Ok pr /\ finish_defect pr k)).
  Proof.
    intros H. apply parse_m_err_sections in H as [P|([[n0 name] ps] & Hin & B)]; [left; exact P|].
    right. exists n0, name, ps. split; [exact Hin|]. now apply build_rule_err.
  Qed.

  Lemma pre_check_kinds s k : pre_check pyparse s = Some k -> k = EInvalidTop \/ k = EOutside.
  Proof.
    unfold pre_check. destruct (asg_of s) as [[lhs rhs]|]; [destruct (pyparse rhs)|]; intros H; inversion H; auto.
  Qed.

  Lemma m_missing_match_names_section ls n :
    parse_merchants pyparse ls = Err n EMissingMatch ->
    exists name ps, In (n, name, ps) (sections_m ls) /\ last_of KMatch (kvs ps) = None.
  Proof.
    intros H. apply m_err_names_line in H as [(s0 & _ & C0)|(n0 & name & ps & Hin & [(E & _)|[(s & _ & C)|(-> & pr & F & D)]])].
    - apply pre_check_kinds in C0 as [E|E]; discriminate E.
    - discriminate E.
    - apply prop_check_kinds in C as [[E _]|(? & ? & _ & [[E _]|[[E _]|[[E _]|[E _]]]])]; discriminate E.
    - exists name, ps. split; [exact Hin|]. inversion D as [M| | | |]; subst.
      apply fold_props_spec in F. destruct F as (F1 & _). cbn in F1. rewrite M in F1.
      destruct (last_of KMatch (kvs ps)); [discriminate F1|reflexivity].
  Qed.

  Lemma finish_defect_line_kinds pr k : finish_defect pr k ->
    k = EMissingMatch \/ k = ENoCategoryOrTags \/ k = EInvalidLet \/ k = EInvalidField \/ k = EInvalidMatch.
  Proof. destruct 1; auto 6. Qed.

  (* a line-level error names exactly a content line of some section with that defect *)
  Lemma m_line_error_names_line ls n k :
    k = EUnknownProperty \/ k = EBadLet \/ k = EBadField \/ k = EBadPriority \/ k = EUnexpected ->
    parse_merchants pyparse ls = Err n k ->
    exists n0 name ps s, In (n0, name, ps) (sections_m ls) /\ In (n, s) ps /\ prop_check s = Some k.
  Proof.
    intros Hk H. apply m_err_names_line in H as [(s0 & _ & C0)|(n0 & name & ps & Hin & [(E & _)|[(s & Hs & C)|(-> & pr & F & D)]])].
    - apply pre_check_kinds in C0 as [E|E]; subst; repeat destruct Hk as [Hk|Hk]; discriminate Hk.
    - subst. repeat destruct Hk as [Hk|Hk]; discriminate Hk.
    - exists n0, name, ps, s. auto.
    - apply finish_defect_line_kinds in D.
      repeat destruct D as [D|D]; subst; repeat destruct Hk as [Hk|Hk]; discriminate Hk.
  Qed.

  (* an invalid-expression error names the header of a section holding an expression pyparse rejects *)
  Lemma m_invalid_expr_names_section ls n k :
    k = EInvalidLet \/ k = EInvalidField \/ k = EInvalidMatch ->
    parse_merchants pyparse ls = Err n k ->
    exists name ps e, In (n, name, ps) (sections_m ls) /\ pyparse e = false /\
      ((k = EInvalidLet /\ exists x, In (x, e) (lets_of (kvs ps))) \/
       (k = EInvalidField /\ exists x, In (x, e) (dict_of [] (fields_of (kvs ps)))) \/
       (k = EInvalidMatch /\ last_of KMatch (kvs ps) = Some e)).
  Proof.
    intros Hk H. apply m_err_names_line in H as [(s0 & _ & C0)|(n0 & name & ps & Hin & [(E & _)|[(s & Hs & C)|(-> & pr & F & D)]])].
    - apply pre_check_kinds in C0 as [E|E]; subst; repeat destruct Hk as [Hk|Hk]; discriminate Hk.
    - subst. repeat destruct Hk as [Hk|Hk]; discriminate Hk.
    - apply prop_check_kinds in C as [[E _]|(? & ? & _ & [[E _]|[[E _]|[[E _]|[E _]]]])]; subst;
        repeat destruct Hk as [Hk|Hk]; discriminate Hk.
    - apply fold_props_spec in F. cbn zeta in F. destruct F as (F1 & _ & _ & _ & _ & _ & F7 & F8 & _).
      cbn in F1, F7, F8.
      inversion D as [M| |[x e] Hb Hp|[x e] Hb Hp|m M Hp]; subst;
        try (repeat destruct Hk as [Hk|Hk]; discriminate Hk).
      + exists name, ps, e. repeat split; auto. left. split; [reflexivity|]. exists x. now rewrite <- F7.
      + exists name, ps, e. repeat split; auto. right; left. split; [reflexivity|]. exists x. now rewrite <- F8.
      + exists name, ps, m. repeat split; auto. right; right. split; [reflexivity|].
        rewrite M in F1. destruct (last_of KMatch (kvs ps)); [cbn in F1; congruence|discriminate F1].
  Qed.

  (* ---- views ---- *)
  Definition preamble_v (ls : list string) : list (nat * string) :=
    fst (group (map (fun p => (fst p, classify_v (snd p))) (number 1 ls))).

  Lemma with_seen_split sn sec secs : forall seen,
    In (sn, sec) (with_seen seen secs) ->
    exists s1 s2, secs = s1 ++ sec :: s2 /\ sn = seen ++ map sec_name s1.
  Proof.
    induction secs as [|x r IH]; intros seen; [intros []|]. cbn [with_seen]. intros [H|H].
    - inversion H; subst. exists [], r. cbn. now rewrite app_nil_r.
    - destruct (IH _ H) as (s1 & s2 & -> & ->). exists (x :: s1), s2. cbn [app map]. split; [reflexivity|].
      rewrite <- app_assoc. reflexivity.
  Qed.

  Lemma parse_v_err ls n k :
    parse_views pyparse ls = Err n k ->
    (exists s g, In (n, s) (preamble_v ls) /\ vpre_step pyparse g (n, s) = Err n k) \/
    (exists sec, In sec (sections_v ls) /\ build_view pyparse sec = Err n k) \/
    (k = VDuplicateName /\ exists s1 name lines s2,
       sections_v ls = s1 ++ (n, name, lines) :: s2 /\ In name (map sec_name s1)).
  Proof.
    unfold parse_views, parse_v_numbered, preamble_v, sections_v.
    destruct (group _) as [pre secs]. cbn [fst snd].
    destruct (foldM (vpre_step pyparse) pre []) as [g|n' k'] eqn:F; cbn [bind].
    - destruct (mapM (build_view_d pyparse) (with_seen [] secs)) eqn:M; [discriminate|]. cbn [bind].
      intros H; inversion H; subst. right.
      apply mapM_Err in M as ([sn [[n0 name] lines]] & Hin & B).
      unfold build_view_d in B. cbn [fst snd] in B. destruct (mem name sn) eqn:Mm.
      + right. inversion B; subst. split; [reflexivity|].
        apply with_seen_split in Hin as (s1 & s2 & -> & ->). exists s1, name, lines, s2. split; [reflexivity|].
        apply mem_In in Mm. exact Mm.
      + left. exists (n0, name, lines). split; [eapply with_seen_in_inv; eauto|exact B].
    - intros H; inversion H; subst. left.
      apply foldM_Err in F as (g & [n' s] & Hin & E).
      assert (n' = n).
      { unfold vpre_step in E. destruct (vitem_of s); try (inversion E; reflexivity);
          destruct (pyparse e); inversion E; reflexivity. }
      subst. eauto.
  Qed.

  Lemma parse_v_bad_section ls sec n k :
    In sec (sections_v ls) -> build_view pyparse sec = Err n k -> is_ok (parse_views pyparse ls) = false.
  Proof.
    unfold parse_views, parse_v_numbered, sections_v.
    destruct (group _) as [pre secs]. cbn [snd].
    intros Hin Hb. destruct (foldM (vpre_step pyparse) pre []); [|reflexivity]. cbn [bind].
    destruct (with_seen_in sec secs [] Hin) as [sn Hsn].
    assert (E : is_ok (mapM (build_view_d pyparse) (with_seen [] secs)) = false).
    { unfold build_view_d in *. destruct (mem (snd (fst sec)) sn) eqn:M.
      - eapply (mapM_some_Err _ _ (sn, sec)); [exact Hsn|]. cbn [fst snd]. rewrite M. reflexivity.
      - eapply (mapM_some_Err _ _ (sn, sec)); [exact Hsn|]. cbn [fst snd]. rewrite M. exact Hb. }
    destruct (mapM (build_view_d pyparse) (with_seen [] secs)); [discriminate E|reflexivity].
  Qed.

  (* two sections with exactly the same name: rejected *)
  Lemma v_reject_duplicate_name ls s1 n name lines s2 :
    sections_v ls = s1 ++ (n, name, lines) :: s2 -> In name (map sec_name s1) ->
    is_ok (parse_views pyparse ls) = false.
  Proof.
    intros E Hin. destruct (parse_views pyparse ls) as [f|] eqn:P; [|reflexivity]. exfalso.
    apply parse_v_sections_nodup in P as [_ N]. rewrite E, map_app in N. cbn [map] in N.
    apply NoDup_remove_2 in N. apply N. apply in_or_app. now left.
  Qed.

  Lemma v_reject_missing_filter ls n0 name lines :
    In (n0, name, lines) (sections_v ls) -> last_filter (vitems lines) = None ->
    is_ok (parse_views pyparse ls) = false.
  Proof.
    intros Hs Hm.
    destruct (build_view pyparse (n0, name, lines)) as [v|n' k'] eqn:B.
    - apply build_view_spec in B. destruct B as (_ & _ & B & _). congruence.
    - eapply parse_v_bad_section; eauto.
  Qed.

  Lemma v_reject_bad_line ls n0 name lines n s k :
    In (n0, name, lines) (sections_v ls) -> In (n, s) lines -> vline_check pyparse s = Some k ->
    is_ok (parse_views pyparse ls) = false.
  Proof.
    intros Hs Hin C.
    destruct (build_view pyparse (n0, name, lines)) as [v|n' k'] eqn:B.
    - apply build_view_spec in B. destruct B as (_ & _ & _ & _ & _ & F).
      rewrite Forall_forall in F. specialize (F _ Hin). cbn in F. congruence.
    - eapply parse_v_bad_section; eauto.
  Qed.

  Lemma build_view_err n0 name lines n k :
    build_view pyparse (n0, name, lines) = Err n k ->
    (exists s, In (n, s) lines /\ vline_check pyparse s = Some k) \/
    (n = n0 /\ k = VMissingFilter /\ last_filter (vitems lines) = None).
  Proof.
    unfold build_view. destruct (foldM (apply_vline pyparse) lines pview0) as [pv|] eqn:F; cbn [bind].
    - destruct (q_filter pv) eqn:Q; [discriminate|]. intros H; inversion H; subst. right.
      apply fold_vlines_spec in F. destruct F as (F1 & _). cbn in F1. rewrite Q in F1.
      repeat split. destruct (last_filter (vitems lines)); [discriminate F1|reflexivity].
    - intros H; inversion H; subst. left.
      apply foldM_Err in F as (st' & [n' s] & Hin & E).
      rewrite apply_vline_split in E. cbn [fst snd] in E.
      destruct (vline_check pyparse s) eqn:C; [|discriminate]. inversion E; subst. eauto.
  Qed.

  Lemma v_missing_filter_names_section ls n :
    parse_views pyparse ls = Err n VMissingFilter ->
    exists name lines, In (n, name, lines) (sections_v ls) /\ last_filter (vitems lines) = None.
  Proof.
    intros H. apply parse_v_err in H as [(s & g & _ & E)|[([[n0 name] lines] & Hin & B)|(E & _)]].
    - exfalso. unfold vpre_step in E. destruct (vitem_of s); try discriminate E; destruct (pyparse e); discriminate E.
    - apply build_view_err in B as [(s & _ & C)|(-> & _ & L)].
      + exfalso. unfold vline_check in C. destruct (vitem_of s); try discriminate C; destruct (pyparse e); discriminate C.
      + eauto.
    - discriminate E.
  Qed.

  Lemma v_duplicate_name_names_line ls n :
    parse_views pyparse ls = Err n VDuplicateName ->
    exists s1 name lines s2, sections_v ls = s1 ++ (n, name, lines) :: s2 /\ In name (map sec_name s1).
  Proof.
    intros H. apply parse_v_err in H as [(s & g & _ & E)|[([[n0 name] lines] & Hin & B)|(_ & D)]].
    - exfalso. unfold vpre_step in E. destruct (vitem_of s); try discriminate E; destruct (pyparse e); discriminate E.
    - exfalso. apply build_view_err in B as [(s & _ & C)|(_ & E & _)]; [|discriminate E].
      unfold vline_check in C. destruct (vitem_of s); try discriminate C; destruct (pyparse e); discriminate C.
    - exact D.
  Qed.

End Reject.

(* ========================================================================================== *)
(* I. no line is silently passed over                                                           *)

Definition garbage : string := "%%%"%string.   (* not blank, not a comment, not a header, no ':' and no '=' *)

Lemma mapM_prefix_ok {A B} (f : A -> res B) s1 r :
  is_ok (mapM f (s1 ++ r)) = true -> exists a, mapM f s1 = Ok a.
Proof. rewrite mapM_app. destruct (mapM f s1); [eauto|discriminate]. Qed.

Lemma mapM_suffix_ok {A B} (f : A -> res B) s1 r :
  is_ok (mapM f (s1 ++ r)) = true -> is_ok (mapM f r) = true.
Proof. rewrite mapM_app. destruct (mapM f s1); [|discriminate]. cbn [bind]. destruct (mapM f r); auto. Qed.

Lemma mapM_head_ok {A B} (f : A -> res B) x r : is_ok (mapM f (x :: r)) = true -> exists y, f x = Ok y.
Proof. cbn [mapM]. destruct (f x); [eauto|discriminate]. Qed.

Lemma mapM_err_at {A B} (f : A -> res B) s1 a x r n k :
  mapM f s1 = Ok a -> f x = Err n k -> mapM f (s1 ++ x :: r) = Err n k.
Proof. intros H1 H2. rewrite mapM_app, H1. cbn [bind mapM]. rewrite H2. reflexivity. Qed.

Lemma foldM_prefix_ok {A S} (f : S -> A -> res S) l1 l2 s :
  is_ok (foldM f (l1 ++ l2) s) = true -> exists s', foldM f l1 s = Ok s'.
Proof. rewrite foldM_app. destruct (foldM f l1 s); [eauto|discriminate]. Qed.

Section NoDrop.
  Variable pyparse : string -> bool.
  Let tk := fun p : nat * string => (fst p, classify_m (snd p)).
  Let tkv := fun p : nat * string => (fst p, classify_v (snd p)).

  (* the garbage line is an error at its own line number, wherever it stands *)
  Lemma m_garbage_anywhere l1 l l2 :
    is_ok (parse_merchants pyparse (l1 ++ l :: l2)) = true ->
    parse_merchants pyparse (l1 ++ garbage :: l2)
    = Err (S (length l1)) (if in_section l1 then EUnexpected else EOutside).
  Proof.
    intros Hok. unfold parse_merchants in *. rewrite !number_app in *. cbn [number] in *.
    unfold parse_m_numbered in *. fold tk in Hok. fold tk. rewrite !map_app in *. cbn [map] in *.
    assert (Hs : has_header (map tk (number 1 l1)) = in_section l1) by (unfold tk; apply has_header_number).
    destruct (has_header (map tk (number 1 l1))) eqn:Hh; rewrite <- Hs.
    - destruct (group_app_hdr _ Hh) as (pre1 & s1 & n0 & name & p & E).
      rewrite E in *. clear E.
      destruct (foldM (pre_step pyparse) pre1 ([], [])) as [vt|]; [|discriminate Hok]. cbn [bind] in *.
      assert (Hm : is_ok (mapM (build_rule pyparse)
                 (s1 ++ (n0, name, p ++ fst (group (tk (1 + length l1, l) :: map tk (number (S (1 + length l1)) l2))))
                     :: snd (group (tk (1 + length l1, l) :: map tk (number (S (1 + length l1)) l2))))) = true).
      { destruct (mapM _ _); [reflexivity|discriminate Hok]. }
      destruct (mapM_prefix_ok _ _ _ Hm) as [a Ha].
      apply mapM_suffix_ok in Hm. apply mapM_head_ok in Hm as [r Hr].
      unfold build_rule in Hr. destruct (is_empty name) eqn:En; [discriminate Hr|].
      assert (Hf : exists st, foldM apply_prop p prule0 = Ok st).
      { apply (foldM_prefix_ok _ p (fst (group (tk (1 + length l1, l) :: map tk (number (S (1 + length l1)) l2))))).
        destruct (foldM apply_prop _ prule0); [reflexivity|discriminate Hr]. }
      destruct Hf as [st Hst].
      unfold tk at 1. cbn [fst snd group]. change (classify_m garbage) with (Content garbage).
      destruct (group (map tk (number (S (1 + length l1)) l2))) as [q s2]. cbn [fst snd].
      rewrite (mapM_err_at _ s1 a _ _ (1 + length l1) EUnexpected Ha); [reflexivity|].
      unfold build_rule. rewrite En, foldM_app, Hst. cbn [bind foldM]. reflexivity.
    - rewrite !(group_app_nohdr _ _ Hh) in *. cbn [fst snd] in *.
      assert (Hf : exists g, foldM (pre_step pyparse) (contents (map tk (number 1 l1))) ([], []) = Ok g).
      { apply (foldM_prefix_ok _ _ (fst (group (tk (1 + length l1, l) :: map tk (number (S (1 + length l1)) l2))))).
        destruct (foldM (pre_step pyparse) _ ([], [])); [reflexivity|discriminate Hok]. }
      destruct Hf as [[vars tr] Hg].
      unfold tk at 2. cbn [fst snd group]. change (classify_m garbage) with (Content garbage).
      destruct (group (map tk (number (S (1 + length l1)) l2))) as [q s2]. cbn [fst snd].
      rewrite foldM_app, Hg. cbn [bind foldM]. reflexivity.
  Qed.

  Lemma m_garbage_in_section l1 l l2 :
    in_section l1 = true ->
    is_ok (parse_merchants pyparse (l1 ++ l :: l2)) = true ->
    parse_merchants pyparse (l1 ++ garbage :: l2) = Err (S (length l1)) EUnexpected.
  Proof. intros Hin Hok. rewrite (m_garbage_anywhere l1 l l2 Hok), Hin. reflexivity. Qed.

  (* views: anywhere in the file *)
  Lemma v_garbage_anywhere l1 l l2 :
    is_ok (parse_views pyparse (l1 ++ l :: l2)) = true ->
    parse_views pyparse (l1 ++ garbage :: l2) = Err (S (length l1)) VUnexpected.
  Proof.
    intros Hok. unfold parse_views in *. rewrite !number_app in *. cbn [number] in *.
    unfold parse_v_numbered in *. fold tkv in Hok. fold tkv. rewrite !map_app in *. cbn [map] in *.
    destruct (has_header (map tkv (number 1 l1))) eqn:Hh.
    - destruct (group_app_hdr _ Hh) as (pre1 & s1 & n0 & name & p & E).
      rewrite E in *. clear E.
      destruct (foldM (vpre_step pyparse) pre1 []) as [g|]; [|discriminate Hok]. cbn [bind] in *.
      rewrite with_seen_app in Hok. cbn [with_seen fst snd] in Hok.
      set (sn := [] ++ map (fun s : section => snd (fst s)) s1) in *.
      set (Q := fst (group (tkv (1 + length l1, l) :: map tkv (number (S (1 + length l1)) l2)))) in *.
      set (W2 := with_seen (sn ++ [name]) (snd (group (tkv (1 + length l1, l) :: map tkv (number (S (1 + length l1)) l2))))) in *.
      assert (Hm : is_ok (mapM (build_view_d pyparse) (with_seen [] s1 ++ (sn, (n0, name, p ++ Q)) :: W2)) = true).
      { destruct (mapM _ _); [reflexivity|discriminate Hok]. }
      destruct (mapM_prefix_ok _ _ _ Hm) as [a Ha].
      apply mapM_suffix_ok in Hm. apply mapM_head_ok in Hm as [r Hr].
      unfold build_view_d in Hr. cbn [fst snd] in Hr. destruct (mem name sn) eqn:Mm; [discriminate Hr|].
      unfold build_view in Hr.
      assert (Hf : exists st, foldM (apply_vline pyparse) p pview0 = Ok st).
      { apply (foldM_prefix_ok _ p Q). destruct (foldM (apply_vline pyparse) _ pview0); [reflexivity|discriminate Hr]. }
      destruct Hf as [st Hst].
      unfold tkv at 1. cbn [fst snd group]. change (classify_v garbage) with (Content garbage).
      destruct (group (map tkv (number (S (1 + length l1)) l2))) as [q s2]. cbn [fst snd].
      rewrite with_seen_app. cbn [with_seen fst snd]. fold sn.
      rewrite (mapM_err_at _ (with_seen [] s1) a _ _ (1 + length l1) VUnexpected Ha); [reflexivity|].
      unfold build_view_d. cbn [fst snd]. rewrite Mm.
      unfold build_view. rewrite foldM_app, Hst. cbn [bind foldM]. reflexivity.
    - rewrite !(group_app_nohdr _ _ Hh) in *. cbn [fst snd] in *.
      assert (Hf : exists g, foldM (vpre_step pyparse) (contents (map tkv (number 1 l1))) [] = Ok g).
      { apply (foldM_prefix_ok _ _ (fst (group (tkv (1 + length l1, l) :: map tkv (number (S (1 + length l1)) l2))))).
        destruct (foldM (vpre_step pyparse) _ []); [reflexivity|discriminate Hok]. }
      destruct Hf as [g Hg].
      unfold tkv at 2. cbn [fst snd group]. change (classify_v garbage) with (Content garbage).
      destruct (group (map tkv (number (S (1 + length l1)) l2))) as [q s2]. cbn [fst snd].
      rewrite foldM_app, Hg. cbn [bind foldM]. reflexivity.
  Qed.
End NoDrop.

(* ========================================================================================== *)
(* J. command level                                                                             *)

Section Load.
  Variable pyparse : string -> bool.
  Variable csv_rules : list string -> list string.

  Lemma get_all_rules_ok ls f :
    parse_merchants pyparse ls = Ok f ->
    get_all_rules pyparse csv_rules ls = {| lr_value := map r_name (m_rules f); lr_reported := None |} /\
    get_transforms pyparse ls = {| lr_value := m_transforms f; lr_reported := None |}.
  Proof. unfold get_all_rules, get_transforms. now intros ->. Qed.

  (* a parse error reaches the user, with its line, from both loaders (which then carry on without rules) *)
  Lemma get_all_rules_err ls n k :
    parse_merchants pyparse ls = Err n k ->
    get_all_rules pyparse csv_rules ls = {| lr_value := csv_rules ls; lr_reported := Some n |} /\
    get_transforms pyparse ls = {| lr_value := []; lr_reported := Some n |}.
  Proof. unfold get_all_rules, get_transforms. now intros ->. Qed.

  Lemma load_views_err ls n k :
    parse_views pyparse ls = Err n k -> load_views pyparse ls = {| lr_value := []; lr_reported := Some n |}.
  Proof. unfold load_views. now intros ->. Qed.
End Load.

(* ========================================================================================== *)
(* K. layout insensitivity as one statement: the reflexive-symmetric-transitive closure of the    *)
(*    layout edits never changes the outcome (line numbers erased; an error stays an error)       *)
From Coq Require Import Relations.

Section Layout.
  Variable pyparse : string -> bool.

  Definition erase_m (r : res mfile) : res mfile := renum_m (fun _ => 0) r.
  Definition erase_v (r : res vfile) : res vfile := renum_v (fun _ => 0) r.

  Lemma erase_renum_m f r : erase_m (renum_m f r) = erase_m r.
  Proof.
    destruct r as [m|n k]; [|reflexivity]. unfold erase_m, renum_m, emap, renum_mfile. cbn. f_equal. f_equal.
    rewrite map_map. apply map_ext. intros x. reflexivity.
  Qed.
  Lemma erase_renum_v f r : erase_v (renum_v f r) = erase_v r.
  Proof.
    destruct r as [m|n k]; [|reflexivity]. unfold erase_v, renum_v, emap, renum_vfile. cbn. f_equal. f_equal.
    rewrite map_map. apply map_ext. intros x. reflexivity.
  Qed.

  Lemma sim_emap {A} f (g : A -> A) r r' : sim r r' -> sim (emap f g r) (emap f g r').
  Proof.
    intros [->|[H1 H2]]; [apply sim_refl|]. right.
    destruct r; [discriminate|]. destruct r'; [discriminate|]. split; reflexivity.
  Qed.

  Inductive layout_edit_m : list string -> list string -> Prop :=
  | LM_comment l1 w t l2 : all_ws w = true -> layout_edit_m (l1 ++ l2) (l1 ++ (w ++ String "#" t)%string :: l2)
  | LM_blank l1 c l2 : all_ws c = true -> layout_edit_m (l1 ++ l2) (l1 ++ c :: l2)
  | LM_ws ls ls' : Forall2 (fun a b => strip a = strip b) ls ls' -> layout_edit_m ls ls'
      (* trailing blanks, CR/LF, re-indentation of property lines and of headers *)
  | LM_key_case l1 l l' l2 k k' v :
      in_section l1 = true ->
      strip l = (k ++ String ":" v)%string -> strip l' = (k' ++ String ":" v)%string ->
      has_char ":" k = false -> has_char ":" k' = false -> lower k' = lower k -> is_content (strip l) = true ->
      layout_edit_m (l1 ++ l :: l2) (l1 ++ l' :: l2)
  | LM_permute l1 block block' l2 :
      Permutation block block' -> in_section l1 = true -> Forall is_content_line block -> NoDup (map lk block) ->
      layout_edit_m (l1 ++ block ++ l2) (l1 ++ block' ++ l2).

  Definition same_outcome_m (a b : list string) : Prop :=
    sim (erase_m (parse_merchants pyparse a)) (erase_m (parse_merchants pyparse b)).

  Lemma layout_edit_m_sound a b : layout_edit_m a b -> same_outcome_m a b.
  Proof.
    unfold same_outcome_m. destruct 1.
    - rewrite (m_insert_skip pyparse l1 _ l2 (classify_m_comment w t H)), erase_renum_m. apply sim_refl.
    - rewrite (m_insert_skip pyparse l1 _ l2 (classify_m_blank c H)), erase_renum_m. apply sim_refl.
    - rewrite (parse_m_strip_ext pyparse ls ls' H). apply sim_refl.
    - rewrite (m_key_case pyparse l1 l l' l2 k k' v); auto. apply sim_refl.
    - apply sim_emap. now apply m_permute_distinct.
  Qed.

  Theorem layout_insensitive_m a b : clos_refl_sym_trans _ layout_edit_m a b -> same_outcome_m a b.
  Proof.
    induction 1 as [a b H|a|a b _ IH|a b c _ IH1 _ IH2].
    - now apply layout_edit_m_sound.
    - apply sim_refl.
    - now apply sim_sym.
    - eapply sim_trans; eauto.
  Qed.

  Inductive layout_edit_v : list string -> list string -> Prop :=
  | LV_comment l1 w t l2 : all_ws w = true -> layout_edit_v (l1 ++ l2) (l1 ++ (w ++ String "#" t)%string :: l2)
  | LV_blank l1 c l2 : all_ws c = true -> layout_edit_v (l1 ++ l2) (l1 ++ c :: l2)
  | LV_ws ls ls' :
      Forall2 (fun a b => rstrip a = rstrip b \/ (strip a = strip b /\ first_is "[" (strip a) = false)) ls ls' ->
      layout_edit_v ls ls'
      (* trailing blanks and CR/LF on any line; re-indentation of lines that are not header-shaped *)
  | LV_permute l1 block block' l2 :
      Permutation block block' -> in_section_v l1 = true -> Forall is_content_line_v block ->
      NoDup (map vk block) ->
      layout_edit_v (l1 ++ block ++ l2) (l1 ++ block' ++ l2).

  Definition same_outcome_v (a b : list string) : Prop :=
    sim (erase_v (parse_views pyparse a)) (erase_v (parse_views pyparse b)).

  Lemma layout_edit_v_sound a b : layout_edit_v a b -> same_outcome_v a b.
  Proof.
    unfold same_outcome_v. destruct 1.
    - rewrite (v_insert_skip pyparse l1 _ l2 (classify_v_comment w t H)), erase_renum_v. apply sim_refl.
    - rewrite (v_insert_skip pyparse l1 _ l2 (classify_v_blank c H)), erase_renum_v. apply sim_refl.
    - rewrite (parse_v_ext pyparse ls ls'); [apply sim_refl|].
      induction H as [|a b l l' [Hr|[Hs Hb]] _ IH]; constructor; auto using classify_v_rstrip, classify_v_strip.
    - apply sim_emap. now apply v_permute_distinct.
  Qed.

  Theorem layout_insensitive_v a b : clos_refl_sym_trans _ layout_edit_v a b -> same_outcome_v a b.
  Proof.
    induction 1 as [a b H|a|a b _ IH|a b c _ IH1 _ IH2].
    - now apply layout_edit_v_sound.
    - apply sim_refl.
    - now apply sim_sym.
    - eapply sim_trans; eauto.
  Qed.
End Layout.

(* ========================================================================================== *)
(* L. every expression of a file                                                                *)

Definition preamble_exprs (ls : list string) : list string :=
  flat_map (fun p => match asg_of (snd p) with Some (_, rhs) => [rhs] | None => [] end) (preamble_m ls).
Definition section_exprs (sec : section) : list string :=
  let '(_, _, ps) := sec in
  let L := kvs ps in
  (match last_of KMatch L with Some m => [m] | None => [] end)
    ++ map snd (lets_of L) ++ map snd (dict_of [] (fields_of L)).
Definition file_exprs_m (ls : list string) : list string :=
  preamble_exprs ls ++ flat_map section_exprs (sections_m ls).

Lemma m_reject_invalid_section_expr pyparse ls sec e :
  In sec (sections_m ls) -> In e (section_exprs sec) -> pyparse e = false ->
  is_ok (parse_merchants pyparse ls) = false.
Proof.
  destruct sec as [[n0 name] ps]. intros Hs He Hp.
  destruct (build_rule pyparse (n0, name, ps)) as [r|n' k'] eqn:B.
  - exfalso. apply build_rule_spec in B. cbn zeta in B.
    destruct B as (_ & _ & _ & M & _ & _ & _ & _ & _ & L & F & _ & PM & PL & PF).
    unfold section_exprs in He. rewrite M in He. rewrite <- L, <- F in He.
    apply in_app_or in He as [[<-|[]]|He]; [congruence|].
    apply in_app_or in He as [He|He]; apply in_map_iff in He as ([x e'] & <- & Hin).
    + pose proof (forallb_in _ _ _ PL Hin) as Y. cbn in Y, Hp. congruence.
    + pose proof (forallb_in _ _ _ PF Hin) as Y. cbn in Y, Hp. congruence.
  - eapply parse_m_bad_section; eauto.
Qed.

Lemma m_reject_invalid_top_expr pyparse ls e :
  In e (preamble_exprs ls) -> pyparse e = false -> is_ok (parse_merchants pyparse ls) = false.
Proof.
  intros He Hp. destruct (is_ok (parse_merchants pyparse ls)) eqn:O; [|reflexivity]. exfalso.
  apply parse_m_preamble_ok in O. rewrite Forall_forall in O.
  unfold preamble_exprs in He. apply in_flat_map in He as (ln & Hin & He).
  specialize (O ln Hin). unfold pre_check in O.
  destruct (asg_of (snd ln)) as [[lhs rhs]|]; [|destruct He].
  destruct He as [<-|[]]. rewrite Hp in O. discriminate O.
Qed.

Lemma m_reject_invalid_expr pyparse ls e :
  In e (file_exprs_m ls) -> pyparse e = false -> is_ok (parse_merchants pyparse ls) = false.
Proof.
  unfold file_exprs_m. intros He Hp. apply in_app_or in He as [He|He].
  - eapply m_reject_invalid_top_expr; eauto.
  - apply in_flat_map in He as (sec & Hs & He). eapply m_reject_invalid_section_expr; eauto.
Qed.

(* ========================================================================================== *)
(* M. the statements exported by Props.v (proved here so that Props.v only says `exact`)          *)

Lemma c17_insert_comment_holds :
  forall pyparse l1 w t l2, all_ws w = true ->
    parse_merchants pyparse (l1 ++ (w ++ String "#" t)%string :: l2)
      = renum_m (shift (length l1)) (parse_merchants pyparse (l1 ++ l2)) /\
    parse_views pyparse (l1 ++ (w ++ String "#" t)%string :: l2)
      = renum_v (shift (length l1)) (parse_views pyparse (l1 ++ l2)).
Proof.
  intros pyparse l1 w t l2 H. split.
  - exact (m_insert_skip pyparse l1 _ l2 (classify_m_comment w t H)).
  - exact (v_insert_skip pyparse l1 _ l2 (classify_v_comment w t H)).
Qed.

Lemma c17_insert_blank_holds :
  forall pyparse l1 c l2, all_ws c = true ->
    parse_merchants pyparse (l1 ++ c :: l2) = renum_m (shift (length l1)) (parse_merchants pyparse (l1 ++ l2)) /\
    parse_views pyparse (l1 ++ c :: l2) = renum_v (shift (length l1)) (parse_views pyparse (l1 ++ l2)).
Proof.
  intros pyparse l1 c l2 H. split.
  - exact (m_insert_skip pyparse l1 _ l2 (classify_m_blank c H)).
  - exact (v_insert_skip pyparse l1 _ l2 (classify_v_blank c H)).
Qed.

Lemma c17_trailing_blanks_holds :
  forall pyparse l1 l w l2, all_ws w = true ->
    parse_merchants pyparse (l1 ++ (l ++ w)%string :: l2) = parse_merchants pyparse (l1 ++ l :: l2) /\
    parse_views pyparse (l1 ++ (l ++ w)%string :: l2) = parse_views pyparse (l1 ++ l :: l2).
Proof.
  intros pyparse l1 l w l2 H. split; [exact (m_trailing_blanks pyparse l1 l w l2 H)|exact (v_trailing_blanks pyparse l1 l w l2 H)].
Qed.

Lemma c17_crlf_holds :
  forall pyparse ls ls', Forall2 (fun a b => a = b \/ a = add_cr b) ls ls' ->
    parse_merchants pyparse ls = parse_merchants pyparse ls' /\ parse_views pyparse ls = parse_views pyparse ls'.
Proof.
  intros pyparse ls ls' H. split; [exact (m_crlf_some pyparse ls ls' H)|exact (v_crlf_some pyparse ls ls' H)].
Qed.

Lemma c17_reindent_property_holds :
  forall pyparse l1 l w l2, all_ws w = true ->
    parse_merchants pyparse (l1 ++ (w ++ l)%string :: l2) = parse_merchants pyparse (l1 ++ l :: l2) /\
    (first_is "[" (strip l) = false ->
     parse_views pyparse (l1 ++ (w ++ l)%string :: l2) = parse_views pyparse (l1 ++ l :: l2)).
Proof.
  intros pyparse l1 l w l2 H. split; [exact (m_reindent pyparse l1 l w l2 H)|exact (v_reindent pyparse l1 l w l2 H)].
Qed.

Lemma c17_reindent_header_holds :
  forall pyparse l1 l w l2 name, all_ws w = true -> classify_m l = Header name ->
    classify_m (w ++ l)%string = Header name /\
    parse_merchants pyparse (l1 ++ (w ++ l)%string :: l2) = parse_merchants pyparse (l1 ++ l :: l2).
Proof.
  intros pyparse l1 l w l2 name H Hh. split.
  - rewrite <- Hh. apply classify_m_strip. now apply strip_app_ws_l.
  - exact (m_reindent pyparse l1 l w l2 H).
Qed.

Lemma c17_permute_distinct_properties_holds :
  forall pyparse block block', Permutation block block' ->
    (forall l1 l2, in_section l1 = true -> Forall is_content_line block -> NoDup (map lk block) ->
       sim (parse_merchants pyparse (l1 ++ block ++ l2)) (parse_merchants pyparse (l1 ++ block' ++ l2))) /\
    (forall l1 l2, in_section_v l1 = true -> Forall is_content_line_v block -> NoDup (map vk block) ->
       sim (parse_views pyparse (l1 ++ block ++ l2)) (parse_views pyparse (l1 ++ block' ++ l2))).
Proof.
  intros pyparse block block' H. split; [exact (m_permute_distinct pyparse block block' H)|exact (v_permute_distinct pyparse block block' H)].
Qed.

Lemma c17_layout_insensitive_holds :
  forall pyparse,
    (forall a b, clos_refl_sym_trans _ layout_edit_m a b -> same_outcome_m pyparse a b) /\
    (forall a b, clos_refl_sym_trans _ layout_edit_v a b -> same_outcome_v pyparse a b).
Proof. intros pyparse. split; [exact (layout_insensitive_m pyparse)|exact (layout_insensitive_v pyparse)]. Qed.

Lemma c17_one_rule_per_section_holds :
  forall pyparse ls,
    (forall f, parse_merchants pyparse ls = Ok f ->
       map (fun r => (r_line r, r_name r)) (m_rules f) = headers classify_m ls) /\
    (forall f, parse_views pyparse ls = Ok f ->
       map (fun v => (v_line v, v_name v)) (f_views f) = headers classify_v ls).
Proof. intros pyparse ls. split; [exact (m_one_rule_per_section pyparse ls)|exact (v_one_view_per_section pyparse ls)]. Qed.

Lemma c17_exactly_stated_properties_holds :
  forall pyparse ls f, parse_merchants pyparse ls = Ok f ->
    Forall2 (fun (sec : section) r =>
      let '(n0, name, props) := sec in
      let L := kvs props in
      r_name r = name /\ r_line r = n0 /\ name <> EmptyString /\
      last_of KMatch L = Some (r_match r) /\
      r_category r = or_empty (last_of KCategory L) /\
      r_subcategory r = or_empty (last_of KSubcategory L) /\
      r_merchant r = (if is_empty (or_empty (last_of KMerchant L)) then name else or_empty (last_of KMerchant L)) /\
      r_tags r = match last_of KTags L with Some v => parse_tags v | None => [] end /\
      Some (r_priority r) = match last_of KPriority L with Some v => parse_int v | None => Some 50%Z end /\
      r_lets r = lets_of L /\ r_fields r = dict_of [] (fields_of L) /\
      Forall (fun p => prop_check (snd p) = None) props /\
      pyparse (r_match r) = true /\ forallb (fun b => pyparse (snd b)) (r_lets r) = true /\
      forallb (fun b => pyparse (snd b)) (r_fields r) = true)
    (sections_m ls) (m_rules f).
Proof.
  intros pyparse ls f H. apply parse_m_sections in H.
  induction H as [|[[n0 name] ps] r secs rules Hb _ IH]; constructor; [|exact IH].
  exact (build_rule_spec pyparse n0 name ps r Hb).
Qed.

Lemma c17_exactly_stated_properties_views_holds :
  forall pyparse ls f, parse_views pyparse ls = Ok f ->
    Forall2 (fun (sec : section) v =>
      let '(n0, name, lines) := sec in
      v_name v = name /\ v_line v = n0 /\
      last_filter (vitems lines) = Some (v_filter v) /\
      v_desc v = last_desc (vitems lines) /\
      v_vars v = dict_of [] (vars_of (vitems lines)) /\
      Forall (fun p => vline_check pyparse (snd p) = None) lines)
    (sections_v ls) (f_views f).
Proof.
  intros pyparse ls f H. apply parse_v_sections in H.
  induction H as [|[[n0 name] ps] r secs rules Hb _ IH]; constructor; [|exact IH].
  exact (build_view_spec pyparse n0 name ps r Hb).
Qed.

Lemma c17_reject_missing_match_holds :
  forall pyparse ls,
    (forall n0 name ps, In (n0, name, ps) (sections_m ls) -> last_of KMatch (kvs ps) = None ->
       is_ok (parse_merchants pyparse ls) = false) /\
    (forall n, parse_merchants pyparse ls = Err n EMissingMatch ->
       exists name ps, In (n, name, ps) (sections_m ls) /\ last_of KMatch (kvs ps) = None).
Proof.
  intros pyparse ls. split; [exact (m_reject_missing_match pyparse ls)|exact (m_missing_match_names_section pyparse ls)].
Qed.

Lemma c17_reject_unknown_property_holds :
  forall pyparse ls,
    (forall n0 name ps n s k v, In (n0, name, ps) (sections_m ls) -> In (n, s) ps ->
       prop_of s = Some (k, v) -> key_of k = KUnknown -> is_ok (parse_merchants pyparse ls) = false) /\
    (forall n, parse_merchants pyparse ls = Err n EUnknownProperty ->
       exists n0 name ps s, In (n0, name, ps) (sections_m ls) /\ In (n, s) ps /\ prop_check s = Some EUnknownProperty).
Proof.
  intros pyparse ls. split.
  - intros n0 name ps n s k v Hs Hin P K. apply (m_reject_bad_line pyparse ls n0 name ps n s EUnknownProperty Hs Hin).
    unfold prop_check. now rewrite P, K.
  - intros n. apply m_line_error_names_line. auto.
Qed.

Lemma c17_reject_bad_let_holds :
  forall pyparse ls,
    (forall n0 name ps n s k v, In (n0, name, ps) (sections_m ls) -> In (n, s) ps ->
       prop_of s = Some (k, v) -> key_of k = KLet -> ident_eq v = None -> is_ok (parse_merchants pyparse ls) = false) /\
    (forall n, parse_merchants pyparse ls = Err n EBadLet ->
       exists n0 name ps s, In (n0, name, ps) (sections_m ls) /\ In (n, s) ps /\ prop_check s = Some EBadLet).
Proof.
  intros pyparse ls. split.
  - intros n0 name ps n s k v Hs Hin P K I. apply (m_reject_bad_line pyparse ls n0 name ps n s EBadLet Hs Hin).
    unfold prop_check. rewrite P, K. cbn. now rewrite I.
  - intros n. apply m_line_error_names_line. auto.
Qed.

Lemma c17_reject_bad_field_holds :
  forall pyparse ls,
    (forall n0 name ps n s k v, In (n0, name, ps) (sections_m ls) -> In (n, s) ps ->
       prop_of s = Some (k, v) -> key_of k = KField -> ident_eq v = None -> is_ok (parse_merchants pyparse ls) = false) /\
    (forall n, parse_merchants pyparse ls = Err n EBadField ->
       exists n0 name ps s, In (n0, name, ps) (sections_m ls) /\ In (n, s) ps /\ prop_check s = Some EBadField).
Proof.
  intros pyparse ls. split.
  - intros n0 name ps n s k v Hs Hin P K I. apply (m_reject_bad_line pyparse ls n0 name ps n s EBadField Hs Hin).
    unfold prop_check. rewrite P, K. cbn. now rewrite I.
  - intros n. apply m_line_error_names_line. auto.
Qed.

Lemma c17_reject_bad_priority_holds :
  forall pyparse ls,
    (forall n0 name ps n s k v, In (n0, name, ps) (sections_m ls) -> In (n, s) ps ->
       prop_of s = Some (k, v) -> key_of k = KPriority -> parse_int v = None -> is_ok (parse_merchants pyparse ls) = false) /\
    (forall n, parse_merchants pyparse ls = Err n EBadPriority ->
       exists n0 name ps s, In (n0, name, ps) (sections_m ls) /\ In (n, s) ps /\ prop_check s = Some EBadPriority).
Proof.
  intros pyparse ls. split.
  - intros n0 name ps n s k v Hs Hin P K I. apply (m_reject_bad_line pyparse ls n0 name ps n s EBadPriority Hs Hin).
    unfold prop_check. rewrite P, K. cbn. now rewrite I.
  - intros n. apply m_line_error_names_line. auto 6.
Qed.


Lemma c17_reject_missing_filter_holds :
  forall pyparse ls,
    (forall n0 name lines, In (n0, name, lines) (sections_v ls) -> last_filter (vitems lines) = None ->
       is_ok (parse_views pyparse ls) = false) /\
    (forall n, parse_views pyparse ls = Err n VMissingFilter ->
       exists name lines, In (n, name, lines) (sections_v ls) /\ last_filter (vitems lines) = None).
Proof.
  intros pyparse ls. split; [exact (v_reject_missing_filter pyparse ls)|exact (v_missing_filter_names_section pyparse ls)].
Qed.



(* ---- the three statements that the unfixed tree refuted (see known_findings.d/C17.jsonl, status fixed) ---- *)
Definition no_silent_drop_statement : Prop :=
  forall pyparse l1 l l2,
    classify_m l <> Skip -> is_ok (parse_merchants pyparse (l1 ++ l :: l2)) = true ->
    parse_merchants pyparse (l1 ++ garbage :: l2) <> parse_merchants pyparse (l1 ++ l :: l2).

Lemma c17_no_silent_drop_holds : no_silent_drop_statement.
Proof.
  intros pyparse l1 l l2 _ Hok E. rewrite (m_garbage_anywhere pyparse l1 l l2 Hok) in E.
  rewrite <- E in Hok. discriminate Hok.
Qed.

Lemma c17_no_silent_drop_exact_holds :
  forall pyparse l1 l l2,
    (is_ok (parse_merchants pyparse (l1 ++ l :: l2)) = true ->
     parse_merchants pyparse (l1 ++ garbage :: l2)
     = Err (S (length l1)) (if in_section l1 then EUnexpected else EOutside)) /\
    (is_ok (parse_views pyparse (l1 ++ l :: l2)) = true ->
     parse_views pyparse (l1 ++ garbage :: l2) = Err (S (length l1)) VUnexpected).
Proof.
  intros pyparse l1 l l2. split; [exact (m_garbage_anywhere pyparse l1 l l2)|exact (v_garbage_anywhere pyparse l1 l l2)].
Qed.

Definition reject_invalid_expression_statement : Prop :=
  forall pyparse ls e, In e (file_exprs_m ls) -> pyparse e = false -> is_ok (parse_merchants pyparse ls) = false.

Lemma c17_reject_invalid_expression_holds : reject_invalid_expression_statement.
Proof. exact m_reject_invalid_expr. Qed.

Lemma c17_invalid_expression_names_line_holds :
  forall pyparse ls,
    (* a top-level assignment: the error names that very line *)
    (forall n, parse_merchants pyparse ls = Err n EInvalidTop ->
       exists s, In (n, s) (preamble_m ls) /\ pre_check pyparse s = Some EInvalidTop) /\
    (* an expression of a section: the error names the section header *)
    (forall n k, k = EInvalidLet \/ k = EInvalidField \/ k = EInvalidMatch ->
       parse_merchants pyparse ls = Err n k ->
       exists name ps e, In (n, name, ps) (sections_m ls) /\ pyparse e = false /\
         ((k = EInvalidLet /\ exists x, In (x, e) (lets_of (kvs ps))) \/
          (k = EInvalidField /\ exists x, In (x, e) (dict_of [] (fields_of (kvs ps)))) \/
          (k = EInvalidMatch /\ last_of KMatch (kvs ps) = Some e))) /\
    (* views files: every filter and every variable, global or local, is validated at its own line *)
    (forall n0 name lines n s k, In (n0, name, lines) (sections_v ls) -> In (n, s) lines ->
       vline_check pyparse s = Some k -> is_ok (parse_views pyparse ls) = false).
Proof.
  intros pyparse ls. split; [|split].
  - intros n H. apply m_err_names_line in H as [P|(n0 & name & ps & Hin & [(E & _)|[(s & _ & C)|(-> & pr & F & D)]])].
    + exact P.
    + discriminate E.
    + apply prop_check_kinds in C as [[E _]|(? & ? & _ & [[E _]|[[E _]|[[E _]|[E _]]]])]; discriminate E.
    + apply finish_defect_line_kinds in D. repeat destruct D as [D|D]; discriminate D.
  - exact (m_invalid_expr_names_section pyparse ls).
  - exact (v_reject_bad_line pyparse ls).
Qed.

Definition load_error_is_reported_statement : Prop :=
  forall pyparse csv_rules ls n k,
    parse_merchants pyparse ls = Err n k ->
    lr_reported (get_all_rules pyparse csv_rules ls) = Some n /\ lr_reported (get_transforms pyparse ls) = Some n.

Lemma c17_load_error_is_reported_holds : load_error_is_reported_statement.
Proof.
  intros pyparse csv_rules ls n k H. destruct (get_all_rules_err pyparse csv_rules ls n k H) as [-> ->]. split; reflexivity.
Qed.

Lemma c17_load_outcomes_holds :
  forall pyparse csv_rules ls,
    (forall f, parse_merchants pyparse ls = Ok f ->
       get_all_rules pyparse csv_rules ls = {| lr_value := map r_name (m_rules f); lr_reported := None |} /\
       get_transforms pyparse ls = {| lr_value := m_transforms f; lr_reported := None |}) /\
    (forall n k, parse_merchants pyparse ls = Err n k ->
       get_all_rules pyparse csv_rules ls = {| lr_value := csv_rules ls; lr_reported := Some n |} /\
       get_transforms pyparse ls = {| lr_value := []; lr_reported := Some n |}) /\
    (forall n k, parse_views pyparse ls = Err n k ->
       load_views pyparse ls = {| lr_value := []; lr_reported := Some n |}).
Proof.
  intros pyparse csv_rules ls. split; [|split].
  - exact (get_all_rules_ok pyparse csv_rules ls).
  - exact (get_all_rules_err pyparse csv_rules ls).
  - exact (load_views_err pyparse ls).
Qed.

(* views: a second section whose name exactly equals an earlier one *)
Lemma c17_reject_duplicate_view_name_holds :
  forall pyparse ls,
    (forall s1 n name lines s2, sections_v ls = s1 ++ (n, name, lines) :: s2 -> In name (map sec_name s1) ->
       is_ok (parse_views pyparse ls) = false) /\
    (forall n, parse_views pyparse ls = Err n VDuplicateName ->
       exists s1 name lines s2, sections_v ls = s1 ++ (n, name, lines) :: s2 /\ In name (map sec_name s1)) /\
    (forall f, parse_views pyparse ls = Ok f -> NoDup (map v_name (f_views f))).
Proof.
  intros pyparse ls. split; [|split].
  - exact (v_reject_duplicate_name pyparse ls).
  - exact (v_duplicate_name_names_line pyparse ls).
  - intros f H. apply parse_v_sections_nodup in H as [F N].
    assert (E : map v_name (f_views f) = map sec_name (sections_v ls)).
    { clear N. induction F as [|[[n0 name] lines] v secs vs Hb _ IH]; [reflexivity|].
      cbn [map]. rewrite IH. apply build_view_spec in Hb. destruct Hb as (H1 & _). now rewrite H1. }
    now rewrite E.
Qed.

(* ========================================================================================== *)
(* N. the line-by-line engine (current_rule / _add_rule appends) reads exactly what the grouped     *)
(*    model reads, in either match mode                                                            *)

Lemma bind_assoc {A B C} (r : res A) (f : A -> res B) (g : B -> res C) :
  bind (bind r f) g = bind r (fun a => bind (f a) g).
Proof. destruct r; reflexivity. Qed.

Section EngineEq.
  Variable pyparse : string -> bool.

  Definition with_rules (e : engine) (rs : list rule) : engine :=
    {| e_mode := e_mode e; e_rules := rs; e_vars := e_vars e; e_tr := e_tr e |}.

  (* what the grouped reading says of the remaining tokens, given the machine's state *)
  Definition grouped_from (st : pstate) (toks : list (nat * cline)) : res engine :=
    let (pre, secs) := group toks in
    let e := p_eng st in
    match p_cur st with
    | None =>
        bind (foldM (pre_step pyparse) pre (e_vars e, e_tr e)) (fun vt =>
          bind (mapM (build_rule pyparse) secs) (fun rs => Ok (with_rules (set_top e vt) (e_rules e ++ rs))))
    | Some (n0, name, pr) =>
        bind (foldM apply_prop pre pr) (fun pr' =>
          bind (finish_rule pyparse n0 name pr') (fun r =>
            bind (mapM (build_rule pyparse) secs) (fun rs => Ok (with_rules e (e_rules e ++ r :: rs)))))
    end.

  Lemma engine_eta e : with_rules (set_top e (e_vars e, e_tr e)) (e_rules e ++ []) = e.
  Proof. destruct e; unfold with_rules, set_top; cbn. now rewrite app_nil_r. Qed.

  Lemma run_engine_grouped toks : forall st, run_engine pyparse st toks = grouped_from st toks.
  Proof.
    induction toks as [|[n t] r IH]; intros [e cur].
    - unfold run_engine, grouped_from, close_rule; cbn.
      destruct cur as [[[n0 name] pr]|]; cbn.
      + destruct (finish_rule pyparse n0 name pr); cbn; [|reflexivity].
        unfold add_rule, with_rules; reflexivity.
      + now rewrite engine_eta.
    - unfold run_engine in *. cbn [foldM]. rewrite bind_assoc.
      unfold grouped_from. cbn [group]. specialize (IH).
      destruct t as [|hn|s]; unfold seq_step; cbn [snd fst p_cur p_eng].
      + (* skip *) cbn [bind]. rewrite IH. unfold grouped_from. cbn [p_cur p_eng]. destruct (group r); reflexivity.
      + (* header *)
        unfold close_rule; cbn [p_cur p_eng]. destruct (group r) as [pre secs] eqn:G.
        destruct cur as [[[n0 name] pr]|]; cbn [bind foldM mapM].
        * destruct (finish_rule pyparse n0 name pr) as [r0|]; cbn [bind]; [|reflexivity].
          set (M := mapM (build_rule pyparse) secs) in *.
          unfold build_rule. destruct (is_empty hn); cbn [bind]; [reflexivity|].
          rewrite IH. unfold grouped_from. rewrite G. cbn [p_cur p_eng add_rule e_rules e_mode e_vars e_tr].
          destruct (foldM apply_prop pre prule0) as [pr'|]; cbn [bind]; [|reflexivity].
          destruct (finish_rule pyparse n hn pr') as [r1|]; cbn [bind]; [|reflexivity].
          fold M. destruct M as [rs|]; cbn [bind]; [|reflexivity].
          unfold with_rules; cbn. now rewrite <- app_assoc.
        * set (M := mapM (build_rule pyparse) secs) in *.
          unfold build_rule. destruct (is_empty hn); cbn [bind]; [reflexivity|].
          rewrite IH. unfold grouped_from. rewrite G. cbn [p_cur p_eng].
          destruct (foldM apply_prop pre prule0) as [pr'|]; cbn [bind]; [|reflexivity].
          destruct (finish_rule pyparse n hn pr') as [r1|]; cbn [bind]; [|reflexivity].
          fold M. destruct M as [rs|]; cbn [bind]; [|reflexivity].
          unfold with_rules, set_top; cbn. reflexivity.
      + (* content *)
        destruct (group r) as [pre secs] eqn:G.
        destruct cur as [[[n0 name] pr]|]; cbn [bind foldM].
        * destruct (apply_prop pr (n, s)) as [pr'|]; cbn [bind]; [|reflexivity].
          rewrite IH. unfold grouped_from. rewrite G. reflexivity.
        * destruct (pre_step pyparse (e_vars e, e_tr e) (n, s)) as [vt|]; cbn [bind]; [|reflexivity].
          rewrite IH. unfold grouped_from. rewrite G. cbn [p_cur p_eng set_top e_vars e_tr e_rules fst snd].
          destruct vt as [v tr]. cbn [fst snd].
          destruct (foldM (pre_step pyparse) pre (v, tr)) as [vt2|]; cbn [bind]; [|reflexivity].
          destruct (mapM (build_rule pyparse) secs); reflexivity.
  Qed.

  Definition res_map {A B} (f : A -> B) (r : res A) : res B :=
    match r with Ok a => Ok (f a) | Err n k => Err n k end.

  (* the engine loop reads what the grouped model reads, and keeps its mode *)
  Lemma res_map_bind {A B C} (f : B -> C) (r : res A) (g : A -> res B) :
    res_map f (bind r g) = bind r (fun a => res_map f (g a)).
  Proof. destruct r; reflexivity. Qed.

  Lemma bind_Ok_inv {A B} (r : res A) (g : A -> res B) b : bind r g = Ok b -> exists a, r = Ok a /\ g a = Ok b.
  Proof. destruct r; cbn; [eauto|discriminate]. Qed.

  Lemma parse_engine_eq mode ls :
    res_map mfile_of (parse_engine pyparse mode ls) = parse_merchants pyparse ls /\
    (forall e, parse_engine pyparse mode ls = Ok e -> e_mode e = mode).
  Proof.
    unfold parse_engine. rewrite run_engine_grouped. unfold grouped_from, parse_merchants, parse_m_numbered.
    cbn [p_cur p_eng].
    destruct (group _) as [pre secs]. split.
    - rewrite res_map_bind. apply bind_ext. intros vt. rewrite res_map_bind. apply bind_ext. intros rs. reflexivity.
    - intros e H. apply bind_Ok_inv in H as (vt & _ & H). apply bind_Ok_inv in H as (rs & _ & H).
      inversion H. reflexivity.
  Qed.

  Lemma parse_engine_mode_independent m1 m2 ls :
    res_map mfile_of (parse_engine pyparse m1 ls) = res_map mfile_of (parse_engine pyparse m2 ls).
  Proof. now rewrite (proj1 (parse_engine_eq m1 ls)), (proj1 (parse_engine_eq m2 ls)). Qed.
End EngineEq.

(* ========================================================================================== *)
(* O. the report memory: for EVERY history of loader calls in one process                        *)

Section ReportMemoryProofs.
  Variables (P E : Type) (peq : P -> P -> bool) (eeq : E -> E -> bool).
  Hypothesis peq_spec : forall a b, peq a b = true <-> a = b.
  Hypothesis eeq_spec : forall a b, eeq a b = true <-> a = b.

  Notation call := (call P E).
  Notation known := (known P E peq eeq).
  Notation report_step := (report_step P E peq eeq).
  Notation run_calls := (run_calls P E peq eeq).

  Fixpoint mem_after (shown : list (P * E)) (cs : list call) : list (P * E) :=
    match cs with [] => shown | c :: r => mem_after (fst (report_step shown c)) r end.

  Lemma run_calls_app shown a b :
    run_calls shown (a ++ b) = run_calls shown a ++ run_calls (mem_after shown a) b.
  Proof.
    revert shown. induction a as [|c a IH]; intros shown; [reflexivity|].
    cbn [app run_calls mem_after]. destruct (report_step shown c) as [sh fl]. cbn [fst]. now rewrite IH.
  Qed.

  Lemma mem_after_app shown a b : mem_after shown (a ++ b) = mem_after (mem_after shown a) b.
  Proof. revert shown. induction a as [|c a IH]; intros shown; [reflexivity|]. cbn [app mem_after]. apply IH. Qed.

  Lemma run_calls_length shown cs : length (run_calls shown cs) = length cs.
  Proof.
    revert shown. induction cs as [|c r IH]; intros shown; [reflexivity|].
    cbn [run_calls]. destruct (report_step shown c). cbn. now rewrite IH.
  Qed.

  (* the flag of the call that follows the prefix [pre] *)
  Lemma flag_at shown pre c post :
    nth_error (run_calls shown (pre ++ c :: post)) (length pre) = Some (snd (report_step (mem_after shown pre) c)).
  Proof.
    rewrite run_calls_app, nth_error_app2 by (rewrite run_calls_length; auto).
    rewrite run_calls_length, Nat.sub_diag. cbn [run_calls]. destruct (report_step (mem_after shown pre) c). reflexivity.
  Qed.

  Lemma known_cons p e q e' sh : known p e ((q, e') :: sh) = ((peq p q && eeq e e') || known p e sh)%bool.
  Proof. reflexivity. Qed.

  (* G1: an error that has not occurred before in the process (and was not in the initial memory) reaches the user *)
  Lemma new_error_is_reported shown pre p e post :
    known p e shown = false -> (forall c, In c pre -> c <> Load p (Some e)) ->
    nth_error (run_calls shown (pre ++ Load p (Some e) :: post)) (length pre) = Some true.
  Proof.
    intros Hk Hn. rewrite flag_at. f_equal.
    assert (K : known p e (mem_after shown pre) = false).
    { revert shown Hk. induction pre as [|c r IH]; intros shown Hk; [exact Hk|].
      cbn [mem_after]. apply IH; [intros c' Hc; apply Hn; now right|].
      destruct c as [q [e'|]|]; cbn [report_step fst]; [|exact Hk|reflexivity].
      destruct (known q e' shown); [exact Hk|]. cbn [fst]. rewrite known_cons, Hk, orb_false_r.
      destruct (peq p q) eqn:Ep; [|reflexivity]. destruct (eeq e e') eqn:Ee; [|reflexivity].
      apply peq_spec in Ep. apply eeq_spec in Ee. subst. exfalso. apply (Hn (Load q (Some e'))); [now left|reflexivity]. }
    cbn [report_step]. now rewrite K.
  Qed.

  (* G2: no error is ever lost: whenever a failing call stays silent, the very same (path, message) was shown
     by an earlier call of this process and the memory was not cleared since *)
  Lemma known_has_witness pre p e :
    known p e (mem_after [] pre) = true ->
    exists a b, pre = a ++ Load p (Some e) :: b /\ (forall c, In c b -> c <> ClearCache) /\
                nth_error (run_calls [] pre) (length a) = Some true.
  Proof.
    induction pre as [|c pre' IH] using rev_ind; [discriminate|].
    rewrite mem_after_app. cbn [mem_after]. set (M := mem_after [] pre') in *.
    assert (Ext : forall a b, pre' = a ++ Load p (Some e) :: b -> (forall x, In x b -> x <> ClearCache) ->
                   c <> ClearCache ->
                   nth_error (run_calls [] pre') (length a) = Some true ->
                   exists a0 b0, pre' ++ [c] = a0 ++ Load p (Some e) :: b0 /\ (forall x, In x b0 -> x <> ClearCache) /\
                                 nth_error (run_calls [] (pre' ++ [c])) (length a0) = Some true).
    { intros a b -> Hb Hc Hf. exists a, (b ++ [c]). split; [now rewrite <- app_assoc|]. split.
      - intros x Hx. apply in_app_or in Hx as [Hx|[<-|[]]]; auto.
      - rewrite run_calls_app, nth_error_app1; [exact Hf|].
        rewrite run_calls_length, !app_length. cbn [length]. lia. }
    destruct c as [q [e'|]|]; cbn [report_step fst].
    - destruct (known q e' M) eqn:Kq; cbn [fst].
      + intros K. destruct (IH K) as (a & b & E1 & Hb & Hf). eapply Ext; eauto. discriminate.
      + rewrite known_cons. intros K. apply orb_true_iff in K as [K|K].
        * apply andb_true_iff in K as [Ep Ee]. apply peq_spec in Ep. apply eeq_spec in Ee. subst q e'.
          exists pre', []. split; [reflexivity|]. split; [intros x []|].
          rewrite flag_at. cbn [report_step]. fold M. now rewrite Kq.
        * destruct (IH K) as (a & b & E1 & Hb & Hf). eapply Ext; eauto. discriminate.
    - intros K. destruct (IH K) as (a & b & E1 & Hb & Hf). eapply Ext; eauto. discriminate.
    - discriminate.
  Qed.

  Lemma silent_error_was_shown pre p e post :
    nth_error (run_calls [] (pre ++ Load p (Some e) :: post)) (length pre) = Some false ->
    exists a b, pre = a ++ Load p (Some e) :: b /\ (forall c, In c b -> c <> ClearCache) /\
                nth_error (run_calls [] (pre ++ Load p (Some e) :: post)) (length a) = Some true.
  Proof.
    rewrite flag_at. cbn [report_step]. destruct (known p e (mem_after [] pre)) eqn:K; [|discriminate]. intros _.
    destruct (known_has_witness pre p e K) as (a & b & E1 & Hb & Hf). exists a, b. repeat split; auto.
    rewrite run_calls_app, nth_error_app1; [exact Hf|].
    rewrite run_calls_length, E1, !app_length. cbn [length]. lia.
  Qed.

  (* G3: a file that loads prints nothing *)
  Lemma loaded_is_quiet shown pre p post :
    nth_error (run_calls shown (pre ++ Load p None :: post)) (length pre) = Some false.
  Proof. rewrite flag_at. reflexivity. Qed.
End ReportMemoryProofs.
