(* C17/Proofs.v — lemmas about the line-level model of the two section-file parsers. *)
From Coq Require Import String Ascii List Bool NArith Arith ZArith Lia Permutation.
From Tally Require Import Lib.Str C17.Model.
Import ListNotations.
Open Scope string_scope.

(* ========================================================================================== *)
(* A. strings                                                                                   *)

Lemma lstrip_app_ws w s : all_ws w = true -> lstrip (w ++ s) = lstrip s.
Proof.
  induction w as [|c w IH]; simpl; intros H; [reflexivity|].
  apply andb_true_iff in H as [Hc Hw]. rewrite Hc. auto.
Qed.

Lemma rstrip_all_ws w : all_ws w = true -> rstrip w = "".
Proof.
  induction w as [|c w IH]; simpl; intros H; [reflexivity|].
  apply andb_true_iff in H as [Hc Hw]. rewrite (IH Hw), Hc. reflexivity.
Qed.

Lemma rstrip_app_ws s w : all_ws w = true -> rstrip (s ++ w) = rstrip s.
Proof.
  intros Hw. induction s as [|c s IH]; simpl.
  - now apply rstrip_all_ws.
  - now rewrite IH.
Qed.

Lemma rstrip_ws_app w s :
  all_ws w = true -> rstrip (w ++ s) = if is_empty (rstrip s) then "" else w ++ rstrip s.
Proof.
  induction w as [|c w IH]; simpl; intros H.
  - destruct (rstrip s); reflexivity.
  - apply andb_true_iff in H as [Hc Hw]. rewrite (IH Hw).
    destruct (rstrip s) as [|d r]; simpl; [now rewrite Hc|].
    destruct (w ++ String d r) eqn:E; [|reflexivity].
    destruct w; discriminate.
Qed.

Lemma strip_app_ws_r s w : all_ws w = true -> strip (s ++ w) = strip s.
Proof. intros H. unfold strip. now rewrite rstrip_app_ws. Qed.

Lemma strip_app_ws_l w s : all_ws w = true -> strip (w ++ s) = strip s.
Proof.
  intros H. unfold strip. rewrite rstrip_ws_app by assumption.
  destruct (rstrip s) eqn:E; simpl; [reflexivity|].
  now rewrite lstrip_app_ws.
Qed.

Lemma strip_ws_both w1 s w2 : all_ws w1 = true -> all_ws w2 = true -> strip (w1 ++ s ++ w2) = strip s.
Proof. intros H1 H2. now rewrite strip_app_ws_l, strip_app_ws_r. Qed.

Lemma all_ws_cr : all_ws (String (ascii_of_nat 13) "") = true.
Proof. reflexivity. Qed.

(* ========================================================================================== *)
(* B. numbering, grouping                                                                       *)
Open Scope list_scope.   (* from here on ++ is list append; string append is written (a ++ b)%string *)

Definition on_fst {A} (f : nat -> nat) (p : nat * A) : nat * A := (f (fst p), snd p).

Lemma number_app {A} (a b : list A) k : number k (a ++ b) = number k a ++ number (k + length a) b.
Proof.
  revert k. induction a as [|x a IH]; intros k; simpl.
  - now rewrite Nat.add_0_r.
  - rewrite IH. now rewrite Nat.add_succ_r.
Qed.

Lemma number_map_S {A} (l : list A) k : map (on_fst S) (number k l) = number (S k) l.
Proof. revert k. induction l as [|x l IH]; intros k; simpl; [reflexivity|]. now rewrite IH. Qed.

Lemma number_bounds {A} (l : list A) k n x : In (n, x) (number k l) -> k <= n < k + length l.
Proof.
  revert k. induction l as [|y l IH]; intros k; simpl; [tauto|].
  intros [H|H]; [inversion H; subst; lia|]. apply IH in H. lia.
Qed.

Lemma number_length {A} (l : list A) k : length (number k l) = length l.
Proof. revert k. induction l; intros; simpl; auto. Qed.

Lemma number_nth {A} (l : list A) k n x : In (n, x) (number k l) -> nth_error l (n - k) = Some x.
Proof.
  revert k. induction l as [|y l IH]; intros k; simpl; [tauto|].
  intros [H|H].
  - inversion H; subst. now rewrite Nat.sub_diag.
  - pose proof (number_bounds _ _ _ _ H) as B. apply IH in H.
    replace (n - k) with (S (n - S k)) by lia. exact H.
Qed.

Definition shift (k n : nat) : nat := if Nat.leb n k then n else S n.

(* numbering of a file with one line inserted after the first |l1| lines *)
Lemma number_ins_l {A} (l1 l2 : list A) (c : A) :
  number 1 (l1 ++ c :: l2) = number 1 l1 ++ (S (length l1), c) :: number (S (S (length l1))) l2.
Proof. rewrite number_app. reflexivity. Qed.

Lemma number_ins_r {A} (l1 l2 : list A) :
  map (on_fst (shift (length l1))) (number 1 (l1 ++ l2)) = number 1 l1 ++ number (S (S (length l1))) l2.
Proof.
  rewrite number_app, map_app. f_equal.
  - rewrite <- (map_id (number 1 l1)) at 2. apply map_ext_in. intros [n x] Hin.
    apply number_bounds in Hin. unfold on_fst, shift; simpl.
    destruct (Nat.leb_spec n (length l1)); [reflexivity|lia].
  - transitivity (map (on_fst S) (number (1 + length l1) l2)); [|apply number_map_S].
    apply map_ext_in. intros [n x] Hin.
    apply number_bounds in Hin. unfold on_fst, shift; simpl.
    destruct (Nat.leb_spec n (length l1)); [lia|reflexivity].
Qed.

Section Group.
  Definition gmap (f : nat -> nat) (g : list (nat * string) * list section) : list (nat * string) * list section :=
    (map (on_fst f) (fst g),
     map (fun s : section => let '(n, name, ps) := s in (f n, name, map (on_fst f) ps)) (snd g)).

  Lemma group_map f toks : group (map (on_fst f) toks) = gmap f (group toks).
  Proof.
    induction toks as [|[n t] r IH]; [reflexivity|].
    simpl. rewrite IH. destruct (group r) as [pre secs]. destruct t; reflexivity.
  Qed.

  Lemma group_skip xs n ys : group (xs ++ (n, Skip) :: ys) = group (xs ++ ys).
  Proof.
    induction xs as [|[m t] r IH]; simpl.
    - destruct (group ys); reflexivity.
    - now rewrite IH.
  Qed.

  Definition contents (toks : list (nat * cline)) : list (nat * string) :=
    flat_map (fun p => match snd p with Content s => [(fst p, s)] | _ => [] end) toks.
  Definition has_header (toks : list (nat * cline)) : bool :=
    existsb (fun p => match snd p with Header _ => true | _ => false end) toks.

  (* tokens before the first header only extend the preamble *)
  Lemma group_app_nohdr t1 rest :
    has_header t1 = false ->
    group (t1 ++ rest) = (contents t1 ++ fst (group rest), snd (group rest)).
  Proof.
    induction t1 as [|[n t] r IH]; simpl; intros H.
    - destruct (group rest); reflexivity.
    - destruct t; simpl in *; try discriminate; rewrite (IH H); reflexivity.
  Qed.

  (* once a header has been seen, what follows extends the last open section *)
  Lemma group_app_hdr t1 :
    has_header t1 = true ->
    exists pre1 s1 n0 name p,
      forall rest, group (t1 ++ rest)
                   = (pre1, s1 ++ (n0, name, p ++ fst (group rest)) :: snd (group rest)).
  Proof.
    induction t1 as [|[n t] r IH]; simpl; intros H; [discriminate|].
    destruct (has_header r) eqn:Hr.
    - destruct (IH eq_refl) as (pre1 & s1 & n0 & name & p & E).
      destruct t as [|hn|cs].
      + exists pre1, s1, n0, name, p. intros rest. now rewrite E.
      + exists [], ((n, hn, pre1) :: s1), n0, name, p. intros rest. now rewrite E.
      + exists ((n, cs) :: pre1), s1, n0, name, p. intros rest. now rewrite E.
    - destruct t as [|hn|cs]; simpl in H; try discriminate.
      exists [], [], n, hn, (contents r). intros rest.
      rewrite (group_app_nohdr r rest Hr). simpl. reflexivity.
  Qed.

  Lemma group_contents c rest :
    (forall p, In p c -> exists s, snd p = Content s) ->
    group (c ++ rest) = (contents c ++ fst (group rest), snd (group rest)).
  Proof.
    intros H. apply group_app_nohdr.
    unfold has_header. apply not_true_is_false. intros E.
    apply existsb_exists in E as [p [Hin Hp]]. destruct (H p Hin) as [s Hs]. rewrite Hs in Hp. discriminate.
  Qed.
End Group.

(* ========================================================================================== *)
(* C. the monadic helpers                                                                       *)

Definition emap {A} (f : nat -> nat) (g : A -> A) (r : res A) : res A :=
  match r with Ok a => Ok (g a) | Err n k => Err (f n) k end.

Lemma foldM_app {A S} (f : S -> A -> res S) l1 l2 s :
  foldM f (l1 ++ l2) s = bind (foldM f l1 s) (foldM f l2).
Proof.
  revert s. induction l1 as [|x l1 IH]; intros s; simpl; [reflexivity|].
  destruct (f s x); simpl; auto.
Qed.

Lemma mapM_app {A B} (f : A -> res B) l1 l2 :
  mapM f (l1 ++ l2) = bind (mapM f l1) (fun a => bind (mapM f l2) (fun b => Ok (a ++ b))).
Proof.
  induction l1 as [|x l1 IH]; simpl.
  - destruct (mapM f l2); reflexivity.
  - destruct (f x); simpl; [|reflexivity]. rewrite IH.
    destruct (mapM f l1); simpl; [|reflexivity]. destruct (mapM f l2); reflexivity.
Qed.

Lemma mapM_Err {A B} (f : A -> res B) l n k :
  mapM f l = Err n k -> exists x, In x l /\ f x = Err n k.
Proof.
  induction l as [|x l IH]; simpl; [discriminate|].
  destruct (f x) eqn:E; simpl.
  - destruct (mapM f l) eqn:E2; simpl; [discriminate|].
    intros H; inversion H; subst. destruct (IH eq_refl) as [y [Hin Hy]]. exists y; auto.
  - intros H; inversion H; subst. exists x; auto.
Qed.

Lemma mapM_Ok {A B} (f : A -> res B) l ys :
  mapM f l = Ok ys -> Forall2 (fun x y => f x = Ok y) l ys.
Proof.
  revert ys. induction l as [|x l IH]; simpl; intros ys H.
  - inversion H. constructor.
  - destruct (f x) eqn:E; simpl in H; [|discriminate].
    destruct (mapM f l) eqn:E2; simpl in H; [|discriminate].
    inversion H; subst. constructor; auto.
Qed.

Lemma mapM_some_Err {A B} (f : A -> res B) l x n k :
  In x l -> f x = Err n k -> is_ok (mapM f l) = false.
Proof.
  intros Hin Hx. destruct (mapM f l) eqn:E; [|reflexivity].
  apply mapM_Ok in E. exfalso.
  induction E as [|a b l' ys' Hab _ IH]; [inversion Hin|].
  destruct Hin as [->|Hin]; [congruence|auto].
Qed.

Lemma foldM_Err {A S} (f : S -> A -> res S) l s n k :
  foldM f l s = Err n k -> exists s' x, In x l /\ f s' x = Err n k.
Proof.
  revert s. induction l as [|x l IH]; intros s; simpl; [discriminate|].
  destruct (f s x) eqn:E; simpl.
  - intros H. destruct (IH _ H) as (s' & y & Hin & Hy). exists s', y; auto.
  - intros H; inversion H; subst. exists s, x; auto.
Qed.

(* ========================================================================================== *)
(* D. layout edits that leave every line's classification unchanged                              *)

Lemma Forall2_refl {A} (R : A -> A -> Prop) l : (forall x, R x x) -> Forall2 R l l.
Proof. intros H. induction l; constructor; auto. Qed.

Lemma Forall2_replace {A} (R : A -> A -> Prop) l1 a b l2 :
  (forall x, R x x) -> R a b -> Forall2 R (l1 ++ a :: l2) (l1 ++ b :: l2).
Proof.
  intros Hr Hab. apply Forall2_app; [now apply Forall2_refl|].
  constructor; [exact Hab|now apply Forall2_refl].
Qed.

Lemma toks_ext (cl : string -> cline) ls ls' k :
  Forall2 (fun a b => cl a = cl b) ls ls' ->
  map (fun p => (fst p, cl (snd p))) (number k ls) = map (fun p => (fst p, cl (snd p))) (number k ls').
Proof.
  intros H. revert k. induction H as [|a b l l' Hab _ IH]; intros k; simpl; [reflexivity|].
  now rewrite Hab, IH.
Qed.

Lemma classify_m_strip a b : strip a = strip b -> classify_m a = classify_m b.
Proof. unfold classify_m. now intros ->. Qed.

Lemma view_header_none_of_strip l : first_is "[" (strip l) = false -> view_header l = None.
Proof.
  unfold view_header, strip. destruct (rstrip l) as [|c t] eqn:E; [reflexivity|].
  simpl. destruct (is_ws c) eqn:W.
  - destruct c as [[] [] [] [] [] [] [] []]; try discriminate W; reflexivity.
  - simpl. intros H.
    destruct c as [[] [] [] [] [] [] [] []]; try reflexivity; discriminate H.
Qed.

Lemma classify_v_rstrip a b : rstrip a = rstrip b -> classify_v a = classify_v b.
Proof. unfold classify_v, view_header, strip. now intros ->. Qed.

Lemma classify_v_strip a b :
  strip a = strip b -> first_is "[" (strip a) = false -> classify_v a = classify_v b.
Proof.
  intros E H. unfold classify_v. rewrite <- E.
  rewrite (view_header_none_of_strip a H).
  rewrite E in H. now rewrite (view_header_none_of_strip b H).
Qed.

Section Merchants.
  Variable pyparse : string -> bool.

  Lemma parse_m_ext ls ls' :
    Forall2 (fun a b => classify_m a = classify_m b) ls ls' ->
    parse_merchants pyparse ls = parse_merchants pyparse ls'.
  Proof.
    intros H. unfold parse_merchants, parse_m_numbered. now rewrite (toks_ext classify_m ls ls' 1 H).
  Qed.

  Lemma parse_m_strip_ext ls ls' :
    Forall2 (fun a b => strip a = strip b) ls ls' ->
    parse_merchants pyparse ls = parse_merchants pyparse ls'.
  Proof.
    intros H. apply parse_m_ext. induction H; constructor; auto using classify_m_strip.
  Qed.

  Lemma m_trailing_blanks l1 l w l2 :
    all_ws w = true ->
    parse_merchants pyparse (l1 ++ (l ++ w)%string :: l2) = parse_merchants pyparse (l1 ++ l :: l2).
  Proof.
    intros H. apply parse_m_strip_ext. apply Forall2_replace; [reflexivity|]. now apply strip_app_ws_r.
  Qed.

  Lemma m_reindent l1 l w l2 :
    all_ws w = true ->
    parse_merchants pyparse (l1 ++ (w ++ l)%string :: l2) = parse_merchants pyparse (l1 ++ l :: l2).
  Proof.
    intros H. apply parse_m_strip_ext. apply Forall2_replace; [reflexivity|]. now apply strip_app_ws_l.
  Qed.

  Definition add_cr (l : string) : string := (l ++ String (ascii_of_nat 13) "")%string.

  Lemma m_crlf ls : parse_merchants pyparse (map add_cr ls) = parse_merchants pyparse ls.
  Proof.
    apply parse_m_strip_ext. induction ls; simpl; constructor; auto.
    unfold add_cr. apply strip_app_ws_r. reflexivity.
  Qed.

  (* CRLF file whose last line has no terminator: any subset of lines may carry the CR *)
  Lemma m_crlf_some ls ls' :
    Forall2 (fun a b => a = b \/ a = add_cr b) ls ls' ->
    parse_merchants pyparse ls = parse_merchants pyparse ls'.
  Proof.
    intros H. apply parse_m_strip_ext. induction H as [|a b l l' [->| ->] _ IH]; constructor; auto.
    unfold add_cr. apply strip_app_ws_r. reflexivity.
  Qed.

  (* ---------------------------------------------------------------------------------------- *)
  (* line numbers are carried, never inspected                                                  *)

  Definition renum_rule (f : nat -> nat) (r : rule) : rule :=
    {| r_name := r_name r; r_match := r_match r; r_category := r_category r; r_subcategory := r_subcategory r;
       r_merchant := r_merchant r; r_tags := r_tags r; r_priority := r_priority r; r_line := f (r_line r);
       r_lets := r_lets r; r_fields := r_fields r |}.
  Definition renum_mfile (f : nat -> nat) (m : mfile) : mfile :=
    {| m_rules := map (renum_rule f) (m_rules m); m_vars := m_vars m; m_transforms := m_transforms m |}.
  Definition renum_m (f : nat -> nat) (r : res mfile) : res mfile := emap f (renum_mfile f) r.

  Lemma apply_prop_renum f st ln : apply_prop st (on_fst f ln) = emap f (fun x => x) (apply_prop st ln).
  Proof.
    unfold apply_prop, on_fst; simpl. destruct (prop_of (snd ln)) as [[k v]|]; [|reflexivity].
    unfold apply_kv. destruct (key_of k); try reflexivity;
      try (destruct (ident_eq v) as [[? ?]|]; reflexivity).
    destruct (parse_int v); reflexivity.
  Qed.

  Lemma foldM_apply_prop_renum f props st :
    foldM apply_prop (map (on_fst f) props) st = emap f (fun x => x) (foldM apply_prop props st).
  Proof.
    revert st. induction props as [|ln r IH]; intros st; simpl; [reflexivity|].
    rewrite apply_prop_renum. destruct (apply_prop st ln); simpl; auto.
  Qed.

  Lemma finish_rule_renum f n0 name pr :
    finish_rule pyparse (f n0) name pr = emap f (renum_rule f) (finish_rule pyparse n0 name pr).
  Proof.
    unfold finish_rule. destruct (p_match pr); [|reflexivity].
    repeat match goal with |- context [if ?b then _ else _] => destruct b; try reflexivity end.
  Qed.

  Lemma build_rule_renum f n0 name props :
    build_rule pyparse (f n0, name, map (on_fst f) props)
    = emap f (renum_rule f) (build_rule pyparse (n0, name, props)).
  Proof.
    unfold build_rule. destruct (is_empty name); [reflexivity|].
    rewrite foldM_apply_prop_renum. destruct (foldM apply_prop props prule0); simpl; [|reflexivity].
    apply finish_rule_renum.
  Qed.

  Lemma mapM_build_rule_renum f secs :
    mapM (build_rule pyparse) (map (fun s : section => let '(n, name, ps) := s in (f n, name, map (on_fst f) ps)) secs)
    = emap f (map (renum_rule f)) (mapM (build_rule pyparse) secs).
  Proof.
    induction secs as [|[[n name] ps] r IH]; [reflexivity|].
    cbn [map mapM]. rewrite build_rule_renum. destruct (build_rule pyparse (n, name, ps)); cbn [bind emap]; [|reflexivity].
    rewrite IH. destruct (mapM (build_rule pyparse) r); reflexivity.
  Qed.

  Lemma fold_pre_step_renum f pre st :
    fold_left pre_step (map (on_fst f) pre) st = fold_left pre_step pre st.
  Proof. revert st. induction pre as [|ln r IH]; intros st; simpl; [reflexivity|]. apply IH. Qed.

  Lemma parse_m_numbered_renum f nl :
    parse_m_numbered pyparse (map (on_fst f) nl) = renum_m f (parse_m_numbered pyparse nl).
  Proof.
    unfold parse_m_numbered.
    replace (map (fun p => (fst p, classify_m (snd p))) (map (on_fst f) nl))
      with (map (on_fst f) (map (fun p => (fst p, classify_m (snd p))) nl))
      by (rewrite !map_map; reflexivity).
    rewrite group_map. destruct (group _) as [pre secs]. unfold gmap; simpl.
    rewrite fold_pre_step_renum. destruct (fold_left pre_step pre ([], [])) as [vars tr].
    rewrite mapM_build_rule_renum. destruct (mapM (build_rule pyparse) secs); reflexivity.
  Qed.

  Lemma parse_m_numbered_skip xs n c ys :
    classify_m c = Skip ->
    parse_m_numbered pyparse (xs ++ (n, c) :: ys) = parse_m_numbered pyparse (xs ++ ys).
  Proof.
    intros H. unfold parse_m_numbered. rewrite !map_app. simpl. rewrite H, group_skip. reflexivity.
  Qed.

  (* inserting a blank or comment line anywhere: same result, later line numbers move down by one *)
  Lemma m_insert_skip l1 c l2 :
    classify_m c = Skip ->
    parse_merchants pyparse (l1 ++ c :: l2)
    = renum_m (shift (length l1)) (parse_merchants pyparse (l1 ++ l2)).
  Proof.
    intros H. unfold parse_merchants.
    rewrite number_ins_l, parse_m_numbered_skip by exact H.
    rewrite <- number_ins_r. apply parse_m_numbered_renum.
  Qed.
End Merchants.

Lemma classify_m_blank c : all_ws c = true -> classify_m c = Skip.
Proof.
  intros H. unfold classify_m, strip. rewrite rstrip_all_ws by exact H. reflexivity.
Qed.

Lemma classify_m_comment w t : all_ws w = true -> classify_m (w ++ String "#" t)%string = Skip.
Proof.
  intros H. unfold classify_m. rewrite strip_app_ws_l by exact H.
  unfold strip. simpl. destruct (rstrip t); reflexivity.
Qed.

(* ========================================================================================== *)
(* E. edits inside a section: key letter case, order of distinct properties                      *)

Definition sim {A} (r r' : res A) : Prop := r = r' \/ (is_ok r = false /\ is_ok r' = false).

Lemma sim_refl {A} (r : res A) : sim r r.
Proof. now left. Qed.
Lemma sim_sym {A} (r r' : res A) : sim r r' -> sim r' r.
Proof. intros [H|[H1 H2]]; [left; auto|right; auto]. Qed.
Lemma sim_trans {A} (a b c : res A) : sim a b -> sim b c -> sim a c.
Proof.
  intros [->|[H1 H2]] [H|[H3 H4]]; subst; try (left; reflexivity); try (right; split; assumption).
Qed.
Lemma sim_bind {A B} (r r' : res A) (f : A -> res B) : sim r r' -> sim (bind r f) (bind r' f).
Proof.
  intros [->|[H1 H2]]; [apply sim_refl|]. right.
  destruct r; [discriminate|]. destruct r'; [discriminate|]. split; reflexivity.
Qed.
Lemma sim_bind_r {A B} (r : res A) (f g : A -> res B) : (forall a, sim (f a) (g a)) -> sim (bind r f) (bind r g).
Proof. intros H. destruct r; simpl; [apply H|apply sim_refl]. Qed.

(* state-independent validity of a property line, and its effect *)
Definition kv_check (key : pkey) (v : string) : option ekind :=
  match key with
  | KLet => match ident_eq v with Some _ => None | None => Some EBadLet end
  | KField => match ident_eq v with Some _ => None | None => Some EBadField end
  | KPriority => match parse_int v with Some _ => None | None => Some EBadPriority end
  | KUnknown => Some EUnknownProperty
  | _ => None
  end.
Definition kv_upd (key : pkey) (v : string) (pr : prule) : prule :=
  match key with
  | KLet => match ident_eq v with Some (id, e) => add_let pr (lower id) e | None => pr end
  | KField => match ident_eq v with Some (id, e) => set_field pr (lower id) e | None => pr end
  | KMatch => set_match pr v
  | KCategory => set_category pr v
  | KSubcategory => set_subcategory pr v
  | KMerchant => set_merchant pr v
  | KTags => set_tags pr (parse_tags v)
  | KPriority => match parse_int v with Some z => set_priority pr z | None => pr end
  | KUnknown => pr
  end.
Definition prop_check (s : string) : option ekind :=
  match prop_of s with None => Some EUnexpected | Some (k, v) => kv_check (key_of k) v end.
Definition prop_upd (s : string) (pr : prule) : prule :=
  match prop_of s with None => pr | Some (k, v) => kv_upd (key_of k) v pr end.

Lemma apply_prop_split st ln :
  apply_prop st ln = match prop_check (snd ln) with Some k => Err (fst ln) k | None => Ok (prop_upd (snd ln) st) end.
Proof.
  unfold apply_prop, prop_check, prop_upd. destruct (prop_of (snd ln)) as [[k v]|]; [|reflexivity].
  unfold apply_kv, kv_check, kv_upd. destruct (key_of k); try reflexivity;
    try (destruct (ident_eq v) as [[? ?]|]; reflexivity).
  destruct (parse_int v); reflexivity.
Qed.

Lemma key_of_known_inj k1 k2 : key_of k1 = key_of k2 -> key_of k1 <> KUnknown -> k1 = k2.
Proof.
  unfold key_of.
  destruct (String.eqb_spec k1 "let"); [destruct (String.eqb_spec k2 "let"); [congruence|]|].
  { repeat match goal with |- context [String.eqb ?a ?b] => destruct (String.eqb a b) end; discriminate. }
  destruct (String.eqb_spec k1 "field"); [destruct (String.eqb_spec k2 "let"); [discriminate|destruct (String.eqb_spec k2 "field"); [congruence|]]|].
  { repeat match goal with |- context [String.eqb ?a ?b] => destruct (String.eqb a b) end; discriminate. }
  destruct (String.eqb_spec k1 "match").
  { repeat match goal with |- context [String.eqb k2 ?b] => destruct (String.eqb_spec k2 b) end; try discriminate; congruence. }
  destruct (String.eqb_spec k1 "category").
  { repeat match goal with |- context [String.eqb k2 ?b] => destruct (String.eqb_spec k2 b) end; try discriminate; congruence. }
  destruct (String.eqb_spec k1 "subcategory").
  { repeat match goal with |- context [String.eqb k2 ?b] => destruct (String.eqb_spec k2 b) end; try discriminate; congruence. }
  destruct (String.eqb_spec k1 "merchant").
  { repeat match goal with |- context [String.eqb k2 ?b] => destruct (String.eqb_spec k2 b) end; try discriminate; congruence. }
  destruct (String.eqb_spec k1 "tags").
  { repeat match goal with |- context [String.eqb k2 ?b] => destruct (String.eqb_spec k2 b) end; try discriminate; congruence. }
  destruct (String.eqb_spec k1 "priority").
  { repeat match goal with |- context [String.eqb k2 ?b] => destruct (String.eqb_spec k2 b) end; try discriminate; congruence. }
  intros _ H. congruence.
Qed.

Lemma kv_upd_comm key1 v1 key2 v2 pr :
  key1 <> key2 -> kv_upd key1 v1 (kv_upd key2 v2 pr) = kv_upd key2 v2 (kv_upd key1 v1 pr).
Proof.
  intros Hne. destruct key1, key2; try congruence; unfold kv_upd;
    repeat match goal with
           | |- context [ident_eq ?v] => destruct (ident_eq v) as [[? ?]|]
           | |- context [parse_int ?v] => destruct (parse_int v)
           end; reflexivity.
Qed.

Definition line_key (s : string) : option string :=
  match prop_of s with Some (k, _) => Some k | None => None end.

Lemma swap_props n1 s1 n2 s2 st :
  line_key s1 <> line_key s2 ->
  sim (foldM apply_prop [(n1, s1); (n2, s2)] st) (foldM apply_prop [(n1, s2); (n2, s1)] st).
Proof.
  intros Hk. cbn [foldM]. rewrite !apply_prop_split. cbn [fst snd].
  destruct (prop_check s1) eqn:C1, (prop_check s2) eqn:C2; cbn [bind];
    rewrite ?apply_prop_split; cbn [fst snd]; rewrite ?C1, ?C2; cbn [bind];
    try (right; split; reflexivity).
  left. f_equal.
  unfold prop_check, prop_upd, line_key in *.
  destruct (prop_of s1) as [[k1 v1]|]; [|discriminate].
  destruct (prop_of s2) as [[k2 v2]|]; [|discriminate].
  apply kv_upd_comm. intros E.
  assert (key_of k2 <> KUnknown) by (intros U; rewrite U in C2; discriminate).
  apply Hk. f_equal. symmetry. apply key_of_known_inj; congruence.
Qed.

Section MerchantsSection.
  Variable pyparse : string -> bool.
  Let tk := fun p : nat * string => (fst p, classify_m (snd p)).

  Lemma build_replace_sim n0 name p c c' q :
    (forall st, sim (foldM apply_prop c st) (foldM apply_prop c' st)) ->
    sim (build_rule pyparse (n0, name, p ++ c ++ q)) (build_rule pyparse (n0, name, p ++ c' ++ q)).
  Proof.
    intros H. unfold build_rule. destruct (is_empty name); [apply sim_refl|].
    apply sim_bind. rewrite !foldM_app. apply sim_bind_r. intros st. apply sim_bind. apply H.
  Qed.

  Lemma mapM_replace_sim {A B} (f : A -> res B) s1 x x' s2 :
    sim (f x) (f x') -> sim (mapM f (s1 ++ x :: s2)) (mapM f (s1 ++ x' :: s2)).
  Proof.
    intros H. rewrite !mapM_app. apply sim_bind_r. intros a. apply sim_bind.
    cbn [mapM]. apply sim_bind. exact H.
  Qed.

  (* replacing a block of content lines that sits inside a section *)
  Lemma m_section_replace_sim xs cb cb' ys :
    has_header (map tk xs) = true ->
    (forall p, In p (map tk cb) -> exists s, snd p = Content s) ->
    (forall p, In p (map tk cb') -> exists s, snd p = Content s) ->
    (forall st, sim (foldM apply_prop (contents (map tk cb)) st) (foldM apply_prop (contents (map tk cb')) st)) ->
    sim (parse_m_numbered pyparse (xs ++ cb ++ ys)) (parse_m_numbered pyparse (xs ++ cb' ++ ys)).
  Proof.
    intros Hh Hc Hc' Hs. unfold parse_m_numbered. fold tk. rewrite !map_app.
    destruct (group_app_hdr _ Hh) as (pre1 & s1 & n0 & name & p & E).
    rewrite !E, (group_contents _ _ Hc), (group_contents _ _ Hc'). cbn [fst snd].
    destruct (fold_left pre_step pre1 ([], [])) as [vars tr].
    apply sim_bind. apply mapM_replace_sim. apply build_replace_sim. exact Hs.
  Qed.

  Lemma has_header_number l1 k :
    has_header (map tk (number k l1)) = existsb (fun l => match classify_m l with Header _ => true | _ => false end) l1.
  Proof. revert k. induction l1 as [|a l IH]; intros k; simpl; [reflexivity|]. now rewrite IH. Qed.

  Definition in_section (l1 : list string) : bool :=
    existsb (fun l => match classify_m l with Header _ => true | _ => false end) l1.

  Lemma bind_ext {A B} (r : res A) (f g : A -> res B) : (forall a, f a = g a) -> bind r f = bind r g.
  Proof. intros H. destruct r; simpl; auto. Qed.

  Lemma m_section_replace_eq xs cb cb' ys :
    has_header (map tk xs) = true ->
    (forall p, In p (map tk cb) -> exists s, snd p = Content s) ->
    (forall p, In p (map tk cb') -> exists s, snd p = Content s) ->
    (forall st, foldM apply_prop (contents (map tk cb)) st = foldM apply_prop (contents (map tk cb')) st) ->
    parse_m_numbered pyparse (xs ++ cb ++ ys) = parse_m_numbered pyparse (xs ++ cb' ++ ys).
  Proof.
    intros Hh Hc Hc' Hs. unfold parse_m_numbered. fold tk. rewrite !map_app.
    destruct (group_app_hdr _ Hh) as (pre1 & s1 & n0 & name & p & E).
    rewrite !E, (group_contents _ _ Hc), (group_contents _ _ Hc'). cbn [fst snd].
    destruct (fold_left pre_step pre1 ([], [])) as [vars tr].
    f_equal. rewrite !mapM_app. apply bind_ext. intros a. f_equal. cbn [mapM]. f_equal.
    unfold build_rule. destruct (is_empty name); [reflexivity|]. f_equal.
    rewrite !foldM_app. apply bind_ext. intros st. now rewrite Hs.
  Qed.

  (* --- key letter case ------------------------------------------------------------------- *)
  Lemma m_prop_equiv l1 l l' l2 s s' :
    in_section l1 = true ->
    classify_m l = Content s -> classify_m l' = Content s' -> prop_of s = prop_of s' ->
    parse_merchants pyparse (l1 ++ l :: l2) = parse_merchants pyparse (l1 ++ l' :: l2).
  Proof.
    intros Hin Hl Hl' Hp. unfold parse_merchants. rewrite !number_app. cbn [number].
    apply (m_section_replace_eq (number 1 l1) [(1 + length l1, l)] [(1 + length l1, l')]
                  (number (S (1 + length l1)) l2)).
    - now rewrite has_header_number.
    - intros p [<-|[]]. unfold tk; cbn. rewrite Hl. eauto.
    - intros p [<-|[]]. unfold tk; cbn. rewrite Hl'. eauto.
    - intros st. unfold tk; cbn [map contents flat_map fst snd]. rewrite Hl, Hl'. cbn [app foldM].
      unfold apply_prop; cbn [fst snd]. now rewrite Hp.
  Qed.

  (* --- two adjacent property lines with different keys ------------------------------------ *)
  Lemma m_swap_adjacent l1 a b l2 sa sb :
    in_section l1 = true ->
    classify_m a = Content sa -> classify_m b = Content sb -> line_key sa <> line_key sb ->
    sim (parse_merchants pyparse (l1 ++ a :: b :: l2)) (parse_merchants pyparse (l1 ++ b :: a :: l2)).
  Proof.
    intros Hin Ha Hb Hk. unfold parse_merchants. rewrite !number_app. cbn [number].
    apply (m_section_replace_sim (number 1 l1)
             [(1 + length l1, a); (S (1 + length l1), b)] [(1 + length l1, b); (S (1 + length l1), a)]
             (number (S (S (1 + length l1))) l2)).
    - now rewrite has_header_number.
    - intros p [<-|[<-|[]]]; unfold tk; cbn; rewrite ?Ha, ?Hb; eauto.
    - intros p [<-|[<-|[]]]; unfold tk; cbn; rewrite ?Ha, ?Hb; eauto.
    - intros st. unfold tk; cbn [map contents flat_map fst snd]. rewrite Ha, Hb. cbn [app].
      now apply swap_props.
  Qed.
End MerchantsSection.
