(* C17/Proofs.v — lemmas about the line-level model of the two section-file parsers. *)
From Coq Require Import String Ascii List Bool NArith Arith ZArith Lia Permutation.
From Tally Require Import Lib.Str C17.Model.
Import ListNotations.
Open Scope string_scope.

(* ========================================================================================== *)
(* A. strings                                                                                   *)

Lemma lstrip_app_ws w s : all_ws w = true -> lstrip (w ++ s) = lstrip s.
Proof.
  induction w as [|c w IH]; simpl; intros H; [reflexivity|].
  apply andb_true_iff in H as [Hc Hw]. rewrite Hc. auto.
Qed.

Lemma rstrip_all_ws w : all_ws w = true -> rstrip w = "".
Proof.
  induction w as [|c w IH]; simpl; intros H; [reflexivity|].
  apply andb_true_iff in H as [Hc Hw]. rewrite (IH Hw), Hc. reflexivity.
Qed.

Lemma rstrip_app_ws s w : all_ws w = true -> rstrip (s ++ w) = rstrip s.
Proof.
  intros Hw. induction s as [|c s IH]; simpl.
  - now apply rstrip_all_ws.
  - now rewrite IH.
Qed.

Lemma rstrip_ws_app w s :
  all_ws w = true -> rstrip (w ++ s) = if is_empty (rstrip s) then "" else w ++ rstrip s.
Proof.
  induction w as [|c w IH]; simpl; intros H.
  - destruct (rstrip s); reflexivity.
  - apply andb_true_iff in H as [Hc Hw]. rewrite (IH Hw).
    destruct (rstrip s) as [|d r]; simpl; [now rewrite Hc|].
    destruct (w ++ String d r) eqn:E; [|reflexivity].
    destruct w; discriminate.
Qed.

Lemma strip_app_ws_r s w : all_ws w = true -> strip (s ++ w) = strip s.
Proof. intros H. unfold strip. now rewrite rstrip_app_ws. Qed.

Lemma strip_app_ws_l w s : all_ws w = true -> strip (w ++ s) = strip s.
Proof.
  intros H. unfold strip. rewrite rstrip_ws_app by assumption.
  destruct (rstrip s) eqn:E; simpl; [reflexivity|].
  now rewrite lstrip_app_ws.
Qed.

Lemma strip_ws_both w1 s w2 : all_ws w1 = true -> all_ws w2 = true -> strip (w1 ++ s ++ w2) = strip s.
Proof. intros H1 H2. now rewrite strip_app_ws_l, strip_app_ws_r. Qed.

Lemma all_ws_cr : all_ws (String (ascii_of_nat 13) "") = true.
Proof. reflexivity. Qed.

(* ========================================================================================== *)
(* B. numbering, grouping                                                                       *)
Open Scope list_scope.   (* from here on ++ is list append; string append is written (a ++ b)%string *)

Definition on_fst {A} (f : nat -> nat) (p : nat * A) : nat * A := (f (fst p), snd p).

Lemma number_app {A} (a b : list A) k : number k (a ++ b) = number k a ++ number (k + length a) b.
Proof.
  revert k. induction a as [|x a IH]; intros k; simpl.
  - now rewrite Nat.add_0_r.
  - rewrite IH. now rewrite Nat.add_succ_r.
Qed.

Lemma number_map_S {A} (l : list A) k : map (on_fst S) (number k l) = number (S k) l.
Proof. revert k. induction l as [|x l IH]; intros k; simpl; [reflexivity|]. now rewrite IH. Qed.

Lemma number_bounds {A} (l : list A) k n x : In (n, x) (number k l) -> k <= n < k + length l.
Proof.
  revert k. induction l as [|y l IH]; intros k; simpl; [tauto|].
  intros [H|H]; [inversion H; subst; lia|]. apply IH in H. lia.
Qed.

Lemma number_length {A} (l : list A) k : length (number k l) = length l.
Proof. revert k. induction l; intros; simpl; auto. Qed.

Lemma number_nth {A} (l : list A) k n x : In (n, x) (number k l) -> nth_error l (n - k) = Some x.
Proof.
  revert k. induction l as [|y l IH]; intros k; simpl; [tauto|].
  intros [H|H].
  - inversion H; subst. now rewrite Nat.sub_diag.
  - pose proof (number_bounds _ _ _ _ H) as B. apply IH in H.
    replace (n - k) with (S (n - S k)) by lia. exact H.
Qed.

Definition shift (k n : nat) : nat := if Nat.leb n k then n else S n.

(* numbering of a file with one line inserted after the first |l1| lines *)
Lemma number_ins_l {A} (l1 l2 : list A) (c : A) :
  number 1 (l1 ++ c :: l2) = number 1 l1 ++ (S (length l1), c) :: number (S (S (length l1))) l2.
Proof. rewrite number_app. reflexivity. Qed.

Lemma number_ins_r {A} (l1 l2 : list A) :
  map (on_fst (shift (length l1))) (number 1 (l1 ++ l2)) = number 1 l1 ++ number (S (S (length l1))) l2.
Proof.
  rewrite number_app, map_app. f_equal.
  - rewrite <- (map_id (number 1 l1)) at 2. apply map_ext_in. intros [n x] Hin.
    apply number_bounds in Hin. unfold on_fst, shift; simpl.
    destruct (Nat.leb_spec n (length l1)); [reflexivity|lia].
  - transitivity (map (on_fst S) (number (1 + length l1) l2)); [|apply number_map_S].
    apply map_ext_in. intros [n x] Hin.
    apply number_bounds in Hin. unfold on_fst, shift; simpl.
    destruct (Nat.leb_spec n (length l1)); [lia|reflexivity].
Qed.

Section Group.
  Definition gmap (f : nat -> nat) (g : list (nat * string) * list section) : list (nat * string) * list section :=
    (map (on_fst f) (fst g),
     map (fun s : section => let '(n, name, ps) := s in (f n, name, map (on_fst f) ps)) (snd g)).

  Lemma group_map f toks : group (map (on_fst f) toks) = gmap f (group toks).
  Proof.
    induction toks as [|[n t] r IH]; [reflexivity|].
    simpl. rewrite IH. destruct (group r) as [pre secs]. destruct t; reflexivity.
  Qed.

  Lemma group_skip xs n ys : group (xs ++ (n, Skip) :: ys) = group (xs ++ ys).
  Proof.
    induction xs as [|[m t] r IH]; simpl.
    - destruct (group ys); reflexivity.
    - now rewrite IH.
  Qed.

  Definition contents (toks : list (nat * cline)) : list (nat * string) :=
    flat_map (fun p => match snd p with Content s => [(fst p, s)] | _ => [] end) toks.
  Definition has_header (toks : list (nat * cline)) : bool :=
    existsb (fun p => match snd p with Header _ => true | _ => false end) toks.

  (* tokens before the first header only extend the preamble *)
  Lemma group_app_nohdr t1 rest :
    has_header t1 = false ->
    group (t1 ++ rest) = (contents t1 ++ fst (group rest), snd (group rest)).
  Proof.
    induction t1 as [|[n t] r IH]; simpl; intros H.
    - destruct (group rest); reflexivity.
    - destruct t; simpl in *; try discriminate; rewrite (IH H); reflexivity.
  Qed.

  (* once a header has been seen, what follows extends the last open section *)
  Lemma group_app_hdr t1 :
    has_header t1 = true ->
    exists pre1 s1 n0 name p,
      forall rest, group (t1 ++ rest)
                   = (pre1, s1 ++ (n0, name, p ++ fst (group rest)) :: snd (group rest)).
  Proof.
    induction t1 as [|[n t] r IH]; simpl; intros H; [discriminate|].
    destruct (has_header r) eqn:Hr.
    - destruct (IH eq_refl) as (pre1 & s1 & n0 & name & p & E).
      destruct t.
      + exists pre1, s1, n0, name, p. intros rest. now rewrite E.
      + exists [], ((n, name0, pre1) :: s1), n0, name, p. intros rest. now rewrite E.
      + exists ((n, stripped) :: pre1), s1, n0, name, p. intros rest. now rewrite E.
    - destruct t; simpl in H; try (rewrite Hr in H; discriminate).
      exists [], [], n, name, (contents r). intros rest.
      rewrite (group_app_nohdr r rest Hr). simpl. reflexivity.
  Qed.

  Lemma group_contents c rest :
    (forall p, In p c -> exists s, snd p = Content s) ->
    group (c ++ rest) = (contents c ++ fst (group rest), snd (group rest)).
  Proof.
    intros H. apply group_app_nohdr.
    unfold has_header. apply not_true_is_false. intros E.
    apply existsb_exists in E as [p [Hin Hp]]. destruct (H p Hin) as [s Hs]. rewrite Hs in Hp. discriminate.
  Qed.
End Group.

(* ========================================================================================== *)
(* C. the monadic helpers                                                                       *)

Definition emap {A} (f : nat -> nat) (g : A -> A) (r : res A) : res A :=
  match r with Ok a => Ok (g a) | Err n k => Err (f n) k end.

Lemma foldM_app {A S} (f : S -> A -> res S) l1 l2 s :
  foldM f (l1 ++ l2) s = bind (foldM f l1 s) (foldM f l2).
Proof.
  revert s. induction l1 as [|x l1 IH]; intros s; simpl; [reflexivity|].
  destruct (f s x); simpl; auto.
Qed.

Lemma mapM_app {A B} (f : A -> res B) l1 l2 :
  mapM f (l1 ++ l2) = bind (mapM f l1) (fun a => bind (mapM f l2) (fun b => Ok (a ++ b))).
Proof.
  induction l1 as [|x l1 IH]; simpl.
  - destruct (mapM f l2); reflexivity.
  - destruct (f x); simpl; [|reflexivity]. rewrite IH.
    destruct (mapM f l1); simpl; [|reflexivity]. destruct (mapM f l2); reflexivity.
Qed.

Lemma mapM_Err {A B} (f : A -> res B) l n k :
  mapM f l = Err n k -> exists x, In x l /\ f x = Err n k.
Proof.
  induction l as [|x l IH]; simpl; [discriminate|].
  destruct (f x) eqn:E; simpl.
  - destruct (mapM f l) eqn:E2; simpl; [discriminate|].
    intros H; inversion H; subst. destruct (IH eq_refl) as [y [Hin Hy]]. exists y; auto.
  - intros H; inversion H; subst. exists x; auto.
Qed.

Lemma mapM_Ok {A B} (f : A -> res B) l ys :
  mapM f l = Ok ys -> Forall2 (fun x y => f x = Ok y) l ys.
Proof.
  revert ys. induction l as [|x l IH]; simpl; intros ys H.
  - inversion H. constructor.
  - destruct (f x) eqn:E; simpl in H; [|discriminate].
    destruct (mapM f l) eqn:E2; simpl in H; [|discriminate].
    inversion H; subst. constructor; auto.
Qed.

Lemma mapM_some_Err {A B} (f : A -> res B) l x n k :
  In x l -> f x = Err n k -> is_ok (mapM f l) = false.
Proof.
  intros Hin Hx. destruct (mapM f l) eqn:E; [|reflexivity].
  apply mapM_Ok in E. exfalso.
  induction E as [|a b l' ys' Hab _ IH]; [inversion Hin|].
  destruct Hin as [->|Hin]; [congruence|auto].
Qed.

Lemma foldM_Err {A S} (f : S -> A -> res S) l s n k :
  foldM f l s = Err n k -> exists s' x, In x l /\ f s' x = Err n k.
Proof.
  revert s. induction l as [|x l IH]; intros s; simpl; [discriminate|].
  destruct (f s x) eqn:E; simpl.
  - intros H. destruct (IH _ H) as (s' & y & Hin & Hy). exists s', y; auto.
  - intros H; inversion H; subst. exists s, x; auto.
Qed.
