(* C17/Model.v — line-level model of tally's two section-file parsers:
     MerchantEngine.parse / _add_rule   (merchant_engine.py, the .rules files)
     parse_sections                     (section_engine.py, the views files)
   and of the try/except fall-through of merchant_utils.get_all_rules / get_transforms and the
   views branch of config_loader.load_config.
   The model describes the tree AFTER the three C17 fixes (content before the first header is an error;
   top-level expressions are validated; a load error is reported on stderr).

   Input: the list of lines, i.e. what Python's text.split('\n') yields (no line contains LF;
   a CRLF file shows up as lines ending in CR, which strip() removes).
   Strings are bytes; the whitespace set is Python's for ASCII (9-13, 28-32); case mapping is ASCII.
   Whether an expression string is accepted by expr_parser.parse_expression (CPython's parser +
   tally's node whitelist) is the ORACLE [pyparse] — a Section variable, never an axiom.

   Structure: every line is classified on its own (skip / header / content), the classified lines are
   grouped into a preamble and sections (a header owns the content lines up to the next header), the
   preamble yields variables and transforms, every section is built into a rule / view or an error
   (line number, kind).  The order in which errors are found is the order of the Python loops: the
   preamble first, then section by section (name, property lines in order, completeness checks). *)
From Coq Require Import String Ascii List Bool NArith Arith ZArith.
From Tally Require Import Lib.Str.
Import ListNotations.
Open Scope string_scope.

(* ------------------------------------------------------------------------------------------ *)
(* strings                                                                                      *)

Definition is_ws (c : ascii) : bool :=
  let n := N_of_ascii c in
  ((N.leb 9 n && N.leb n 13) || (N.leb 28 n && N.leb n 32))%bool.

Fixpoint all_ws (s : string) : bool :=
  match s with EmptyString => true | String c r => (is_ws c && all_ws r)%bool end.

Fixpoint lstrip (s : string) : string :=
  match s with
  | EmptyString => EmptyString
  | String c r => if is_ws c then lstrip r else s
  end.

Fixpoint rstrip (s : string) : string :=
  match s with
  | EmptyString => EmptyString
  | String c r =>
      match rstrip r with
      | EmptyString => if is_ws c then EmptyString else String c EmptyString
      | r' => String c r'
      end
  end.

Definition strip (s : string) : string := lstrip (rstrip s).     (* str.strip() *)

Definition is_empty (s : string) : bool := match s with EmptyString => true | _ => false end.

Fixpoint last_char (s : string) : option ascii :=
  match s with
  | EmptyString => None
  | String c EmptyString => Some c
  | String _ r => last_char r
  end.

Fixpoint but_last (s : string) : string :=
  match s with
  | EmptyString => EmptyString
  | String c EmptyString => EmptyString
  | String c r => String c (but_last r)
  end.

Definition ends_with (d : ascii) (s : string) : bool :=
  match last_char s with Some c => Ascii.eqb c d | None => false end.

Fixpoint has_char (d : ascii) (s : string) : bool :=
  match s with EmptyString => false | String c r => (Ascii.eqb c d || has_char d r)%bool end.

(* s.split(d, 1) when d occurs: (before the first d, after it) *)
Fixpoint split_at (d : ascii) (s : string) : option (string * string) :=
  match s with
  | EmptyString => None
  | String c r =>
      if Ascii.eqb c d then Some (EmptyString, r)
      else match split_at d r with Some (a, b) => Some (String c a, b) | None => None end
  end.

Fixpoint span (p : ascii -> bool) (s : string) : string * string :=
  match s with
  | EmptyString => (EmptyString, EmptyString)
  | String c r => if p c then let (a, b) := span p r in (String c a, b) else (EmptyString, s)
  end.

Fixpoint sdrop (n : nat) (s : string) : string :=
  match n, s with O, _ => s | S k, String _ r => sdrop k r | S _, EmptyString => EmptyString end.

Definition in_range (lo hi : N) (c : ascii) : bool :=
  let n := N_of_ascii c in (N.leb lo n && N.leb n hi)%bool.
Definition is_digit (c : ascii) : bool := in_range 48 57 c.
Definition is_alpha_ (c : ascii) : bool :=
  (in_range 65 90 c || in_range 97 122 c || Ascii.eqb c "_")%bool.           (* [a-zA-Z_] *)
Definition is_word (c : ascii) : bool := (is_alpha_ c || is_digit c)%bool.   (* [a-zA-Z0-9_]; ASCII \w *)

(* the regex  IDENT ws* = ws* (.+) END  with IDENT = [a-zA-Z_][a-zA-Z0-9_]* , applied to a string
   that does not end in whitespace: (identifier, right-hand side) *)
Definition after_eq (rest : string) : option string :=
  match lstrip rest with
  | String "=" r2 => let rhs := lstrip r2 in if is_empty rhs then None else Some rhs
  | _ => None
  end.

Definition ident_eq (s : string) : option (string * string) :=
  match s with
  | String c _ =>
      if is_alpha_ c then
        let (id, rest) := span is_word s in
        match after_eq rest with Some rhs => Some (id, rhs) | None => None end
      else None
  | EmptyString => None
  end.

(* the regex  (field.IDENT | IDENT) ws* = ws* (.+) END : if the text starts with "field." only the
   first alternative can succeed (after "field" comes a dot, which is neither whitespace nor an
   equals sign), otherwise only the second. *)
Definition asg_of (s : string) : option (string * string) :=
  if String.prefix "field." s then
    match ident_eq (sdrop 6 s) with
    | Some (id, rhs) => Some ("field." ++ id, rhs)
    | None => None
    end
  else ident_eq s.

(* key: value   -> (key.strip().lower(), value.strip()) *)
Definition prop_of (s : string) : option (string * string) :=
  match split_at ":" s with
  | Some (k, v) => Some (lower (strip k), strip v)
  | None => None
  end.

(* int(value) for ASCII text: optional sign, digits, single underscores between digits *)
Definition digit_val (c : ascii) : option Z :=
  if is_digit c then Some (Z.of_N (N_of_ascii c) - 48)%Z else None.

Fixpoint digits_acc (acc : Z) (prev_digit : bool) (s : string) : option Z :=
  match s with
  | EmptyString => if prev_digit then Some acc else None
  | String c r =>
      match digit_val c with
      | Some d => digits_acc (acc * 10 + d)%Z true r
      | None => if (Ascii.eqb c "_" && prev_digit)%bool then digits_acc acc false r else None
      end
  end.

Definition parse_int (s : string) : option Z :=
  match s with
  | String "+" r => digits_acc 0%Z false r
  | String "-" r => match digits_acc 0%Z false r with Some z => Some (- z)%Z | None => None end
  | _ => digits_acc 0%Z false s
  end.

(* tags: split on commas at parenthesis depth 0 (the depth may go negative, as in the code) *)
Fixpoint seg (depth : Z) (s : string) : string * list string :=
  match s with
  | EmptyString => (EmptyString, [])
  | String c r =>
      if Ascii.eqb c "(" then let (a, l) := seg (depth + 1)%Z r in (String c a, l)
      else if Ascii.eqb c ")" then let (a, l) := seg (depth - 1)%Z r in (String c a, l)
      else if (Ascii.eqb c "," && Z.eqb depth 0)%bool then let (a, l) := seg depth r in (EmptyString, a :: l)
      else let (a, l) := seg depth r in (String c a, l)
  end.

Fixpoint dedup (l : list string) : list string :=
  match l with [] => [] | x :: r => if mem x r then dedup r else x :: dedup r end.

Definition parse_tags (v : string) : list string :=      (* a Python set: duplicate-free list *)
  let (a, l) := seg 0%Z v in
  dedup (filter (fun t => negb (is_empty t)) (map strip (a :: l))).

(* ------------------------------------------------------------------------------------------ *)
(* lines -> classified lines -> preamble + sections                                             *)

Inductive cline := Skip | Header (name : string) | Content (stripped : string).

Definition first_is (d : ascii) (s : string) : bool :=
  match s with String c _ => Ascii.eqb c d | EmptyString => false end.

(* merchants: everything is decided on line.strip() *)
Definition classify_m (line : string) : cline :=
  let s := strip line in
  match s with
  | EmptyString => Skip
  | String c r =>
      if Ascii.eqb c "#" then Skip
      else if (Ascii.eqb c "[" && ends_with "]" r)%bool then Header (strip (but_last r))
      else Content s
  end.

(* views: comment / blank on the stripped line; SECTION_HEADER = open bracket, one or more
   non-closing-bracket characters, closing bracket, optional whitespace, end -- matched on the RAW
   line (an indented header is not a header); everything else on line.strip() *)
Definition view_header (line : string) : option string :=
  match rstrip line with
  | String "[" t =>
      if ends_with "]" t then
        let inner := but_last t in
        if (negb (is_empty inner) && negb (has_char "]" inner))%bool then Some (strip inner) else None
      else None
  | _ => None
  end.

Definition classify_v (line : string) : cline :=
  let s := strip line in
  if (is_empty s || first_is "#" s)%bool then Skip
  else match view_header line with
       | Some name => Header name
       | None => Content s
       end.

Fixpoint number {A} (n : nat) (l : list A) : list (nat * A) :=
  match l with [] => [] | x :: r => (n, x) :: number (S n) r end.

Definition section := (nat * string * list (nat * string))%type.   (* header line, name, content lines *)

(* right fold: the content lines seen since the last header belong to that header *)
Fixpoint group (toks : list (nat * cline)) : list (nat * string) * list section :=
  match toks with
  | [] => ([], [])
  | (n, t) :: r =>
      let (pre, secs) := group r in
      match t with
      | Skip => (pre, secs)
      | Content s => ((n, s) :: pre, secs)
      | Header name => ([], (n, name, pre) :: secs)
      end
  end.

(* ------------------------------------------------------------------------------------------ *)
(* outcomes                                                                                     *)

Inductive ekind :=
  (* merchants *)
  | EEmptyName | EBadLet | EBadField | EBadPriority | EUnknownProperty | EUnexpected
  | EMissingMatch | ENoCategoryOrTags | EInvalidLet | EInvalidField | EInvalidMatch
  | EOutside | EInvalidTop      (* before the first header: not an assignment / invalid right-hand side *)
  (* views *)
  | VFilterOutside | VDescOutside | VInvalidFilter | VInvalidVar | VUnexpected | VMissingFilter | VDuplicateName.

Inductive res (A : Type) := Ok (a : A) | Err (line : nat) (k : ekind).
Arguments Ok {A} a.
Arguments Err {A} line k.

Definition bind {A B} (r : res A) (f : A -> res B) : res B :=
  match r with Ok a => f a | Err n k => Err n k end.

Fixpoint mapM {A B} (f : A -> res B) (l : list A) : res (list B) :=
  match l with
  | [] => Ok []
  | x :: r => bind (f x) (fun y => bind (mapM f r) (fun ys => Ok (y :: ys)))
  end.

Fixpoint foldM {A S} (f : S -> A -> res S) (l : list A) (s : S) : res S :=
  match l with
  | [] => Ok s
  | x :: r => bind (f s x) (foldM f r)
  end.

Definition is_ok {A} (r : res A) : bool := match r with Ok _ => true | Err _ _ => false end.

(* ------------------------------------------------------------------------------------------ *)
(* merchants (.rules)                                                                           *)

Record rule := {
  r_name : string; r_match : string; r_category : string; r_subcategory : string; r_merchant : string;
  r_tags : list string; r_priority : Z; r_line : nat;
  r_lets : list (string * string); r_fields : dict string }.

Record mfile := { m_rules : list rule; m_vars : dict string; m_transforms : list (string * string) }.

(* the rule_data dict while a section is being read *)
Record prule := {
  p_match : option string; p_category : option string; p_subcategory : option string;
  p_merchant : option string; p_tags : option (list string); p_priority : option Z;
  p_lets : list (string * string); p_fields : dict string }.

Definition prule0 : prule :=
  {| p_match := None; p_category := None; p_subcategory := None; p_merchant := None; p_tags := None;
     p_priority := None; p_lets := []; p_fields := [] |}.

Inductive pkey := KLet | KField | KMatch | KCategory | KSubcategory | KMerchant | KTags | KPriority | KUnknown.

Definition key_of (k : string) : pkey :=
  if String.eqb k "let" then KLet else if String.eqb k "field" then KField
  else if String.eqb k "match" then KMatch else if String.eqb k "category" then KCategory
  else if String.eqb k "subcategory" then KSubcategory else if String.eqb k "merchant" then KMerchant
  else if String.eqb k "tags" then KTags else if String.eqb k "priority" then KPriority else KUnknown.

Definition set_match (pr : prule) v := {| p_match := Some v; p_category := p_category pr; p_subcategory := p_subcategory pr;
  p_merchant := p_merchant pr; p_tags := p_tags pr; p_priority := p_priority pr; p_lets := p_lets pr; p_fields := p_fields pr |}.
Definition set_category (pr : prule) v := {| p_match := p_match pr; p_category := Some v; p_subcategory := p_subcategory pr;
  p_merchant := p_merchant pr; p_tags := p_tags pr; p_priority := p_priority pr; p_lets := p_lets pr; p_fields := p_fields pr |}.
Definition set_subcategory (pr : prule) v := {| p_match := p_match pr; p_category := p_category pr; p_subcategory := Some v;
  p_merchant := p_merchant pr; p_tags := p_tags pr; p_priority := p_priority pr; p_lets := p_lets pr; p_fields := p_fields pr |}.
Definition set_merchant (pr : prule) v := {| p_match := p_match pr; p_category := p_category pr; p_subcategory := p_subcategory pr;
  p_merchant := Some v; p_tags := p_tags pr; p_priority := p_priority pr; p_lets := p_lets pr; p_fields := p_fields pr |}.
Definition set_tags (pr : prule) t := {| p_match := p_match pr; p_category := p_category pr; p_subcategory := p_subcategory pr;
  p_merchant := p_merchant pr; p_tags := Some t; p_priority := p_priority pr; p_lets := p_lets pr; p_fields := p_fields pr |}.
Definition set_priority (pr : prule) z := {| p_match := p_match pr; p_category := p_category pr; p_subcategory := p_subcategory pr;
  p_merchant := p_merchant pr; p_tags := p_tags pr; p_priority := Some z; p_lets := p_lets pr; p_fields := p_fields pr |}.
Definition add_let (pr : prule) (x e : string) := {| p_match := p_match pr; p_category := p_category pr; p_subcategory := p_subcategory pr;
  p_merchant := p_merchant pr; p_tags := p_tags pr; p_priority := p_priority pr; p_lets := (p_lets pr ++ [(x, e)])%list; p_fields := p_fields pr |}.
Definition set_field (pr : prule) (x e : string) := {| p_match := p_match pr; p_category := p_category pr; p_subcategory := p_subcategory pr;
  p_merchant := p_merchant pr; p_tags := p_tags pr; p_priority := p_priority pr; p_lets := p_lets pr; p_fields := dset (p_fields pr) x e |}.

(* one property line of a section: key (already stripped and lower-cased) and stripped value *)
Definition apply_kv (pr : prule) (n : nat) (key : pkey) (v : string) : res prule :=
  match key with
  | KLet => match ident_eq v with Some (id, e) => Ok (add_let pr (lower id) e) | None => Err n EBadLet end
  | KField => match ident_eq v with Some (id, e) => Ok (set_field pr (lower id) e) | None => Err n EBadField end
  | KMatch => Ok (set_match pr v)
  | KCategory => Ok (set_category pr v)
  | KSubcategory => Ok (set_subcategory pr v)
  | KMerchant => Ok (set_merchant pr v)
  | KTags => Ok (set_tags pr (parse_tags v))
  | KPriority => match parse_int v with Some z => Ok (set_priority pr z) | None => Err n EBadPriority end
  | KUnknown => Err n EUnknownProperty
  end.

Definition apply_prop (pr : prule) (ln : nat * string) : res prule :=
  match prop_of (snd ln) with
  | None => Err (fst ln) EUnexpected
  | Some (k, v) => apply_kv pr (fst ln) (key_of k) v
  end.

Definition or_empty (o : option string) : string := match o with Some s => s | None => EmptyString end.

Section WithParser.
  Variable pyparse : string -> bool.     (* ORACLE: expr_parser.parse_expression(e) does not raise *)

  (* _add_rule *)
  Definition finish_rule (n0 : nat) (name : string) (pr : prule) : res rule :=
    match p_match pr with
    | None => Err n0 EMissingMatch
    | Some m =>
        let has_cat := negb (is_empty (or_empty (p_category pr))) in
        let has_tags := match p_tags pr with Some (_ :: _) => true | _ => false end in
        if negb (has_cat || has_tags) then Err n0 ENoCategoryOrTags
        else if negb (forallb (fun b => pyparse (snd b)) (p_lets pr)) then Err n0 EInvalidLet
        else if negb (forallb (fun b => pyparse (snd b)) (p_fields pr)) then Err n0 EInvalidField
        else if negb (pyparse m) then Err n0 EInvalidMatch
        else
          let mer := or_empty (p_merchant pr) in
          Ok {| r_name := name; r_match := m; r_category := or_empty (p_category pr);
                r_subcategory := or_empty (p_subcategory pr);
                r_merchant := if is_empty mer then name else mer;       (* __post_init__ *)
                r_tags := match p_tags pr with Some t => t | None => [] end;
                r_priority := match p_priority pr with Some z => z | None => 50%Z end;
                r_line := n0; r_lets := p_lets pr; r_fields := p_fields pr |}
    end.

  Definition build_rule (sec : section) : res rule :=
    let '(n0, name, props) := sec in
    if is_empty name then Err n0 EEmptyName
    else bind (foldM apply_prop props prule0) (finish_rule n0 name).

  (* lines before the first header: name = expr / field.x = expr, the right-hand side validated like every
     other expression; anything else is an error at that line (since the fixes "content before the first
     [Rule] header is an error" and "top-level expressions are validated") *)
  Definition pre_step (st : dict string * list (string * string)) (ln : nat * string)
    : res (dict string * list (string * string)) :=
    let (vars, tr) := st in
    match asg_of (snd ln) with
    | Some (lhs, rhs) =>
        if pyparse rhs then
          if String.prefix "field." lhs then Ok (vars, (tr ++ [(lhs, rhs)])%list)
          else Ok (dset vars (lower lhs) rhs, tr)
        else Err (fst ln) EInvalidTop
    | None => Err (fst ln) EOutside
    end.

  Definition parse_m_numbered (nl : list (nat * string)) : res mfile :=
    let (pre, secs) := group (map (fun p => (fst p, classify_m (snd p))) nl) in
    bind (foldM pre_step pre ([], [])) (fun vt =>
      bind (mapM build_rule secs) (fun rules =>
        Ok {| m_rules := rules; m_vars := fst vt; m_transforms := snd vt |})).

  Definition parse_merchants (lines : list string) : res mfile := parse_m_numbered (number 1 lines).

  (* ---------------------------------------------------------------------------------------- *)
  (* views                                                                                      *)

  Record view := { v_name : string; v_filter : string; v_desc : option string;
                   v_vars : dict string; v_line : nat }.
  Record vfile := { f_globals : dict string; f_views : list view }.

  Inductive vitem := IFilter (e : string) | IDesc (d : string) | IVar (name e : string) | IOther.

  (* FILTER_DECL, DESCRIPTION_DECL, VARIABLE_DECL (word+ ws* = ws* rest) on the stripped line, in that order *)
  Definition after_prefix (p s : string) : option string :=
    if String.prefix p s then
      let v := strip (sdrop (String.length p) s) in if is_empty v then None else Some v
    else None.

  Definition var_decl (s : string) : option (string * string) :=
    let (id, rest) := span is_word s in
    if is_empty id then None
    else match after_eq rest with Some rhs => Some (lower id, strip rhs) | None => None end.   (* names are stored lower-cased *)

  Definition vitem_of (s : string) : vitem :=
    match after_prefix "filter:" s with
    | Some e => IFilter e
    | None =>
        match after_prefix "description:" s with
        | Some d => IDesc d
        | None => match var_decl s with Some (x, e) => IVar x e | None => IOther end
        end
    end.

  Record pview := { q_filter : option string; q_desc : option string; q_vars : dict string }.
  Definition pview0 := {| q_filter := None; q_desc := None; q_vars := [] |}.

  Definition apply_vline (pv : pview) (ln : nat * string) : res pview :=
    let (n, s) := ln in
    match vitem_of s with
    | IFilter e =>
        if pyparse e then Ok {| q_filter := Some e; q_desc := q_desc pv; q_vars := q_vars pv |}
        else Err n VInvalidFilter
    | IDesc d => Ok {| q_filter := q_filter pv; q_desc := Some d; q_vars := q_vars pv |}
    | IVar x e =>
        if pyparse e then Ok {| q_filter := q_filter pv; q_desc := q_desc pv; q_vars := dset (q_vars pv) x e |}
        else Err n VInvalidVar
    | IOther => Err n VUnexpected
    end.

  Definition build_view (sec : section) : res view :=
    let '(n0, name, lines) := sec in
    bind (foldM apply_vline lines pview0) (fun pv =>
      match q_filter pv with
      | Some f => Ok {| v_name := name; v_filter := f; v_desc := q_desc pv; v_vars := q_vars pv; v_line := n0 |}
      | None => Err n0 VMissingFilter
      end).

  Definition vpre_step (g : dict string) (ln : nat * string) : res (dict string) :=
    let (n, s) := ln in
    match vitem_of s with
    | IFilter _ => Err n VFilterOutside
    | IDesc _ => Err n VDescOutside
    | IVar x e => if pyparse e then Ok (dset g x e) else Err n VInvalidVar
    | IOther => Err n VUnexpected
    end.

  (* every section together with the names of the sections before it *)
  Fixpoint with_seen (seen : list string) (secs : list section) : list (list string * section) :=
    match secs with
    | [] => []
    | sec :: r => (seen, sec) :: with_seen (seen ++ [snd (fst sec)]) r
    end.

  (* a header whose (stripped) name exactly equals that of an earlier section is rejected at its own line;
     the check comes after the completeness check of the previous section and before the section's lines *)
  Definition build_view_d (p : list string * section) : res view :=
    if mem (snd (fst (snd p))) (fst p) then Err (fst (fst (snd p))) VDuplicateName else build_view (snd p).

  Definition parse_v_numbered (nl : list (nat * string)) : res vfile :=
    let (pre, secs) := group (map (fun p => (fst p, classify_v (snd p))) nl) in
    bind (foldM vpre_step pre []) (fun g =>
      bind (mapM build_view_d (with_seen [] secs)) (fun vs => Ok {| f_globals := g; f_views := vs |})).

  Definition parse_views (lines : list string) : res vfile := parse_v_numbered (number 1 lines).

  (* ---------------------------------------------------------------------------------------- *)
  (* command level: merchant_utils.get_all_rules / get_transforms, config_loader (views)         *)

  (* What the caller of a loader can observe: the value returned, and whether an error message naming a line
     reached the user (stderr: merchant_utils._report_rules_load_error; for views the warning entry that
     `tally up` prints). *)
  Record load_result (A : Type) := { lr_value : A; lr_reported : option nat }.
  Arguments lr_value {A} _.
  Arguments lr_reported {A} _.

  (* get_all_rules for a path ending in .rules:
       try:    engine = load_merchants_file(path); ...; return rules
       except Exception as e: _report_rules_load_error(path, e)    # then fall through
       user_rules = load_merchant_rules(path)                        # the same file read as CSV
     [csv_rules] stands for load_merchant_rules (csv.DictReader; outside this model). *)
  Variable csv_rules : list string -> list string.

  Definition get_all_rules (lines : list string) : load_result (list string) :=
    match parse_merchants lines with
    | Ok f => {| lr_value := map r_name (m_rules f); lr_reported := None |}
    | Err n _ => {| lr_value := csv_rules lines; lr_reported := Some n |}
    end.

  (* get_transforms: try … return engine.transforms  except Exception as e: report; return [] *)
  Definition get_transforms (lines : list string) : load_result (list (string * string)) :=
    match parse_merchants lines with
    | Ok f => {| lr_value := m_transforms f; lr_reported := None |}
    | Err n _ => {| lr_value := []; lr_reported := Some n |}
    end.

  (* load_config, views branch: except SectionParseError as e: warnings.append({'type': 'error', …}) *)
  Definition load_views (lines : list string) : load_result (list string) :=
    match parse_views lines with
    | Ok f => {| lr_value := map v_name (f_views f); lr_reported := None |}
    | Err n _ => {| lr_value := []; lr_reported := Some n |}
    end.
End WithParser.

Arguments lr_value {A} _.
Arguments lr_reported {A} _.

(* ------------------------------------------------------------------------------------------ *)
(* The engine as the code runs it: MerchantEngine(match_mode) carries its mode, parse() walks the lines one
   by one with `current_rule` / `rule_start_line`, and _add_rule APPENDS the finished rule to self.rules
   whatever the mode (the mode only governs match()).  This line-by-line machine is proved equal to the
   grouped reading above (Proofs.v), so every theorem about parse_merchants holds of it, in both modes. *)
Inductive match_mode := FirstMatch | MostSpecific.

Record engine := { e_mode : match_mode; e_rules : list rule; e_vars : dict string; e_tr : list (string * string) }.

Definition fresh_engine (mode : match_mode) : engine :=         (* parse(): self.rules = [] … *)
  {| e_mode := mode; e_rules := []; e_vars := []; e_tr := [] |}.

Definition add_rule (e : engine) (r : rule) : engine :=           (* self.rules.append(rule) *)
  {| e_mode := e_mode e; e_rules := (e_rules e ++ [r])%list; e_vars := e_vars e; e_tr := e_tr e |}.

Definition set_top (e : engine) (vt : dict string * list (string * string)) : engine :=
  {| e_mode := e_mode e; e_rules := e_rules e; e_vars := fst vt; e_tr := snd vt |}.

Record pstate := { p_eng : engine; p_cur : option (nat * string * prule) }.   (* current_rule, rule_start_line *)

Definition mfile_of (e : engine) : mfile := {| m_rules := e_rules e; m_vars := e_vars e; m_transforms := e_tr e |}.

Section EngineLoop.
  Variable pyparse : string -> bool.

  (* if current_rule: self._add_rule(current_rule, rule_start_line) *)
  Definition close_rule (st : pstate) : res engine :=
    match p_cur st with
    | None => Ok (p_eng st)
    | Some (n0, name, pr) => bind (finish_rule pyparse n0 name pr) (fun r => Ok (add_rule (p_eng st) r))
    end.

  Definition seq_step (st : pstate) (t : nat * cline) : res pstate :=
    match snd t with
    | Skip => Ok st
    | Header name =>
        bind (close_rule st) (fun e =>
          if is_empty name then Err (fst t) EEmptyName
          else Ok {| p_eng := e; p_cur := Some (fst t, name, prule0) |})
    | Content s =>
        match p_cur st with
        | None =>
            bind (pre_step pyparse (e_vars (p_eng st), e_tr (p_eng st)) (fst t, s)) (fun vt =>
              Ok {| p_eng := set_top (p_eng st) vt; p_cur := None |})
        | Some (n0, name, pr) =>
            bind (apply_prop pr (fst t, s)) (fun pr' => Ok {| p_eng := p_eng st; p_cur := Some (n0, name, pr') |})
        end
    end.

  Definition run_engine (st : pstate) (toks : list (nat * cline)) : res engine :=
    bind (foldM seq_step toks st) close_rule.

  Definition parse_engine (mode : match_mode) (lines : list string) : res engine :=
    run_engine {| p_eng := fresh_engine mode; p_cur := None |}
               (map (fun p => (fst p, classify_m (snd p))) (number 1 lines)).
End EngineLoop.

(* ------------------------------------------------------------------------------------------ *)
(* The report memory of merchant_utils (_reported_load_errors): a process-wide set of (path, message) pairs.
   A loader call on a path either loads (no message) or fails with an error message; the message is shown
   iff the pair is not in the set yet; clear_engine_cache() empties the set.  Paths and messages are
   abstract (any type with a decidable equality): the theorems hold for every history of calls. *)
Section ReportMemory.
  Variables (P E : Type) (peq : P -> P -> bool) (eeq : E -> E -> bool).

  Inductive call := Load (path : P) (outcome : option E) | ClearCache.

  Definition known (p : P) (e : E) (shown : list (P * E)) : bool :=
    existsb (fun q => (peq p (fst q) && eeq e (snd q))%bool) shown.

  (* one call: new memory, and whether a message reached the user *)
  Definition report_step (shown : list (P * E)) (c : call) : list (P * E) * bool :=
    match c with
    | ClearCache => ([], false)
    | Load p None => (shown, false)
    | Load p (Some e) => if known p e shown then (shown, false) else ((p, e) :: shown, true)
    end.

  Fixpoint run_calls (shown : list (P * E)) (cs : list call) : list bool :=
    match cs with
    | [] => []
    | c :: r => let (sh, b) := report_step shown c in b :: run_calls sh r
    end.
End ReportMemory.
Arguments Load {P E} path outcome.
Arguments ClearCache {P E}.
