(* Gen/C18Keywords.v — REGENERATED on every run by tools/c18_tables.py from
   /repo/src/tally/format_parser.py and /repo/src/tally/parsers.py. Do not edit. *)
From Coq Require Import String List NArith Ascii.
Import ListNotations.
Open Scope string_scope.
Definition sbytes (l : list N) : string := fold_right (fun n s => String (ascii_of_N n) s) EmptyString l.

(* format_parser.RESERVED_NAMES (sorted) *)
Definition reserved_names : list string := ["*"; "_"; "amount"; "date"; "description"; "field"; "location"].
(* parse_format_string: date_format default *)
Definition default_date_format : string := "%m/%d/%Y".
(* parsers.auto_detect_csv_format keyword lists, source order *)
Definition date_patterns : list string := ["date"; "trans date"; "transaction date"; "posting date"; "trans_date"].
Definition desc_patterns : list string := ["description"; "merchant"; "payee"; "memo"; "name"; "merchant name"].
Definition amount_patterns : list string := ["amount"; "debit"; "charge"; "transaction amount"; "payment"].
Definition location_patterns : list string := ["location"; "city"; "state"; "city/state"; "region"].
(* FormatSpec(date_format=...) returned by auto_detect_csv_format *)
Definition detect_date_format : string := "%m/%d/%Y".
