(* C04/Proofs.v — lemmas behind C04/Props.v: the laws of tally's rule-expression language over the
   evaluator model Expr/Eval.v, for arbitrary sub-expressions, environments, scopes and outcomes
   (errors and := effects included). *)
From Coq Require Import String Ascii List Bool ZArith QArith Lia.
From Tally Require Import Lib.Str Expr.StrOps Expr.Date Expr.Syntax Expr.Funcs Expr.Eval.
Import ListNotations.
Open Scope string_scope.

Lemma append_assoc_str (a b c : string) : ((a ++ b) ++ c)%string = (a ++ (b ++ c))%string.
Proof. induction a as [|x a IH]; cbn [append]; [reflexivity|]. now rewrite IH. Qed.

(* decide the closed string tests of a call's function name *)
Ltac name_tests :=
  repeat match goal with
         | |- context [String.eqb (lower ?s) ?t] =>
             let b := eval vm_compute in (String.eqb (lower s) t) in
             change (String.eqb (lower s) t) with b
         end; cbv iota.

Section Laws.
  Variable E : env.
  Notation ev := (eval E).

  (* ---------- the per-node wrapper ---------- *)
  Lemma wrap_idem o : wrap (wrap o) = wrap o.
  Proof. destruct o; reflexivity. Qed.

  Lemma eval_wrapped e sc : wrap (fst (ev e sc)) = fst (ev e sc).
  Proof. destruct e; cbn [eval fst]; apply wrap_idem. Qed.

  Lemma eval_not_pyerr e sc k : fst (ev e sc) <> PyErr k.
  Proof. intros H. pose proof (eval_wrapped e sc) as W. rewrite H in W. discriminate. Qed.

  Definition no_pyerr (r : res) : Prop := wrap (fst r) = fst r.
  Lemma rewrap (r : res) : no_pyerr r -> (wrap (fst r), snd r) = r.
  Proof. destruct r as [o s]. unfold no_pyerr. cbn. intros ->. reflexivity. Qed.

  (* ---------- and / or ---------- *)
  Lemma boolop_no_pyerr op l sc : no_pyerr (eval_boolop ev op l sc).
  Proof.
    revert sc. induction l as [|x r IH]; intros sc; cbn [eval_boolop].
    - destruct op; reflexivity.
    - destruct (ev x sc) as [o sc1] eqn:Ex.
      assert (W : wrap o = o) by (pose proof (eval_wrapped x sc) as W; rewrite Ex in W; exact W).
      destruct o; try exact W.
      destruct op; destruct (truthy v); try apply IH; reflexivity.
  Qed.

  Lemma eval_boolop_eq op l sc : ev (EBoolOp op l) sc = eval_boolop ev op l sc.
  Proof. cbn [eval]. apply rewrap, boolop_no_pyerr. Qed.

  (* and/or are Boolean, evaluated left to right, and stop at the first deciding operand *)
  Lemma and_or_short_circuit :
    (forall sc, ev (EBoolOp And []) sc = (Val (VBool true), sc)) /\
    (forall sc, ev (EBoolOp Or []) sc = (Val (VBool false), sc)) /\
    (forall a rest sc, ev (EBoolOp And (a :: rest)) sc =
       match ev a sc with
       | (Val v, sc1) => if truthy v then ev (EBoolOp And rest) sc1 else (Val (VBool false), sc1)
       | bad => bad
       end) /\
    (forall a rest sc, ev (EBoolOp Or (a :: rest)) sc =
       match ev a sc with
       | (Val v, sc1) => if truthy v then (Val (VBool true), sc1) else ev (EBoolOp Or rest) sc1
       | bad => bad
       end).
  Proof.
    repeat split; intros; rewrite ?eval_boolop_eq; try reflexivity.
    - cbn [eval_boolop]. destruct (ev a sc) as [[v| |k|u] sc1]; try reflexivity.
      destruct (truthy v); [now rewrite eval_boolop_eq|reflexivity].
    - cbn [eval_boolop]. destruct (ev a sc) as [[v| |k|u] sc1]; try reflexivity.
      destruct (truthy v); [reflexivity|now rewrite eval_boolop_eq].
  Qed.

  Lemma boolop_result_boolean op l sc v sc' : ev (EBoolOp op l) sc = (Val v, sc') -> exists b, v = VBool b.
  Proof.
    rewrite eval_boolop_eq. revert sc. induction l as [|x r IH]; intros sc; cbn [eval_boolop].
    - destruct op; intros H; inversion H; eauto.
    - destruct (ev x sc) as [[w| |k|u] sc1]; try discriminate.
      destruct op; destruct (truthy w); try apply IH; intros H; inversion H; eauto.
  Qed.

  (* ---------- not ---------- *)
  Lemma eval_not a sc :
    ev (EUnaryOp Not a) sc = match ev a sc with (Val v, sc1) => (Val (VBool (negb (truthy v))), sc1) | bad => bad end.
  Proof.
    cbn [eval]. destruct (ev a sc) as [o sc1] eqn:Ea.
    assert (W : wrap o = o) by (pose proof (eval_wrapped a sc) as W; rewrite Ea in W; exact W).
    destruct o; cbn [fst snd unop_apply vbool wrap] in *; try rewrite W; reflexivity.
  Qed.

  Definition to_bool (r : res) : res := match r with (Val v, sc) => (Val (VBool (truthy v)), sc) | bad => bad end.

  Lemma double_negation a sc : ev (EUnaryOp Not (EUnaryOp Not a)) sc = to_bool (ev a sc).
  Proof.
    rewrite eval_not, eval_not. destruct (ev a sc) as [[v| |k|u] sc1]; cbn [to_bool]; try reflexivity.
    cbn [truthy]. now rewrite negb_involutive.
  Qed.

  Lemma double_negation_boolean a sc b sc' :
    ev a sc = (Val (VBool b), sc') -> ev (EUnaryOp Not (EUnaryOp Not a)) sc = ev a sc.
  Proof. intros H. rewrite double_negation, H. reflexivity. Qed.

  (* ---------- De Morgan, n-ary ---------- *)
  Lemma de_morgan_and l sc :
    ev (EUnaryOp Not (EBoolOp And l)) sc = ev (EBoolOp Or (map (EUnaryOp Not) l)) sc.
  Proof.
    rewrite eval_not, !eval_boolop_eq. revert sc. induction l as [|x r IH]; intros sc; cbn [eval_boolop map].
    - reflexivity.
    - rewrite eval_not. destruct (ev x sc) as [[v| |k|u] sc1]; try reflexivity.
      cbn [truthy]. destruct (truthy v); cbn [negb]; [apply IH|reflexivity].
  Qed.

  Lemma de_morgan_or l sc :
    ev (EUnaryOp Not (EBoolOp Or l)) sc = ev (EBoolOp And (map (EUnaryOp Not) l)) sc.
  Proof.
    rewrite eval_not, !eval_boolop_eq. revert sc. induction l as [|x r IH]; intros sc; cbn [eval_boolop map].
    - reflexivity.
    - rewrite eval_not. destruct (ev x sc) as [[v| |k|u] sc1]; try reflexivity.
      cbn [truthy]. destruct (truthy v); cbn [negb]; [reflexivity|apply IH].
  Qed.

  (* ---------- swapping operands that succeed and do not bind ---------- *)
  Lemma swap_pure_operands op a b sc va vb :
    ev a sc = (Val va, sc) -> ev b sc = (Val vb, sc) ->
    ev (EBoolOp op [a; b]) sc = ev (EBoolOp op [b; a]) sc /\
    ev (EBoolOp op [a; b]) sc =
      (Val (VBool (match op with And => truthy va && truthy vb | Or => truthy va || truthy vb end)), sc).
  Proof.
    intros Ha Hb. rewrite !eval_boolop_eq. cbn [eval_boolop]. rewrite Ha, Hb.
    destruct op; destruct (truthy va) eqn:Ta; destruct (truthy vb) eqn:Tb; rewrite ?Ha, ?Hb, ?Ta, ?Tb; split; reflexivity.
  Qed.

  (* ---------- comparisons ---------- *)
  Lemma cmp_apply_shape op l r : match cmp_apply op l r with Val (VBool _) | ExprErr | PyErr _ | Unmodelled _ => True | _ => False end.
  Proof.
    unfold cmp_apply. destruct (has_gen l || has_gen r); [exact I|].
    destruct op; try exact I.
    - destruct l; try exact I; destruct r; exact I.
    - destruct l; try exact I; destruct r; exact I.
    - destruct (py_order l r); exact I.
    - destruct (py_order l r); exact I.
    - destruct (py_order l r); exact I.
    - destruct (py_order l r); exact I.
    - unfold py_in. destruct r; try exact I; destruct l; exact I.
    - unfold neg_outcome, py_in. destruct r; try exact I; destruct l; exact I.
  Qed.

  Lemma compare_no_pyerr_or_wrapped rest lv sc :
    wrap (fst (eval_compare ev rest lv sc)) =
    fst (let r := eval_compare ev rest lv sc in (wrap (fst r), snd r)).
  Proof. reflexivity. Qed.

  (* evaluation of a comparison node, stated without the helper *)
  Lemma eval_compare_nil a sc :
    ev (ECompare a []) sc = match ev a sc with (Val _, sc1) => (Val (VBool true), sc1) | bad => bad end.
  Proof.
    cbn [eval]. destruct (ev a sc) as [o sc1] eqn:Ea.
    assert (W : wrap o = o) by (pose proof (eval_wrapped a sc) as W; rewrite Ea in W; exact W).
    destruct o; cbn [fst snd eval_compare wrap] in *; try rewrite W; reflexivity.
  Qed.

  (* a single link *)
  Lemma eval_compare_one a op b sc :
    ev (ECompare a [(op, b)]) sc =
    match ev a sc with
    | (Val va, sc1) =>
        match ev b sc1 with
        | (Val vb, sc2) =>
            match compare_link op va vb with
            | Val v => (Val (VBool (truthy v)), sc2)
            | o => (wrap o, sc2)
            end
        | bad => bad
        end
    | bad => bad
    end.
  Proof.
    cbn [eval]. destruct (ev a sc) as [oa sc1] eqn:Ea.
    assert (Wa : wrap oa = oa) by (pose proof (eval_wrapped a sc) as W; rewrite Ea in W; exact W).
    destruct oa; cbn [fst snd wrap] in *; try (rewrite ?Wa; reflexivity).
    cbn [eval_compare]. destruct (ev b sc1) as [ob sc2] eqn:Eb.
    assert (Wb : wrap ob = ob) by (pose proof (eval_wrapped b sc1) as W; rewrite Eb in W; exact W).
    destruct ob; cbn [fst snd wrap] in *; try (rewrite ?Wb; reflexivity).
    destruct (compare_link op v v0) as [w| |k|u]; cbn [fst snd wrap]; try reflexivity.
    destruct (truthy w); reflexivity.
  Qed.

  (* two links: the second link starts from b's value as written *)
  Lemma eval_compare_two a op1 b op2 c sc :
    ev (ECompare a [(op1, b); (op2, c)]) sc =
    match ev a sc with
    | (Val va, sc1) =>
        match ev b sc1 with
        | (Val vb, sc2) =>
            match compare_link op1 va vb with
            | Val v =>
                if truthy v then
                  match ev c sc2 with
                  | (Val vc, sc3) =>
                      match compare_link op2 vb vc with
                      | Val w => (Val (VBool (truthy w)), sc3)
                      | o => (wrap o, sc3)
                      end
                  | bad => bad
                  end
                else (Val (VBool false), sc2)
            | o => (wrap o, sc2)
            end
        | bad => bad
        end
    | bad => bad
    end.
  Proof.
    cbn [eval]. destruct (ev a sc) as [oa sc1] eqn:Ea.
    assert (Wa : wrap oa = oa) by (pose proof (eval_wrapped a sc) as W; rewrite Ea in W; exact W).
    destruct oa; cbn [fst snd wrap] in *; try (rewrite ?Wa; reflexivity).
    cbn [eval_compare]. destruct (ev b sc1) as [ob sc2] eqn:Eb.
    assert (Wb : wrap ob = ob) by (pose proof (eval_wrapped b sc1) as W; rewrite Eb in W; exact W).
    destruct ob; cbn [fst snd wrap] in *; try (rewrite ?Wb; reflexivity).
    destruct (compare_link op1 v v0) as [w| |k|u]; cbn [fst snd wrap]; try reflexivity.
    destruct (truthy w); [|reflexivity].
    destruct (ev c sc2) as [oc sc3] eqn:Ec.
    assert (Wc : wrap oc = oc) by (pose proof (eval_wrapped c sc2) as W; rewrite Ec in W; exact W).
    destruct oc; cbn [fst snd wrap] in *; try (rewrite ?Wc; reflexivity).
    destruct (compare_link op2 v0 v1) as [w2| |k|u]; cbn [fst snd wrap]; try reflexivity.
    destruct (truthy w2); reflexivity.
  Qed.

  (* a op1 b op2 c  ==  (a op1 b) and (b op2 c), whenever evaluating b leaves the scope as it finds it
     (b is evaluated twice on the right-hand side; it may fail — both sides then fail alike) *)
  Lemma chain_is_conjunction a op1 b op2 c sc :
    (forall va sc1, ev a sc = (Val va, sc1) -> exists ob, ev b sc1 = (ob, sc1)) ->
    ev (ECompare a [(op1, b); (op2, c)]) sc =
    ev (EBoolOp And [ECompare a [(op1, b)]; ECompare b [(op2, c)]]) sc.
  Proof.
    intros Hpure.
    rewrite eval_compare_two, eval_boolop_eq. cbn [eval_boolop]. rewrite !eval_compare_one.
    destruct (ev a sc) as [oa sc1] eqn:Ea.
    destruct oa as [va| |k|u]; try reflexivity.
    destruct (Hpure va sc1 eq_refl) as [ob Eb]. rewrite Eb.
    destruct ob as [vb| |k|u]; try reflexivity.
    destruct (compare_link op1 va vb) as [v1| |k|u] eqn:L1; try reflexivity.
    cbn [truthy]. destruct (truthy v1); [|reflexivity].
    cbn [truthy]. rewrite eval_compare_one, Eb.
    destruct (ev c sc1) as [oc sc3]. destruct oc as [vc| |k|u]; try reflexivity.
    destruct (compare_link op2 vb vc) as [v2| |k|u]; cbn [wrap]; try reflexivity.
    cbn [truthy]. destruct (truthy v2); reflexivity.
  Qed.

  (* ---------- string ==, !=, in, not in ignore ASCII letter case ---------- *)
  Definition ci_equal (a b : string) : Prop := lower a = lower b.

  Lemma str_eq_ci a b :
    cmp_apply Eq (VStr a) (VStr b) = Val (VBool (String.eqb (lower a) (lower b))) /\
    cmp_apply NotEq (VStr a) (VStr b) = Val (VBool (negb (String.eqb (lower a) (lower b)))).
  Proof. split; reflexivity. Qed.

  Lemma str_in_ci a b :
    cmp_apply In (VStr a) (VStr b) = Val (VBool (is_infix (upper a) (upper b))) /\
    cmp_apply NotIn (VStr a) (VStr b) = Val (VBool (negb (is_infix (upper a) (upper b)))).
  Proof. split; reflexivity. Qed.

  Lemma str_cmp_case_irrelevant op a a' b b' :
    ci_equal a a' -> ci_equal b b' -> List.In op [Eq; NotEq; In; NotIn] ->
    cmp_apply op (VStr a) (VStr b) = cmp_apply op (VStr a') (VStr b').
  Proof.
    unfold ci_equal. intros Ha Hb Hop.
    assert (Ua : upper a = upper a') by (apply upper_eq_iff_lower_eq; exact Ha).
    assert (Ub : upper b = upper b') by (apply upper_eq_iff_lower_eq; exact Hb).
    cbn in Hop. destruct Hop as [<-|[<-|[<-|[<-|[]]]]]; cbn [cmp_apply has_gen orb py_in neg_outcome vbool];
      rewrite ?Ha, ?Hb, ?Ua, ?Ub; reflexivity.
  Qed.

  (* the comparison node on two sub-expressions that evaluate to strings *)
  Lemma eval_str_compare op x y sc a b sc1 sc2 :
    ev x sc = (Val (VStr a), sc1) -> ev y sc1 = (Val (VStr b), sc2) ->
    ev (ECompare x [(op, y)]) sc =
    (match cmp_apply op (VStr a) (VStr b) with Val v => Val (VBool (truthy v)) | o => wrap o end, sc2).
  Proof.
    intros Hx Hy. rewrite eval_compare_one, Hx, Hy. cbn [compare_link coerce_dates].
    destruct (cmp_apply op (VStr a) (VStr b)); reflexivity.
  Qed.

  (* ---------- calls of the match / extraction / transform functions ---------- *)
  Lemma eval_list_no_pyerr l sc o sc1 : eval_list ev l sc = (inr o, sc1) -> wrap o = o.
  Proof.
    revert sc. induction l as [|x r IH]; intros sc; cbn [eval_list]; [discriminate|].
    destruct (ev x sc) as [ox scx] eqn:Ex.
    assert (W : wrap ox = ox) by (pose proof (eval_wrapped x sc) as W; rewrite Ex in W; exact W).
    destruct ox; try (intros H; inversion H; subst; exact W).
    destruct (eval_list ev r scx) as [[vs|o'] sc'] eqn:Er; intros H; inversion H; subst.
    eapply IH; eauto.
  Qed.

  Definition special_names : list string := ["exists"; "len"; "sum"; "any"; "all"; "next"; "min"; "max"].

  Lemma eval_ctx_call id args kws sc fn :
    mem (lower id) special_names = false -> ctx_function E (lower id) = Some fn ->
    ev (ECall (EName id) args kws) sc =
    match eval_list ev args sc with
    | (inl vs, sc1) => (wrap (fn vs), sc1)
    | (inr o, sc1) => (o, sc1)
    end.
  Proof.
    intros Hs Hf. cbn [eval eval_call].
    cbn [mem special_names] in Hs.
    repeat match type of Hs with
           | (if String.eqb ?a ?b then true else _) = false => destruct (String.eqb a b) eqn:?; [discriminate|]
           end.
    rewrite Hf.
    destruct (eval_list ev args sc) as [[vs|o] sc1] eqn:El; cbn [fst snd]; [reflexivity|].
    now rewrite (eval_list_no_pyerr _ _ _ _ El).
  Qed.

  Definition strc (s : string) : pyast := EConst (CStr s).
  Lemma eval_list_strc ps sc : eval_list ev (map strc ps) sc = (inl (map VStr ps), sc).
  Proof. induction ps as [|p r IH]; cbn [map eval_list]; [reflexivity|]. cbn [eval strc const_outcome wrap fst snd]. now rewrite IH. Qed.

  Let desc_s := t_description (e_txn E).

  (* contains: case-insensitive substring of the description, or of the given text *)
  Lemma contains_spec p t :
    fn_contains E [VStr p] = Val (VBool (is_infix (upper p) (upper desc_s))) /\
    fn_contains E [VStr t; VStr p] = Val (VBool (is_infix (upper p) (upper t))) /\
    (is_infix (upper p) (upper t) = true <-> exists pre post, upper t = pre ++ upper p ++ post).
  Proof. repeat split; try reflexivity; apply is_infix_spec. Qed.

  Lemma startswith_spec p t :
    fn_startswith E [VStr p] = Val (VBool (is_prefix (upper p) (upper desc_s))) /\
    fn_startswith E [VStr t; VStr p] = Val (VBool (is_prefix (upper p) (upper t))) /\
    (is_prefix (upper p) (upper t) = true <-> exists post, upper t = upper p ++ post).
  Proof. repeat split; try reflexivity; apply is_prefix_spec. Qed.

  Lemma fn_anyof_strs ps :
    fn_anyof E (map VStr ps) = Val (VBool (existsb (fun p => is_infix (upper p) (upper desc_s)) ps)).
  Proof.
    induction ps as [|p r IH]; cbn [map fn_anyof existsb]; [reflexivity|].
    fold desc_s. destruct (is_infix (upper p) (upper desc_s)); [reflexivity|exact IH].
  Qed.

  Lemma eval_contains_const id p sc :
    lower id = "contains" ->
    ev (ECall (EName id) [strc p] []) sc = (Val (VBool (is_infix (upper p) (upper desc_s))), sc).
  Proof.
    intros Hid. rewrite (eval_ctx_call id _ _ sc (fn_contains E)); rewrite ?Hid; try reflexivity.
  Qed.

  (* anyof("a", "b", ...) is contains("a") or contains("b") or ... *)
  Lemma anyof_is_or_of_contains ps sc :
    ev (ECall (EName "anyof") (map strc ps) []) sc =
    ev (EBoolOp Or (map (fun p => ECall (EName "contains") [strc p] []) ps)) sc.
  Proof.
    rewrite (eval_ctx_call "anyof" _ _ sc (fn_anyof E)) by reflexivity.
    rewrite eval_list_strc, fn_anyof_strs, eval_boolop_eq. cbn [wrap].
    induction ps as [|p r IH]; cbn [map eval_boolop existsb]; [reflexivity|].
    rewrite eval_contains_const by reflexivity. cbn [truthy].
    destruct (is_infix (upper p) (upper desc_s)); [reflexivity|exact IH].
  Qed.

  (* normalized: substring after upper-casing and dropping spaces, hyphens, apostrophes, periods, asterisks *)
  Lemma normalized_spec p t :
    fn_normalized E [VStr p] = Val (VBool (is_infix (normalize p) (normalize desc_s))) /\
    fn_normalized E [VStr t; VStr p] = Val (VBool (is_infix (normalize p) (normalize t))).
  Proof. split; reflexivity. Qed.

  Lemma normalize_case a a' : ci_equal a a' -> normalize a = normalize a'.
  Proof. unfold ci_equal, normalize. intros H. apply upper_eq_iff_lower_eq in H. now rewrite H. Qed.

  (* a blank / hyphen / apostrophe / period / asterisk code point anywhere in the text is ignored, and nothing else is *)
  Lemma normalize_drops s l1 c l2 :
    cps (upper s) = (l1 ++ c :: l2)%list -> norm_drop c = true ->
    normalize s = sconcat (filter (fun x => negb (norm_drop x)) (l1 ++ l2)).
  Proof. intros H Hc. unfold normalize. rewrite H, !filter_app. cbn [filter]. now rewrite Hc. Qed.

  Lemma normalize_keeps s l1 c l2 :
    cps (upper s) = (l1 ++ c :: l2)%list -> norm_drop c = false ->
    normalize s = (sconcat (filter (fun x => negb (norm_drop x)) l1) ++ c ++ sconcat (filter (fun x => negb (norm_drop x)) l2))%string.
  Proof.
    intros H Hc. unfold normalize. rewrite H, filter_app. cbn [filter]. rewrite Hc. cbn [negb].
    unfold sconcat. rewrite fold_right_app. cbn [fold_right].
    generalize (filter (fun x => negb (norm_drop x)) l1). intros l. induction l as [|x r IH]; cbn [fold_right]; [reflexivity|].
    rewrite IH. now rewrite <- append_assoc_str.
  Qed.

  (* regex: whatever re.search(pattern, text, IGNORECASE) says; an invalid pattern is an ExpressionError *)
  Lemma regex_spec p t :
    fn_regex E [VStr t; VStr p] =
    match re_search E p t with
    | None => Unmodelled "regex-oracle-miss"
    | Some ReBad => ExprErr
    | Some ReNoMatch => Val (VBool false)
    | Some (ReMatch _ _) => Val (VBool true)
    end /\
    fn_regex E [VStr p] = fn_regex E [VStr desc_s; VStr p].
  Proof. split; reflexivity. Qed.

  (* ---------- the case of ASCII text is irrelevant to the case-insensitive functions ---------- *)
  Lemma ci_upper a a' : ci_equal a a' -> upper a = upper a'.
  Proof. apply upper_eq_iff_lower_eq. Qed.

  Lemma text_case_irrelevant p p' t t' :
    ci_equal p p' -> ci_equal t t' ->
    fn_contains E [VStr t; VStr p] = fn_contains E [VStr t'; VStr p'] /\
    fn_startswith E [VStr t; VStr p] = fn_startswith E [VStr t'; VStr p'] /\
    fn_normalized E [VStr t; VStr p] = fn_normalized E [VStr t'; VStr p'] /\
    fn_contains E [VStr p] = fn_contains E [VStr p'] /\
    fn_startswith E [VStr p] = fn_startswith E [VStr p'] /\
    fn_normalized E [VStr p] = fn_normalized E [VStr p'] /\
    fn_anyof E [VStr p] = fn_anyof E [VStr p'].
  Proof.
    intros Hp Ht. pose proof (ci_upper _ _ Hp) as Up. pose proof (ci_upper _ _ Ht) as Ut.
    pose proof (normalize_case _ _ Hp) as Np. pose proof (normalize_case _ _ Ht) as Nt.
    cbn [fn_contains fn_startswith fn_normalized fn_anyof text_pattern].
    rewrite ?Up, ?Ut, ?Np, ?Nt. repeat split; reflexivity.
  Qed.

  (* ---------- dates ---------- *)
  (* a date against an ISO date string: the string is parsed and the two dates are compared as dates *)
  Lemma date_vs_iso_string op n s n' :
    parse_iso s = IsoOk n' ->
    compare_link op (VDate n) (VStr s) = cmp_apply op (VDate n) (VDate n') /\
    compare_link op (VStr s) (VDate n) = cmp_apply op (VDate n') (VDate n) /\
    (List.In op [Lt; LtE; Gt; GtE] -> cmp_apply op (VDate n) (VDate n') = Val (VBool (order_test op (n ?= n')%Z))) /\
    cmp_apply Eq (VDate n) (VDate n') = Val (VBool (n =? n')%Z) /\
    cmp_apply NotEq (VDate n) (VDate n') = Val (VBool (negb (n =? n')%Z)).
  Proof.
    intros Hp. unfold compare_link, coerce_dates, iso_outcome. rewrite Hp.
    repeat split; try reflexivity.
    intros Hop. cbn in Hop. destruct Hop as [<-|[<-|[<-|[<-|[]]]]]; reflexivity.
  Qed.

  Lemma date_vs_bad_string op n s :
    parse_iso s = IsoBad -> compare_link op (VDate n) (VStr s) = ExprErr.
  Proof. intros Hp. unfold compare_link, coerce_dates, iso_outcome. now rewrite Hp. Qed.

  (* month / year / day / weekday are those of the transaction's date (0 without a date) *)
  Lemma date_parts n :
    t_date (e_txn E) = Some n -> (1 <= n)%Z ->
    let '(y, m, d) := ymd_of_ordinal n in
    txn_attr E "year" = Val (VInt y) /\ txn_attr E "month" = Val (VInt m) /\ txn_attr E "day" = Val (VInt d) /\
    txn_attr E "weekday" = Val (VInt ((n + 6) mod 7)) /\ txn_attr E "date" = Val (VDate n) /\
    (1 <= m <= 12)%Z /\ (1 <= d <= days_in_month y m)%Z /\ ordinal_of_ymd y m d = n.
  Proof.
    intros Hd Hn. pose proof (ymd_of_ordinal_sound n Hn) as S.
    unfold txn_attr, date_part, date_value, year_of, month_of, day_of, weekday_of. rewrite Hd.
    destruct (ymd_of_ordinal n) as [[y m] d]. cbn [fst snd String.eqb Ascii.eqb Bool.eqb].
    destruct S as [S1 [S2 [S3 S4]]]. repeat split; try reflexivity; try lia.
  Qed.

  Lemma date_parts_missing :
    t_date (e_txn E) = None ->
    txn_attr E "year" = Val (VInt 0) /\ txn_attr E "month" = Val (VInt 0) /\ txn_attr E "day" = Val (VInt 0) /\
    txn_attr E "weekday" = Val (VInt 0) /\ txn_attr E "date" = Val VNone.
  Proof. intros Hd. unfold txn_attr, date_part, date_value. rewrite Hd. repeat split; reflexivity. Qed.

  (* the bare names resolve to the same values unless shadowed by the scope or a user variable *)
  Lemma bare_date_names name sc :
    List.In name ["year"; "month"; "day"; "weekday"; "date"; "amount"; "description"; "source"] ->
    sget sc name = None -> sget (e_vars E) name = None ->
    lookup_name E name sc = txn_attr E name.
  Proof.
    intros Hin Hs Hv. unfold lookup_name. rewrite Hs, Hv.
    cbn in Hin. repeat (destruct Hin as [<-|Hin]; [reflexivity|]). destruct Hin.
  Qed.

  (* ---------- name resolution ---------- *)
  Definition primitive_value (name : string) : option value :=
    if String.eqb name "description" then Some (VStr (t_description (e_txn E)))
    else if String.eqb name "amount" then Some (t_amount (e_txn E))
    else if String.eqb name "date" then Some (date_value E)
    else if String.eqb name "month" then Some (date_part E month_of)
    else if String.eqb name "year" then Some (date_part E year_of)
    else if String.eqb name "day" then Some (date_part E day_of)
    else if String.eqb name "weekday" then Some (date_part E weekday_of)
    else if String.eqb name "source" then Some (VStr (t_source (e_txn E)))
    else if String.eqb name "true" then Some (VBool true)
    else if String.eqb name "false" then Some (VBool false)
    else None.

  (* a bare name: the evaluation's scope (loop variables, := targets), then the user variables, then the
     transaction primitives, then the supplemental tables; otherwise an ExpressionError.  The name is lower-cased. *)
  Lemma name_resolution_order id sc :
    ev (EName id) sc =
    (match sget sc (lower id) with
     | Some v => Val v
     | None =>
         match sget (e_vars E) (lower id) with
         | Some v => Val v
         | None =>
             match primitive_value (lower id) with
             | Some v => Val v
             | None => match sget (e_ds E) (lower id) with Some v => Val v | None => ExprErr end
             end
         end
     end, sc).
  Proof.
    cbn [eval]. unfold lookup_name, primitive_value. cbn [fst snd].
    destruct (sget sc (lower id)); [reflexivity|]. destruct (sget (e_vars E) (lower id)); [reflexivity|].
    repeat match goal with |- context [if String.eqb (lower id) ?s then _ else _] => destruct (String.eqb (lower id) s); [reflexivity|] end.
    destruct (sget (e_ds E) (lower id)); reflexivity.
  Qed.

  (* txn.<name> and field.<name> are decided by the transaction alone: no scope entry, user variable or table
     called txn, field or <name> has any influence *)
  Lemma eval_field_attr id attr sc :
    lower id = "field" -> ev (EAttribute (EName id) attr) sc = (wrap (field_attr E (lower attr)), sc).
  Proof. intros H. cbn [eval eval_attribute]. rewrite H. reflexivity. Qed.

  Lemma eval_txn_attr id attr sc :
    lower id = "txn" -> ev (EAttribute (EName id) attr) sc = (wrap (txn_attr E (lower attr)), sc).
  Proof. intros H. cbn [eval eval_attribute]. rewrite H. reflexivity. Qed.

  (* ---------- division and modulo by zero give 0 ---------- *)
  Lemma div_mod_zero lv rv :
    eq_zero rv = true -> binop_apply Div lv rv = Val (VInt 0) /\ binop_apply Mod lv rv = Val (VInt 0).
  Proof. intros H. unfold binop_apply. rewrite H. destruct (has_gen lv || has_gen rv); split; reflexivity. Qed.

  Lemma eq_zero_spec rv : eq_zero rv = true <->
    rv = VBool false \/ rv = VInt 0 \/ exists q, rv = VFloat q /\ Qeq q 0.
  Proof.
    unfold eq_zero. destruct rv; cbn [num_view num_is_zero]; split; intros H;
      try discriminate; try (destruct H as [H|[H|[q [H _]]]]; discriminate).
    - destruct b; [discriminate|now left].
    - destruct H as [H|[H|[q [H _]]]]; inversion H; reflexivity.
    - apply Z.eqb_eq in H. subst. right. now left.
    - destruct H as [H|[H|[q' [H _]]]]; inversion H; reflexivity.
    - right. right. exists q. split; [reflexivity|]. unfold Qeqb in H. now apply Qeq_bool_iff in H.
    - destruct H as [H|[H|[q' [H H']]]]; try discriminate. inversion H; subst. unfold Qeqb. now apply Qeq_bool_iff.
  Qed.

  Lemma eval_div_mod_zero op a b sc lv sc1 rv sc2 :
    List.In op [Div; Mod] -> ev a sc = (Val lv, sc1) -> ev b sc1 = (Val rv, sc2) -> eq_zero rv = true ->
    ev (EBinOp a op b) sc = (Val (VInt 0), sc2).
  Proof.
    intros Hop Ha Hb Hz. cbn [eval]. rewrite Ha, Hb. cbn [fst snd].
    destruct (div_mod_zero lv rv Hz) as [D M].
    cbn in Hop. destruct Hop as [<-|[<-|[]]]; [rewrite D|rewrite M]; reflexivity.
  Qed.

  (* ---------- := binds in the evaluation's scope ---------- *)
  Lemma sget_sset_same sc k v : sget (sset sc k v) k = Some v.
  Proof.
    induction sc as [|[k' v'] r IH]; cbn [sset sget].
    - now rewrite String.eqb_refl.
    - destruct (String.eqb k k') eqn:Ek; cbn [sget]; rewrite Ek; [reflexivity|exact IH].
  Qed.

  Lemma walrus_binds id x sc :
    ev (ENamedExpr (EName id) x) sc =
      match ev x sc with (Val v, sc1) => (Val v, sset sc1 (lower id) v) | bad => bad end /\
    (forall id' v sc1, lower id' = lower id -> ev (EName id') (sset sc1 (lower id) v) = (Val v, sset sc1 (lower id) v)).
  Proof.
    split.
    - cbn [eval]. destruct (ev x sc) as [o sc1] eqn:Ex.
      assert (W : wrap o = o) by (pose proof (eval_wrapped x sc) as W; rewrite Ex in W; exact W).
      destruct o; cbn [fst snd wrap] in *; try rewrite W; reflexivity.
    - intros id' v sc1 Hid. cbn [eval]. rewrite Hid. unfold lookup_name. rewrite sget_sset_same. reflexivity.
  Qed.

  (* ---------- transform functions: the reference tables ---------- *)
  Lemma transform_specs s t :
    fn_uppercase [VStr s] = Val (VStr (upper s)) /\
    fn_lowercase [VStr s] = Val (VStr (lower s)) /\
    fn_trim E [VStr s] = Val (VStr (strip s)) /\
    fn_trim E [] = Val (VStr (strip desc_s)) /\
    fn_strip_prefix [VStr t; VStr s] = Val (VStr (strip_prefix_str t s)) /\
    fn_strip_suffix [VStr t; VStr s] = Val (VStr (strip_suffix_str t s)).
  Proof. repeat split; reflexivity. Qed.

  Lemma split_spec t dl i :
    dl <> "" ->
    fn_split E [VStr t; VStr dl; VInt i] =
    Val (VStr (if ((0 <=? i) && (i <? Z.of_nat (length (split_on dl t))))%Z
               then strip (nth (Z.to_nat i) (split_on dl t) "") else "")).
  Proof.
    intros Hd. cbn [fn_split int_of]. destruct dl; [contradiction|].
    destruct ((0 <=? i)%Z && (i <? Z.of_nat (length (split_on (String a dl) t)))%Z); reflexivity.
  Qed.

  Lemma substring_spec t a b :
    fn_substring E [VStr t; VInt a; VInt b] = Val (VStr (slice_str t a b)) /\
    fn_substring E [VInt a; VInt b] = Val (VStr (slice_str desc_s a b)).
  Proof. split; reflexivity. Qed.

  Lemma extract_spec p t :
    fn_extract E [VStr t; VStr p] =
    match re_search E p t with
    | None => Unmodelled "regex-oracle-miss"
    | Some ReBad => ExprErr
    | Some ReNoMatch | Some (ReMatch O _) => Val (VStr "")
    | Some (ReMatch (S _) (Some g)) => Val (VStr g)
    | Some (ReMatch (S _) None) => Val VNone
    end.
  Proof. cbn [fn_extract text_pattern]. destruct (re_search E p t) as [[| |[|n] [g|]]|]; reflexivity. Qed.

  (* ---------- comprehensions over a supplemental table ---------- *)
  Lemma sdel_sset_fresh sc k v : sget sc k = None -> sdel (sset sc k v) k = sc.
  Proof.
    induction sc as [|[k' v'] r IH]; cbn [sget sset sdel]; intros H.
    - now rewrite String.eqb_refl.
    - destruct (String.eqb k k') eqn:Ek; [discriminate|]. cbn [sdel]. rewrite Ek. f_equal. now apply IH.
  Qed.

  (* one `for var in iter if ifs...` clause whose conditions and element are functions of the loop variable
     (they succeed and leave the scope alone), with a loop variable that shadows nothing: the consumer sees
     exactly  map fe (filter fc items);  when it runs to the end the scope is what it was *)
  Lemma run_loop_single {A} (step : A -> value -> sres A) id iter ifs elt sc itv items fc fe :
    ev iter sc = (Val itv, sc) -> iter_items itv = ItItems items ->
    sget sc (lower id) = None ->
    (forall it, List.In it items -> eval_ifs ev ifs (sset sc (lower id) it) = (inl (fc it), sset sc (lower id) it)) ->
    (forall it, List.In it items -> fc it = true ->
       ev elt (sset sc (lower id) it) = (Val (fe it), sset sc (lower id) it)) ->
    forall acc,
      fst (run_loop ev elt step [(EName id, iter, ifs)] acc sc) = feed step acc (map fe (filter fc items)) /\
      (forall a, feed step acc (map fe (filter fc items)) = SCont a ->
         snd (run_loop ev elt step [(EName id, iter, ifs)] acc sc) = sc).
  Proof.
    intros Hiter Hitems Hfresh Hifs Helt acc.
    cbn [run_loop]. rewrite Hiter, Hitems. clear Hiter Hitems.
    revert acc Hifs Helt. induction items as [|it more IH]; intros acc Hifs Helt.
    - cbn [filter map feed fst snd]. split; [reflexivity|intros; reflexivity].
    - assert (Hin : List.In it (it :: more)) by (left; reflexivity).
      rewrite Hfresh. rewrite (Hifs it Hin).
      assert (IH' := fun acc => IH acc (fun x Hx => Hifs x (or_intror Hx)) (fun x Hx => Helt x (or_intror Hx))).
      cbn [filter]. destruct (fc it) eqn:Fc.
      + rewrite (Helt it Hin Fc). cbn [map feed].
        destruct (step acc (fe it)) as [a'|a'|o]; cbn [fst snd].
        * cbn [restore]. rewrite (sdel_sset_fresh sc (lower id) it Hfresh). apply IH'.
        * split; [reflexivity|discriminate].
        * split; [reflexivity|discriminate].
      + cbn [restore]. rewrite (sdel_sset_fresh sc (lower id) it Hfresh). apply IH'.
  Qed.

  Lemma feed_step_list l acc : feed step_list acc l = SCont (rev l ++ acc)%list.
  Proof.
    revert acc. induction l as [|x r IH]; intros acc; cbn [feed step_list rev app]; [reflexivity|].
    rewrite IH. now rewrite <- app_assoc.
  Qed.

  Lemma feed_step_any l : feed step_any false l = if existsb truthy l then SStop true else SCont false.
  Proof. induction l as [|x r IH]; cbn [feed existsb]; [reflexivity|]. unfold step_any at 1. destruct (truthy x); cbn [orb]; [reflexivity|exact IH]. Qed.

  Lemma feed_step_all l : feed step_all true l = if forallb truthy l then SCont true else SStop false.
  Proof. induction l as [|x r IH]; cbn [feed forallb]; [reflexivity|]. unfold step_all at 1. destruct (truthy x); cbn [andb]; [exact IH|reflexivity]. Qed.

  Lemma feed_step_next l : feed step_next None l = match l with [] => SCont None | x :: _ => SStop (Some x) end.
  Proof. destruct l; reflexivity. Qed.

  Lemma feed_step_sum_ints zs z0 :
    feed step_sum (VInt z0) (map VInt zs) = SCont (VInt (fold_left Z.add zs z0)).
  Proof. revert z0. induction zs as [|z r IH]; intros z0; cbn [feed map fold_left]; [reflexivity|]. cbn. apply IH. Qed.

  Lemma eval_len a kws sc :
    ev (ECall (EName "len") [a] kws) sc = match ev a sc with (Val v, sc1) => (wrap (py_len v), sc1) | bad => bad end.
  Proof.
    cbn [eval eval_call]. name_tests.
    destruct (ev a sc) as [o sc1] eqn:Ea.
    assert (W : wrap o = o) by (pose proof (eval_wrapped a sc) as W; rewrite Ea in W; exact W).
    destruct o; cbn [fst snd wrap] in *; try rewrite W; reflexivity.
  Qed.

  Section Single.
    Variables (id : string) (iter elt : pyast) (ifs : list pyast) (sc : scope) (itv : value) (items : list value)
              (fc : value -> bool) (fe : value -> value).
    Hypothesis Hiter : ev iter sc = (Val itv, sc).
    Hypothesis Hitems : iter_items itv = ItItems items.
    Hypothesis Hfresh : sget sc (lower id) = None.
    Hypothesis Hifs : forall it, List.In it items ->
      eval_ifs ev ifs (sset sc (lower id) it) = (inl (fc it), sset sc (lower id) it).
    Hypothesis Helt : forall it, List.In it items -> fc it = true ->
      ev elt (sset sc (lower id) it) = (Val (fe it), sset sc (lower id) it).
    Let selected := map fe (filter fc items).
    Let gens : list comp := [(EName id, iter, ifs)].

    (* [elt for var in iter if ifs]  =  map / filter *)
    Lemma listcomp_is_filter_map : ev (EComp ListComp elt gens) sc = (Val (VList selected), sc).
    Proof.
      cbn [eval]. unfold gens.
      destruct (run_loop_single step_list id iter ifs elt sc itv items fc fe Hiter Hitems Hfresh Hifs Helt []) as [H1 H2].
      fold selected in H1, H2. rewrite feed_step_list in H1, H2. specialize (H2 _ eq_refl).
      destruct (run_loop ev elt step_list [(EName id, iter, ifs)] [] sc) as [r sc']. cbn [fst snd] in *. subst.
      cbn [fst snd wrap]. now rewrite app_nil_r, rev_involutive.
    Qed.

    Lemma len_listcomp : ev (ECall (EName "len") [EComp ListComp elt gens] []) sc = (Val (VInt (Z.of_nat (length selected))), sc).
    Proof.
      rewrite eval_len, listcomp_is_filter_map. reflexivity.
    Qed.

    Lemma any_generator :
      fst (ev (ECall (EName "any") [EComp GeneratorExp elt gens] []) sc) = Val (VBool (existsb truthy selected)).
    Proof.
      cbn [eval eval_call]. name_tests. cbn [consume finish_bool]. unfold gens.
      destruct (run_loop_single step_any id iter ifs elt sc itv items fc fe Hiter Hitems Hfresh Hifs Helt false) as [H1 _].
      fold selected in H1. rewrite feed_step_any in H1.
      destruct (run_loop ev elt step_any [(EName id, iter, ifs)] false sc) as [r sc']. cbn [fst] in H1. subst.
      destruct (existsb truthy selected); reflexivity.
    Qed.

    Lemma all_generator :
      fst (ev (ECall (EName "all") [EComp GeneratorExp elt gens] []) sc) = Val (VBool (forallb truthy selected)).
    Proof.
      cbn [eval eval_call]. name_tests. cbn [consume finish_bool]. unfold gens.
      destruct (run_loop_single step_all id iter ifs elt sc itv items fc fe Hiter Hitems Hfresh Hifs Helt true) as [H1 _].
      fold selected in H1. rewrite feed_step_all in H1.
      destruct (run_loop ev elt step_all [(EName id, iter, ifs)] true sc) as [r sc']. cbn [fst] in H1. subst.
      destruct (forallb truthy selected); reflexivity.
    Qed.

    Lemma sum_generator :
      fst (ev (ECall (EName "sum") [EComp GeneratorExp elt gens] []) sc) =
      match feed step_sum (VInt 0) selected with SCont v | SStop v => Val v | SFail o => wrap o end.
    Proof.
      cbn [eval eval_call]. name_tests. cbn [consume finish_bool]. unfold gens.
      destruct (run_loop_single step_sum id iter ifs elt sc itv items fc fe Hiter Hitems Hfresh Hifs Helt (VInt 0)) as [H1 _].
      fold selected in H1.
      destruct (run_loop ev elt step_sum [(EName id, iter, ifs)] (VInt 0) sc) as [r sc']. cbn [fst] in H1. subst.
      destruct (feed step_sum (VInt 0) selected); reflexivity.
    Qed.

    Lemma next_generator dflt dv :
      const_outcome dflt = Val dv ->
      fst (ev (ECall (EName "next") [EComp GeneratorExp elt gens; EConst dflt] []) sc) =
      Val (match selected with x :: _ => x | [] => dv end).
    Proof.
      intros Hd. cbn [eval eval_call]. name_tests. unfold gens. rewrite Hd. cbn [wrap fst snd].
      destruct (run_loop_single step_next id iter ifs elt sc itv items fc fe Hiter Hitems Hfresh Hifs Helt None) as [H1 _].
      fold selected in H1. rewrite feed_step_next in H1.
      destruct (run_loop ev elt step_next [(EName id, iter, ifs)] None sc) as [r sc']. cbn [fst] in H1. subst.
      destruct selected; reflexivity.
    Qed.
  End Single.
End Laws.

(* ---------- code points and blanks ---------- *)
Lemma cps_concat s : sconcat (cps s) = s.
Proof.
  induction s as [|c r IH]; [reflexivity|]. cbn [cps].
  destruct (cps r) as [|x xs] eqn:Ec.
  - destruct r; [reflexivity|]. cbn [cps] in Ec. destruct (cps r) as [|y ys]; [discriminate|].
    destruct r; [discriminate|]. destruct (is_cont a0); discriminate.
  - destruct r as [|c2 r2]; [discriminate Ec || (cbn in Ec; discriminate)|].
    destruct (is_cont c2); cbn [sconcat fold_right append] in *; now rewrite <- IH.
Qed.

Lemma dropwhile_spec {A} (f : A -> bool) l :
  exists pre, l = (pre ++ dropwhile f l)%list /\ Forall (fun x => f x = true) pre /\
              match dropwhile f l with x :: _ => f x = false | [] => True end.
Proof.
  induction l as [|x r [pre [H1 [H2 H3]]]]; cbn [dropwhile].
  - exists []. repeat split; constructor.
  - destruct (f x) eqn:Fx.
    + exists (x :: pre). split; [cbn; now rewrite <- H1|]. split; [constructor; assumption|exact H3].
    + exists []. repeat split; [constructor|exact Fx].
Qed.

(* str.strip(): the text is  blanks ++ result ++ blanks,  and the result neither starts nor ends with a blank *)
Lemma strip_cps_spec l :
  exists pre post, l = (pre ++ strip_cps l ++ post)%list /\
    Forall (fun c => is_space_cp c = true) pre /\ Forall (fun c => is_space_cp c = true) post /\
    match strip_cps l with x :: _ => is_space_cp x = false | [] => True end /\
    match rev (strip_cps l) with x :: _ => is_space_cp x = false | [] => True end.
Proof.
  unfold strip_cps.
  destruct (dropwhile_spec is_space_cp l) as [pre [H1 [H2 H3]]].
  set (m := dropwhile is_space_cp l) in *.
  destruct (dropwhile_spec is_space_cp (rev m)) as [post' [G1 [G2 G3]]].
  set (k := dropwhile is_space_cp (rev m)) in *.
  exists pre, (rev post'). split; [|split; [exact H2|split; [now apply Forall_rev|split]]].
  - rewrite H1 at 1. f_equal. rewrite <- rev_app_distr, <- G1. now rewrite rev_involutive.
  - (* head of the result *)
    assert (Hm : m = (rev k ++ rev post')%list) by (rewrite <- rev_app_distr, <- G1; now rewrite rev_involutive).
    destruct (rev k) as [|x r] eqn:Er; [exact I|]. rewrite Hm in H3. exact H3.
  - rewrite rev_involutive. exact G3.
Qed.

Lemma strip_spec s :
  exists pre post, s = (sconcat pre ++ strip s ++ sconcat post)%string /\
    Forall (fun c => is_space_cp c = true) pre /\ Forall (fun c => is_space_cp c = true) post /\
    match strip_cps (cps s) with x :: _ => is_space_cp x = false | [] => True end /\
    match rev (strip_cps (cps s)) with x :: _ => is_space_cp x = false | [] => True end.
Proof.
  destruct (strip_cps_spec (cps s)) as [pre [post [H [H1 [H2 [H3 H4]]]]]]. exists pre, post.
  split; [|repeat split; assumption].
  rewrite <- (cps_concat s) at 1. rewrite H. unfold strip.
  assert (A : forall a b, sconcat (a ++ b) = (sconcat a ++ sconcat b)%string).
  { intros a b. unfold sconcat. induction a as [|x a IH]; cbn [app fold_right append]; [reflexivity|]. rewrite IH. now rewrite append_assoc_str. }
  now rewrite !A.
Qed.

Lemma strip_idempotent_cps l : strip_cps (strip_cps l) = strip_cps l.
Proof.
  destruct (strip_cps_spec l) as [pre [post [_ [_ [_ [H3 H4]]]]]].
  unfold strip_cps at 1. set (m := strip_cps l) in *.
  assert (D1 : dropwhile is_space_cp m = m) by (destruct m as [|x r]; [reflexivity|cbn [dropwhile]; now rewrite H3]).
  rewrite D1.
  assert (D2 : dropwhile is_space_cp (rev m) = rev m) by (destruct (rev m) as [|x r]; [reflexivity|cbn [dropwhile]; now rewrite H4]).
  rewrite D2. apply rev_involutive.
Qed.

(* strip_suffix(text, suffix) removes the suffix if present (compared ignoring ASCII case) and nothing else.
   History: before the fix "strip_suffix slices by explicit length" the code sliced text[:-len(suffix)], which
   for the empty suffix is text[:0]; this statement was then refuted by ("STORE", ""). *)
Definition strip_suffix_statement : Prop :=
  forall t s : string,
    (cp_len s <= cp_len t)%nat ->
    strip_suffix_str t s =
    if is_suffix (upper s) (upper t) then sconcat (firstn (cp_len t - cp_len s) (cps t)) else t.

Lemma clamp_zero len : (0 <= len)%Z -> clamp_index len 0 = 0%Z.
Proof.
  intros H. unfold clamp_index. change (0 <? 0)%Z with false. cbv iota.
  change (0 <? 0)%Z with false. cbv iota.
  destruct (Z.ltb_spec len 0); [lia|reflexivity].
Qed.

Lemma clamp_inside len j : (0 <= j <= len)%Z -> clamp_index len j = j.
Proof.
  intros H. unfold clamp_index.
  destruct (Z.ltb_spec j 0); [lia|].
  destruct (Z.ltb_spec j 0); [lia|].
  destruct (Z.ltb_spec len j); lia.
Qed.

Lemma slice_list_prefix {A} (l : list A) (k : nat) :
  (k <= length l)%nat -> slice_list l 0 (Z.of_nat (length l) - Z.of_nat k) = firstn (length l - k) l.
Proof.
  intros Hk. unfold slice_list.
  rewrite clamp_zero by lia. rewrite clamp_inside by lia.
  destruct (Z.leb_spec (Z.of_nat (length l) - Z.of_nat k) 0) as [L|L].
  - assert (H0 : (length l - k = 0)%nat) by lia. rewrite H0. reflexivity.
  - cbn [skipn Z.to_nat]. f_equal. lia.
Qed.

Lemma strip_suffix_holds : strip_suffix_statement.
Proof.
  intros t s H. unfold strip_suffix_str. destruct (is_suffix (upper s) (upper t)); [|reflexivity].
  unfold slice_str. unfold cp_len in *. now rewrite slice_list_prefix.
Qed.
