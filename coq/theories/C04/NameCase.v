(* C04/NameCase.v — the letter case of identifiers (variable names, attribute names, function and method
   names, loop variables, := targets) never changes what an expression evaluates to. *)
From Coq Require Import String Ascii List Bool ZArith QArith Lia.
From Tally Require Import Lib.Str Expr.StrOps Expr.Date Expr.Syntax Expr.Funcs Expr.Eval C04.Proofs.
Import ListNotations.
Open Scope string_scope.

(* ---------- induction over the nested AST ---------- *)
Section Ind.
  Variable P : pyast -> Prop.
  Hypothesis HConst : forall c, P (EConst c).
  Hypothesis HName : forall id, P (EName id).
  Hypothesis HBoolOp : forall op l, Forall P l -> P (EBoolOp op l).
  Hypothesis HBinOp : forall l op r, P l -> P r -> P (EBinOp l op r).
  Hypothesis HUnaryOp : forall op x, P x -> P (EUnaryOp op x).
  Hypothesis HCompare : forall l rest, P l -> Forall (fun p => P (snd p)) rest -> P (ECompare l rest).
  Hypothesis HIfExp : forall a b c, P a -> P b -> P c -> P (EIfExp a b c).
  Hypothesis HCall : forall fn args kws, P fn -> Forall P args -> Forall P kws -> P (ECall fn args kws).
  Hypothesis HAttribute : forall v a, P v -> P (EAttribute v a).
  Hypothesis HSubscript : forall v s, P v -> P s -> P (ESubscript v s).
  Hypothesis HComp : forall k elt gens, P elt ->
    Forall (fun g : comp => P (fst (fst g)) /\ P (snd (fst g)) /\ Forall P (snd g)) gens -> P (EComp k elt gens).
  Hypothesis HNamed : forall t v, P t -> P v -> P (ENamedExpr t v).
  Hypothesis HList : forall l, Forall P l -> P (EList l).
  Hypothesis HTuple : forall l, Forall P l -> P (ETuple l).
  Hypothesis HSet : forall l, Forall P l -> P (ESet l).
  Hypothesis HOther : forall k ch, Forall P ch -> P (EOther k ch).

  Fixpoint pyast_ind2 (e : pyast) : P e :=
    match e with
    | EConst c => HConst c
    | EName id => HName id
    | EBoolOp op l =>
        HBoolOp op l ((fix go (l : list pyast) : Forall P l :=
                         match l with [] => Forall_nil _ | x :: r => Forall_cons _ (pyast_ind2 x) (go r) end) l)
    | EBinOp l op r => HBinOp l op r (pyast_ind2 l) (pyast_ind2 r)
    | EUnaryOp op x => HUnaryOp op x (pyast_ind2 x)
    | ECompare l rest =>
        HCompare l rest (pyast_ind2 l)
          ((fix go (r : list (cmpop * pyast)) : Forall (fun p => P (snd p)) r :=
              match r with [] => Forall_nil _ | (o, x) :: r' => Forall_cons (o, x) (pyast_ind2 x) (go r') end) rest)
    | EIfExp a b c => HIfExp a b c (pyast_ind2 a) (pyast_ind2 b) (pyast_ind2 c)
    | ECall fn args kws =>
        HCall fn args kws (pyast_ind2 fn)
          ((fix go (l : list pyast) : Forall P l :=
              match l with [] => Forall_nil _ | x :: r => Forall_cons _ (pyast_ind2 x) (go r) end) args)
          ((fix go (l : list pyast) : Forall P l :=
              match l with [] => Forall_nil _ | x :: r => Forall_cons _ (pyast_ind2 x) (go r) end) kws)
    | EAttribute v a => HAttribute v a (pyast_ind2 v)
    | ESubscript v s => HSubscript v s (pyast_ind2 v) (pyast_ind2 s)
    | EComp k elt gens =>
        HComp k elt gens (pyast_ind2 elt)
          ((fix go (g : list comp) : Forall (fun g : comp => P (fst (fst g)) /\ P (snd (fst g)) /\ Forall P (snd g)) g :=
              match g with
              | [] => Forall_nil _
              | (t, it, ifs) :: g' =>
                  Forall_cons (t, it, ifs)
                    (conj (pyast_ind2 t) (conj (pyast_ind2 it)
                       ((fix go2 (l : list pyast) : Forall P l :=
                           match l with [] => Forall_nil _ | x :: r => Forall_cons _ (pyast_ind2 x) (go2 r) end) ifs)))
                    (go g')
              end) gens)
    | ENamedExpr t v => HNamed t v (pyast_ind2 t) (pyast_ind2 v)
    | EList l =>
        HList l ((fix go (l : list pyast) : Forall P l :=
                    match l with [] => Forall_nil _ | x :: r => Forall_cons _ (pyast_ind2 x) (go r) end) l)
    | ETuple l =>
        HTuple l ((fix go (l : list pyast) : Forall P l :=
                     match l with [] => Forall_nil _ | x :: r => Forall_cons _ (pyast_ind2 x) (go r) end) l)
    | ESet l =>
        HSet l ((fix go (l : list pyast) : Forall P l :=
                   match l with [] => Forall_nil _ | x :: r => Forall_cons _ (pyast_ind2 x) (go r) end) l)
    | EOther k ch =>
        HOther k ch ((fix go (l : list pyast) : Forall P l :=
                        match l with [] => Forall_nil _ | x :: r => Forall_cons _ (pyast_ind2 x) (go r) end) ch)
    end.
End Ind.

(* ---------- renaming the case of every identifier ---------- *)
Section Recase.
  Variable f : string -> string.

  Fixpoint recase (e : pyast) : pyast :=
    match e with
    | EConst c => EConst c
    | EName id => EName (f id)
    | EBoolOp op l => EBoolOp op (map recase l)
    | EBinOp l op r => EBinOp (recase l) op (recase r)
    | EUnaryOp op x => EUnaryOp op (recase x)
    | ECompare l rest => ECompare (recase l) (map (fun p : cmpop * pyast => (fst p, recase (snd p))) rest)
    | EIfExp a b c => EIfExp (recase a) (recase b) (recase c)
    | ECall fn args kws => ECall (recase fn) (map recase args) (map recase kws)
    | EAttribute v a => EAttribute (recase v) (f a)
    | ESubscript v s => ESubscript (recase v) (recase s)
    | EComp k elt gens =>
        EComp k (recase elt)
          (map (fun g : comp => (recase (fst (fst g)), recase (snd (fst g)), map recase (snd g))) gens)
    | ENamedExpr t v => ENamedExpr (recase t) (recase v)
    | EList l => EList (map recase l)
    | ETuple l => ETuple (map recase l)
    | ESet l => ESet (map recase l)
    | EOther k ch => EOther k (map recase ch)
    end.
  Definition recase_gen (g : comp) : comp := (recase (fst (fst g)), recase (snd (fst g)), map recase (snd g)).

  Hypothesis f_case : forall s, lower (f s) = lower s.
  Variable E : env.
  Notation ev := (eval E).

  Definition Pe (e : pyast) : Prop := forall sc, ev (recase e) sc = ev e sc.
  Definition Pg (g : comp) : Prop := Pe (snd (fst g)) /\ Forall Pe (snd g).
  Definition deep (e : pyast) : Prop :=
    match e with
    | EAttribute obj _ => Pe obj
    | EComp _ elt gens => Pe elt /\ Forall Pg gens
    | _ => True
    end.
  Definition Q (e : pyast) : Prop := Pe e /\ deep e.

  Lemma eval_list_rc l : Forall Pe l -> forall sc, eval_list ev (map recase l) sc = eval_list ev l sc.
  Proof.
    induction 1 as [|x r Hx Hr IH]; intros sc; cbn [map eval_list]; [reflexivity|].
    rewrite Hx. destruct (ev x sc) as [[v| |k|u] sc1]; try reflexivity. now rewrite IH.
  Qed.

  Lemma eval_boolop_rc op l : Forall Pe l -> forall sc, eval_boolop ev op (map recase l) sc = eval_boolop ev op l sc.
  Proof.
    induction 1 as [|x r Hx Hr IH]; intros sc; cbn [map eval_boolop]; [reflexivity|].
    rewrite Hx. destruct (ev x sc) as [[v| |k|u] sc1]; try reflexivity.
    destruct op; destruct (truthy v); try reflexivity; apply IH.
  Qed.

  Lemma eval_compare_rc rest : Forall (fun p : cmpop * pyast => Pe (snd p)) rest ->
    forall lv sc, eval_compare ev (map (fun p : cmpop * pyast => (fst p, recase (snd p))) rest) lv sc = eval_compare ev rest lv sc.
  Proof.
    induction 1 as [|[o x] r Hx Hr IH]; intros lv sc; cbn [map eval_compare fst snd]; [reflexivity|].
    cbn [snd] in Hx. rewrite Hx. destruct (ev x sc) as [[v| |k|u] sc1]; try reflexivity.
    destruct (compare_link o lv v) as [w| |k|u]; try reflexivity.
    destruct (truthy w); [apply IH|reflexivity].
  Qed.

  Lemma eval_ifs_rc l : Forall Pe l -> forall sc, eval_ifs ev (map recase l) sc = eval_ifs ev l sc.
  Proof.
    induction 1 as [|x r Hx Hr IH]; intros sc; cbn [map eval_ifs]; [reflexivity|].
    rewrite Hx. destruct (ev x sc) as [[v| |k|u] sc1]; try reflexivity.
    destruct (truthy v); [apply IH|reflexivity].
  Qed.

  Lemma run_loop_rc {A} (step : A -> value -> sres A) elt gens :
    Pe elt -> Forall Pg gens ->
    forall acc sc, run_loop ev (recase elt) step (map recase_gen gens) acc sc = run_loop ev elt step gens acc sc.
  Proof.
    intros Helt Hg. induction Hg as [|[[t it] ifs] rest [Hit Hifs] Hrest IH]; intros acc sc; cbn [map run_loop].
    - now rewrite Helt.
    - unfold recase_gen at 1. cbn [fst snd] in *. rewrite Hit.
      destruct (ev it sc) as [[itv| |k|u] sc1]; try reflexivity.
      destruct t; cbn [recase]; try reflexivity.
      rewrite f_case.
      destruct (iter_items itv) as [items| |]; try reflexivity.
      revert acc sc1. induction items as [|x more IHi]; intros acc sc1; [reflexivity|].
      rewrite (eval_ifs_rc ifs Hifs).
      destruct (eval_ifs ev ifs (sset sc1 (lower id) x)) as [[[|]|o] sc3]; try reflexivity.
      + rewrite IH. destruct (run_loop ev elt step rest acc sc3) as [[a'|a'|o] sc4]; try reflexivity. apply IHi.
      + apply IHi.
  Qed.

  Lemma consume_rc {A} (step : A -> value -> sres A) acc arg :
    Q arg -> forall sc, consume ev step acc (recase arg) sc = consume ev step acc arg sc.
  Proof.
    intros [Hp Hd] sc.
    destruct arg as [c|id|op l|l op r|op x|l rest|a b c|fn args kws|v a|v s|k elt gens|t v|l|l|l|kd ch];
      try (cbn [recase]; reflexivity);
      try (unfold consume; specialize (Hp sc); cbn [recase] in Hp |- *; rewrite Hp; reflexivity).
    destruct k.
    - unfold consume. specialize (Hp sc). cbn [recase] in Hp |- *. now rewrite Hp.
    - cbn [recase consume]. destruct Hd as [He Hg]. apply (run_loop_rc step elt gens He Hg).
    - unfold consume. specialize (Hp sc). cbn [recase] in Hp |- *. now rewrite Hp.
  Qed.

  Lemma eval_minmax_args_rc is_max l : Forall Pe l ->
    forall acc sc, eval_minmax_args ev is_max (map recase l) acc sc = eval_minmax_args ev is_max l acc sc.
  Proof.
    induction 1 as [|x r Hx Hr IH]; intros acc sc; cbn [map eval_minmax_args]; [reflexivity|].
    rewrite Hx. destruct (ev x sc) as [[v| |k|u] sc1]; try reflexivity.
    destruct (step_minmax is_max acc v); try reflexivity. apply IH.
  Qed.

  Lemma Forall_Q_Pe l : Forall Q l -> Forall Pe l.
  Proof. apply Forall_impl. intros a [H _]. exact H. Qed.

  Lemma eval_attribute_rc v attr : Pe v -> forall sc, eval_attribute E ev (recase v) (f attr) sc = eval_attribute E ev v attr sc.
  Proof.
    intros Hv sc. unfold eval_attribute. rewrite !f_case.
    destruct v; cbn [recase]; rewrite ?f_case;
      try reflexivity;
      try (specialize (Hv sc); cbn [recase] in Hv; rewrite Hv; reflexivity).
  Qed.

  (* rewrite the evaluation of a re-cased first argument, whatever its constructor *)
  Ltac first_arg Ha sc :=
    let H := fresh "H" in
    pose proof (Ha sc) as H; cbn [recase] in H; cbn [map recase]; try rewrite H; clear H.

  Ltac split3 l Hl :=
    destruct l as [|?a [|?b [|?c ?r]]];
    repeat match goal with
           | H : Forall Q (_ :: _) |- _ => inversion H; subst; clear H
           end.

  Lemma eval_call_rc fn args : Q fn -> Forall Q args -> forall sc,
    eval_call E ev (recase fn) (map recase args) sc = eval_call E ev fn args sc.
  Proof.
    intros [Hf Hdeep] Hargs sc.
    pose proof (Forall_Q_Pe _ Hargs) as HargsP.
    destruct fn as [c|id|op l|l op r|op x|l rest|a b c|fn0 args0 kws0|obj attr|v s|k elt gens|t v|l|l|l|kd ch];
      try reflexivity.
    - (* function name *)
      cbn [recase eval_call]. rewrite f_case.
      destruct (String.eqb (lower id) "exists").
      { destruct args as [|a [|b r]]; try reflexivity.
        inversion HargsP as [|? ? Ha _]; subst. cbn [map]. now rewrite Ha. }
      destruct (String.eqb (lower id) "len").
      { destruct args as [|a [|b r]]; try reflexivity.
        inversion HargsP as [|? ? Ha _]; subst. cbn [map]. now rewrite Ha. }
      destruct (String.eqb (lower id) "sum").
      { destruct args as [|a [|b [|c r]]]; try reflexivity.
        - inversion Hargs as [|? ? [Ha Hda] _]; subst.
          destruct a as [c|id'|op l|l op r|op x|l rest|a b c|fn0 args0 kws0|obj attr|v s|k elt gens|t v|l|l|l|kd ch];
            try (first_arg Ha sc; reflexivity).
          destruct k; try (first_arg Ha sc; reflexivity).
          cbn [map recase]. destruct Hda as [He Hg].
          fold (map recase_gen gens). now rewrite (run_loop_rc step_sum elt gens He Hg).
        - inversion Hargs as [|? ? [Ha Hda] Hr]; subst. inversion Hr as [|? ? [Hb _] _]; subst.
          destruct a as [c|id'|op l|l op r|op x|l rest|a b0 c|fn0 args0 kws0|obj attr|v s|k elt gens|t v|l|l|l|kd ch];
            try (first_arg Ha sc; match goal with |- context [ev ?e sc] => destruct (ev e sc) as [[?v| |?k|?u] ?sc1] end;
                 try reflexivity; rewrite Hb; reflexivity).
          destruct k;
            try (first_arg Ha sc; match goal with |- context [ev ?e sc] => destruct (ev e sc) as [[?v| |?k|?u] ?sc1] end;
                 try reflexivity; rewrite Hb; reflexivity).
          cbn [map recase]. destruct Hda as [He Hg]. rewrite Hb.
          destruct (ev b sc) as [[vb| |kb|ub] sc1]; try reflexivity.
          fold (map recase_gen gens). now rewrite (run_loop_rc step_sum elt gens He Hg).
        - destruct a as [c0|id'|op l|l op r0|op x|l rest|a b0 c0|fn0 args0 kws0|obj attr|v s|k elt gens|t v|l|l|l|kd ch];
            try reflexivity. }
      destruct (String.eqb (lower id) "any").
      { destruct args as [|a [|b r]]; try reflexivity.
        inversion Hargs as [|? ? Ha _]; subst. cbn [map]. now rewrite (consume_rc step_any false a Ha). }
      destruct (String.eqb (lower id) "all").
      { destruct args as [|a [|b r]]; try reflexivity.
        inversion Hargs as [|? ? Ha _]; subst. cbn [map]. now rewrite (consume_rc step_all true a Ha). }
      destruct (String.eqb (lower id) "next").
      { destruct args as [|a [|b [|c r]]]; try reflexivity.
        - inversion Hargs as [|? ? [Ha Hda] _]; subst.
          destruct a as [c|id'|op l|l op r|op x|l rest|a b c|fn0 args0 kws0|obj attr|v s|k elt gens|t v|l|l|l|kd ch];
            try (first_arg Ha sc; reflexivity).
          destruct k; try (first_arg Ha sc; reflexivity).
          cbn [map recase]. destruct Hda as [He Hg].
          fold (map recase_gen gens). now rewrite (run_loop_rc step_next elt gens He Hg).
        - inversion Hargs as [|? ? [Ha Hda] Hr]; subst. inversion Hr as [|? ? [Hb _] _]; subst.
          destruct a as [c|id'|op l|l op r|op x|l rest|a b0 c|fn0 args0 kws0|obj attr|v s|k elt gens|t v|l|l|l|kd ch];
            try (first_arg Ha sc; match goal with |- context [ev ?e sc] => destruct (ev e sc) as [[?v| |?k|?u] ?sc1] end;
                 try reflexivity; rewrite Hb; reflexivity).
          destruct k;
            try (first_arg Ha sc; match goal with |- context [ev ?e sc] => destruct (ev e sc) as [[?v| |?k|?u] ?sc1] end;
                 try reflexivity; rewrite Hb; reflexivity).
          cbn [map recase]. destruct Hda as [He Hg]. rewrite Hb.
          destruct (ev b sc) as [[vb| |kb|ub] sc1]; try reflexivity.
          fold (map recase_gen gens). now rewrite (run_loop_rc step_next elt gens He Hg).
        - destruct a as [c0|id'|op l|l op r0|op x|l rest|a b0 c0|fn0 args0 kws0|obj attr|v s|k elt gens|t v|l|l|l|kd ch];
            try reflexivity. }
      destruct (String.eqb (lower id) "min").
      { destruct args as [|a [|b r]].
        - reflexivity.
        - inversion Hargs as [|? ? Ha _]; subst. cbn [map]. now rewrite (consume_rc (step_minmax false) None a Ha).
        - change (map recase (a :: b :: r)) with (recase a :: recase b :: map recase r).
          change (recase a :: recase b :: map recase r) with (map recase (a :: b :: r)).
          now rewrite (eval_minmax_args_rc false (a :: b :: r) HargsP). }
      destruct (String.eqb (lower id) "max").
      { destruct args as [|a [|b r]].
        - reflexivity.
        - inversion Hargs as [|? ? Ha _]; subst. cbn [map]. now rewrite (consume_rc (step_minmax true) None a Ha).
        - change (map recase (a :: b :: r)) with (recase a :: recase b :: map recase r).
          change (recase a :: recase b :: map recase r) with (map recase (a :: b :: r)).
          now rewrite (eval_minmax_args_rc true (a :: b :: r) HargsP). }
      destruct (ctx_function E (lower id)); [|reflexivity].
      now rewrite (eval_list_rc args HargsP).
    - (* method call *)
      cbn [recase eval_call]. cbn [deep] in Hdeep. rewrite Hdeep, f_case.
      destruct (ev obj sc) as [[v| |k|u] sc1]; try reflexivity.
      destruct v; try reflexivity.
      destruct (str_method_arity (lower attr)) as [[|n]|]; try reflexivity.
      rewrite map_length. destruct (Nat.eqb (length args) (S n)); [|reflexivity].
      now rewrite (eval_list_rc args HargsP).
  Qed.

  (* ---------- the theorem ---------- *)
  Lemma recase_Q : forall e, Q e.
  Proof.
    apply pyast_ind2; unfold Q.
    - intros c. split; [intros sc; reflexivity|exact I].
    - intros id. split; [|exact I]. intros sc. cbn [recase eval]. now rewrite f_case.
    - intros op l Hl. split; [|exact I]. intros sc. cbn [recase eval].
      now rewrite (eval_boolop_rc op l (Forall_Q_Pe _ Hl)).
    - intros l op r [Hl _] [Hr _]. split; [|exact I]. intros sc. cbn [recase eval]. rewrite Hl.
      destruct (ev l sc) as [[v| |k|u] sc1]; try reflexivity. now rewrite Hr.
    - intros op x [Hx _]. split; [|exact I]. intros sc. cbn [recase eval]. now rewrite Hx.
    - intros l rest [Hl _] Hrest. split; [|exact I]. intros sc. cbn [recase eval]. rewrite Hl.
      destruct (ev l sc) as [[v| |k|u] sc1]; try reflexivity.
      rewrite eval_compare_rc; [reflexivity|]. eapply Forall_impl; [|exact Hrest]. intros a [H _]. exact H.
    - intros a b c [Ha _] [Hb _] [Hc _]. split; [|exact I]. intros sc. cbn [recase eval]. rewrite Ha.
      destruct (ev a sc) as [[v| |k|u] sc1]; try reflexivity. destruct (truthy v); [now rewrite Hb|now rewrite Hc].
    - intros fn args kws Hfn Hargs _. split; [|exact I]. intros sc. cbn [recase eval].
      now rewrite (eval_call_rc fn args Hfn Hargs).
    - intros v a [Hv _]. split; [|exact Hv]. intros sc. cbn [recase eval].
      now rewrite (eval_attribute_rc v a Hv).
    - intros v s0 [Hv _] [Hs _]. split; [|exact I]. intros sc. cbn [recase eval]. rewrite Hv.
      destruct (ev v sc) as [[vv| |k|u] sc1]; try reflexivity. now rewrite Hs.
    - intros k elt gens [He _] Hg.
      assert (HG : Forall Pg gens).
      { eapply Forall_impl; [|exact Hg]. intros [[t it] ifs] [_ [[Hit _] Hifs]]. split; [exact Hit|].
        cbn [snd]. now apply Forall_Q_Pe. }
      split; [|split; assumption]. intros sc. cbn [recase eval].
      destruct k; try reflexivity.
      fold (map recase_gen gens). now rewrite (run_loop_rc step_list elt gens He HG).
    - intros t v [Ht _] [Hv _]. split; [|exact I]. intros sc. cbn [recase eval]. rewrite Hv.
      destruct (ev v sc) as [[x| |k|u] sc1]; try reflexivity.
      destruct t; cbn [recase]; try reflexivity. now rewrite f_case.
    - intros l _. split; [intros sc; reflexivity|exact I].
    - intros l _. split; [intros sc; reflexivity|exact I].
    - intros l _. split; [intros sc; reflexivity|exact I].
    - intros k ch _. split; [intros sc; reflexivity|exact I].
  Qed.

  Theorem name_case_insensitive : forall e sc, ev (recase e) sc = ev e sc.
  Proof. intros e. exact (proj1 (recase_Q e)). Qed.

  (* the whitelist does not look at identifiers either *)
  Lemma recase_kind e : node_kind (recase e) = node_kind e.
  Proof. destruct e; reflexivity. Qed.
End Recase.
