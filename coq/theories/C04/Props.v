(* C04 — expressions mean what the reference says: logic, comparisons, match functions.
   Model: Expr/Eval.v (hand model of tally.expr_parser.TransactionEvaluator, tied to the code by the
   correspondence check harness/c04.py).  Every theorem quantifies over arbitrary environments
   (transaction, user variables, supplemental tables, regex / fuzzy oracles), arbitrary sub-expressions,
   arbitrary scopes, and covers error outcomes and := effects: both sides are compared as
   (outcome, scope) pairs.  ASCII case mapping; floats exact (see harness assumptions). *)
From Coq Require Import String Ascii List Bool ZArith QArith.
From Tally Require Import Lib.Str Gen.C04Whitespace Expr.StrOps Expr.Date Expr.Syntax Expr.Funcs Expr.Eval C04.Proofs C04.NameCase.
Import ListNotations.
Open Scope string_scope.

(* ---------------- and / or / not ---------------- *)
Theorem c04_and_or_short_circuit :
  forall E : env,
    (forall sc, eval E (EBoolOp And []) sc = (Val (VBool true), sc)) /\
    (forall sc, eval E (EBoolOp Or []) sc = (Val (VBool false), sc)) /\
    (forall a rest sc, eval E (EBoolOp And (a :: rest)) sc =
       match eval E a sc with
       | (Val v, sc1) => if truthy v then eval E (EBoolOp And rest) sc1 else (Val (VBool false), sc1)
       | bad => bad
       end) /\
    (forall a rest sc, eval E (EBoolOp Or (a :: rest)) sc =
       match eval E a sc with
       | (Val v, sc1) => if truthy v then (Val (VBool true), sc1) else eval E (EBoolOp Or rest) sc1
       | bad => bad
       end).
Proof. exact and_or_short_circuit. Qed.
Print Assumptions c04_and_or_short_circuit.

Theorem c04_and_or_boolean :
  forall E op l sc v sc', eval E (EBoolOp op l) sc = (Val v, sc') -> exists b, v = VBool b.
Proof. exact boolop_result_boolean. Qed.
Print Assumptions c04_and_or_boolean.

(* not not a  ==  bool(a): same errors, same bindings *)
Theorem c04_double_negation :
  forall E a sc, eval E (EUnaryOp Not (EUnaryOp Not a)) sc = to_bool (eval E a sc).
Proof. exact double_negation. Qed.
Print Assumptions c04_double_negation.

Theorem c04_de_morgan_and :
  forall E l sc, eval E (EUnaryOp Not (EBoolOp And l)) sc = eval E (EBoolOp Or (map (EUnaryOp Not) l)) sc.
Proof. exact de_morgan_and. Qed.
Print Assumptions c04_de_morgan_and.

Theorem c04_de_morgan_or :
  forall E l sc, eval E (EUnaryOp Not (EBoolOp Or l)) sc = eval E (EBoolOp And (map (EUnaryOp Not) l)) sc.
Proof. exact de_morgan_or. Qed.
Print Assumptions c04_de_morgan_or.

(* operands that evaluate without error and leave the scope as it was may be swapped *)
Theorem c04_swap_pure_operands :
  forall E op a b sc va vb,
    eval E a sc = (Val va, sc) -> eval E b sc = (Val vb, sc) ->
    eval E (EBoolOp op [a; b]) sc = eval E (EBoolOp op [b; a]) sc /\
    eval E (EBoolOp op [a; b]) sc =
      (Val (VBool (match op with And => truthy va && truthy vb | Or => truthy va || truthy vb end)), sc).
Proof. exact swap_pure_operands. Qed.
Print Assumptions c04_swap_pure_operands.

(* ---------------- comparison chains ---------------- *)
(* full statement: for a middle operand whose evaluation does not bind, a op1 b op2 c is (a op1 b) and (b op2 c) *)
Definition c04_chain_is_conjunction_statement : Prop :=
  forall E a op1 b op2 c sc,
    (forall va sc1, eval E a sc = (Val va, sc1) -> exists ob, eval E b sc1 = (ob, sc1)) ->
    eval E (ECompare a [(op1, b); (op2, c)]) sc =
    eval E (EBoolOp And [ECompare a [(op1, b)]; ECompare b [(op2, c)]]) sc.

Definition ex_txn : txn :=
  {| t_description := "UBER EATS 123"; t_amount := VFloat (25 # 2); t_date := Some 739282%Z (* 2025-01-31 *);
     t_field := Some [("memo", VStr "Ref-77 uber")]; t_source := "Amex"; t_location := "" |}.
Definition ex_rows : value :=
  VList [VDict [("item", VStr "Book"); ("amount", VFloat (25 # 2))];
         VDict [("item", VStr "uber cable"); ("amount", VFloat 30)];
         VDict [("item", VStr ""); ("amount", VFloat (-161 # 4))]].
Definition ex_env : env :=
  {| e_txn := ex_txn; e_vars := [("k", VInt 3)]; e_ds := [("orders", ex_rows)];
     re_search := fun _ _ => None; re_sub := fun _ _ _ => None; fuzzy_ratio := fun _ _ => None |}.

(* proved for the tree.  The side condition is the one genuinely needed: the middle operand is evaluated
   twice on the right-hand side, so its evaluation must leave the scope as it finds it (it may fail: both
   sides then fail alike).  a and c are arbitrary (they may bind and fail).
   History: before the fix "a comparison chain hands the operand as written to the next link" the code
   carried the date-parsed form of b, and this statement was refuted by  date <= "2025-06-01" == "20250601". *)
Theorem c04_chain_is_conjunction : c04_chain_is_conjunction_statement.
Proof. intros E a op1 b op2 c sc H. now apply chain_is_conjunction. Qed.
Print Assumptions c04_chain_is_conjunction.

(* ---------------- case-insensitive string operators ---------------- *)
Theorem c04_str_eq_ci :
  forall a b,
    cmp_apply Eq (VStr a) (VStr b) = Val (VBool (String.eqb (lower a) (lower b))) /\
    cmp_apply NotEq (VStr a) (VStr b) = Val (VBool (negb (String.eqb (lower a) (lower b)))).
Proof. exact str_eq_ci. Qed.
Print Assumptions c04_str_eq_ci.

Theorem c04_in_ci :
  forall a b,
    cmp_apply In (VStr a) (VStr b) = Val (VBool (is_infix (upper a) (upper b))) /\
    cmp_apply NotIn (VStr a) (VStr b) = Val (VBool (negb (is_infix (upper a) (upper b)))).
Proof. exact str_in_ci. Qed.
Print Assumptions c04_in_ci.

(* ... as evaluated: on any two sub-expressions that yield strings *)
Theorem c04_str_compare_evaluated :
  forall E op x y sc a b sc1 sc2,
    eval E x sc = (Val (VStr a), sc1) -> eval E y sc1 = (Val (VStr b), sc2) ->
    eval E (ECompare x [(op, y)]) sc =
    (match cmp_apply op (VStr a) (VStr b) with Val v => Val (VBool (truthy v)) | o => wrap o end, sc2).
Proof. exact eval_str_compare. Qed.
Print Assumptions c04_str_compare_evaluated.

(* ---------------- match functions ---------------- *)
Theorem c04_contains_spec :
  forall E p t,
    fn_contains E [VStr p] = Val (VBool (is_infix (upper p) (upper (t_description (e_txn E))))) /\
    fn_contains E [VStr t; VStr p] = Val (VBool (is_infix (upper p) (upper t))) /\
    (is_infix (upper p) (upper t) = true <-> exists pre post, upper t = (pre ++ upper p ++ post)%string).
Proof. exact contains_spec. Qed.
Print Assumptions c04_contains_spec.

Theorem c04_startswith_spec :
  forall E p t,
    fn_startswith E [VStr p] = Val (VBool (is_prefix (upper p) (upper (t_description (e_txn E))))) /\
    fn_startswith E [VStr t; VStr p] = Val (VBool (is_prefix (upper p) (upper t))) /\
    (is_prefix (upper p) (upper t) = true <-> exists post, upper t = (upper p ++ post)%string).
Proof. exact startswith_spec. Qed.
Print Assumptions c04_startswith_spec.

Theorem c04_anyof_is_or_of_contains :
  forall E ps sc,
    eval E (ECall (EName "anyof") (map strc ps) []) sc =
    eval E (EBoolOp Or (map (fun p => ECall (EName "contains") [strc p] []) ps)) sc.
Proof. exact anyof_is_or_of_contains. Qed.
Print Assumptions c04_anyof_is_or_of_contains.

Theorem c04_normalized_spec :
  forall E p t,
    (fn_normalized E [VStr p] = Val (VBool (is_infix (normalize p) (normalize (t_description (e_txn E))))) /\
     fn_normalized E [VStr t; VStr p] = Val (VBool (is_infix (normalize p) (normalize t)))) /\
    (* a blank (any of CPython's 29 whitespace code points), hyphen, apostrophe, period or asterisk is ignored ... *)
    (forall s l1 c l2, cps (upper s) = (l1 ++ c :: l2)%list -> norm_drop c = true ->
       normalize s = sconcat (filter (fun x => negb (norm_drop x)) (l1 ++ l2))) /\
    (* ... every other code point is kept, in place *)
    (forall s l1 c l2, cps (upper s) = (l1 ++ c :: l2)%list -> norm_drop c = false ->
       normalize s = (sconcat (filter (fun x => negb (norm_drop x)) l1) ++ c ++
                      sconcat (filter (fun x => negb (norm_drop x)) l2))%string) /\
    (forall a a', ci_equal a a' -> normalize a = normalize a').
Proof.
  intros E p t. split; [apply normalized_spec|]. split; [apply normalize_drops|]. split; [apply normalize_keeps|apply normalize_case].
Qed.
Print Assumptions c04_normalized_spec.

(* the model's table of blanks is the interpreter's: str.isspace = regex \s, regenerated on every run *)
Theorem c04_whitespace_table_agrees : StrOps.ws_bytes = C04Whitespace.ws_bytes.
Proof. reflexivity. Qed.
Print Assumptions c04_whitespace_table_agrees.

(* trim() / .strip() / the pieces of split(): text = blanks ++ result ++ blanks, the result neither starts nor ends
   with a blank code point, and stripping twice changes nothing *)
Theorem c04_trim_spec :
  forall E s,
    fn_trim E [VStr s] = Val (VStr (strip s)) /\
    (exists pre post, s = (sconcat pre ++ strip s ++ sconcat post)%string /\
       Forall (fun c => is_space_cp c = true) pre /\ Forall (fun c => is_space_cp c = true) post /\
       match strip_cps (cps s) with x :: _ => is_space_cp x = false | [] => True end /\
       match rev (strip_cps (cps s)) with x :: _ => is_space_cp x = false | [] => True end) /\
    strip_cps (strip_cps (cps s)) = strip_cps (cps s) /\
    sconcat (cps s) = s.
Proof.
  intros E s. split; [reflexivity|]. split; [apply strip_spec|]. split; [apply strip_idempotent_cps|apply cps_concat].
Qed.
Print Assumptions c04_trim_spec.

(* regex(): decided by re.search(pattern, text, IGNORECASE) (oracle) alone; invalid pattern = ExpressionError *)
Theorem c04_regex_ci :
  forall E p t,
    fn_regex E [VStr t; VStr p] =
    match re_search E p t with
    | None => Unmodelled "regex-oracle-miss"
    | Some ReBad => ExprErr
    | Some ReNoMatch => Val (VBool false)
    | Some (ReMatch _ _) => Val (VBool true)
    end /\
    fn_regex E [VStr p] = fn_regex E [VStr (t_description (e_txn E)); VStr p].
Proof. exact regex_spec. Qed.
Print Assumptions c04_regex_ci.

Theorem c04_ascii_case_of_text_irrelevant :
  forall E p p' t t',
    ci_equal p p' -> ci_equal t t' ->
    (fn_contains E [VStr t; VStr p] = fn_contains E [VStr t'; VStr p'] /\
     fn_startswith E [VStr t; VStr p] = fn_startswith E [VStr t'; VStr p'] /\
     fn_normalized E [VStr t; VStr p] = fn_normalized E [VStr t'; VStr p'] /\
     fn_contains E [VStr p] = fn_contains E [VStr p'] /\
     fn_startswith E [VStr p] = fn_startswith E [VStr p'] /\
     fn_normalized E [VStr p] = fn_normalized E [VStr p'] /\
     fn_anyof E [VStr p] = fn_anyof E [VStr p']) /\
    (forall op, List.In op [Eq; NotEq; In; NotIn] ->
       cmp_apply op (VStr p) (VStr t) = cmp_apply op (VStr p') (VStr t')).
Proof.
  intros E p p' t t' Hp Ht. split; [now apply text_case_irrelevant|].
  intros op Hop. now apply str_cmp_case_irrelevant.
Qed.
Print Assumptions c04_ascii_case_of_text_irrelevant.

(* ---------------- dates ---------------- *)
Theorem c04_date_vs_iso_string :
  forall op n s n',
    parse_iso s = IsoOk n' ->
    compare_link op (VDate n) (VStr s) = cmp_apply op (VDate n) (VDate n') /\
    compare_link op (VStr s) (VDate n) = cmp_apply op (VDate n') (VDate n) /\
    (List.In op [Lt; LtE; Gt; GtE] -> cmp_apply op (VDate n) (VDate n') = Val (VBool (order_test op (n ?= n')%Z))) /\
    cmp_apply Eq (VDate n) (VDate n') = Val (VBool (n =? n')%Z) /\
    cmp_apply NotEq (VDate n) (VDate n') = Val (VBool (negb (n =? n')%Z)).
Proof. exact date_vs_iso_string. Qed.
Print Assumptions c04_date_vs_iso_string.

(* ordinal order is calendar order, so the comparison above is the comparison of (year, month, day) *)
Theorem c04_date_order_is_calendar_order :
  forall y m d y' m' d',
    (1 <= y)%Z -> (1 <= m <= 12)%Z -> (1 <= d <= days_in_month y m)%Z ->
    (1 <= m' <= 12)%Z -> (1 <= d' <= days_in_month y' m')%Z ->
    ymd_lt (y, m, d) (y', m', d') -> (ordinal_of_ymd y m d < ordinal_of_ymd y' m' d')%Z.
Proof. exact ordinal_of_ymd_mono. Qed.
Print Assumptions c04_date_order_is_calendar_order.

Theorem c04_date_parts :
  forall E n,
    t_date (e_txn E) = Some n -> (1 <= n)%Z ->
    let '(y, m, d) := ymd_of_ordinal n in
    txn_attr E "year" = Val (VInt y) /\ txn_attr E "month" = Val (VInt m) /\ txn_attr E "day" = Val (VInt d) /\
    txn_attr E "weekday" = Val (VInt ((n + 6) mod 7)) /\ txn_attr E "date" = Val (VDate n) /\
    (1 <= m <= 12)%Z /\ (1 <= d <= days_in_month y m)%Z /\ ordinal_of_ymd y m d = n.
Proof. exact date_parts. Qed.
Print Assumptions c04_date_parts.

Theorem c04_date_parts_missing :
  forall E, t_date (e_txn E) = None ->
    txn_attr E "year" = Val (VInt 0) /\ txn_attr E "month" = Val (VInt 0) /\ txn_attr E "day" = Val (VInt 0) /\
    txn_attr E "weekday" = Val (VInt 0) /\ txn_attr E "date" = Val VNone.
Proof. exact date_parts_missing. Qed.
Print Assumptions c04_date_parts_missing.

Theorem c04_bare_names_are_txn_attributes :
  forall E name sc,
    List.In name ["year"; "month"; "day"; "weekday"; "date"; "amount"; "description"; "source"] ->
    sget sc name = None -> sget (e_vars E) name = None ->
    lookup_name E name sc = txn_attr E name.
Proof. exact bare_date_names. Qed.
Print Assumptions c04_bare_names_are_txn_attributes.

(* ---------------- arithmetic ---------------- *)
Theorem c04_div_mod_zero :
  forall E op a b sc lv sc1 rv sc2,
    List.In op [Div; Mod] -> eval E a sc = (Val lv, sc1) -> eval E b sc1 = (Val rv, sc2) -> eq_zero rv = true ->
    eval E (EBinOp a op b) sc = (Val (VInt 0), sc2).
Proof. exact eval_div_mod_zero. Qed.
Print Assumptions c04_div_mod_zero.

Theorem c04_zero_divisors :
  forall rv, eq_zero rv = true <-> rv = VBool false \/ rv = VInt 0 \/ exists q, rv = VFloat q /\ Qeq q 0.
Proof. exact eq_zero_spec. Qed.
Print Assumptions c04_zero_divisors.

(* ---------------- name resolution ---------------- *)
(* a bare name resolves, lower-cased, through: scope (loop variables, := targets) -> user variables -> transaction
   primitives -> supplemental tables -> ExpressionError *)
Theorem c04_name_resolution_order :
  forall E id sc,
    eval E (EName id) sc =
    (match sget sc (lower id) with
     | Some v => Val v
     | None =>
         match sget (e_vars E) (lower id) with
         | Some v => Val v
         | None =>
             match primitive_value E (lower id) with
             | Some v => Val v
             | None => match sget (e_ds E) (lower id) with Some v => Val v | None => ExprErr end
             end
         end
     end, sc).
Proof. exact name_resolution_order. Qed.
Print Assumptions c04_name_resolution_order.

(* txn.<name> and field.<name> are never shadowed: two evaluations that agree on the transaction agree on them,
   whatever their scopes, user variables, tables and oracles hold (even entries called txn, field, amount, ...) *)
Theorem c04_txn_field_never_shadowed :
  forall E E' id attr sc sc',
    e_txn E = e_txn E' -> lower id = "txn" \/ lower id = "field" ->
    fst (eval E (EAttribute (EName id) attr) sc) = fst (eval E' (EAttribute (EName id) attr) sc') /\
    snd (eval E (EAttribute (EName id) attr) sc) = sc.
Proof.
  intros E E' id attr sc sc' HT [H|H].
  - rewrite !(eval_txn_attr _ id attr _ H). cbn [fst snd]. split; [|reflexivity].
    unfold txn_attr, date_part, date_value. now rewrite HT.
  - rewrite !(eval_field_attr _ id attr _ H). cbn [fst snd]. split; [|reflexivity].
    unfold field_attr, date_value. now rewrite HT.
Qed.
Print Assumptions c04_txn_field_never_shadowed.

(* ---------------- := ---------------- *)
Theorem c04_walrus_binds :
  forall E id x sc,
    eval E (ENamedExpr (EName id) x) sc =
      match eval E x sc with (Val v, sc1) => (Val v, sset sc1 (lower id) v) | bad => bad end /\
    (forall id' v sc1, lower id' = lower id ->
       eval E (EName id') (sset sc1 (lower id) v) = (Val v, sset sc1 (lower id) v)).
Proof. exact walrus_binds. Qed.
Print Assumptions c04_walrus_binds.

(* ---------------- extraction / transform functions (reference tables) ---------------- *)
Theorem c04_extract_spec :
  forall E p t,
    fn_extract E [VStr t; VStr p] =
    match re_search E p t with
    | None => Unmodelled "regex-oracle-miss"
    | Some ReBad => ExprErr
    | Some ReNoMatch | Some (ReMatch O _) => Val (VStr "")
    | Some (ReMatch (S _) (Some g)) => Val (VStr g)
    | Some (ReMatch (S _) None) => Val VNone
    end.
Proof. exact extract_spec. Qed.
Print Assumptions c04_extract_spec.

Theorem c04_split_spec :
  forall E t dl i, dl <> "" ->
    fn_split E [VStr t; VStr dl; VInt i] =
    Val (VStr (if ((0 <=? i) && (i <? Z.of_nat (length (split_on dl t))))%Z
               then strip (nth (Z.to_nat i) (split_on dl t) "") else "")).
Proof. exact split_spec. Qed.
Print Assumptions c04_split_spec.

Theorem c04_substring_spec :
  forall E t a b,
    fn_substring E [VStr t; VInt a; VInt b] = Val (VStr (slice_str t a b)) /\
    fn_substring E [VInt a; VInt b] = Val (VStr (slice_str (t_description (e_txn E)) a b)).
Proof. exact substring_spec. Qed.
Print Assumptions c04_substring_spec.

Theorem c04_trim_strip_prefix_uppercase_lowercase_spec :
  forall E s t,
    fn_uppercase [VStr s] = Val (VStr (upper s)) /\
    fn_lowercase [VStr s] = Val (VStr (lower s)) /\
    fn_trim E [VStr s] = Val (VStr (strip s)) /\
    fn_trim E [] = Val (VStr (strip (t_description (e_txn E)))) /\
    fn_strip_prefix [VStr t; VStr s] = Val (VStr (strip_prefix_str t s)) /\
    fn_strip_suffix [VStr t; VStr s] = Val (VStr (strip_suffix_str t s)).
Proof. exact transform_specs. Qed.
Print Assumptions c04_trim_strip_prefix_uppercase_lowercase_spec.

(* strip_suffix(text, suffix) removes the suffix if present, whatever the suffix (the empty one included).
   The guard says the suffix is not longer than the text, which holds whenever the suffix test succeeds on
   well-formed text.  History: refuted by ("STORE", "") before the fix "strip_suffix slices by explicit length". *)
Definition c04_strip_suffix_statement : Prop := strip_suffix_statement.
Theorem c04_strip_suffix : c04_strip_suffix_statement.
Proof. exact strip_suffix_holds. Qed.
Print Assumptions c04_strip_suffix.

(* ---------------- letter case of names ---------------- *)
(* re-casing every identifier of an expression (variables, attributes, function / method names, loop
   variables, := targets) by any map f that only changes letter case leaves (outcome, scope) unchanged *)
Theorem c04_name_case_insensitive :
  forall f : string -> string, (forall s, lower (f s) = lower s) ->
  forall E e sc, eval E (recase f e) sc = eval E e sc.
Proof. exact name_case_insensitive. Qed.
Print Assumptions c04_name_case_insensitive.

(* ---------------- comprehensions and their consumers ---------------- *)
(* one clause `for id in iter if ifs...` whose loop variable shadows nothing and whose conditions / element
   succeed without touching the scope: fc it = "all conditions hold for it", fe it = value of the element *)
Definition pure_clause (E : env) (id : string) (iter : pyast) (ifs : list pyast) (elt : pyast) (sc : scope)
           (items : list value) (fc : value -> bool) (fe : value -> value) : Prop :=
  (exists itv, eval E iter sc = (Val itv, sc) /\ iter_items itv = ItItems items) /\
  sget sc (lower id) = None /\
  (forall it, List.In it items ->
     eval_ifs (eval E) ifs (sset sc (lower id) it) = (inl (fc it), sset sc (lower id) it)) /\
  (forall it, List.In it items -> fc it = true ->
     eval E elt (sset sc (lower id) it) = (Val (fe it), sset sc (lower id) it)).

Theorem c04_listcomp_is_filter_map :
  forall E id iter ifs elt sc items fc fe, pure_clause E id iter ifs elt sc items fc fe ->
    eval E (EComp ListComp elt [(EName id, iter, ifs)]) sc = (Val (VList (map fe (filter fc items))), sc).
Proof. intros * [[itv [H1 H2]] [H3 [H4 H5]]]. eapply listcomp_is_filter_map; eauto. Qed.
Print Assumptions c04_listcomp_is_filter_map.

Theorem c04_len_spec :
  forall E id iter ifs elt sc items fc fe, pure_clause E id iter ifs elt sc items fc fe ->
    eval E (ECall (EName "len") [EComp ListComp elt [(EName id, iter, ifs)]] []) sc =
    (Val (VInt (Z.of_nat (length (filter fc items)))), sc).
Proof.
  intros * [[itv [H1 H2]] [H3 [H4 H5]]]. erewrite len_listcomp; eauto. now rewrite map_length.
Qed.
Print Assumptions c04_len_spec.

(* any / all / next stop pulling at the deciding element (the loop variable then stays bound to it, as in
   the code): the value is stated *)
Theorem c04_any_spec :
  forall E id iter ifs elt sc items fc fe, pure_clause E id iter ifs elt sc items fc fe ->
    fst (eval E (ECall (EName "any") [EComp GeneratorExp elt [(EName id, iter, ifs)]] []) sc) =
    Val (VBool (existsb truthy (map fe (filter fc items)))).
Proof. intros * [[itv [H1 H2]] [H3 [H4 H5]]]. eapply any_generator; eauto. Qed.
Print Assumptions c04_any_spec.

Theorem c04_all_spec :
  forall E id iter ifs elt sc items fc fe, pure_clause E id iter ifs elt sc items fc fe ->
    fst (eval E (ECall (EName "all") [EComp GeneratorExp elt [(EName id, iter, ifs)]] []) sc) =
    Val (VBool (forallb truthy (map fe (filter fc items)))).
Proof. intros * [[itv [H1 H2]] [H3 [H4 H5]]]. eapply all_generator; eauto. Qed.
Print Assumptions c04_all_spec.

Theorem c04_sum_spec :
  forall E id iter ifs elt sc items fc fe, pure_clause E id iter ifs elt sc items fc fe ->
    fst (eval E (ECall (EName "sum") [EComp GeneratorExp elt [(EName id, iter, ifs)]] []) sc) =
    match feed step_sum (VInt 0) (map fe (filter fc items)) with SCont v | SStop v => Val v | SFail o => wrap o end /\
    (forall zs, map fe (filter fc items) = map VInt zs ->
       fst (eval E (ECall (EName "sum") [EComp GeneratorExp elt [(EName id, iter, ifs)]] []) sc) =
       Val (VInt (fold_left Z.add zs 0%Z))).
Proof.
  intros * [[itv [H1 H2]] [H3 [H4 H5]]].
  assert (S := sum_generator E id iter elt ifs sc itv items fc fe H1 H2 H3 H4 H5).
  split; [exact S|]. intros zs Hz. rewrite S, Hz, feed_step_sum_ints. reflexivity.
Qed.
Print Assumptions c04_sum_spec.

Theorem c04_next_spec :
  forall E id iter ifs elt sc items fc fe, pure_clause E id iter ifs elt sc items fc fe ->
  forall dflt dv, const_outcome dflt = Val dv ->
    fst (eval E (ECall (EName "next") [EComp GeneratorExp elt [(EName id, iter, ifs)]; EConst dflt] []) sc) =
    Val (match map fe (filter fc items) with x :: _ => x | [] => dv end).
Proof. intros * [[itv [H1 H2]] [H3 [H4 H5]]] dflt dv Hd. eapply next_generator; eauto. Qed.
Print Assumptions c04_next_spec.

(* ---------------- non-vacuity: the laws' hypotheses are met by non-trivial cases ---------------- *)
Definition call (f : string) (args : list pyast) : pyast := ECall (EName f) args [].
Definition ex_uber := call "contains" [strc "uber"].
Definition ex_big := ECompare (EName "amount") [(Gt, EConst (CInt 10))].
Definition ex_bind := ENamedExpr (EName "M") (EComp ListComp (EName "r")
  [(EName "r", EName "orders", [ECompare (EAttribute (EName "r") "amount") [(Eq, EAttribute (EName "txn") "amount")]])]).

Example c04_example_short_circuit :
  (* the right operand would fail; it is not evaluated *)
  fst (eval ex_env (EBoolOp Or [ex_uber; EName "nope"]) []) = Val (VBool true) /\
  fst (eval ex_env (EBoolOp And [ex_uber; EName "nope"]) []) = ExprErr /\
  fst (eval ex_env (EBoolOp And [EUnaryOp Not ex_uber; EName "nope"]) []) = Val (VBool false).
Proof. vm_compute. repeat split; reflexivity. Qed.

Example c04_example_swap_needs_purity :
  (* swapping is not valid when an operand fails ... *)
  fst (eval ex_env (EBoolOp And [EUnaryOp Not ex_uber; EName "nope"]) []) <> fst (eval ex_env (EBoolOp And [EName "nope"; EUnaryOp Not ex_uber]) []) /\
  (* ... and is valid, by the theorem, for two succeeding non-binding operands *)
  eval ex_env ex_uber [] = (Val (VBool true), []) /\ eval ex_env ex_big [] = (Val (VBool true), []).
Proof. vm_compute. repeat split; try reflexivity. discriminate. Qed.

Example c04_example_de_morgan_with_binding :
  (* both sides bind m and agree on value and scope *)
  eval ex_env (EUnaryOp Not (EBoolOp And [ex_bind; ex_big])) [] = (Val (VBool false), [("m", VList [VDict [("item", VStr "Book"); ("amount", VFloat (25 # 2))]])]).
Proof. vm_compute. reflexivity. Qed.

Example c04_example_chain :
  (* 10 < amount <= 12.5: the middle operand does not bind *)
  (forall va sc1, eval ex_env (EConst (CInt 10)) [] = (Val va, sc1) -> exists ob, eval ex_env (EName "amount") sc1 = (ob, sc1)) /\
  fst (eval ex_env (ECompare (EConst (CInt 10)) [(Lt, EName "amount"); (LtE, EConst (CFloat (25 # 2)))]) []) = Val (VBool true) /\
  (* the former counterexample: both sides are False now *)
  fst (eval ex_env (ECompare (EName "date") [(LtE, strc "2025-06-01"); (Eq, strc "20250601")]) []) = Val (VBool false) /\
  fst (eval ex_env (EBoolOp And [ECompare (EName "date") [(LtE, strc "2025-06-01")];
                                 ECompare (strc "2025-06-01") [(Eq, strc "20250601")]]) []) = Val (VBool false) /\
  (* a binding middle operand is outside the law: (w := w + 1) is evaluated once on the left, twice on the right *)
  fst (eval ex_env (ECompare (EConst (CInt 0)) [(Lt, ENamedExpr (EName "k") (EBinOp (EName "k") Add (EConst (CInt 1)))); (Lt, EConst (CInt 5))]) [])
  <> fst (eval ex_env (EBoolOp And [ECompare (EConst (CInt 0)) [(Lt, ENamedExpr (EName "k") (EBinOp (EName "k") Add (EConst (CInt 1))))];
                                   ECompare (ENamedExpr (EName "k") (EBinOp (EName "k") Add (EConst (CInt 1)))) [(Lt, EConst (CInt 5))]]) []).
Proof.
  split; [intros va sc1 H; inversion H; subst; eexists; reflexivity|].
  vm_compute. repeat split; try reflexivity. discriminate.
Qed.

Example c04_example_strings_dates :
  fst (eval ex_env (ECompare (EName "source") [(Eq, strc "AMEX")]) []) = Val (VBool true) /\
  fst (eval ex_env (ECompare (strc "eats") [(In, EName "description")]) []) = Val (VBool true) /\
  fst (eval ex_env (call "anyof" [strc "netflix"; strc "Uber"]) []) = Val (VBool true) /\
  fst (eval ex_env (call "NORMALIZED" [strc "ubereats"]) []) = Val (VBool true) /\
  fst (eval ex_env (ECompare (EName "date") [(GtE, strc "2025-01-31")]) []) = Val (VBool true) /\
  fst (eval ex_env (ECompare (EName "date") [(Lt, strc "2025-01-31")]) []) = Val (VBool false) /\
  fst (eval ex_env (ECompare (EName "date") [(Lt, strc "2025-02-30")]) []) = ExprErr /\
  parse_iso "2025-01-31" = IsoOk 739282%Z /\ ymd_of_ordinal 739282 = (2025, 1, 31)%Z /\
  fst (eval ex_env (EName "weekday") []) = Val (VInt 4) /\
  fst (eval ex_env (EBinOp (EName "amount") Div (EBinOp (EName "k") Sub (EConst (CInt 3)))) []) = Val (VInt 0) /\
  fst (eval ex_env (EBinOp (strc "x") Mod (EConst (CFloat 0))) []) = Val (VInt 0).
Proof. vm_compute. repeat split; reflexivity. Qed.

Example c04_example_transforms :
  fn_split ex_env [VStr "ACH-OUT-123"; VStr "-"; VInt 0] = Val (VStr "ACH") /\
  fn_substring ex_env [VStr "AMZN*MARKET"; VInt 0; VInt 4] = Val (VStr "AMZN") /\
  fn_trim ex_env [VStr "  AMAZON  "] = Val (VStr "AMAZON") /\
  fn_strip_prefix [VStr "SQ*COFFEE"; VStr "sq*"] = Val (VStr "COFFEE") /\
  fn_strip_suffix [VStr "STORE DES:123"; VStr " des:123"] = Val (VStr "STORE") /\
  fn_strip_suffix [VStr "STORE"; VStr ""] = Val (VStr "STORE") /\
  fn_uppercase [VStr "Starbucks"] = Val (VStr "STARBUCKS").
Proof. vm_compute. repeat split; reflexivity. Qed.

(* the comprehension theorems apply to a query over the supplemental table of the example environment:
   [r.item for r in orders if r.amount > 0] *)
Definition ex_rows_list : list value :=
  [VDict [("item", VStr "Book"); ("amount", VFloat (25 # 2))];
   VDict [("item", VStr "uber cable"); ("amount", VFloat 30)];
   VDict [("item", VStr ""); ("amount", VFloat (-161 # 4))]].
Definition ex_fc (it : value) : bool :=
  match it with VDict d => match dict_get d "amount" with Some (VFloat q) => Qltb 0 q | _ => false end | _ => false end.
Definition ex_fe (it : value) : value :=
  match it with VDict d => match dict_get d "item" with Some v => v | None => VNone end | _ => VNone end.

Example c04_example_pure_clause :
  pure_clause ex_env "R" (EName "orders") [ECompare (EAttribute (EName "r") "amount") [(Gt, EConst (CInt 0))]]
              (EAttribute (EName "r") "item") [] ex_rows_list ex_fc ex_fe.
Proof.
  split; [exists (VList ex_rows_list); split; reflexivity|].
  split; [reflexivity|].
  split.
  - intros it Hin. cbn in Hin. destruct Hin as [<-|[<-|[<-|[]]]]; vm_compute; reflexivity.
  - intros it Hin Hc. cbn in Hin. destruct Hin as [<-|[<-|[<-|[]]]]; vm_compute; reflexivity.
Qed.

Example c04_example_comprehension_values :
  eval ex_env (EComp ListComp (EAttribute (EName "r") "item")
                 [(EName "R", EName "orders", [ECompare (EAttribute (EName "r") "amount") [(Gt, EConst (CInt 0))]])]) []
  = (Val (VList [VStr "Book"; VStr "uber cable"]), []) /\
  map ex_fe (filter ex_fc ex_rows_list) = [VStr "Book"; VStr "uber cable"] /\
  (* a generator left early keeps its loop variable: any(...) and r *)
  snd (eval ex_env (call "any" [EComp GeneratorExp (EConst (CBool true)) [(EName "r", EName "orders", [])]]) [])
  = [("r", VDict [("item", VStr "Book"); ("amount", VFloat (25 # 2))])].
Proof. vm_compute. repeat split; reflexivity. Qed.

Example c04_example_name_case :
  (forall s, lower (upper s) = lower s) /\
  recase upper (ECompare (call "contains" [EAttribute (EName "field") "memo"; strc "ref"]) [(Eq, EName "true")])
  = ECompare (ECall (EName "CONTAINS") [EAttribute (EName "FIELD") "MEMO"; strc "ref"] []) [(Eq, EName "TRUE")] /\
  fst (eval ex_env (ECompare (ECall (EName "CONTAINS") [EAttribute (EName "FIELD") "MEMO"; strc "ref"] []) [(Eq, EName "TRUE")]) [])
  = Val (VBool true).
Proof. split; [exact lower_upper|]. vm_compute. split; reflexivity. Qed.

Example c04_example_resolution_and_blanks :
  (* a loop variable, a := target and a user variable called amount: the bare name is shadowed, txn.amount is not *)
  fst (eval ex_env (EName "K") [("k", VInt 9)]) = Val (VInt 9) /\ fst (eval ex_env (EName "K") []) = Val (VInt 3) /\
  fst (eval ex_env (EName "amount") [("amount", VStr "bound")]) = Val (VStr "bound") /\
  fst (eval ex_env (EAttribute (EName "txn") "amount") [("amount", VStr "bound"); ("txn", VStr "bound")]) = Val (VFloat (25 # 2)) /\
  (* NBSP (C2 A0) and IDEOGRAPHIC SPACE (E3 80 80) are blanks; ZERO WIDTH SPACE (E2 80 8B) is not *)
  strip (bytes [194; 160; 65; 32; 66; 227; 128; 128]%N) = "A B" /\
  normalize (bytes [119; 104; 111; 108; 101; 194; 160; 102; 111; 111; 100; 115]%N) = "WHOLEFOODS" /\
  normalize (bytes [97; 226; 128; 139; 98]%N) = bytes [65; 226; 128; 139; 66]%N /\
  split_ws (bytes [97; 226; 128; 137; 98; 32; 32; 99]%N) = ["a"; "b"; "c"] /\
  length ws_codepoints = 29%nat.
Proof. vm_compute. repeat split; reflexivity. Qed.
