(* C15/ProofsLayout.v — the folder-layout migration (./config -> ./tally/config): nothing is ever lost,
   and at the guarded interruption points the budget still classifies as before, now or after
   re-running `tally update`. *)
From Coq Require Import String List Bool Arith Lia.
From Tally Require Import C15.Model C15.Spec.
Import ListNotations.
Open Scope string_scope.
Open Scope list_scope.

Section Layout.
Variable O : oracle.

Lemma layout_no_loss :
  forall (s0 r0 : string) (d rep : option string) (t : bool) (tc : option (string * string)) (td : bool)
         (k j n : nat) (f0 f1 f2 : fs),
    f0 = layout_budget s0 r0 d rep t tc td ->
    f1 = crash (update_ops O f0) k j n f0 ->
    f2 = update_rerun O f1 ->
    content_kept f0 f1 f2.
Proof.
  intros s0 r0 d rep t tc td k j n f0 f1 f2 E0 E1 E2. unfold content_kept.
  destruct d as [d0|]; destruct rep as [p0|]; destruct t; destruct tc as [[s1 r1]|]; destruct td; subst f0;
  revert E1; split_k k; norminx E1; subst f1; norminx E2; subst f2; split; solve_no_loss.
Qed.

Lemma layout_crash_rules_safe :
  forall (s0 r0 : string) (d rep : option string) (t : bool) (tc : option (string * string)) (td : bool)
         (k j n : nat) (f0 f1 f2 : fs),
    mf O s0 = MfKey [Aconfig; Arules] ->
    layout_guard d tc td k = true ->
    f0 = layout_budget s0 r0 d rep t tc td ->
    f1 = crash (update_ops O f0) k j n f0 ->
    f2 = update_rerun O f1 ->
    layout_rules_safe O f0 f1 f2 r0.
Proof.
  intros s0 r0 d rep t tc td k j n f0 f1 f2 Hmf Hg E0 E1 E2.
  destruct tc as [[s1 r1]|]; [discriminate Hg|].
  destruct d as [d0|]; cbn in Hg.
  - apply andb_true_iff in Hg. destruct Hg as [Htd Hk]. apply negb_true_iff in Htd. subst td.
    destruct rep as [p0|]; destruct t; subst f0;
    revert Hk E1; split_k k; try discriminate Hk;
    norminx E1; subst f1; norminx E2; subst f2; solve_rules.
  - destruct rep as [p0|]; destruct t; destruct td; subst f0;
    revert E1; split_k k;
    norminx E1; subst f1; norminx E2; subst f2; solve_rules.
Qed.

End Layout.
