(* C15/Spec.v — specification vocabulary, content lemmas and tactics for the crash / fault safety of tally's two
   migrations over the model C15/Model.v.  Proofs are case analyses over the step index (<= 9 steps),
   the shape of the initial budget and the stuck oracle answers; file contents stay universally
   quantified.  The states are computed by [cbv] with the content operations and the oracle kept
   opaque, stage by stage (interrupted state, then the re-run, then the clauses). *)
From Coq Require Import String List Bool Arith Lia.
From Tally Require Import C15.Model.
Import ListNotations.
Open Scope string_scope.
Open Scope list_scope.

(* ---- content lemmas --------------------------------------------------------------------- *)
Lemma capp_nil_l x : capp "" x = x.
Proof. reflexivity. Qed.
Lemma ceqb_refl x : ceqb x x = true.
Proof. apply String.eqb_refl. Qed.
Lemma cprefix_refl x : cprefix x x = true.
Proof.
  unfold cprefix. induction x as [|a x IH]; simpl; auto.
  destruct (Ascii.ascii_dec a a); congruence.
Qed.
Lemma cprefix_app x y : cprefix x (capp x y) = true.
Proof.
  unfold cprefix, capp. induction x as [|a x IH]; simpl; [destruct y; auto|].
  destruct (Ascii.ascii_dec a a); congruence.
Qed.
Lemma cprefix_app2 x y z : cprefix x (capp (capp x y) z) = true.
Proof.
  unfold cprefix, capp. induction x as [|a x IH]; simpl; [destruct (y ++ z)%string; auto|].
  destruct (Ascii.ascii_dec a a); congruence.
Qed.
Lemma cprefix_app3 x y z w : cprefix x (capp (capp (capp x y) z) w) = true.
Proof.
  unfold cprefix, capp. induction x as [|a x IH]; simpl; [destruct ((y ++ z) ++ w)%string; auto|].
  destruct (Ascii.ascii_dec a a); congruence.
Qed.
Lemma cprefix_app4 x y z w u : cprefix x (capp (capp (capp (capp x y) z) w) u) = true.
Proof.
  unfold cprefix, capp. induction x as [|a x IH]; simpl; [destruct (((y ++ z) ++ w) ++ u)%string; auto|].
  destruct (Ascii.ascii_dec a a); congruence.
Qed.

Lemma nat_cases9 (P : nat -> Prop) :
  P 0 -> P 1 -> P 2 -> P 3 -> P 4 -> P 5 -> P 6 -> P 7 -> P 8 -> (forall j, P (9 + j)) -> forall k, P k.
Proof.
  intros H0 H1 H2 H3 H4 H5 H6 H7 H8 H9 k.
  do 9 (destruct k as [|k]; [assumption|]). apply (H9 k).
Qed.

(* ---- specification vocabulary (used by the statements in Props.v) -------------------------- *)
Section Spec.
Variable O : oracle.

Definition cd0 : path := [Aconfig].

(* clauses 2 and 3 of the property for an interrupted state f1 and the state f2 after re-running *)
Definition csv_rules_safe (f1 f2 : fs) (c0 : string) : Prop :=
  (users O c0 (resolve O f1 cd0) = true \/ users O c0 (resolve O f2 cd0) = true)
  /\ stranded O c0 (resolve O f1 cd0) f1 = false
  /\ stranded O c0 (resolve O f2 cd0) f2 = false.

(* clause 1 *)
Definition content_kept (f0 f1 f2 : fs) : Prop := no_loss f0 f1 = true /\ no_loss f0 f2 = true.

Definition csv_safe (f0 f1 f2 : fs) (c0 : string) : Prop := content_kept f0 f1 f2 /\ csv_rules_safe f1 f2 c0.

(* before the migration the budget classifies with the user's CSV; `tally init` may also start
   without any settings.yaml (then it migrates only a CSV with rule lines and no merchants.rules) *)
Definition csv_pre (c : cmd) (s : option string) (c0 : string) (r : option string) : Prop :=
  match s with
  | Some s0 => mf O s0 = MfNone
  | None => c = Init /\ r = None /\ has_rule_lines O c0 = true
  end.

(* what YAML and the converter are assumed to do on the texts involved (named laws on the oracle):
   appending the two key lines to a settings text without the key sets the key, appending the views
   lines changes nothing (and is seen by the 'views_file:' test), the starter settings name config/merchants.rules, and the conversion of a
   CSV holds a rule exactly when the CSV does *)
Definition yaml_laws (s : option string) (c0 : string) : Prop :=
  nonempty_new O (conv O c0) = nonempty O c0 /\
  match s with
  | Some s0 =>
    let sl := capp (capp s0 (l1 O)) (l2 O) in
    (has_sub O s0 = false -> mf O sl = MfKey [Aconfig; Arules]) /\
    mf O (capp (capp s0 (v1 O)) (v2 O)) = MfNone /\
    (has_sub O s0 = false -> mf O (capp (capp sl (v1 O)) (v2 O)) = MfKey [Aconfig; Arules]) /\
    has_vsub O (capp (capp s0 (v1 O)) (v2 O)) = true /\
    has_vsub O (capp (capp sl (v1 O)) (v2 O)) = true
  | None => mf O (starter_settings O) = MfKey [Aconfig; Arules] /\ has_vsub O (starter_settings O) = true
  end.

(* the interruption points at which the rules clauses hold (computable) *)
Definition csv_crash_guard (s : option string) (k : nat) : bool :=
  match s with
  | Some s0 => negb (has_sub O s0) && (Nat.leb k 3 || Nat.leb 8 k)   (* before the move, or settings closed *)
  | None => Nat.eqb k 0 || Nat.leb 3 k                               (* merchants.rules not begun, or closed *)
  end.

Definition csv_fault_guard (c : cmd) (s : option string) (k : nat) : bool :=
  match s with
  | Some s0 => negb (has_sub O s0) && Nat.leb k 3
  | None => Nat.leb 3 k
  end.

(* a failed `tally up --migrate` goes on with get_all_rules(csv path): not an empty rule set while
   the user's rules are on disk *)
Definition inrun_safe (c : cmd) (g : fs) (c0 : string) : Prop :=
  c = Up -> stranded O c0 (up_inrun_after_fault g cd0) g = false.

(* layout *)
Definition layout_rules_safe (f0 f1 f2 : fs) (r0 : string) : Prop :=
  (lres_eqb (resolve_layout O f1) (resolve_layout O f0) = true \/
   lres_eqb (resolve_layout O f2) (resolve_layout O f0) = true)
  /\ layout_stranded O r0 (fst (resolve_layout O f1)) f1 = false
  /\ layout_stranded O r0 (fst (resolve_layout O f2)) f2 = false.

Definition layout_safe (f0 f1 f2 : fs) (r0 : string) : Prop := content_kept f0 f1 f2 /\ layout_rules_safe f0 f1 f2 r0.

(* safe interruption points of the layout migration: no other budget already at ./tally/config, the
   statement directory does not get nested, and not between "config moved" and "data moved" *)
Definition layout_guard (d : option string) (tc : option (string * string)) (td : bool) (k : nat) : bool :=
  match tc with Some _ => false | None => true end
  && match d with Some _ => negb td && negb (Nat.eqb k 2) | None => true end.

End Spec.

(* ---- tactics ---------------------------------------------------------------------------------- *)
Ltac red_ :=
  cbv -[capp ctake ceqb cprefix conv mf has_sub has_vsub has_rule_lines nonempty nonempty_new l1 l2 v1 v2
        starter_settings starter_merchants starter_views gitignore_txt schema_txt Nat.leb Nat.eqb
        no_loss users stranded layout_stranded lres_eqb].
Ltac red_in H :=
  cbv -[capp ctake ceqb cprefix conv mf has_sub has_vsub has_rule_lines nonempty nonempty_new l1 l2 v1 v2
        starter_settings starter_merchants starter_views gitignore_txt schema_txt Nat.leb Nat.eqb
        no_loss users stranded layout_stranded lres_eqb] in H.

Ltac rw :=
  repeat match goal with
         | H : mf _ _ = _ |- _ => rewrite H
         | H : has_sub _ _ = _ |- _ => rewrite H
         | H : has_vsub _ _ = _ |- _ => rewrite H
         | H : has_rule_lines _ _ = _ |- _ => rewrite H
         | H : nonempty_new _ _ = _ |- _ => rewrite H
         | H : nonempty _ _ = _ |- _ => rewrite H
         end; rewrite ?capp_nil_l.
Ltac rw_in E :=
  repeat match goal with
         | H : mf _ _ = _ |- _ => rewrite H in E
         | H : has_sub _ _ = _ |- _ => rewrite H in E
         | H : has_vsub _ _ = _ |- _ => rewrite H in E
         | H : has_rule_lines _ _ = _ |- _ => rewrite H in E
         | H : nonempty_new _ _ = _ |- _ => rewrite H in E
         | H : nonempty _ _ = _ |- _ => rewrite H in E
         end; rewrite ?capp_nil_l in E.

(* case-split one stuck oracle answer (or stuck content test) that blocks the computation *)
Ltac destuck_term t :=
  lazymatch t with
  | context [match mf ?O ?x with _ => _ end] => destruct (mf O x) eqn:?
  | context [if has_sub ?O ?x then _ else _] => destruct (has_sub O x) eqn:?
  | context [if has_vsub ?O ?x then _ else _] => destruct (has_vsub O x) eqn:?
  | context [if has_rule_lines ?O ?x then _ else _] => destruct (has_rule_lines O x) eqn:?
  | context [if ceqb ?a ?b then _ else _] => destruct (ceqb a b) eqn:?
  | context [match ?j with O => _ | S _ => _ end] => is_var j; destruct j
  | context [match lookup ?f (?a ++ ?p) with _ => _ end] => destruct (lookup f (a ++ p)) as [[?|]|] eqn:?
  | context [match lookup ?f ?p with _ => _ end] => is_var p; destruct (lookup f p) as [[?|]|] eqn:?
  end.
Ltac norm := repeat (progress (red_; rw)).
Ltac normin E := repeat (progress (red_in E; rw_in E)).
Ltac normx := repeat (progress (red_; rw) || match goal with |- ?g => destuck_term g end).
Ltac norminx E :=
  repeat (progress (red_in E; rw_in E) || match type of E with ?t => destuck_term t end).

(* variant for the content clause: [resolve] stays folded and is case-split as a whole *)
Ltac red2_in H :=
  cbv -[capp ctake ceqb cprefix conv mf has_sub has_vsub has_rule_lines nonempty nonempty_new l1 l2 v1 v2
        starter_settings starter_merchants starter_views gitignore_txt schema_txt Nat.leb Nat.eqb
        no_loss users stranded layout_stranded lres_eqb resolve] in H.
Ltac destuck2_term t :=
  lazymatch t with
  | context [match resolve ?O ?f ?cd with _ => _ end] => destruct (resolve O f cd) eqn:?
  | context [if has_sub ?O ?x then _ else _] => destruct (has_sub O x) eqn:?
  | context [if has_vsub ?O ?x then _ else _] => destruct (has_vsub O x) eqn:?
  | context [if has_rule_lines ?O ?x then _ else _] => destruct (has_rule_lines O x) eqn:?
  | context [if ceqb ?a ?b then _ else _] => destruct (ceqb a b) eqn:?
  | context [match ?j with O => _ | S _ => _ end] => is_var j; destruct j
  end.
Ltac norminx2 E :=
  repeat (progress (red2_in E; rw_in E) || match type of E with ?t => destuck2_term t end).

Ltac solve_or :=
  first [ apply cprefix_refl | apply cprefix_app | apply cprefix_app2 | apply cprefix_app3 | apply cprefix_app4
        | apply orb_true_iff; first [left; solve_or | right; solve_or] ].
Ltac solve_no_loss :=
  cbv [no_loss forallb is_marker rev app fst snd kept existsb]; cbn [orb];
  repeat (apply andb_true_intro; split); try reflexivity; solve_or.

Ltac fin :=
  cbv [users stranded layout_stranded empty_inforce on_disk existsb snd fst lres_eqb inforce_eqb ostr_eqb];
  rw; rewrite ?ceqb_refl; cbn [negb andb orb];
  first [ reflexivity
        | repeat match goal with
                 | |- context [nonempty ?O ?x] => destruct (nonempty O x)
                 | |- context [nonempty_new ?O ?x] => destruct (nonempty_new O x)
                 end; reflexivity ].
Ltac solve_rules :=
  unfold csv_rules_safe, layout_rules_safe, cd0; norm;
  split; [ first [left; fin | right; fin] | split; fin ].

Ltac split_k k :=
  revert k; match goal with |- forall k, @?P k => apply (nat_cases9 P) end; cbn beta; intros.

