(* C15/XMove.v — the layout migration when ./tally is on ANOTHER file system.

   rename(2) gives EXDEV and shutil.move falls back to copytree + rmtree: "move config/" is then a
   LIST of effects (mkdir, one copy per file, one unlink per file, rmdir), each of them a crash /
   single-OSError point, and both ./config and a partial ./tally/config exist meanwhile.  This file
   extends the effect language of C15/Model.v with those steps, gives migrate_v0_to_v1 /
   run_migrations over it (xlayout_ops, xupdate_ops, xupdate_rerun) and proves / refutes the
   crash-safety statement over every crash point of that list.  Tied by harness/c15.py (shapes
   layoutx-*: recorded traces = xupdate_ops, every interrupted state = xcrash). *)
From Coq Require Import String List Bool Arith Lia.
From Tally Require Import C15.Model C15.Spec.
Import ListNotations.
Open Scope string_scope.
Open Scope list_scope.

Inductive xeff :=
| XB (e : eff)                  (* a step of the base language *)
| XBegin (src dst : path)       (* shutil.move called; os.rename raises EXDEV: nothing changes *)
| XCopy (src dst : path)        (* shutil.copyfile: dst is created with the content of src *)
| XUnlink (p : path)            (* rmtree: os.unlink *)
| XRmdir (p : path)             (* rmtree: os.rmdir *)
| XFail.                        (* shutil.Error: destination path already exists *)

Definition has_children (f : fs) (p : path) : bool :=
  existsb (fun e => starts p (fst e) && negb (path_eqb p (fst e))) f.

(* the entries directly below directory p, in directory order *)
Fixpoint child_of (p q : path) : bool :=      (* q = p ++ [a] *)
  match p, q with
  | [], [_] => true
  | a :: p', b :: q' => atom_eqb a b && child_of p' q'
  | _, _ => false
  end.
Definition children (f : fs) (p : path) : list path := map fst (filter (fun e => child_of p (fst e)) f).

Definition xapply (e : xeff) (f : fs) : option fs :=
  match e with
  | XB b => apply b f
  | XBegin _ _ => Some f
  | XCopy s d => match content_at f s with
                 | Some c => if parent_ok f d then Some (set_node f d (File c)) else None
                 | None => None
                 end
  | XUnlink p => match lookup f p with Some (File _) => Some (remove_tree f p) | _ => None end
  | XRmdir p => match lookup f p with
                | Some Dir => if has_children f p then None else Some (remove_tree f p)
                | _ => None
                end
  | XFail => None
  end.

Fixpoint xrun (ops : list xeff) (f : fs) : fs * bool :=
  match ops with
  | [] => (f, true)
  | e :: r => match xapply e f with Some f1 => xrun r f1 | None => (f, false) end
  end.

(* copytree collects the error of a failed copy and goes on with the remaining files before raising *)
Fixpoint run_copies (ops : list xeff) (f : fs) : fs :=
  match ops with
  | XCopy s d :: r => match xapply (XCopy s d) f with Some f1 => run_copies r f1 | None => run_copies r f end
  | _ => f
  end.

(* interrupted at step k: a copy is cut after n bytes (n = 0: the target was not even created); written
   text is buffered until Close exactly as in Model.bcrash.  [fault] = the step raised OSError instead of the
   process dying: the same disk, except that copytree still copies the files that follow a failed copy. *)
Fixpoint xbcrash (fault : bool) (ops : list xeff) (pd : pending) (k j n : nat) (f : fs) : fs :=
  match ops with
  | [] => f
  | e :: r =>
    match k with
    | 0 => match e with
           | XB b => cut_pending (buffer b pd) j n f
           | XCopy s d =>
             let f1 := match content_at f s with
                       | Some c => match n with
                                   | 0 => f
                                   | S _ => if parent_ok f d then set_node f d (File (ctake n c)) else f
                                   end
                       | None => f
                       end in
             if fault then run_copies r f1 else f1
           | _ => cut_pending pd j n f
           end
    | S k' =>
      match e with
      | XB (Write _ _ as b) => match pd with Some _ => xbcrash fault r (buffer b pd) k' j n f | None => f end
      | XB (Close _) => match pd with
                        | Some (q, ds) => xbcrash fault r None k' j n (flush_all q ds f)
                        | None => xbcrash fault r None k' j n f
                        end
      | XB (OpenTrunc p as b) | XB (OpenAppend p as b) =>
        match apply b f with Some f1 => xbcrash fault r (Some (p, [])) k' j n f1 | None => f end
      | _ => match xapply e f with Some f1 => xbcrash fault r pd k' j n f1 | None => f end
      end
    end
  end.

Definition xinterrupt (fault : bool) (ops : list xeff) (k j n : nat) (f : fs) : fs := xbcrash fault ops None k j n f.
Definition xcrash (ops : list xeff) (k j n : nat) (f : fs) : fs := xinterrupt false ops k j n f.

Section XLayout.
Variable O : oracle.

(* shutil.move(src, dst) across devices, for a directory src holding only files *)
Definition xmove_ops (f : fs) (src dst : path) : list xeff :=
  let real := match lookup f dst with Some Dir => dst ++ last_atom src | _ => dst end in
  XBegin src dst ::
  (if exists_ f real && negb (path_eqb real dst) then [XFail]
   else XB (Mkdir real)
        :: map (fun c => XCopy c (real ++ skipn (length src) c)) (children f src)
        ++ map XUnlink (children f src) ++ [XRmdir src]).

(* migrate_v0_to_v1(cd, skip_confirm=True), cwd = the budget root, ./tally on another device *)
Definition xlayout_ops (f : fs) (cd : path) : list xeff :=
  if negb (path_eqb cd [Aconfig]) then [] else
  let sch := [Atally; Aconfig; Aschema] in
  XB (Mkdir [Atally]) :: xmove_ops f [Aconfig] [Atally; Aconfig]
  ++ (if isdir f [Adata] then xmove_ops f [Adata] [Atally; Adata] else [])
  ++ (if isdir f [Aoutput] then xmove_ops f [Aoutput] [Atally; Aoutput] else [])
  ++ map XB [OpenTrunc sch; Write sch (schema_txt O); Close sch].

Definition xupdate_ops (f : fs) : list xeff :=
  match find_config f with
  | Some cd => if schema_current O f cd then [] else xlayout_ops f cd
  | None => []
  end.

Definition xupdate_rerun (f : fs) : fs := fst (xrun (xupdate_ops f) f).

(* safe interruption points: not while config/ is being copied (a partial ./tally/config would swallow
   ./config on the re-run), and not between "config/ removed" and "data/ copied" *)
Definition xlayout_guard (d : option string) (k : nat) : bool :=
  match d with
  | None => Nat.leb k 2 || Nat.leb 5 k
  | Some _ => Nat.leb k 2 || (Nat.leb 5 k && Nat.leb k 7) || Nat.leb 11 k
  end.

End XLayout.

Lemma nat_cases17 (P : nat -> Prop) :
  P 0 -> P 1 -> P 2 -> P 3 -> P 4 -> P 5 -> P 6 -> P 7 -> P 8 -> P 9 -> P 10 -> P 11 -> P 12 -> P 13 ->
  P 14 -> P 15 -> P 16 -> (forall i, P (17 + i)) -> forall k, P k.
Proof.
  intros H0 H1 H2 H3 H4 H5 H6 H7 H8 H9 H10 H11 H12 H13 H14 H15 H16 H17 k.
  do 17 (destruct k as [|k]; [assumption|]). apply (H17 k).
Qed.
Ltac split_k17 k :=
  revert k; match goal with |- forall k, @?P k => apply (nat_cases17 P) end; cbn beta; intros.

Section XProofs.
Variable O : oracle.

Lemma xlayout_no_loss :
  forall (s0 r0 : string) (d : option string) (t fault : bool) (k j n : nat) (f0 f1 f2 : fs),
    f0 = layout_budget s0 r0 d None t None false ->
    f1 = xinterrupt fault (xupdate_ops O f0) k j n f0 ->
    f2 = xupdate_rerun O f1 ->
    content_kept f0 f1 f2.
Proof.
  intros s0 r0 d t fault k j n f0 f1 f2 E0 E1 E2. unfold content_kept.
  destruct d as [d0|]; destruct t; destruct fault; subst f0;
  revert E1; split_k17 k; norminx E1; subst f1; norminx E2; subst f2; split; solve_no_loss.
Qed.

Lemma xlayout_rules_safe :
  forall (s0 r0 : string) (d : option string) (t fault : bool) (k j n : nat) (f0 f1 f2 : fs),
    mf O s0 = MfKey [Aconfig; Arules] ->
    xlayout_guard d k = true ->
    f0 = layout_budget s0 r0 d None t None false ->
    f1 = xinterrupt fault (xupdate_ops O f0) k j n f0 ->
    f2 = xupdate_rerun O f1 ->
    layout_rules_safe O f0 f1 f2 r0.
Proof.
  intros s0 r0 d t fault k j n f0 f1 f2 Hmf Hg E0 E1 E2.
  destruct d as [d0|]; cbn in Hg; destruct t; destruct fault; subst f0;
  revert Hg E1; split_k17 k; try discriminate Hg;
  norminx E1; subst f1; norminx E2; subst f2; solve_rules.
Qed.

End XProofs.
