(* C15/Model.v — a small file-system model and the two migrations of tally as effect lists.

   Hand model (tied to /repo by harness/c15.py: recorded effect traces must equal these lists, and
   every crash / fault state materialised on disk must equal [crash ops k j n f0]; see the harness).

   cli.py:_migrate_csv_to_rules      -> csv_ops          (commands: `tally up --migrate`, `tally init`)
   cli.py:_check_merchant_migration  -> up_ops / up_inrun_after_fault
   commands/init.py:cmd_init + cli.py:init_config -> init_mig_ops / init_rest_ops
   cli.py:migrate_v0_to_v1 / run_migrations / find_config_dir -> layout_ops / update_ops / find_config
   config_loader.py:load_config (merchants_file resolution) -> resolve

   File contents are Coq strings and stay universally quantified in the theorems.  Everything the
   property does not depend on is an oracle (one Section variable [O]): the CSV->.rules converter,
   YAML's reading of the `merchants_file` key, the substring tests the code performs on
   settings.yaml, and the literal texts the code writes. *)
From Coq Require Import String List Bool Arith.
Import ListNotations.
Open Scope string_scope.
Open Scope list_scope.

(* ---- paths ------------------------------------------------------------------------------- *)
Inductive atom :=
| Aconfig | Adata | Aoutput | Atally
| Asettings      (* settings.yaml *)
| Acsv           (* merchant_categories.csv *)
| Abak           (* merchant_categories.csv.bak *)
| Arules         (* merchants.rules *)
| Aviews         (* views.rules *)
| Agitignore     (* .gitignore *)
| Aschema        (* .tally-schema *)
| Adatafile      (* a statement file inside data/ *)
| Areport        (* a file inside output/ *)
| Amissing.      (* a name that never exists (torn `merchants_file:` values) *)

Definition atom_eqb (a b : atom) : bool :=
  match a, b with
  | Aconfig, Aconfig | Adata, Adata | Aoutput, Aoutput | Atally, Atally | Asettings, Asettings
  | Acsv, Acsv | Abak, Abak | Arules, Arules | Aviews, Aviews | Agitignore, Agitignore
  | Aschema, Aschema | Adatafile, Adatafile | Areport, Areport | Amissing, Amissing => true
  | _, _ => false
  end.

Definition path := list atom.

Fixpoint path_eqb (p q : path) : bool :=
  match p, q with
  | [], [] => true
  | a :: p', b :: q' => atom_eqb a b && path_eqb p' q'
  | _, _ => false
  end.

(* [starts p q]: p is a (non-strict) prefix of q, i.e. q is p or lies below directory p *)
Fixpoint starts (p q : path) : bool :=
  match p, q with
  | [], _ => true
  | a :: p', b :: q' => atom_eqb a b && starts p' q'
  | _ :: _, [] => false
  end.

(* ---- contents: strings, with the four operations kept opaque for [cbn] -------------------- *)
Definition capp (a b : string) : string := (a ++ b)%string.
Definition ctake (n : nat) (s : string) : string := substring 0 n s.
Definition ceqb (a b : string) : bool := String.eqb a b.
Definition cprefix (a b : string) : bool := String.prefix a b.
Arguments capp : simpl never.
Arguments ctake : simpl never.
Arguments ceqb : simpl never.
Arguments cprefix : simpl never.

(* ---- file system ------------------------------------------------------------------------ *)
Inductive node := File (c : string) | Dir.
Definition fs := list (path * node).     (* no duplicate paths; the root [] is implicit *)

Fixpoint lookup (f : fs) (p : path) : option node :=
  match f with
  | [] => None
  | (q, nd) :: r => if path_eqb q p then Some nd else lookup r p
  end.
Definition exists_ (f : fs) (p : path) : bool := match lookup f p with Some _ => true | None => false end.
Definition isdir (f : fs) (p : path) : bool := match lookup f p with Some Dir => true | _ => false end.
Definition content_at (f : fs) (p : path) : option string :=
  match lookup f p with Some (File c) => Some c | _ => None end.

Fixpoint set_node (f : fs) (p : path) (nd : node) : fs :=
  match f with
  | [] => [(p, nd)]
  | (q, x) :: r => if path_eqb q p then (q, nd) :: r else (q, x) :: set_node r p nd
  end.
Definition remove_tree (f : fs) (p : path) : fs := filter (fun e => negb (starts p (fst e))) f.
Definition rename_tree (f : fs) (src dst : path) : fs :=
  map (fun e => if starts src (fst e) then (dst ++ skipn (length src) (fst e), snd e) else e) f.
Definition last_atom (p : path) : path := match rev p with a :: _ => [a] | [] => [] end.
Definition parent_ok (f : fs) (p : path) : bool :=
  match removelast p with [] => true | q => isdir f q end.

(* shutil.move(src, dst): into dst when dst is an existing directory (shutil.Error when the nested
   name exists), otherwise os.rename (silently replacing an existing file) *)
Definition move (f : fs) (src dst : path) : option fs :=
  match lookup f src with
  | None => None
  | Some _ =>
    match lookup f dst with
    | Some Dir => let real := dst ++ last_atom src in
                  if exists_ f real then None else Some (rename_tree f src real)
    | Some (File _) => Some (rename_tree (remove_tree f dst) src dst)
    | None => if parent_ok f dst then Some (rename_tree f src dst) else None
    end
  end.

Inductive eff :=
| OpenTrunc (p : path)            (* open(p, 'w') *)
| OpenAppend (p : path)           (* open(p, 'a') *)
| Write (p : path) (d : string)   (* f.write(d) reaching the disk *)
| Close (p : path)
| Move (src dst : path)           (* shutil.move *)
| Mkdir (p : path).               (* os.makedirs(p, exist_ok=True) *)

(* [None]: the step raises (OSError / shutil.Error) without changing the disk *)
Definition apply (e : eff) (f : fs) : option fs :=
  match e with
  | OpenTrunc p => match lookup f p with
                   | Some Dir => None
                   | _ => if parent_ok f p then Some (set_node f p (File "")) else None
                   end
  | OpenAppend p => match lookup f p with
                    | Some Dir => None
                    | Some (File _) => Some f
                    | None => if parent_ok f p then Some (set_node f p (File "")) else None
                    end
  | Write p d => match lookup f p with
                 | Some (File c) => Some (set_node f p (File (capp c d)))
                 | _ => None
                 end
  | Close _ => Some f
  | Move s d => move f s d
  | Mkdir p => match lookup f p with
               | Some (File _) => None
               | Some Dir => Some f
               | None => Some (set_node f p Dir)
               end
  end.

(* run to completion; stops (code's except path) at the first step that raises *)
Fixpoint run (ops : list eff) (f : fs) : fs * bool :=
  match ops with
  | [] => (f, true)
  | e :: r => match apply e f with Some f1 => run r f1 | None => (f, false) end
  end.

(* ---- interruptions: Python buffers what is written ------------------------------------------
   f.write(d) only fills the file object's buffer; the pieces reach the disk when the file is closed
   (flush), in order.  A crash at step k, or step k raising OSError, leaves on disk the effects of
   the first k steps with the still-open file holding only what had been flushed: the first j
   buffered pieces entirely and the first n bytes of piece j (j = n = 0: nothing, the usual case
   for a small file; other values: an early or torn flush).  So the point where a written text
   becomes durable is the Close step, not the Write step: whatever runs between a write and its
   close (e.g. a rename of another file) is on disk BEFORE the written text. *)
Definition wr (p : path) (d : string) (f : fs) : fs :=
  match apply (Write p d) f with Some f1 => f1 | None => f end.

Fixpoint flush_all (p : path) (ds : list string) (f : fs) : fs :=
  match ds with [] => f | d :: r => flush_all p r (wr p d f) end.

Fixpoint flush_cut (p : path) (ds : list string) (j n : nat) (f : fs) : fs :=
  match ds with
  | [] => f
  | d :: r => match j with
              | 0 => wr p (ctake n d) f
              | S j' => flush_cut p r j' n (wr p d f)
              end
  end.

Definition pending := option (path * list string).     (* the open file and its buffered pieces *)

Definition cut_pending (pd : pending) (j n : nat) (f : fs) : fs :=
  match pd with Some (p, ds) => flush_cut p ds j n f | None => f end.

Definition buffer (e : eff) (pd : pending) : pending :=
  match e, pd with Write _ d, Some (q, ds) => Some (q, ds ++ [d]) | _, _ => pd end.

Fixpoint bcrash (ops : list eff) (pd : pending) (k j n : nat) (f : fs) : fs :=
  match ops with
  | [] => f
  | e :: r =>
    match k with
    | 0 => cut_pending (buffer e pd) j n f
    | S k' =>
      match e with
      | Write _ _ => match pd with Some _ => bcrash r (buffer e pd) k' j n f | None => f end
      | Close _ => match pd with
                   | Some (q, ds) => bcrash r None k' j n (flush_all q ds f)
                   | None => bcrash r None k' j n f
                   end
      | OpenTrunc p | OpenAppend p =>
        match apply e f with Some f1 => bcrash r (Some (p, [])) k' j n f1 | None => f end
      | Move _ _ | Mkdir _ =>
        match apply e f with Some f1 => bcrash r pd k' j n f1 | None => f end
      end
    end
  end.

(* the disk after the first k steps ran and step k (0-based) was interrupted, with the open file's
   buffer flushed up to (j, n).  k >= length ops is the completed run.  The same disk state arises
   from a crash at that point and from step k raising OSError there (the `with` block closes the
   file, the rest of the buffer is lost, nothing is rolled back). *)
Definition crash (ops : list eff) (k j n : nat) (f : fs) : fs := bcrash ops None k j n f.

(* ---- oracles ---------------------------------------------------------------------------- *)
Inductive mfres :=
| MfErr                 (* settings.yaml does not load (YAML error / not a mapping) *)
| MfNone                (* no (or a falsy) merchants_file key *)
| MfKey (p : path).     (* merchants_file: <p>, relative to the budget directory *)

Record oracle := {
  conv : string -> string;            (* csv_to_merchants_content (load_merchant_rules csv_text) *)
  mf : string -> mfres;               (* yaml.safe_load(text).get('merchants_file') *)
  has_sub : string -> bool;           (* 'merchants_file:' in text *)
  has_vsub : string -> bool;          (* 'views_file:' in text *)
  has_rule_lines : string -> bool;    (* cmd_init's line scan of the CSV *)
  nonempty : string -> bool;          (* the CSV text holds at least one rule *)
  nonempty_new : string -> bool;      (* the .rules text loads to at least one rule *)
  l1 : string; l2 : string;           (* the two lines _migrate_csv_to_rules appends *)
  v1 : string; v2 : string;           (* the two lines cmd_init appends *)
  starter_settings : string; starter_merchants : string; starter_views : string; gitignore_txt : string;
  schema_txt : string                 (* '1\n' *)
}.

Inductive inforce :=
| IErr                  (* the budget does not load at all *)
| INone                 (* it loads and classifies with an empty rule set *)
| ICsv (c : string)     (* legacy CSV with this text *)
| INew (c : string).    (* .rules file with this text *)

Inductive cmd := Up | Init.

Section Migrations.
Variable O : oracle.

(* load_config + _check_merchant_migration(migrate=False): which rules the next `tally up` uses *)
Definition resolve (f : fs) (cd : path) : inforce :=
  match lookup f (cd ++ [Asettings]) with
  | Some (File s) =>
    match mf O s with
    | MfErr => IErr
    | MfKey p => match lookup f (removelast cd ++ p) with
                 | Some (File c) => INew c
                 | Some Dir => IErr            (* open() of a directory raises *)
                 | None => INone
                 end
    | MfNone => match lookup f (cd ++ [Acsv]) with
                | Some (File c) => ICsv c
                | Some Dir => IErr
                | None => INone
                end
    end
  | _ => IErr
  end.

(* _migrate_csv_to_rules(csv, cd, backup=True) as the list of effects it performs from state f *)
Definition csv_ops (f : fs) (cd : path) : list eff :=
  let csv := cd ++ [Acsv] in
  let rules := cd ++ [Arules] in
  let st := cd ++ [Asettings] in
  let c := match content_at f csv with Some c => c | None => "" end in
  [OpenTrunc rules; Write rules (conv O c); Close rules]
  ++ (if exists_ f csv then [Move csv (cd ++ [Abak])] else [])
  ++ (match content_at f st with
      | Some s => if has_sub O s then [] else [OpenAppend st; Write st (l1 O); Write st (l2 O); Close st]
      | None => []
      end).

(* `tally up --migrate`: migrates only when load_config resolved to the legacy CSV *)
Definition up_ops (f : fs) (cd : path) : list eff :=
  match resolve f cd with ICsv _ => csv_ops f cd | _ => [] end.

(* the rules the *same* run goes on with when the migration returned False: get_all_rules(csv path) *)
Definition up_inrun_after_fault (f : fs) (cd : path) : inforce :=
  match lookup f (cd ++ [Acsv]) with Some (File c) => ICsv c | _ => INone end.

(* `tally init <b>`: migrate when the CSV exists, merchants.rules does not and the CSV has rule lines *)
Definition init_mig_ops (f : fs) (b : path) : list eff :=
  let cd := b ++ [Aconfig] in
  match content_at f (cd ++ [Acsv]) with
  | Some c => if negb (exists_ f (cd ++ [Arules])) && has_rule_lines O c then csv_ops f cd else []
  | None => []
  end.

Definition create_if_missing (f : fs) (p : path) (txt : string) : list eff :=
  if exists_ f p then [] else [OpenTrunc p; Write p txt; Close p].

(* init_config + the views_file append of cmd_init, from state f (after the migration attempt) *)
Definition init_rest_ops (f : fs) (b : path) : list eff :=
  let cd := b ++ [Aconfig] in
  let st := cd ++ [Asettings] in
  [Mkdir cd; Mkdir (b ++ [Adata]); Mkdir (b ++ [Aoutput])]
  ++ create_if_missing f st (starter_settings O)
  ++ create_if_missing f (cd ++ [Arules]) (starter_merchants O)
  ++ create_if_missing f (cd ++ [Aviews]) (starter_views O)
  ++ create_if_missing f (b ++ [Agitignore]) (gitignore_txt O)
  ++ (let s := match lookup f st with
               | Some (File s) => Some s | Some Dir => None | None => Some (starter_settings O) end in
      match s with
      | Some s => if has_vsub O s then [] else [OpenAppend st; Write st (v1 O); Write st (v2 O); Close st]
      | None => []
      end).

Definition init_rest (f : fs) (b : path) : fs := fst (run (init_rest_ops f b) f).

(* the migration step of a command, and re-running the whole command *)
Definition mig_ops (c : cmd) (f : fs) (b : path) : list eff :=
  match c with Up => up_ops f (b ++ [Aconfig]) | Init => init_mig_ops f b end.

Definition rerun (c : cmd) (f : fs) (b : path) : fs :=
  let f1 := fst (run (mig_ops c f b) f) in
  match c with Up => f1 | Init => init_rest f1 b end.

(* what a command leaves behind when step k of its migration raised (buffer flushed up to (j, n)) *)
Definition after_fault (c : cmd) (f0 : fs) (b : path) (k j n : nat) : fs :=
  let f1 := crash (mig_ops c f0 b) k j n f0 in
  match c with Up => f1 | Init => init_rest f1 b end.

(* ---- layout migration ------------------------------------------------------------------- *)
(* find_config_dir with the budget root as working directory *)
Definition find_config (f : fs) : option path :=
  if isdir f [Aconfig] then Some [Aconfig]
  else if isdir f [Atally; Aconfig] then Some [Atally; Aconfig] else None.

(* migrate_v0_to_v1(cd, skip_confirm=True), cwd = the budget root [] *)
Definition layout_ops (f : fs) (cd : path) : list eff :=
  if negb (path_eqb cd [Aconfig]) then [] else
  let sch := [Atally; Aconfig; Aschema] in
  [Mkdir [Atally]; Move [Aconfig] [Atally; Aconfig]]
  ++ (if isdir f [Adata] then [Move [Adata] [Atally; Adata]] else [])
  ++ (if isdir f [Aoutput] then [Move [Aoutput] [Atally; Aoutput]] else [])
  ++ [OpenTrunc sch; Write sch (schema_txt O); Close sch].

(* get_schema_version(cd) >= 1: the marker holds the full text or its first byte *)
Definition schema_current (f : fs) (cd : path) : bool :=
  match content_at f (cd ++ [Aschema]) with
  | Some c => ceqb c (schema_txt O) || ceqb c (ctake 1 (schema_txt O))
  | None => false
  end.

(* `tally update --yes`: find_config_dir + run_migrations *)
Definition update_ops (f : fs) : list eff :=
  match find_config f with
  | Some cd => if schema_current f cd then [] else layout_ops f cd
  | None => []
  end.

Definition update_rerun (f : fs) : fs := fst (run (update_ops f) f).

(* what `tally up` (run from the budget root) sees: rules in force and the statement file *)
Definition resolve_layout (f : fs) : inforce * option string :=
  match find_config f with
  | None => (IErr, None)
  | Some cd => (resolve f cd, content_at f (removelast cd ++ [Adata; Adatafile]))
  end.

(* ---- the three clauses of the property, computable ---------------------------------------- *)
Definition is_marker (p : path) : bool := match rev p with Aschema :: _ => true | _ => false end.

(* content x survives in f: some file still starts with it (appending keeps content) *)
Definition kept (x : string) (f : fs) : bool :=
  existsb (fun e => match snd e with File y => cprefix x y | Dir => false end) f.

Definition no_loss (f0 f1 : fs) : bool :=
  forallb (fun e => match snd e with
                    | File x => is_marker (fst e) || kept x f1
                    | Dir => true
                    end) f0.

Definition on_disk (x : string) (f : fs) : bool :=
  existsb (fun e => match snd e with File y => ceqb x y | Dir => false end) f.

(* the budget loads and classifies with an empty rule set *)
Definition empty_inforce (r : inforce) : bool :=
  match r with
  | IErr => false
  | INone => true
  | ICsv c => negb (nonempty O c)
  | INew c => negb (nonempty_new O c)
  end.

(* the rules in force are the user's: the CSV text itself or its complete conversion (or, when the
   user's CSV holds no rule at all, any empty rule set) *)
Definition users (c0 : string) (r : inforce) : bool :=
  match r with
  | ICsv c => ceqb c c0
  | INew c => ceqb c (conv O c0)
  | _ => false
  end || (negb (nonempty O c0) && empty_inforce r).

(* ... while the user's rules (CSV text or complete conversion, holding at least one rule) are
   still on disk *)
Definition stranded (c0 : string) (r : inforce) (f : fs) : bool :=
  empty_inforce r && nonempty O c0 && (on_disk c0 f || on_disk (conv O c0) f).

(* layout: an empty rule set in force while the user's (non-empty) rules file r0 is on disk *)
Definition layout_stranded (r0 : string) (r : inforce) (f : fs) : bool :=
  nonempty_new O r0 && empty_inforce r && on_disk r0 f.

Definition inforce_eqb (a b : inforce) : bool :=
  match a, b with
  | IErr, IErr | INone, INone => true
  | ICsv x, ICsv y | INew x, INew y => ceqb x y
  | _, _ => false
  end.
Definition ostr_eqb (a b : option string) : bool :=
  match a, b with None, None => true | Some x, Some y => ceqb x y | _, _ => false end.
Definition lres_eqb (a b : inforce * option string) : bool :=
  inforce_eqb (fst a) (fst b) && ostr_eqb (snd a) (snd b).

(* ---- initial budgets ----------------------------------------------------------------------- *)
Definition opt_file (p : path) (c : option string) : fs :=
  match c with Some x => [(p, File x)] | None => [] end.

(* a budget at root [] about to migrate its CSV: optional settings / backup / merchants.rules,
   and a statement file *)
Definition csv_budget (s : option string) (c0 : string) (bk r : option string) (d0 : string) : fs :=
  [([Aconfig], Dir)] ++ opt_file [Aconfig; Asettings] s ++ [([Aconfig; Acsv], File c0)]
  ++ opt_file [Aconfig; Abak] bk ++ opt_file [Aconfig; Arules] r
  ++ [([Adata], Dir); ([Adata; Adatafile], File d0)].

(* an old-layout budget (./config, optionally ./data with a statement, ./output with a report),
   optionally beside an already existing ./tally, ./tally/config (another budget), ./tally/data *)
Definition layout_budget (s0 r0 : string) (d rep : option string)
           (t : bool) (tc : option (string * string)) (td : bool) : fs :=
  [([Aconfig], Dir); ([Aconfig; Asettings], File s0); ([Aconfig; Arules], File r0)]
  ++ match d with Some x => [([Adata], Dir); ([Adata; Adatafile], File x)] | None => [] end
  ++ match rep with Some x => [([Aoutput], Dir); ([Aoutput; Areport], File x)] | None => [] end
  ++ (if t || (match tc with Some _ => true | None => false end) || td then [([Atally], Dir)] else [])
  ++ match tc with
     | Some (s1, r1) => [([Atally; Aconfig], Dir); ([Atally; Aconfig; Asettings], File s1);
                         ([Atally; Aconfig; Arules], File r1)]
     | None => []
     end
  ++ (if td then [([Atally; Adata], Dir)] else []).

End Migrations.
