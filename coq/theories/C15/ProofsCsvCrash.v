(* C15/ProofsCsvCrash.v — clauses 2 and 3 (the user's rules stay in force, now or after re-running; never an
   empty rule set while the user's rules are on disk) of the CSV migration at the guarded interruption
   points, for crashes and for single I/O faults. *)
From Coq Require Import String List Bool Arith Lia.
From Tally Require Import C15.Model C15.Spec.
Import ListNotations.
Open Scope string_scope.
Open Scope list_scope.

Section Csv.
Variable O : oracle.

Ltac prep_some Hpre Hlaws Hg :=
  cbn in Hpre, Hlaws, Hg;
  let Hconv := fresh "Hconv" in let Hla := fresh "Hla" in let Hlb := fresh "Hlb" in let Hlc := fresh "Hlc" in
  let Hsub := fresh "Hsub" in let Hk := fresh "Hk" in
  destruct Hlaws as (Hconv & Hla & Hlb & Hlc & Hvb & Hvc);
  apply andb_true_iff in Hg; destruct Hg as [Hsub Hk];
  apply negb_true_iff in Hsub; specialize (Hla Hsub); specialize (Hlc Hsub).

Lemma csv_crash_rules_safe :
  forall (c : cmd) (s : option string) (c0 : string) (bk r : option string) (d0 : string) (k j n : nat)
         (f0 f1 f2 : fs),
    csv_pre O c s c0 r -> yaml_laws O s c0 -> csv_crash_guard O s k = true ->
    f0 = csv_budget s c0 bk r d0 ->
    f1 = crash (mig_ops O c f0 []) k j n f0 ->
    f2 = rerun O c f1 [] ->
    csv_rules_safe O f1 f2 c0.
Proof.
  intros c s c0 bk r d0 k j n f0 f1 f2 Hpre Hlaws Hg E0 E1 E2.
  destruct s as [s0|].
  - prep_some Hpre Hlaws Hg.
    destruct c; destruct bk as [b0|]; destruct r as [r0|]; subst f0;
    revert Hk E1; split_k k; try discriminate Hk;
    norminx E1; subst f1; norminx E2; subst f2; solve_rules.
  - cbn in Hpre, Hlaws, Hg. destruct Hpre as (-> & -> & Hrl). destruct Hlaws as (Hconv & Hld & Hle).
    destruct bk as [b0|]; subst f0;
    revert Hg E1; split_k k; try discriminate Hg;
    norminx E1; subst f1; norminx E2; subst f2; solve_rules.
Qed.


End Csv.
