(* C15/ProofsLoss.v — clause 1 (no content lost) of the CSV migration, for arbitrary oracle answers *)
From Coq Require Import String List Bool Arith Lia.
From Tally Require Import C15.Model C15.Spec.
Import ListNotations.
Open Scope string_scope.
Open Scope list_scope.

(* ================================================================================================ *)
(* CSV -> .rules migration                                                                            *)
(* ================================================================================================ *)
Section Csv.
Variable O : oracle.

(* --- clause 1: nothing is lost when neither a .bak nor a merchants.rules pre-exists ------------- *)
Lemma csv_no_loss_up :
  forall (s : option string) (c0 d0 : string) (k j n : nat) (f0 f1 f2 : fs),
    f0 = csv_budget s c0 None None d0 ->
    f1 = crash (mig_ops O Up f0 []) k j n f0 ->
    f2 = rerun O Up f1 [] ->
    content_kept f0 f1 f2.
Proof.
  intros s c0 d0 k j n f0 f1 f2 E0 E1 E2. unfold content_kept.
  destruct s as [s0|]; subst f0.
  - revert E1; split_k k; norminx2 E1; subst f1; norminx2 E2; subst f2; split; solve_no_loss.
  - revert E1; split_k k; norminx2 E1; subst f1; norminx2 E2; subst f2; split; solve_no_loss.
Qed.

Lemma csv_no_loss_init :
  forall (s : option string) (c0 d0 : string) (k j n : nat) (f0 f1 f2 : fs),
    f0 = csv_budget s c0 None None d0 ->
    f1 = crash (mig_ops O Init f0 []) k j n f0 ->
    f2 = rerun O Init f1 [] ->
    content_kept f0 f1 f2.
Proof.
  intros s c0 d0 k j n f0 f1 f2 E0 E1 E2. unfold content_kept.
  destruct s as [s0|]; subst f0.
  - revert E1; split_k k; norminx2 E1; subst f1; norminx2 E2; subst f2; split; solve_no_loss.
  - revert E1; split_k k; norminx2 E1; subst f1; norminx2 E2; subst f2; split; solve_no_loss.
Qed.

End Csv.
