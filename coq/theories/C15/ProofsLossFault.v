(* C15/ProofsLossFault.v — clause 1 (no content lost) when `tally init` carries on after its migration
   step raised: the state after the rest of init, and after running init once more. *)
From Coq Require Import String List Bool Arith Lia.
From Tally Require Import C15.Model C15.Spec.
Import ListNotations.
Open Scope string_scope.
Open Scope list_scope.

Lemma cprefix_app_r x y z : cprefix x y = true -> cprefix x (capp y z) = true.
Proof.
  unfold cprefix, capp. revert y. induction x as [|a x IH]; intros y H; simpl in *.
  - destruct (y ++ z)%string; reflexivity.
  - destruct y as [|b y]; [discriminate H|]. simpl in *.
    destruct (Ascii.ascii_dec a b) as [e|ne]; [apply IH; exact H | discriminate H].
Qed.

(* any number of appends (the views lines may be appended once per `tally init`) *)
Ltac solve_or2 :=
  first [ solve [repeat (first [apply cprefix_refl | apply cprefix_app_r])]
        | apply orb_true_iff; first [left; solve_or2 | right; solve_or2] ].
Ltac solve_no_loss2 :=
  cbv [no_loss forallb is_marker rev app fst snd kept existsb]; cbn [orb];
  repeat (apply andb_true_intro; split); try reflexivity; solve_or2.

Section Csv.
Variable O : oracle.

Lemma csv_no_loss_init_fault :
  forall (s : option string) (c0 d0 : string) (k j n : nat) (f0 f1 f2 : fs),
    f0 = csv_budget s c0 None None d0 ->
    f1 = after_fault O Init f0 [] k j n ->
    f2 = rerun O Init f1 [] ->
    content_kept f0 f1 f2.
Proof.
  intros s c0 d0 k j n f0 f1 f2 E0 E1 E2. unfold content_kept.
  destruct s as [s0|]; subst f0.
  - revert E1; split_k k; norminx2 E1; subst f1; norminx2 E2; subst f2; split; solve_no_loss2.
  - revert E1; split_k k; norminx2 E1; subst f1; norminx2 E2; subst f2; split; solve_no_loss2.
Qed.

End Csv.
