(* C15/Proofs.v — collects the lemmas (C15/Spec.v vocabulary and tactics; ProofsLoss*, ProofsCsv*,
   ProofsLayout case analyses), packages them in the `let` form used by Props.v, and defines the
   closed witness oracle of the refutations. *)
From Coq Require Import String List Bool Arith Lia.
From Tally Require Export C15.Model C15.Spec.
From Tally Require Import C15.ProofsLoss C15.ProofsLossFault C15.ProofsCsvCrash C15.ProofsCsvFault C15.ProofsLayout.
From Tally Require Export C15.XMove.
Import ListNotations.
Open Scope string_scope.
Open Scope list_scope.

(* ---- a concrete oracle on one-letter texts: settings "s", CSV "c" converting to "K", the appended
        lines "1" "2" (merchants_file) and "3" "4" (views_file), starter texts "E" "F" "G" "H" --------- *)
Definition tblw {A} (l : list (string * A)) (d : A) (k : string) : A :=
  match find (fun e => String.eqb k (fst e)) l with Some e => snd e | None => d end.

Definition Ow : oracle := {|
  conv := tblw [("c", "K")] "";
  mf := tblw [("s", MfNone); ("s12", MfKey [Aconfig; Arules]); ("s34", MfNone); ("s1234", MfKey [Aconfig; Arules]);
              ("E", MfKey [Aconfig; Arules]); ("n", MfKey [Aconfig; Arules]); ("m", MfKey [Aconfig; Arules])] MfErr;
  has_sub := tblw [("s12", true); ("s1234", true); ("E", true); ("n", true); ("m", true)] false;
  has_vsub := tblw [("s34", true); ("s1234", true); ("E", true)] false;
  has_rule_lines := tblw [("c", true)] false;
  nonempty := tblw [("c", true)] false;
  nonempty_new := tblw [("K", true); ("r", true); ("q", true)] false;
  l1 := "1"; l2 := "2"; v1 := "3"; v2 := "4";
  starter_settings := "E"; starter_merchants := "F"; starter_views := "G"; gitignore_txt := "H";
  schema_txt := "1e" |}.

Section Pack.
Variable O : oracle.

(* CSV migration, crash: the strongest statement that holds *)
Lemma csv_crash_partial :
  forall (c : cmd) (s : option string) (c0 : string) (bk r : option string) (d0 : string) (k j n : nat),
    csv_pre O c s c0 r -> yaml_laws O s c0 ->
    let f0 := csv_budget s c0 bk r d0 in
    let f1 := crash (mig_ops O c f0 []) k j n f0 in
    let f2 := rerun O c f1 [] in
    (bk = None -> r = None -> content_kept f0 f1 f2) /\
    (csv_crash_guard O s k = true -> csv_rules_safe O f1 f2 c0).
Proof.
  intros c s c0 bk r d0 k j n Hpre Hlaws f0 f1 f2. split.
  - intros -> ->. destruct c.
    + exact (csv_no_loss_up O s c0 d0 k j n _ _ _ eq_refl eq_refl eq_refl).
    + exact (csv_no_loss_init O s c0 d0 k j n _ _ _ eq_refl eq_refl eq_refl).
  - intros Hg. exact (csv_crash_rules_safe O c s c0 bk r d0 k j n _ _ _ Hpre Hlaws Hg eq_refl eq_refl eq_refl).
Qed.

Lemma csv_fault_partial :
  forall (c : cmd) (s : option string) (c0 : string) (bk r : option string) (d0 : string) (k j n : nat),
    csv_pre O c s c0 r -> yaml_laws O s c0 ->
    let f0 := csv_budget s c0 bk r d0 in
    k < length (mig_ops O c f0 []) ->
    let g := crash (mig_ops O c f0 []) k j n f0 in
    let f1 := after_fault O c f0 [] k j n in
    let f2 := rerun O c f1 [] in
    (bk = None -> r = None -> content_kept f0 f1 f2) /\
    (csv_fault_guard O c s k = true -> csv_rules_safe O f1 f2 c0 /\ inrun_safe O c g c0).
Proof.
  intros c s c0 bk r d0 k j n Hpre Hlaws f0 _ g f1 f2. split.
  - intros -> ->. destruct c.
    + exact (csv_no_loss_up O s c0 d0 k j n _ _ _ eq_refl eq_refl eq_refl).
    + exact (csv_no_loss_init_fault O s c0 d0 k j n _ _ _ eq_refl eq_refl eq_refl).
  - intros Hg. exact (csv_fault_rules_safe O c s c0 bk r d0 k j n _ _ _ _ Hpre Hlaws Hg eq_refl eq_refl eq_refl eq_refl).
Qed.

Lemma layout_crash_partial :
  forall (s0 r0 : string) (d rep : option string) (t : bool) (tc : option (string * string)) (td : bool) (k j n : nat),
    mf O s0 = MfKey [Aconfig; Arules] ->
    let f0 := layout_budget s0 r0 d rep t tc td in
    let f1 := crash (update_ops O f0) k j n f0 in
    let f2 := update_rerun O f1 in
    content_kept f0 f1 f2 /\ (layout_guard d tc td k = true -> layout_rules_safe O f0 f1 f2 r0).
Proof.
  intros s0 r0 d rep t tc td k j n Hmf f0 f1 f2. split.
  - exact (layout_no_loss O s0 r0 d rep t tc td k j n _ _ _ eq_refl eq_refl eq_refl).
  - intros Hg. exact (layout_crash_rules_safe O s0 r0 d rep t tc td k j n _ _ _ Hmf Hg eq_refl eq_refl eq_refl).
Qed.

End Pack.

(* ---- refutations of the full-strength statements on the faithful model (closed witnesses) ---------- *)
Definition layout_pre (O : oracle) (s0 : string) (tc : option (string * string)) : Prop :=
  mf O s0 = MfKey [Aconfig; Arules] /\
  match tc with Some (s1, _) => mf O s1 = MfKey [Aconfig; Arules] | None => True end.

Definition csv_crash_statement : Prop :=
  forall (O : oracle) (c : cmd) (s : option string) (c0 : string) (bk r : option string) (d0 : string) (k j n : nat),
    csv_pre O c s c0 r -> yaml_laws O s c0 ->
    let f0 := csv_budget s c0 bk r d0 in
    let f1 := crash (mig_ops O c f0 []) k j n f0 in
    let f2 := rerun O c f1 [] in
    csv_safe O f0 f1 f2 c0.

Definition csv_fault_statement : Prop :=
  forall (O : oracle) (c : cmd) (s : option string) (c0 : string) (bk r : option string) (d0 : string) (k j n : nat),
    csv_pre O c s c0 r -> yaml_laws O s c0 ->
    let f0 := csv_budget s c0 bk r d0 in
    k < length (mig_ops O c f0 []) ->
    let g := crash (mig_ops O c f0 []) k j n f0 in
    let f1 := after_fault O c f0 [] k j n in
    let f2 := rerun O c f1 [] in
    csv_safe O f0 f1 f2 c0 /\ inrun_safe O c g c0.

Definition layout_crash_statement : Prop :=
  forall (O : oracle) (s0 r0 : string) (d rep : option string) (t : bool) (tc : option (string * string)) (td : bool)
         (k j n : nat),
    layout_pre O s0 tc ->
    let f0 := layout_budget s0 r0 d rep t tc td in
    let f1 := crash (update_ops O f0) k j n f0 in
    let f2 := update_rerun O f1 in
    layout_safe O f0 f1 f2 r0.

Definition layout_fault_statement : Prop :=
  forall (O : oracle) (s0 r0 : string) (d rep : option string) (t : bool) (tc : option (string * string)) (td : bool)
         (k j n : nat),
    layout_pre O s0 tc ->
    let f0 := layout_budget s0 r0 d rep t tc td in
    k < length (update_ops O f0) ->
    let f1 := crash (update_ops O f0) k j n f0 in
    let f2 := update_rerun O f1 in
    layout_safe O f0 f1 f2 r0.

Lemma csv_crash_refuted : ~ csv_crash_statement.
Proof.
  intro H. specialize (H Ow Up (Some "s") "c" None None "d" 4 0 0).
  assert (P1 : csv_pre Ow Up (Some "s") "c" None) by reflexivity.
  assert (P2 : yaml_laws Ow (Some "s") "c") by (vm_compute; repeat split; intros; reflexivity).
  specialize (H P1 P2). vm_compute in H.
  destruct H as (_ & [H|H] & _); discriminate H.
Qed.

Lemma csv_fault_refuted : ~ csv_fault_statement.
Proof.
  intro H. specialize (H Ow Up (Some "s") "c" None None "d" 4 0 0).
  assert (P1 : csv_pre Ow Up (Some "s") "c" None) by reflexivity.
  assert (P2 : yaml_laws Ow (Some "s") "c") by (vm_compute; repeat split; intros; reflexivity).
  specialize (H P1 P2). vm_compute in H.
  assert (L : 4 < 8) by (repeat constructor).
  destruct (H L) as ((_ & [X|X] & _) & _); discriminate X.
Qed.

Lemma layout_crash_refuted : ~ layout_crash_statement.
Proof.
  intro H. specialize (H Ow "n" "r" (Some "d") None false None false 2 0 0).
  assert (P : layout_pre Ow "n" None) by (split; reflexivity).
  specialize (H P). vm_compute in H.
  destruct H as (_ & [X|X] & _); discriminate X.
Qed.

Lemma layout_fault_refuted : ~ layout_fault_statement.
Proof.
  intro H. specialize (H Ow "n" "r" (Some "d") None false None false 2 0 0).
  assert (P : layout_pre Ow "n" None) by (split; reflexivity).
  specialize (H P). vm_compute in H.
  assert (L : 2 < 6) by (repeat constructor).
  destruct (H L) as (_ & [X|X] & _); discriminate X.
Qed.

Lemma layout_fault_partial :
  forall (O : oracle) (s0 r0 : string) (d rep : option string) (t : bool) (tc : option (string * string)) (td : bool)
         (k j n : nat),
    mf O s0 = MfKey [Aconfig; Arules] ->
    let f0 := layout_budget s0 r0 d rep t tc td in
    k < length (update_ops O f0) ->
    let f1 := crash (update_ops O f0) k j n f0 in
    let f2 := update_rerun O f1 in
    content_kept f0 f1 f2 /\ (layout_guard d tc td k = true -> layout_rules_safe O f0 f1 f2 r0).
Proof.
  intros O s0 r0 d rep t tc td k j n Hmf f0 _. exact (layout_crash_partial O s0 r0 d rep t tc td k j n Hmf).
Qed.

(* one closed witness per further defect *)
Lemma w_backup_overwritten :
  let f0 := csv_budget (Some "s") "c" (Some "b") None "d" in
  no_loss f0 (crash (mig_ops Ow Up f0 []) 4 0 0 f0) = false.
Proof. vm_compute. reflexivity. Qed.

Lemma w_rules_overwritten :
  let f0 := csv_budget (Some "s") "c" None (Some "r") "d" in
  no_loss f0 (crash (mig_ops Ow Up f0 []) 1 0 0 f0) = false.
Proof. vm_compute. reflexivity. Qed.

Lemma w_failed_run_uses_moved_csv :
  let f0 := csv_budget (Some "s") "c" None None "d" in
  let g := crash (mig_ops Ow Up f0 []) 7 2 0 f0 in
  stranded Ow "c" (up_inrun_after_fault g cd0) g = true /\ resolve Ow g cd0 = INew "K".
Proof. vm_compute. split; reflexivity. Qed.

Lemma w_layout_nests :
  let f0 := layout_budget "n" "r" None None true (Some ("m", "q")) false in
  let f1 := crash (update_ops Ow f0) 9 0 0 f0 in
  fst (resolve_layout Ow f0) = INew "r" /\ fst (resolve_layout Ow f1) = INew "q" /\
  content_at f1 [Atally; Aconfig; Aconfig; Arules] = Some "r".
Proof. vm_compute. repeat split; reflexivity. Qed.

(* ---- layout migration across file systems (shutil.move = mkdir + copies + unlinks + rmdir) ---------- *)
Definition xlayout_statement : Prop :=
  forall (O : oracle) (s0 r0 : string) (d : option string) (t fault : bool) (k j n : nat),
    mf O s0 = MfKey [Aconfig; Arules] ->
    let f0 := layout_budget s0 r0 d None t None false in
    let f1 := xinterrupt fault (xupdate_ops O f0) k j n f0 in
    let f2 := xupdate_rerun O f1 in
    layout_safe O f0 f1 f2 r0.

Lemma xlayout_refuted : ~ xlayout_statement.
Proof.
  intro H. specialize (H Ow "n" "r" None false false 4 0 0 eq_refl). vm_compute in H.
  destruct H as (_ & _ & _ & X); discriminate X.
Qed.

Lemma xlayout_partial :
  forall (O : oracle) (s0 r0 : string) (d : option string) (t fault : bool) (k j n : nat),
    mf O s0 = MfKey [Aconfig; Arules] ->
    let f0 := layout_budget s0 r0 d None t None false in
    let f1 := xinterrupt fault (xupdate_ops O f0) k j n f0 in
    let f2 := xupdate_rerun O f1 in
    content_kept f0 f1 f2 /\ (xlayout_guard d k = true -> layout_rules_safe O f0 f1 f2 r0).
Proof.
  intros O s0 r0 d t fault k j n Hmf f0 f1 f2. split.
  - exact (xlayout_no_loss O s0 r0 d t fault k j n _ _ _ eq_refl eq_refl eq_refl).
  - intros Hg. exact (xlayout_rules_safe O s0 r0 d t fault k j n _ _ _ Hmf Hg eq_refl eq_refl eq_refl).
Qed.

(* the interrupted copy itself is harmless (./config still wins); the RE-RUN nests ./config into the partial
   ./tally/config, whose settings.yaml then names a merchants.rules that was never copied *)
Lemma w_xlayout_rerun_nests :
  let f0 := layout_budget "n" "r" None None false None false in
  let f1 := xcrash (xupdate_ops Ow f0) 4 0 0 f0 in
  let f2 := xupdate_rerun Ow f1 in
  resolve_layout Ow f1 = resolve_layout Ow f0 /\ fst (resolve_layout Ow f2) = INone /\
  content_at f2 [Atally; Aconfig; Aconfig; Arules] = Some "r".
Proof. vm_compute. repeat split; reflexivity. Qed.
