(* C15/Proofs.v — collects the lemmas (C15/Spec.v vocabulary and tactics; ProofsLoss*, ProofsCsv*,
   ProofsLayout case analyses), packages them in the `let` form used by Props.v, and defines the
   closed witness oracle of the refutations. *)
From Coq Require Import String List Bool Arith Lia.
From Tally Require Export C15.Model C15.Spec.
From Tally Require Import C15.ProofsLoss C15.ProofsLossFault C15.ProofsCsvCrash C15.ProofsCsvFault C15.ProofsLayout.
Import ListNotations.
Open Scope string_scope.
Open Scope list_scope.

(* ---- a concrete oracle on one-letter texts: settings "s", CSV "c" converting to "K", the appended
        lines "1" "2" (merchants_file) and "3" "4" (views_file), starter texts "E" "F" "G" "H" --------- *)
Definition tblw {A} (l : list (string * A)) (d : A) (k : string) : A :=
  match find (fun e => String.eqb k (fst e)) l with Some e => snd e | None => d end.

Definition Ow : oracle := {|
  conv := tblw [("c", "K")] "";
  mf := tblw [("s", MfNone); ("s12", MfKey [Aconfig; Arules]); ("s34", MfNone); ("s1234", MfKey [Aconfig; Arules]);
              ("E", MfKey [Aconfig; Arules]); ("n", MfKey [Aconfig; Arules]); ("m", MfKey [Aconfig; Arules])] MfErr;
  has_sub := tblw [("s12", true); ("s1234", true); ("E", true); ("n", true); ("m", true)] false;
  has_vsub := tblw [("s34", true); ("s1234", true); ("E", true)] false;
  has_rule_lines := tblw [("c", true)] false;
  nonempty := tblw [("c", true)] false;
  nonempty_new := tblw [("K", true); ("r", true); ("q", true)] false;
  l1 := "1"; l2 := "2"; v1 := "3"; v2 := "4";
  starter_settings := "E"; starter_merchants := "F"; starter_views := "G"; gitignore_txt := "H";
  schema_txt := "1e" |}.

Section Pack.
Variable O : oracle.

(* CSV migration, crash: the strongest statement that holds *)
Lemma csv_crash_partial :
  forall (c : cmd) (s : option string) (c0 : string) (bk r : option string) (d0 : string) (k n : nat),
    csv_pre O c s c0 r -> yaml_laws O s c0 ->
    let f0 := csv_budget s c0 bk r d0 in
    let f1 := crash (mig_ops O c f0 []) k n f0 in
    let f2 := rerun O c f1 [] in
    (bk = None -> r = None -> content_kept f0 f1 f2) /\
    (csv_crash_guard O s k = true -> csv_rules_safe O f1 f2 c0).
Proof.
  intros c s c0 bk r d0 k n Hpre Hlaws f0 f1 f2. split.
  - intros -> ->. destruct c.
    + exact (csv_no_loss_up O s c0 d0 k n _ _ _ eq_refl eq_refl eq_refl).
    + exact (csv_no_loss_init O s c0 d0 k n _ _ _ eq_refl eq_refl eq_refl).
  - intros Hg. exact (csv_crash_rules_safe O c s c0 bk r d0 k n _ _ _ Hpre Hlaws Hg eq_refl eq_refl eq_refl).
Qed.

Lemma csv_fault_partial :
  forall (c : cmd) (s : option string) (c0 : string) (bk r : option string) (d0 : string) (k n : nat),
    csv_pre O c s c0 r -> yaml_laws O s c0 ->
    let f0 := csv_budget s c0 bk r d0 in
    k < length (mig_ops O c f0 []) ->
    let g := crash (mig_ops O c f0 []) k n f0 in
    let f1 := after_fault O c f0 [] k n in
    let f2 := rerun O c f1 [] in
    (bk = None -> r = None -> content_kept f0 f1 f2) /\
    (csv_fault_guard O c s k = true -> csv_rules_safe O f1 f2 c0 /\ inrun_safe O c g c0).
Proof.
  intros c s c0 bk r d0 k n Hpre Hlaws f0 _ g f1 f2. split.
  - intros -> ->. destruct c.
    + exact (csv_no_loss_up O s c0 d0 k n _ _ _ eq_refl eq_refl eq_refl).
    + exact (csv_no_loss_init_fault O s c0 d0 k n _ _ _ eq_refl eq_refl eq_refl).
  - intros Hg. exact (csv_fault_rules_safe O c s c0 bk r d0 k n _ _ _ _ Hpre Hlaws Hg eq_refl eq_refl eq_refl eq_refl).
Qed.

Lemma layout_crash_partial :
  forall (s0 r0 : string) (d rep : option string) (t : bool) (tc : option (string * string)) (td : bool) (k n : nat),
    mf O s0 = MfKey [Aconfig; Arules] ->
    let f0 := layout_budget s0 r0 d rep t tc td in
    let f1 := crash (update_ops O f0) k n f0 in
    let f2 := update_rerun O f1 in
    content_kept f0 f1 f2 /\ (layout_guard d tc td k = true -> layout_rules_safe O f0 f1 f2 r0).
Proof.
  intros s0 r0 d rep t tc td k n Hmf f0 f1 f2. split.
  - exact (layout_no_loss O s0 r0 d rep t tc td k n _ _ _ eq_refl eq_refl eq_refl).
  - intros Hg. exact (layout_crash_rules_safe O s0 r0 d rep t tc td k n _ _ _ Hmf Hg eq_refl eq_refl eq_refl).
Qed.

End Pack.
