(* C15 — an interrupted or failing migration never loses rules or strands the budget.

   Model: C15/Model.v (hand model, tied to /repo on every run by harness/c15.py: recorded effect
   traces = the model's effect lists; every crash and single-fault state materialised on disk and
   compared with [crash], [resolve], [rerun]).  Vocabulary: C15/Spec.v.

   Each full-strength statement (for every oracle obeying the named YAML laws, every initial budget
   shape, all file contents, every prefix k of the effect list and every cut (j, n) of the open
   file's buffered pieces - written text becomes durable at the Close step: no content lost /\ (the user's rules in force now \/ after re-running the command) /\
   never an empty rule set in force while the user's rules are on disk) is REFUTED on the faithful
   model, and the strongest guarded statement is proved:
     - content is never lost when no .bak / merchants.rules pre-exists (CSV), and never at all (layout);
     - the rules clauses hold at every interruption point before the CSV is moved and once
       settings.yaml has been closed (CSV), and everywhere except between "config/ moved" and
       "data/ moved" when no directory gets nested (layout). *)
From Coq Require Import String List Bool Arith.
From Tally Require Import C15.Proofs.
Import ListNotations.
Open Scope string_scope.
Open Scope list_scope.

(* ------------------------------------------------------------------------------------------------ *)
(* CSV -> .rules migration, crash                                                                     *)
Definition c15_csv_migration_crash_safe_statement : Prop :=
  forall (O : oracle) (c : cmd) (s : option string) (c0 : string) (bk r : option string) (d0 : string) (k j n : nat),
    csv_pre O c s c0 r -> yaml_laws O s c0 ->
    let f0 := csv_budget s c0 bk r d0 in
    let f1 := crash (mig_ops O c f0 []) k j n f0 in
    let f2 := rerun O c f1 [] in
    csv_safe O f0 f1 f2 c0.

(* witness: `tally up --migrate`, crash after "move CSV to .bak" (4 steps done), before the append to
   settings.yaml: no rules in force, .bak and merchants.rules on disk, re-running changes nothing *)
Theorem c15_csv_migration_crash_safe_refuted : ~ c15_csv_migration_crash_safe_statement.
Proof. exact csv_crash_refuted. Qed.
Print Assumptions c15_csv_migration_crash_safe_refuted.

Theorem c15_csv_migration_crash_safe_partial :
  forall (O : oracle) (c : cmd) (s : option string) (c0 : string) (bk r : option string) (d0 : string) (k j n : nat),
    csv_pre O c s c0 r -> yaml_laws O s c0 ->
    let f0 := csv_budget s c0 bk r d0 in
    let f1 := crash (mig_ops O c f0 []) k j n f0 in
    let f2 := rerun O c f1 [] in
    (bk = None -> r = None -> content_kept f0 f1 f2) /\
    (csv_crash_guard O s k = true -> csv_rules_safe O f1 f2 c0).
Proof. exact csv_crash_partial. Qed.
Print Assumptions c15_csv_migration_crash_safe_partial.

(* ------------------------------------------------------------------------------------------------ *)
(* CSV -> .rules migration, one step raises OSError                                                   *)
Definition c15_csv_migration_fault_safe_statement : Prop :=
  forall (O : oracle) (c : cmd) (s : option string) (c0 : string) (bk r : option string) (d0 : string) (k j n : nat),
    csv_pre O c s c0 r -> yaml_laws O s c0 ->
    let f0 := csv_budget s c0 bk r d0 in
    k < length (mig_ops O c f0 []) ->
    let g := crash (mig_ops O c f0 []) k j n f0 in
    let f1 := after_fault O c f0 [] k j n in
    let f2 := rerun O c f1 [] in
    csv_safe O f0 f1 f2 c0 /\ inrun_safe O c g c0.

(* witness: `tally up --migrate`, the open(settings.yaml, 'a') (step 4) raises: this run and every later
   run classify with no rules *)
Theorem c15_csv_migration_fault_safe_refuted : ~ c15_csv_migration_fault_safe_statement.
Proof. exact csv_fault_refuted. Qed.
Print Assumptions c15_csv_migration_fault_safe_refuted.

Theorem c15_csv_migration_fault_safe_partial :
  forall (O : oracle) (c : cmd) (s : option string) (c0 : string) (bk r : option string) (d0 : string) (k j n : nat),
    csv_pre O c s c0 r -> yaml_laws O s c0 ->
    let f0 := csv_budget s c0 bk r d0 in
    k < length (mig_ops O c f0 []) ->
    let g := crash (mig_ops O c f0 []) k j n f0 in
    let f1 := after_fault O c f0 [] k j n in
    let f2 := rerun O c f1 [] in
    (bk = None -> r = None -> content_kept f0 f1 f2) /\
    (csv_fault_guard O c s k = true -> csv_rules_safe O f1 f2 c0 /\ inrun_safe O c g c0).
Proof. exact csv_fault_partial. Qed.
Print Assumptions c15_csv_migration_fault_safe_partial.

(* further witnesses of the refuted statement, one per distinct defect *)
Theorem c15_csv_existing_backup_overwritten :
  let f0 := csv_budget (Some "s") "c" (Some "b") None "d" in
  no_loss f0 (crash (mig_ops Ow Up f0 []) 4 0 0 f0) = false.
Proof. exact w_backup_overwritten. Qed.
Print Assumptions c15_csv_existing_backup_overwritten.

Theorem c15_csv_existing_rules_overwritten :
  let f0 := csv_budget (Some "s") "c" None (Some "r") "d" in
  no_loss f0 (crash (mig_ops Ow Up f0 []) 1 0 0 f0) = false.
Proof. exact w_rules_overwritten. Qed.
Print Assumptions c15_csv_existing_rules_overwritten.

(* a failed run that has already moved the CSV goes on with an empty rule set (here: close() of
   settings.yaml raises, the disk is complete, yet this run classifies with nothing) *)
Theorem c15_csv_failed_run_uses_moved_csv :
  let f0 := csv_budget (Some "s") "c" None None "d" in
  let g := crash (mig_ops Ow Up f0 []) 7 2 0 f0 in
  stranded Ow "c" (up_inrun_after_fault g cd0) g = true /\ resolve Ow g cd0 = INew "K".
Proof. exact w_failed_run_uses_moved_csv. Qed.
Print Assumptions c15_csv_failed_run_uses_moved_csv.

(* ------------------------------------------------------------------------------------------------ *)
(* folder-layout migration                                                                            *)
Definition c15_layout_migration_crash_safe_statement : Prop :=
  forall (O : oracle) (s0 r0 : string) (d rep : option string) (t : bool) (tc : option (string * string)) (td : bool)
         (k j n : nat),
    layout_pre O s0 tc ->
    let f0 := layout_budget s0 r0 d rep t tc td in
    let f1 := crash (update_ops O f0) k j n f0 in
    let f2 := update_rerun O f1 in
    layout_safe O f0 f1 f2 r0.

(* witness: crash after "config/ moved to tally/config" (2 steps done), before data/ is moved: the
   budget is found at ./tally/config, its statement files are still under ./data, and `tally update`
   no longer migrates (the config directory is not ./config any more) *)
Theorem c15_layout_migration_crash_safe_refuted : ~ c15_layout_migration_crash_safe_statement.
Proof. exact layout_crash_refuted. Qed.
Print Assumptions c15_layout_migration_crash_safe_refuted.

Theorem c15_layout_migration_crash_safe_partial :
  forall (O : oracle) (s0 r0 : string) (d rep : option string) (t : bool) (tc : option (string * string)) (td : bool)
         (k j n : nat),
    mf O s0 = MfKey [Aconfig; Arules] ->
    let f0 := layout_budget s0 r0 d rep t tc td in
    let f1 := crash (update_ops O f0) k j n f0 in
    let f2 := update_rerun O f1 in
    content_kept f0 f1 f2 /\ (layout_guard d tc td k = true -> layout_rules_safe O f0 f1 f2 r0).
Proof. exact layout_crash_partial. Qed.
Print Assumptions c15_layout_migration_crash_safe_partial.

(* a step raising OSError leaves the same disk as a crash at that step (nothing is rolled back and
   migrate_v0_to_v1 returns None) *)
Definition c15_layout_migration_fault_safe_statement : Prop :=
  forall (O : oracle) (s0 r0 : string) (d rep : option string) (t : bool) (tc : option (string * string)) (td : bool)
         (k j n : nat),
    layout_pre O s0 tc ->
    let f0 := layout_budget s0 r0 d rep t tc td in
    k < length (update_ops O f0) ->
    let f1 := crash (update_ops O f0) k j n f0 in
    let f2 := update_rerun O f1 in
    layout_safe O f0 f1 f2 r0.

Theorem c15_layout_migration_fault_safe_refuted : ~ c15_layout_migration_fault_safe_statement.
Proof. exact layout_fault_refuted. Qed.
Print Assumptions c15_layout_migration_fault_safe_refuted.

Theorem c15_layout_migration_fault_safe_partial :
  forall (O : oracle) (s0 r0 : string) (d rep : option string) (t : bool) (tc : option (string * string)) (td : bool)
         (k j n : nat),
    mf O s0 = MfKey [Aconfig; Arules] ->
    let f0 := layout_budget s0 r0 d rep t tc td in
    k < length (update_ops O f0) ->
    let f1 := crash (update_ops O f0) k j n f0 in
    let f2 := update_rerun O f1 in
    content_kept f0 f1 f2 /\ (layout_guard d tc td k = true -> layout_rules_safe O f0 f1 f2 r0).
Proof. exact layout_fault_partial. Qed.
Print Assumptions c15_layout_migration_fault_safe_partial.

(* an existing ./tally/config (another budget) makes even the completed migration nest the user's
   config below it: afterwards the other budget's rules are in force *)
Theorem c15_layout_existing_target_nests :
  let f0 := layout_budget "n" "r" None None true (Some ("m", "q")) false in
  let f1 := crash (update_ops Ow f0) 9 0 0 f0 in
  fst (resolve_layout Ow f0) = INew "r" /\ fst (resolve_layout Ow f1) = INew "q" /\
  content_at f1 [Atally; Aconfig; Aconfig; Arules] = Some "r".
Proof. exact w_layout_nests. Qed.
Print Assumptions c15_layout_existing_target_nests.

(* ------------------------------------------------------------------------------------------------ *)
(* folder-layout migration with ./tally on another file system: shutil.move is a LIST of effects
   (mkdir, one copy per file, one unlink per file, rmdir - C15/XMove.v), and the statement quantifies over
   every interruption point of that list: a crash there ([fault] = false) or that step raising OSError
   ([fault] = true: copytree still copies the files after a failed copy) *)
Definition c15_layout_xdev_migration_safe_statement : Prop :=
  forall (O : oracle) (s0 r0 : string) (d : option string) (t fault : bool) (k j n : nat),
    mf O s0 = MfKey [Aconfig; Arules] ->
    let f0 := layout_budget s0 r0 d None t None false in
    let f1 := xinterrupt fault (xupdate_ops O f0) k j n f0 in
    let f2 := xupdate_rerun O f1 in
    layout_safe O f0 f1 f2 r0.

Theorem c15_layout_xdev_migration_safe_refuted : ~ c15_layout_xdev_migration_safe_statement.
Proof. exact xlayout_refuted. Qed.
Print Assumptions c15_layout_xdev_migration_safe_refuted.

Theorem c15_layout_xdev_migration_safe_partial :
  forall (O : oracle) (s0 r0 : string) (d : option string) (t fault : bool) (k j n : nat),
    mf O s0 = MfKey [Aconfig; Arules] ->
    let f0 := layout_budget s0 r0 d None t None false in
    let f1 := xinterrupt fault (xupdate_ops O f0) k j n f0 in
    let f2 := xupdate_rerun O f1 in
    content_kept f0 f1 f2 /\ (xlayout_guard d k = true -> layout_rules_safe O f0 f1 f2 r0).
Proof. exact xlayout_partial. Qed.
Print Assumptions c15_layout_xdev_migration_safe_partial.

Theorem c15_layout_xdev_rerun_nests_partial_copy :
  let f0 := layout_budget "n" "r" None None false None false in
  let f1 := xcrash (xupdate_ops Ow f0) 4 0 0 f0 in
  let f2 := xupdate_rerun Ow f1 in
  resolve_layout Ow f1 = resolve_layout Ow f0 /\ fst (resolve_layout Ow f2) = INone /\
  content_at f2 [Atally; Aconfig; Aconfig; Arules] = Some "r".
Proof. exact w_xlayout_rerun_nests. Qed.
Print Assumptions c15_layout_xdev_rerun_nests_partial_copy.

(* ------------------------------------------------------------------------------------------------ *)
(* non-vacuity: the hypotheses are satisfiable, the migrations really run, and a completed run ends well *)
Example c15_example_csv :
  csv_pre Ow Up (Some "s") "c" None /\ yaml_laws Ow (Some "s") "c" /\
  csv_crash_guard Ow (Some "s") 3 = true /\ csv_crash_guard Ow (Some "s") 4 = false /\
  csv_fault_guard Ow Up (Some "s") 3 = true /\
  let f0 := csv_budget (Some "s") "c" None None "d" in
  mig_ops Ow Up f0 [] =
    [OpenTrunc [Aconfig; Arules]; Write [Aconfig; Arules] "K"; Close [Aconfig; Arules];
     Move [Aconfig; Acsv] [Aconfig; Abak];
     OpenAppend [Aconfig; Asettings]; Write [Aconfig; Asettings] "1"; Write [Aconfig; Asettings] "2";
     Close [Aconfig; Asettings]] /\
  resolve Ow f0 cd0 = ICsv "c" /\
  resolve Ow (crash (mig_ops Ow Up f0 []) 8 0 0 f0) cd0 = INew "K" /\
  resolve Ow (crash (mig_ops Ow Up f0 []) 4 0 0 f0) cd0 = INone /\
  resolve Ow (rerun Ow Up (crash (mig_ops Ow Up f0 []) 2 0 0 f0) []) cd0 = INew "K".
Proof. vm_compute. repeat split; intros; reflexivity. Qed.

Example c15_example_init_without_settings :
  csv_pre Ow Init None "c" None /\ yaml_laws Ow None "c" /\ csv_crash_guard Ow None 3 = true /\
  let f0 := csv_budget None "c" None None "d" in
  length (mig_ops Ow Init f0 []) = 4 /\
  resolve Ow f0 cd0 = IErr /\ resolve Ow (rerun Ow Init f0 []) cd0 = INew "K".
Proof. vm_compute. repeat split; intros; reflexivity. Qed.

Example c15_example_layout :
  let f0 := layout_budget "n" "r" (Some "d") (Some "p") false None false in
  layout_guard (Some "d") None false 1 = true /\ layout_guard (Some "d") None false 2 = false /\
  update_ops Ow f0 =
    [Mkdir [Atally]; Move [Aconfig] [Atally; Aconfig]; Move [Adata] [Atally; Adata]; Move [Aoutput] [Atally; Aoutput];
     OpenTrunc [Atally; Aconfig; Aschema]; Write [Atally; Aconfig; Aschema] "1e"; Close [Atally; Aconfig; Aschema]] /\
  resolve_layout Ow f0 = (INew "r", Some "d") /\
  resolve_layout Ow (crash (update_ops Ow f0) 7 0 0 f0) = (INew "r", Some "d") /\
  resolve_layout Ow (crash (update_ops Ow f0) 2 0 0 f0) = (INew "r", None).
Proof. vm_compute. repeat split; reflexivity. Qed.

Example c15_example_layout_xdev :
  let f0 := layout_budget "n" "r" (Some "d") None false None false in
  xlayout_guard (Some "d") 6 = true /\ xlayout_guard (Some "d") 4 = false /\ xlayout_guard (Some "d") 9 = false /\
  xupdate_ops Ow f0 =
    [XB (Mkdir [Atally]);
     XBegin [Aconfig] [Atally; Aconfig]; XB (Mkdir [Atally; Aconfig]);
     XCopy [Aconfig; Asettings] [Atally; Aconfig; Asettings]; XCopy [Aconfig; Arules] [Atally; Aconfig; Arules];
     XUnlink [Aconfig; Asettings]; XUnlink [Aconfig; Arules]; XRmdir [Aconfig];
     XBegin [Adata] [Atally; Adata]; XB (Mkdir [Atally; Adata]);
     XCopy [Adata; Adatafile] [Atally; Adata; Adatafile]; XUnlink [Adata; Adatafile]; XRmdir [Adata];
     XB (OpenTrunc [Atally; Aconfig; Aschema]); XB (Write [Atally; Aconfig; Aschema] "1e");
     XB (Close [Atally; Aconfig; Aschema])] /\
  resolve_layout Ow (xcrash (xupdate_ops Ow f0) 16 0 0 f0) = (INew "r", Some "d") /\
  resolve_layout Ow (xupdate_rerun Ow (xcrash (xupdate_ops Ow f0) 6 0 0 f0)) = (INew "r", Some "d").
Proof. vm_compute. repeat split; reflexivity. Qed.
