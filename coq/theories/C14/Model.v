(* C14/Model.v — executable model of the CSV -> .rules migration and of both classification paths.

   source path  : merchant_utils.normalize_merchant (legacy tuple loop) over load_merchant_rules' tuples
   target path  : merchant_engine.csv_to_merchants_content (text generator, [gen_content]) read back:
                  rules-file fields ([strip], header/category rules, char-level tag splitting), the match
                  expression's string literal lexed and UN-escaped as CPython does it ([lex_ok], [unesc]),
                  the comparison atoms taken structurally, and the fragment evaluated ([eval_and]).
   Library behaviour is never axiomatised: regex search and the legacy "pattern is an expression"
   evaluation are parameters of the semantic functions (Section variables in Proofs.v).

   The model describes the tree AFTER the adopted fixes: the pattern is written as an escaped literal
   ([quote_body]), `[amount=N]` is emitted as abs(amount - N) < 0.01, the loader strips the Merchant /
   Category / Subcategory cells ([loader_cells]) and the converter skips rows without category and tags.

   Money: Z = exact value of the double in units of 2^-64 (see [near]).  Dates: proleptic Gregorian ordinals.
   Strings: bytes (UTF-8).  No proofs in this file. *)
From Coq Require Import String Ascii List Bool ZArith NArith.
From Tally Require Import Lib.Str.
Import ListNotations.
Open Scope string_scope.
Local Open Scope N_scope.

(* ------------------------------------------------------------------ characters and strings *)
Definition code (c : ascii) : N := N_of_ascii c.
Definition chr (n : N) : ascii := ascii_of_N n.
Definition is_ws (c : ascii) : bool :=                 (* str.strip() / \s on ASCII *)
  let n := code c in ((N.leb 9 n && N.leb n 13) || (N.leb 28 n && N.leb n 32))%bool.
Definition is_bs (c : ascii) : bool := N.eqb (code c) 92.
Definition is_dq (c : ascii) : bool := N.eqb (code c) 34.
Definition is_sq (c : ascii) : bool := N.eqb (code c) 39.
Definition is_ctl (c : ascii) : bool :=                (* newline, carriage return, NUL: outside the model *)
  let n := code c in (N.eqb n 10 || N.eqb n 13 || N.eqb n 0)%bool.

Fixpoint lstrip (s : string) : string :=
  match s with
  | EmptyString => EmptyString
  | String c r => if is_ws c then lstrip r else s
  end.
Fixpoint rstrip (s : string) : string :=
  match s with
  | EmptyString => EmptyString
  | String c r => match rstrip r with
                  | EmptyString => if is_ws c then EmptyString else String c EmptyString
                  | r' => String c r'
                  end
  end.
Definition strip (s : string) : string := rstrip (lstrip s).
Definition nonempty (s : string) : bool := match s with EmptyString => false | _ => true end.
Definition trimmed (s : string) : bool := (String.eqb (lstrip s) s && String.eqb (rstrip s) s)%bool.

Fixpoint sexists (f : ascii -> bool) (s : string) : bool :=
  match s with EmptyString => false | String c r => (f c || sexists f r)%bool end.
Fixpoint last_char (s : string) : option ascii :=
  match s with EmptyString => None | String c EmptyString => Some c | String _ r => last_char r end.
Definition first_char (s : string) : option ascii := match s with String c _ => Some c | _ => None end.

Fixpoint join (sep : string) (l : list string) : string :=
  match l with
  | [] => ""
  | [x] => x
  | x :: r => x ++ sep ++ join sep r
  end.

Fixpoint drop_prefix (p s : string) : option string :=
  match p, s with
  | EmptyString, _ => Some s
  | String a p', String b s' => if Ascii.eqb a b then drop_prefix p' s' else None
  | String _ _, EmptyString => None
  end.
Definition starts_with (p s : string) : bool := match drop_prefix p s with Some _ => true | None => false end.
Fixpoint contains (sub s : string) : bool :=
  if starts_with sub s then true else match s with EmptyString => false | String _ r => contains sub r end.

(* ------------------------------------------------------------------ Python string-literal un-escaping *)
Inductive uout := UVal (s : string) | UErr | UUnm.
Definition ucons (s : string) (o : uout) : uout := match o with UVal t => UVal (s ++ t) | e => e end.

Definition is_oct (c : ascii) : bool := let n := code c in (N.leb 48 n && N.leb n 55)%bool.
Definition octv (c : ascii) : N := code c - 48.
Definition hexval (c : ascii) : option N :=
  let n := code c in
  if (N.leb 48 n && N.leb n 57)%bool then Some (n - 48)
  else if (N.leb 65 n && N.leb n 70)%bool then Some (n - 55)
  else if (N.leb 97 n && N.leb n 102)%bool then Some (n - 87)
  else None.
(* UTF-8 bytes of a code point < 0x800 (\ooo <= 0o777 and \xhh are all below that) *)
Definition utf8 (n : N) : string :=
  if N.ltb n 128 then String (chr n) ""
  else String (chr (192 + n / 64)) (String (chr (128 + n mod 64)) "").

(* backslash followed by: backslash, quote, double quote, a b f n r t v *)
Definition simple_escape (e : ascii) : option ascii :=
  let n := code e in
  if N.eqb n 92 then Some (chr 92) else if N.eqb n 39 then Some (chr 39) else if N.eqb n 34 then Some (chr 34)
  else if N.eqb n 97 then Some (chr 7) else if N.eqb n 98 then Some (chr 8) else if N.eqb n 102 then Some (chr 12)
  else if N.eqb n 110 then Some (chr 10) else if N.eqb n 114 then Some (chr 13) else if N.eqb n 116 then Some (chr 9)
  else if N.eqb n 118 then Some (chr 11) else None.
Definition is_x (e : ascii) : bool := N.eqb (code e) 120.
(* \N{...} \uXXXX \UXXXXXXXX and backslash-newline: recognised by CPython, not modelled here *)
Definition is_unmodelled_escape (e : ascii) : bool :=
  let n := code e in (N.eqb n 78 || N.eqb n 117 || N.eqb n 85 || N.eqb n 10)%bool.
(* every character c that makes backslash-c mean something other than the two characters themselves *)
Definition is_escape_char (e : ascii) : bool :=
  (match simple_escape e with Some _ => true | None => false end || is_oct e || is_x e || is_unmodelled_escape e)%bool.

(* the value CPython gives the body of a (non-raw, non-bytes) string literal *)
Fixpoint unesc (s : string) : uout :=
  match s with
  | EmptyString => UVal ""
  | String c r =>
    if negb (is_bs c) then ucons (String c "") (unesc r) else
    match r with
    | EmptyString => UErr
    | String e r1 =>
      match simple_escape e with
      | Some x => ucons (String x "") (unesc r1)
      | None =>
        if is_oct e then
          match r1 with
          | String d2 r2 =>
            if is_oct d2 then
              match r2 with
              | String d3 r3 =>
                if is_oct d3 then ucons (utf8 (octv e * 64 + octv d2 * 8 + octv d3)) (unesc r3)
                else ucons (utf8 (octv e * 8 + octv d2)) (unesc r2)
              | EmptyString => ucons (utf8 (octv e * 8 + octv d2)) (unesc r2)
              end
            else ucons (utf8 (octv e)) (unesc r1)
          | EmptyString => ucons (utf8 (octv e)) (unesc r1)
          end
        else if is_x e then
          match r1 with
          | String h1 (String h2 r3) =>
            match hexval h1, hexval h2 with
            | Some a, Some b => ucons (utf8 (a * 16 + b)) (unesc r3)
            | _, _ => UErr
            end
          | _ => UErr
          end
        else if is_unmodelled_escape e then UUnm
        else ucons (String c (String e "")) (unesc r1)
      end
    end
  end.

(* computable characterisation of "the literal reads back as itself" (see Proofs.unesc_id_iff) *)
Fixpoint esc_free (s : string) : bool :=
  match s with
  | EmptyString => true
  | String c r =>
    if negb (is_bs c) then esc_free r else
    match r with
    | EmptyString => false
    | String e r1 => (negb (is_escape_char e) && esc_free r1)%bool
    end
  end.

(* can the text between the quotes be lexed as ONE double-quoted literal body? *)
Fixpoint lex_body (s : string) : bool :=
  match s with
  | EmptyString => true
  | String c r =>
    if is_bs c then match r with EmptyString => false | String _ r1 => lex_body r1 end
    else if is_dq c then false else lex_body r
  end.
Definition lex_ok (s : string) : bool := (negb (sexists is_ctl s) && lex_body s)%bool.

(* merchant_engine._quote_pattern: backslash and double quote are escaped, everything else is written as is *)
Fixpoint quote_body (s : string) : string :=
  match s with
  | EmptyString => EmptyString
  | String c r => if (is_bs c || is_dq c)%bool then String (chr 92) (String c (quote_body r)) else String c (quote_body r)
  end.

(* lexical scan of a whole expression line: Some true = the line ends inside a string literal (CPython's
   tokenizer raises SyntaxError whatever the grammar), Some false = every literal is closed,
   None = an f-string prefix or a comment was met (not modelled). *)
Inductive lstate := LCode | LStr (q : ascii) | LStr3 (q : ascii).
Definition is_fF (c : ascii) : bool := let n := code c in (N.eqb n 102 || N.eqb n 70)%bool.
Definition is_rR (c : ascii) : bool := let n := code c in (N.eqb n 114 || N.eqb n 82)%bool.
Fixpoint lexscan (st : lstate) (p1 p2 : ascii) (s : string) : option bool :=
  match s with
  | EmptyString => match st with LCode => Some false | _ => Some true end
  | String c r =>
    match st with
    | LCode =>
      if N.eqb (code c) 35 then None
      else if (is_dq c || is_sq c)%bool then
        if (is_fF p1 || (is_rR p1 && is_fF p2))%bool then None
        else match r with
             | String c2 (String c3 r3) =>
               if (Ascii.eqb c2 c && Ascii.eqb c3 c)%bool then lexscan (LStr3 c) c c r3 else lexscan (LStr c) c p1 r
             | _ => lexscan (LStr c) c p1 r
             end
      else lexscan LCode c p1 r
    | LStr q =>
      if is_bs c then match r with EmptyString => Some true | String _ r1 => lexscan (LStr q) c p1 r1 end
      else if Ascii.eqb c q then lexscan LCode c p1 r
      else lexscan (LStr q) c p1 r
    | LStr3 q =>
      if is_bs c then match r with EmptyString => Some true | String _ r1 => lexscan (LStr3 q) c p1 r1 end
      else if Ascii.eqb c q then
        match r with
        | String c2 (String c3 r3) =>
          if (Ascii.eqb c2 q && Ascii.eqb c3 q)%bool then lexscan LCode c p1 r3 else lexscan (LStr3 q) c p1 r
        | _ => lexscan (LStr3 q) c p1 r
        end
      else lexscan (LStr3 q) c p1 r
    end
  end.
Definition line_unterminated (s : string) : option bool := lexscan LCode (chr 32) (chr 32) s.

(* ------------------------------------------------------------------ numbers and dates as text *)
Fixpoint digits_fuel (fuel : nat) (n : N) (acc : string) : string :=
  match fuel with
  | O => acc
  | S f => let acc' := String (chr (48 + n mod 10)) acc in
           if N.eqb (n / 10) 0 then acc' else digits_fuel f (n / 10) acc'
  end.
Definition render_N (n : N) : string := digits_fuel 40 n "".
Fixpoint zeros (k : nat) (s : string) : string := match k with O => s | S k' => String (chr 48) (zeros k' s) end.
Definition pad_left (w : nat) (s : string) : string := zeros (w - String.length s) s.
Fixpoint rstrip0 (s : string) : string :=
  match s with
  | EmptyString => EmptyString
  | String c r => match rstrip0 r with
                  | EmptyString => if N.eqb (code c) 48 then EmptyString else String c EmptyString
                  | r' => String c r'
                  end
  end.
(* Money: the EXACT value of the IEEE double the implementation holds, in units of 2^-64 (every double that
   is 0 or at least 2^-11 in magnitude is a whole number of such units).  Order and equality of doubles are
   those of their exact values.  The float test abs(a - v) < 0.01 is decided exactly: the subtraction rounds to
   nearest (ties to even), rounding is monotone, and the double 0.01 = 5764607523034235 * 2^-59 has an odd
   significand, so RN(x) < 0.01 iff |x| <= (pred(0.01) + 0.01) / 2 = NEAR_MID. *)
Definition UNIT : Z := 18446744073709551616.          (* 2^64 *)
Definition NEAR_MID : Z := 184467440737095504.        (* (2 * 5764607523034235 - 1) * 2^-60 in units of 2^-64 *)
Definition DOUBLE_CENT : Z := 184467440737095520.     (* the double 0.01 itself, slightly above 1/100 *)
Definition near (a v : Z) : bool := Z.leb (Z.abs (a - v)) NEAR_MID.

(* civil date of a proleptic Gregorian ordinal (date.fromordinal) *)
Local Open Scope Z_scope.
Definition civil (ord : Z) : Z * Z * Z :=
  let z := ord + 305 in
  let era := z / 146097 in
  let doe := z - era * 146097 in
  let yoe := (doe - doe / 1460 + doe / 36524 - doe / 146096) / 365 in
  let y := yoe + era * 400 in
  let doy := doe - (365 * yoe + yoe / 4 - yoe / 100) in
  let mp := (5 * doy + 2) / 153 in
  let d := doy - (153 * mp + 2) / 5 + 1 in
  let m := if mp <? 10 then mp + 3 else mp - 9 in
  ((if m <=? 2 then y + 1 else y), m, d).
Definition month_of (ord : Z) : Z := snd (fst (civil ord)).
Definition render_Z (z : Z) : string := render_N (Z.to_N z).
Definition render_date (ord : Z) : string :=
  let '(y, m, d) := civil ord in
  (pad_left 4 (render_Z y) ++ "-" ++ pad_left 2 (render_Z m) ++ "-" ++ pad_left 2 (render_Z d))%string.
Close Scope Z_scope.

(* ------------------------------------------------------------------ the loaded CSV rule and the transaction *)
Inductive aop := AGt | AGe | ALt | ALe | AEq | ARange.
(* ARange: a_v = min, a_hi = max.  a_txt / a_hi_txt: repr() of those floats, as f"{cond.value}" interpolates
   them (float.__repr__ and the reading of a float literal are CPython's, not modelled: repr round-trips) *)
Record acond := { a_op : aop; a_v : Z; a_hi : Z; a_txt : string; a_hi_txt : string }.
Inductive dcond := DEq (d : Z) | DRange (lo hi : Z) | DMonth (m : Z) | DRel (n : Z).
Record csv_rule := { pat : string; amts : list acond; dates : list dcond;
                     merchant : string; category : string; subcategory : string; tags : list string }.
Record txn := { desc : string; amount : Z; date : Z }.

(* load_merchant_rules: the Merchant / Category / Subcategory cells are stripped (a missing cell is "") *)
Definition loader_cells (r : csv_rule) : csv_rule :=
  {| pat := pat r; amts := amts r; dates := dates r; merchant := strip (merchant r); category := strip (category r);
     subcategory := strip (subcategory r); tags := tags r |}.
Definition cells_stripped (r : csv_rule) : bool :=
  (trimmed (merchant r) && trimmed (category r) && trimmed (subcategory r))%bool.
(* a row that never had any effect: no category, no tags (the converter writes a comment instead of a block) *)
Definition noop_rule (r : csv_rule) : bool :=
  (negb (nonempty (strip (category r))) && match tags r with [] => true | _ => false end)%bool.

Definition is_rel (c : dcond) : bool := match c with DRel _ => true | _ => false end.

(* ------------------------------------------------------------------ (a) the text generator *)
Definition dq : string := String (chr 34) "".
Definition aop_text (o : aop) : string :=
  match o with AGt => ">" | AGe => ">=" | ALt => "<" | ALe => "<=" | AEq => "==" | ARange => ":" end.
Definition acond_text (c : acond) : string :=
  match a_op c with
  | ARange => "amount >= " ++ a_txt c ++ " and amount <= " ++ a_hi_txt c
  | AEq => "abs(amount - " ++ a_txt c ++ ") < 0.01"
  | o => "amount " ++ aop_text o ++ " " ++ a_txt c
  end.
Definition dcond_text (c : dcond) : string :=
  match c with
  | DEq d => "date == " ++ dq ++ render_date d ++ dq
  | DRange lo hi => "date >= " ++ dq ++ render_date lo ++ dq ++ " and date <= " ++ dq ++ render_date hi ++ dq
  | DMonth m => "month == " ++ render_Z m
  | DRel n => "# Note: was last" ++ render_Z n ++ "days"
  end.
Definition modifier_text (r : csv_rule) : string :=
  join " and " (app (map acond_text (amts r)) (map dcond_text (dates r))).
Definition modifier_kept (r : csv_rule) : bool :=
  let me := modifier_text r in (nonempty me && negb (starts_with "#" me))%bool.
Definition match_text (r : csv_rule) : string :=
  let parts := app (if nonempty (pat r) then ["regex(" ++ dq ++ quote_body (pat r) ++ dq ++ ")"] else [])
                   (if modifier_kept r then [modifier_text r] else []) in
  match parts with [] => "true" | _ => join " and " parts end.
Definition block_lines (r : csv_rule) : list string :=
  if noop_rule r then ["# Skipped (no category or tags): " ++ pat r; ""] else
  app ["[" ++ merchant r ++ "]"; "match: " ++ match_text r; "category: " ++ category r; "subcategory: " ++ subcategory r]
      (app (match tags r with [] => [] | tg => ["tags: " ++ join ", " tg] end) [""]).
Definition header_lines : list string :=
  ["# Tally Merchant Rules"; "# Migrated from merchant_categories.csv"; "#"; "# Format:"; "#   [Rule Name]";
   "#   match: <expression>"; "#   category: <category>"; "#   subcategory: <subcategory>";
   "#   tags: tag1, tag2  # optional"; ""].
Definition nl : string := String (chr 10) "".
Definition gen_content (rules : list csv_rule) : string :=
  join nl (app header_lines (flat_map block_lines rules)).

(* ------------------------------------------------------------------ (b) reading the generated rule back *)
Inductive cmp := CGt | CGe | CLt | CLe | CEq.
Inductive eatom := ERegex (p : string) | EAmt (o : cmp) (v : Z) | EAmtNear (v : Z) | EDate (o : cmp) (d : Z) | EMonth (m : Z).
Record eng_rule := { e_name : string; e_cat : string; e_sub : string; e_tags : list string; e_match : list eatom }.
Inductive lout (A : Type) := LOk (a : A) | LErr | LUnm.
Arguments LOk {A} a. Arguments LErr {A}. Arguments LUnm {A}.

Definition acond_atoms (c : acond) : list eatom :=
  match a_op c with
  | AGt => [EAmt CGt (a_v c)] | AGe => [EAmt CGe (a_v c)] | ALt => [EAmt CLt (a_v c)] | ALe => [EAmt CLe (a_v c)]
  | AEq => [EAmtNear (a_v c)]                                   (* abs(amount - v) < 0.01 *)
  | ARange => [EAmt CGe (a_v c); EAmt CLe (a_hi c)]
  end.
Definition dcond_atoms (c : dcond) : list eatom :=
  match c with
  | DEq d => [EDate CEq d]
  | DRange lo hi => [EDate CGe lo; EDate CLe hi]
  | DMonth m => [EMonth m]
  | DRel _ => []
  end.

(* the match line: the regex literal is lexed and un-escaped character by character; the comparison atoms
   are taken structurally; a relative-date "comment" leaves a dangling `and` (SyntaxError) unless the whole
   modifier text starts with it (then the converter drops ALL modifiers) *)
Definition load_match (r : csv_rule) : lout (list eatom) :=
  let mods := if modifier_kept r then app (flat_map acond_atoms (amts r)) (flat_map dcond_atoms (dates r)) else [] in
  let dangling := (modifier_kept r && existsb is_rel (dates r))%bool in
  if nonempty (pat r) then
    if lex_ok (quote_body (pat r)) then
      match unesc (quote_body (pat r)) with
      | UVal s => if dangling then LErr else LOk (ERegex s :: mods)
      | UErr => LErr
      | UUnm => LUnm
      end
    else match line_unterminated (match_text r) with Some true => LErr | _ => LUnm end
  else if dangling then LErr else LOk mods.

(* tags: value split on commas outside parentheses, pieces stripped, empty pieces dropped *)
Definition is_lpar (c : ascii) : bool := N.eqb (code c) 40.
Definition is_rpar (c : ascii) : bool := N.eqb (code c) 41.
Definition is_comma (c : ascii) : bool := N.eqb (code c) 44.
Definition flush (cur : string) : list string := let t := strip cur in if nonempty t then [t] else [].
Fixpoint split_go (s : string) (depth : Z) (cur : string) : list string :=
  match s with
  | EmptyString => flush cur
  | String c r =>
    if is_lpar c then split_go r (depth + 1) (cur ++ String c "")
    else if is_rpar c then split_go r (depth - 1) (cur ++ String c "")
    else if (is_comma c && Z.eqb depth 0)%bool then app (flush cur) (split_go r depth "")
    else split_go r depth (cur ++ String c "")
  end.
Definition split_tags (value : string) : list string := split_go value 0 "".
Definition is_dynamic (t : string) : bool :=
  let s := strip t in
  (match first_char s with Some c => N.eqb (code c) 123 | None => false end
   && match last_char s with Some c => N.eqb (code c) 125 | None => false end)%bool.

Definition fields_modelled (r : csv_rule) : bool :=
  negb (sexists is_ctl (pat r) || sexists is_ctl (merchant r) || sexists is_ctl (category r)
        || sexists is_ctl (subcategory r) || existsb (sexists is_ctl) (tags r) || existsb is_dynamic (tags r)).

Definition load_rule (r : csv_rule) : lout (option eng_rule) :=
  if negb (fields_modelled r) then LUnm else
  if noop_rule r then LOk None else
  let name := strip (merchant r) in
  if negb (nonempty name) then LErr else
  match load_match r with
  | LOk m =>
    let cat := strip (category r) in
    let tg := match tags r with [] => [] | l => split_tags (strip (join ", " l)) end in
    if existsb is_dynamic tg then LUnm
    else if (negb (nonempty cat) && match tg with [] => true | _ => false end)%bool then LErr
    else LOk (Some {| e_name := name; e_cat := cat; e_sub := strip (subcategory r); e_tags := tg; e_match := m |})
  | LErr => LErr
  | LUnm => LUnm
  end.

(* one bad block makes the whole file fail to load *)
Fixpoint load_all (rules : list csv_rule) : lout (list eng_rule) :=
  match rules with
  | [] => LOk []
  | r :: rs =>
    match load_rule r, load_all rs with
    | LUnm, _ | _, LUnm => LUnm
    | LErr, _ | _, LErr => LErr
    | LOk (Some e), LOk es => LOk (e :: es)
    | LOk None, LOk es => LOk es
    end
  end.

(* ------------------------------------------------------------------ semantics *)
Record result := { r_cls : option (string * string * string); r_tags : list string }.
Definition no_result : result := {| r_cls := None; r_tags := [] |}.
Definition is_true (o : option bool) : bool := match o with Some true => true | _ => false end.
Definition static_tags (l : list string) : list string := map lower (filter nonempty (map strip l)).

Definition cmpZ (o : cmp) (a b : Z) : bool :=
  match o with CGt => Z.ltb b a | CGe => Z.leb b a | CLt => Z.ltb a b | CLe => Z.leb a b | CEq => Z.eqb a b end.

(* _is_expression_pattern *)
Definition fn_names : list string :=
  ["contains"; "normalized"; "anyof"; "startswith"; "fuzzy"; "regex"; "extract"; "split"; "substring"; "trim"; "exists"].
Definition var_names : list string := ["amount"; "month"; "year"; "day"; "source"; "description"].
Definition name_then (names : list string) (f : ascii -> bool) (s : string) : bool :=
  existsb (fun nm => match drop_prefix nm s with
                     | Some rest => match lstrip rest with String c _ => f c | EmptyString => false end
                     | None => false
                     end) names.
Definition is_cmp_char (c : ascii) : bool :=
  let n := code c in (N.eqb n 60 || N.eqb n 62 || N.eqb n 61 || N.eqb n 33)%bool.
Definition legacy_is_expr (p : string) : bool :=
  (name_then fn_names is_lpar p || name_then var_names is_cmp_char p || starts_with "field." p
   || contains " and " p || contains " or " p || starts_with "(" p)%bool.

Definition amt_ok (t : txn) (c : acond) : bool :=
  let a := amount t in
  match a_op c with
  | AGt => Z.ltb (a_v c) a | AGe => Z.leb (a_v c) a | ALt => Z.ltb a (a_v c) | ALe => Z.leb a (a_v c)
  | AEq => near a (a_v c)                                       (* abs(amount - value) < 0.01, in doubles *)
  | ARange => (Z.leb (a_v c) a && Z.leb a (a_hi c))%bool
  end.
Definition date_ok (today : Z) (t : txn) (c : dcond) : bool :=
  match c with
  | DEq d => Z.eqb (date t) d
  | DRange lo hi => (Z.leb lo (date t) && Z.leb (date t) hi)%bool
  | DMonth m => Z.eqb (month_of (date t)) m
  | DRel n => Z.leb (today - n) (date t)
  end.

Section Semantics.
  Variable re_search : string -> string -> option bool.    (* re.search(p, text, IGNORECASE); None = re.error *)
  Variable legacy_expr : string -> txn -> option bool.      (* legacy: pattern evaluated as an expression *)
  Variable today : Z.

  (* source: the legacy loop of normalize_merchant (searches the UPPER-CASED description) *)
  Definition legacy_match (r : csv_rule) (t : txn) : option bool :=
    if legacy_is_expr (pat r) then legacy_expr (pat r) t
    else match re_search (pat r) (upper (desc t)) with
         | None => None
         | Some false => Some false
         | Some true => Some (forallb (amt_ok t) (amts r) && forallb (date_ok today t) (dates r))%bool
         end.
  Fixpoint legacy_classify (rules : list csv_rule) (t : txn) : result :=
    match rules with
    | [] => no_result
    | r :: rs =>
      let rest := legacy_classify rs t in
      if is_true (legacy_match r t) then
        {| r_cls := if nonempty (category r) then Some (merchant r, category r, subcategory r) else r_cls rest;
           r_tags := app (static_tags (tags r)) (r_tags rest) |}
      else rest
    end.

  (* target: (c) the mini-evaluator of the emitted fragment, and MerchantEngine.match (first_match) *)
  Definition eval_atom (t : txn) (a : eatom) : option bool :=
    match a with
    | ERegex p => re_search p (desc t)
    | EAmt o v => Some (cmpZ o (amount t) v)
    | EAmtNear v => Some (near (amount t) v)
    | EDate o d => Some (cmpZ o (date t) d)
    | EMonth m => Some (Z.eqb (month_of (date t)) m)
    end.
  Fixpoint eval_and (t : txn) (l : list eatom) : option bool :=
    match l with
    | [] => Some true
    | a :: r => match eval_atom t a with
                | None => None
                | Some false => Some false
                | Some true => eval_and t r
                end
    end.
  Fixpoint engine_classify (rules : list eng_rule) (t : txn) : result :=
    match rules with
    | [] => no_result
    | r :: rs =>
      let rest := engine_classify rs t in
      if is_true (eval_and t (e_match r)) then
        {| r_cls := if nonempty (e_cat r) then Some (e_name r, e_cat r, e_sub r) else r_cls rest;
           r_tags := app (static_tags (e_tags r)) (r_tags rest) |}
      else rest
    end.
End Semantics.

(* what "the migration preserves the classification of t" means *)
Definition res_equiv (a b : result) : Prop :=
  r_cls a = r_cls b /\ (forall x, In x (r_tags a) <-> In x (r_tags b)).

(* ------------------------------------------------------------------ the computable guard of the partial theorem *)
Definition is_plain_tag_char (c : ascii) : bool := negb (is_lpar c || is_rpar c || is_comma c).
Definition safe_tag (t : string) : bool :=
  (trimmed t && nonempty t && negb (sexists (fun c => negb (is_plain_tag_char c)) t) && negb (is_dynamic t))%bool.
(* what is left of the guard after the adopted fixes (each conjunct is one remaining known finding or a
   boundary of the model):
     fields_modelled         no newline / CR / NUL inside a cell, no dynamic {expr} tag        (model boundary)
     nonempty merchant       or the row is a no-op: a blank Merchant cell emits `[]`           (C14/blank-merchant)
     safe_tag                tags without , ( )                                               (C14/comma-in-tag)
     not legacy_is_expr      the legacy loop evaluates such patterns as expressions           (C14/legacy-paren-...)
     no relative date        [date:lastNdays] has no expression equivalent                    (C14/relative-date-modifier) *)
Definition safe_rule (r : csv_rule) : bool :=
  (fields_modelled r
   && (nonempty (strip (merchant r)) || noop_rule r)
   && forallb safe_tag (tags r)
   && negb (legacy_is_expr (pat r))
   && negb (existsb is_rel (dates r)))%bool.

(* ------------------------------------------------------------------ a table-driven regex oracle (for running the model) *)
Fixpoint tbl_lookup (tbl : list (string * string * option bool)) (p d : string) : option (option bool) :=
  match tbl with
  | [] => None
  | (p', d', v) :: r => if (String.eqb p p' && String.eqb d d')%bool then Some v else tbl_lookup r p d
  end.
Definition tbl_search (tbl : list (string * string * option bool)) (p d : string) : option bool :=
  match tbl_lookup tbl p d with Some v => v | None => None end.

(* ------------------------------------------------------------------ MerchantEngine.parse, one line at a time *)
(* what the reader makes of ONE line of a rules file (inside a rule block or before the first header) *)
Inductive line_kind :=
  | KBlank | KComment
  | KHeader (name : string) | KEmptyHeader
  | KProp (key value : string)          (* key lower-cased and stripped, value stripped, nothing else removed *)
  | KTopLevel                           (* before the first header: a variable / transform assignment or ignored text *)
  | KGarbage.                           (* inside a rule and without a colon: "Unexpected content in rule" *)
Definition is_colon (c : ascii) : bool := N.eqb (code c) 58.
Definition is_lbr (c : ascii) : bool := N.eqb (code c) 91.
Definition is_rbr (c : ascii) : bool := N.eqb (code c) 93.
Definition is_hash (c : ascii) : bool := N.eqb (code c) 35.
Fixpoint split_colon (s : string) : option (string * string) :=      (* str.split(':', 1) *)
  match s with
  | EmptyString => None
  | String c r => if is_colon c then Some (EmptyString, r)
                  else match split_colon r with Some (k, v) => Some (String c k, v) | None => None end
  end.
Fixpoint drop_last (s : string) : string :=
  match s with
  | EmptyString => EmptyString
  | String c EmptyString => EmptyString
  | String c r => String c (drop_last r)
  end.
Definition classify_line (in_rule : bool) (line : string) : line_kind :=
  let s := strip line in
  match s with
  | EmptyString => KBlank
  | String c0 r0 =>
    if is_hash c0 then KComment
    else if (is_lbr c0 && match last_char s with Some c => is_rbr c | None => false end)%bool then
      let name := strip (drop_last r0) in                      (* stripped[1:-1].strip() *)
      if nonempty name then KHeader name else KEmptyHeader
    else if negb in_rule then KTopLevel
    else match split_colon s with
         | Some (k, v) => KProp (lower (strip k)) (strip v)
         | None => KGarbage
         end
  end.
Definition key_ok (k : string) : bool :=
  (nonempty k && negb (sexists (fun c => (is_ws c || is_colon c)%bool) k)
   && match k with String c _ => negb (is_hash c || is_lbr c) | EmptyString => false end
   && String.eqb (lower k) k)%bool.
