(* C14/Proofs.v — lemmas about the migration model: string helpers, exact characterisation of the
   patterns that survive Python string-literal quoting, reading the generated tags line back,
   per-rule equivalence of the two matchers under the guard, and the induction over the rule list. *)
From Coq Require Import String Ascii List Bool ZArith NArith Lia Arith.
From Tally Require Import Lib.Str C14.Model.
Import ListNotations.
Open Scope string_scope.

(* ------------------------------------------------------------------ strings *)
Lemma sapp_assoc (a b c : string) : (a ++ b) ++ c = a ++ (b ++ c).
Proof. induction a as [|x a IH]; simpl; [reflexivity|now rewrite IH]. Qed.
Lemma sapp_nil_r (a : string) : a ++ "" = a.
Proof. induction a as [|x a IH]; simpl; [reflexivity|now rewrite IH]. Qed.
Lemma sapp_length (a b : string) : String.length (a ++ b) = String.length a + String.length b.
Proof. induction a as [|x a IH]; simpl; [reflexivity|now rewrite IH]. Qed.

Lemma lstrip_length s : String.length (lstrip s) <= String.length s.
Proof. induction s as [|c r IH]; simpl; [lia|]. destruct (is_ws c); simpl; lia. Qed.

Lemma lstrip_fix s : lstrip s = s -> s = "" \/ exists c r, s = String c r /\ is_ws c = false.
Proof.
  destruct s as [|c r]; [now left|]. simpl. destruct (is_ws c) eqn:E.
  - intros H. pose proof (lstrip_length r) as L. rewrite H in L. simpl in L. lia.
  - intros _. right. now exists c, r.
Qed.

Lemma rstrip_app_nonblank a b : rstrip b <> "" -> rstrip (a ++ b) = a ++ rstrip b.
Proof.
  intros Hb. induction a as [|c a IH]; simpl; [reflexivity|].
  rewrite IH. destruct (a ++ rstrip b) eqn:E; [|reflexivity].
  destruct a; simpl in E; [contradiction|discriminate].
Qed.

Lemma trimmed_parts s : trimmed s = true -> lstrip s = s /\ rstrip s = s.
Proof. unfold trimmed. rewrite andb_true_iff, !String.eqb_eq. tauto. Qed.
Lemma trimmed_strip s : trimmed s = true -> strip s = s.
Proof. intros H. destruct (trimmed_parts s H) as [A B]. unfold strip. now rewrite A. Qed.

Lemma nonempty_true s : nonempty s = true -> s <> "".
Proof. destruct s; [discriminate|discriminate]. Qed.
Lemma nonempty_iff s : nonempty s = true <-> s <> "".
Proof. destruct s; simpl; split; try discriminate; try congruence; auto. Qed.

Lemma lstrip_app_first a b : lstrip a = a -> a <> "" -> lstrip (a ++ b) = a ++ b.
Proof.
  intros H Hn. destruct (lstrip_fix a H) as [->|[c [r [-> E]]]]; [contradiction|].
  simpl. now rewrite E.
Qed.

(* ------------------------------------------------------------------ un-escaping: which literals read back as themselves *)
Lemma utf8_length n : (String.length (utf8 n) <= 2)%nat.
Proof. unfold utf8. destruct (N.ltb n 128); simpl; lia. Qed.
Lemma utf8_length_small n : (n < 128)%N -> String.length (utf8 n) = 1%nat.
Proof. intros H. unfold utf8. apply N.ltb_lt in H. now rewrite H. Qed.

Lemma octv_le c : is_oct c = true -> (octv c <= 7)%N.
Proof. unfold is_oct, octv. rewrite andb_true_iff, !N.leb_le. lia. Qed.

Lemma ucons_val out o t : ucons out o = UVal t -> exists t', o = UVal t' /\ t = out ++ t'.
Proof. destruct o; simpl; try discriminate. intros [= <-]. now eexists. Qed.

Lemma escape_not_free e : is_escape_char e = false ->
  simple_escape e = None /\ is_oct e = false /\ is_x e = false /\ is_unmodelled_escape e = false.
Proof.
  unfold is_escape_char. rewrite !orb_false_iff. intros [[[A B] C] D].
  destruct (simple_escape e); [discriminate|]. tauto.
Qed.

Lemma unesc_unfold_plain c r : is_bs c = false -> unesc (String c r) = ucons (String c "") (unesc r).
Proof. intros H. simpl. now rewrite H. Qed.
Lemma unesc_unfold_free c e r1 : is_bs c = true -> is_escape_char e = false ->
  unesc (String c (String e r1)) = ucons (String c (String e "")) (unesc r1).
Proof.
  intros Hc He. destruct (escape_not_free e He) as [A [B [C D]]].
  simpl. now rewrite Hc, A, B, C, D.
Qed.

(* length of the value never exceeds the length of the source *)
Lemma unesc_length_aux n : forall s t, (String.length s <= n)%nat -> unesc s = UVal t -> (String.length t <= String.length s)%nat.
Proof.
  induction n as [|n IH]; intros s t Hn H.
  - destruct s; simpl in Hn; [|lia]. simpl in H. injection H as <-. simpl. lia.
  - destruct s as [|c r]; [simpl in H; injection H as <-; simpl; lia|].
    simpl in H. destruct (is_bs c) eqn:Hc; simpl in H.
    + destruct r as [|e r1]; [discriminate|].
      destruct (simple_escape e) eqn:Hs.
      * apply ucons_val in H. destruct H as [t' [H ->]]. apply IH in H; simpl in *; lia.
      * destruct (is_oct e) eqn:Ho.
        { destruct r1 as [|d2 r2].
          - apply ucons_val in H. destruct H as [t' [H ->]]. apply IH in H; [|simpl in *; lia].
            rewrite sapp_length. pose proof (utf8_length (octv e)). simpl in *. lia.
          - destruct (is_oct d2) eqn:Ho2.
            + destruct r2 as [|d3 r3].
              * apply ucons_val in H. destruct H as [t' [H ->]]. apply IH in H; [|simpl in *; lia].
                rewrite sapp_length. pose proof (utf8_length (octv e * 8 + octv d2)). simpl in *. lia.
              * destruct (is_oct d3) eqn:Ho3.
                -- apply ucons_val in H. destruct H as [t' [H ->]]. apply IH in H; [|simpl in *; lia].
                   rewrite sapp_length. pose proof (utf8_length (octv e * 64 + octv d2 * 8 + octv d3)). simpl in *. lia.
                -- apply ucons_val in H. destruct H as [t' [H ->]]. apply IH in H; [|simpl in *; lia].
                   rewrite sapp_length. pose proof (utf8_length (octv e * 8 + octv d2)). simpl in *. lia.
            + apply ucons_val in H. destruct H as [t' [H ->]]. apply IH in H; [|simpl in *; lia].
              rewrite sapp_length. pose proof (utf8_length (octv e)). simpl in *. lia. }
        destruct (is_x e) eqn:Hx.
        { destruct r1 as [|h1 [|h2 r3]]; try discriminate.
          destruct (hexval h1), (hexval h2); try discriminate.
          apply ucons_val in H. destruct H as [t' [H ->]]. apply IH in H; [|simpl in *; lia].
          rewrite sapp_length. pose proof (utf8_length (n0 * 16 + n1)). simpl in *. lia. }
        destruct (is_unmodelled_escape e); [discriminate|].
        apply ucons_val in H. destruct H as [t' [H ->]]. apply IH in H; simpl in *; lia.
    + apply ucons_val in H. destruct H as [t' [H ->]]. apply IH in H; simpl in *; lia.
Qed.
Lemma unesc_length s t : unesc s = UVal t -> (String.length t <= String.length s)%nat.
Proof. apply (unesc_length_aux (String.length s)). lia. Qed.

Lemma esc_free_unesc_aux n : forall s, (String.length s <= n)%nat -> esc_free s = true -> unesc s = UVal s.
Proof.
  induction n as [|n IH]; intros s Hn H.
  - destruct s; [reflexivity|simpl in Hn; lia].
  - destruct s as [|c r]; [reflexivity|].
    simpl in H. destruct (is_bs c) eqn:Hc; simpl in H.
    + destruct r as [|e r1]; [discriminate|]. apply andb_true_iff in H. destruct H as [He Hr].
      apply negb_true_iff in He. rewrite (unesc_unfold_free c e r1 Hc He).
      rewrite (IH r1); [reflexivity| simpl in Hn; lia | exact Hr].
    + rewrite (unesc_unfold_plain c r Hc). rewrite (IH r); [reflexivity|simpl in Hn; lia|exact H].
Qed.

Lemma unesc_id_esc_free_aux n : forall s, (String.length s <= n)%nat -> unesc s = UVal s -> esc_free s = true.
Proof.
  induction n as [|n IH]; intros s Hn H.
  - destruct s; [reflexivity|simpl in Hn; lia].
  - destruct s as [|c r]; [reflexivity|].
    destruct (is_bs c) eqn:Hc.
    + destruct r as [|e r1]; [simpl in H; rewrite Hc in H; discriminate|].
      destruct (is_escape_char e) eqn:He.
      * (* a recognised escape: the value is strictly shorter than the source, so it cannot be the source *)
        exfalso. simpl in H. rewrite Hc in H. simpl in H.
        unfold is_escape_char in He.
        destruct (simple_escape e) eqn:Hs.
        { apply ucons_val in H. destruct H as [t' [H E]]. apply unesc_length in H.
          apply (f_equal String.length) in E. simpl in E. lia. }
        simpl in He. destruct (is_oct e) eqn:Ho.
        { pose proof (octv_le e Ho) as Le.
          destruct r1 as [|d2 r2].
          - apply ucons_val in H. destruct H as [t' [H E]]. apply unesc_length in H.
            apply (f_equal String.length) in E. rewrite sapp_length, utf8_length_small in E by lia. simpl in *. lia.
          - destruct (is_oct d2) eqn:Ho2.
            + pose proof (octv_le d2 Ho2) as Le2. destruct r2 as [|d3 r3].
              * apply ucons_val in H. destruct H as [t' [H E]]. apply unesc_length in H.
                apply (f_equal String.length) in E. rewrite sapp_length, utf8_length_small in E by lia. simpl in *. lia.
              * destruct (is_oct d3) eqn:Ho3.
                -- apply ucons_val in H. destruct H as [t' [H E]]. apply unesc_length in H.
                   apply (f_equal String.length) in E. rewrite sapp_length in E.
                   pose proof (utf8_length (octv e * 64 + octv d2 * 8 + octv d3)). simpl in *. lia.
                -- apply ucons_val in H. destruct H as [t' [H E]]. apply unesc_length in H.
                   apply (f_equal String.length) in E. rewrite sapp_length, utf8_length_small in E by lia. simpl in *. lia.
            + apply ucons_val in H. destruct H as [t' [H E]]. apply unesc_length in H.
              apply (f_equal String.length) in E. rewrite sapp_length, utf8_length_small in E by lia. simpl in *. lia. }
        simpl in He. destruct (is_x e) eqn:Hx.
        { destruct r1 as [|h1 [|h2 r3]]; try discriminate.
          destruct (hexval h1), (hexval h2); try discriminate.
          apply ucons_val in H. destruct H as [t' [H E]]. apply unesc_length in H.
          apply (f_equal String.length) in E. rewrite sapp_length in E.
          pose proof (utf8_length (n0 * 16 + n1)). simpl in *. lia. }
        simpl in He. rewrite He in H. discriminate.
      * rewrite (unesc_unfold_free c e r1 Hc He) in H.
        apply ucons_val in H. destruct H as [t' [H E]]. simpl in E. injection E as E. subst t'.
        simpl. rewrite Hc. simpl. rewrite He. simpl. apply IH; [simpl in Hn; lia|exact H].
    + rewrite (unesc_unfold_plain c r Hc) in H.
      apply ucons_val in H. destruct H as [t' [H E]]. simpl in E. injection E as E. subst t'.
      simpl. rewrite Hc. simpl. apply IH; [simpl in Hn; lia|exact H].
Qed.

Theorem unesc_id_iff s : unesc s = UVal s <-> esc_free s = true.
Proof.
  split.
  - apply (unesc_id_esc_free_aux (String.length s)). lia.
  - apply (esc_free_unesc_aux (String.length s)). lia.
Qed.

(* declarative reading of esc_free: no backslash is followed by an escape character (or by nothing) *)
Definition bslash : string := String (chr 92) "".
Lemma is_bs_chr c : is_bs c = true -> c = chr 92.
Proof.
  unfold is_bs, code. intros H. apply N.eqb_eq in H.
  rewrite <- (ascii_N_embedding c). now rewrite H.
Qed.
Lemma bs_is_escape : is_escape_char (chr 92) = true.
Proof. reflexivity. Qed.

Lemma esc_free_spec_aux n : forall s, (String.length s <= n)%nat ->
  (esc_free s = true <->
   forall pre post, s = pre ++ bslash ++ post -> exists c post', post = String c post' /\ is_escape_char c = false).
Proof.
  induction n as [|n IH]; intros s Hn.
  - destruct s; [|simpl in Hn; lia]. split; [|reflexivity].
    intros _ pre post E. destruct pre; discriminate.
  - destruct s as [|c r].
    { split; [|reflexivity]. intros _ pre post E. destruct pre; discriminate. }
    simpl. destruct (is_bs c) eqn:Hc; simpl.
    + pose proof (is_bs_chr c Hc) as ->.
      destruct r as [|e r1].
      * split; [discriminate|]. intros H. destruct (H "" "" eq_refl) as [c [p' [E _]]]. discriminate.
      * rewrite andb_true_iff, negb_true_iff. rewrite (IH r1) by (simpl in Hn; lia). split.
        -- intros [He Hr] pre post E. destruct pre as [|p0 pre].
           ++ simpl in E. injection E as E. subst post. now exists e, r1.
           ++ simpl in E. injection E as _ E. destruct pre as [|p1 pre].
              ** simpl in E. injection E as E _. subst e. vm_compute in He. discriminate.
              ** simpl in E. injection E as _ E. apply (Hr pre post E).
        -- intros H. split.
           ++ destruct (H "" (String e r1) eq_refl) as [c [p' [E Hc']]]. injection E as -> _. exact Hc'.
           ++ intros pre post E. apply (H (String (chr 92) (String e pre)) post). simpl. now rewrite E.
    + rewrite (IH r) by (simpl in Hn; lia). split.
      * intros Hr pre post E. destruct pre as [|p0 pre].
        -- simpl in E. injection E as E _. subst c. discriminate.
        -- simpl in E. injection E as _ E. apply (Hr pre post E).
      * intros H pre post E. apply (H (String c pre) post). simpl. now rewrite E.
Qed.
Theorem esc_free_spec s :
  esc_free s = true <->
  forall pre post, s = pre ++ bslash ++ post -> exists c post', post = String c post' /\ is_escape_char c = false.
Proof. apply (esc_free_spec_aux (String.length s)). lia. Qed.

(* ------------------------------------------------------------------ reading the generated tags line back *)
Definition tag_ok (t : string) : Prop :=
  lstrip t = t /\ rstrip t = t /\ t <> "" /\ sexists (fun c => negb (is_plain_tag_char c)) t = false.

Lemma safe_tag_ok t : safe_tag t = true -> tag_ok t.
Proof.
  unfold safe_tag, tag_ok. rewrite !andb_true_iff, !negb_true_iff. intros [[[A B] C] _].
  destruct (trimmed_parts t A) as [L R]. repeat split; auto. now apply nonempty_true.
Qed.

Lemma split_plain t : sexists (fun c => negb (is_plain_tag_char c)) t = false ->
  forall rest cur, split_go (t ++ rest) 0 cur = split_go rest 0 (cur ++ t).
Proof.
  induction t as [|c t IH]; intros H rest cur; simpl.
  - now rewrite sapp_nil_r.
  - simpl in H. apply orb_false_iff in H. destruct H as [Hc Ht].
    unfold is_plain_tag_char in Hc. rewrite negb_involutive in Hc.
    rewrite !orb_false_iff in Hc. destruct Hc as [[A B] C].
    rewrite A, B, C. simpl. rewrite (IH Ht). now rewrite sapp_assoc.
Qed.

Lemma join_cons_nonempty sep x l : x <> "" -> join sep (x :: l) <> "".
Proof. destruct x; [congruence|]. destruct l; simpl; discriminate. Qed.

Lemma join_rstrip l : Forall tag_ok l -> l <> [] -> rstrip (join ", " l) = join ", " l.
Proof.
  induction l as [|x l IH]; intros F Hn; [contradiction|].
  inversion F as [|? ? Hx Fl]; subst. destruct Hx as [_ [Rx [Nx _]]].
  destruct l as [|y l]; [exact Rx|].
  change (join ", " (x :: y :: l)) with (x ++ ", " ++ join ", " (y :: l)).
  assert (Hj : join ", " (y :: l) <> "").
  { inversion Fl as [|? ? Hy _]; subst. destruct Hy as [_ [_ [Ny _]]]. now apply join_cons_nonempty. }
  assert (IH' := IH Fl ltac:(discriminate)).
  rewrite rstrip_app_nonblank.
  - f_equal. change (", " ++ join ", " (y :: l)) with (String (chr 44) (String (chr 32) (join ", " (y :: l)))).
    change (String (chr 44) (String (chr 32) (join ", " (y :: l)))) with ((String (chr 44) (String (chr 32) "")) ++ join ", " (y :: l)).
    rewrite rstrip_app_nonblank; [now rewrite IH'|now rewrite IH'].
  - change (", " ++ join ", " (y :: l)) with ((String (chr 44) (String (chr 32) "")) ++ join ", " (y :: l)).
    rewrite rstrip_app_nonblank; [|now rewrite IH']. rewrite IH'. simpl. discriminate.
Qed.

Lemma join_lstrip l : Forall tag_ok l -> l <> [] -> lstrip (join ", " l) = join ", " l.
Proof.
  intros F Hn. destruct l as [|x l]; [contradiction|].
  inversion F as [|? ? Hx Fl]; subst. destruct Hx as [Lx [_ [Nx _]]].
  destruct l as [|y l]; [exact Lx|].
  change (join ", " (x :: y :: l)) with (x ++ ", " ++ join ", " (y :: l)).
  now apply lstrip_app_first.
Qed.

Lemma flush_tag cur x : tag_ok x -> (cur = "" \/ cur = " ") -> flush (cur ++ x) = [x].
Proof.
  intros [L [R [N _]]] Hc. unfold flush.
  assert (E : strip (cur ++ x) = x).
  { destruct Hc as [->| ->]; unfold strip; simpl.
    - now rewrite L.
    - change (is_ws " ") with true. cbn iota. now rewrite L. }
  rewrite E. destruct x; [contradiction|reflexivity].
Qed.

Lemma split_join l : Forall tag_ok l -> l <> [] ->
  forall cur, (cur = "" \/ cur = " ") -> split_go (join ", " l) 0 cur = l.
Proof.
  induction l as [|x l IH]; intros F Hn cur Hc; [contradiction|].
  inversion F as [|? ? Hx Fl]; subst.
  destruct l as [|y l].
  - simpl. rewrite <- (sapp_nil_r x) at 1. destruct Hx as [? [? [? P]]].
    rewrite (split_plain x P). simpl. apply flush_tag; [repeat split; auto|exact Hc].
  - change (join ", " (x :: y :: l)) with (x ++ ", " ++ join ", " (y :: l)).
    pose proof Hx as [_ [_ [_ P]]]. rewrite (split_plain x P).
    change (", " ++ join ", " (y :: l)) with (String (chr 44) (String (chr 32) (join ", " (y :: l)))).
    cbn [split_go]. change (is_lpar (chr 44)) with false. change (is_rpar (chr 44)) with false.
    change (is_comma (chr 44)) with true. cbn [andb Z.eqb].
    rewrite (flush_tag cur x Hx Hc).
    change (is_lpar (chr 32)) with false. change (is_rpar (chr 32)) with false. change (is_comma (chr 32)) with false.
    cbn [andb]. simpl app. f_equal. apply IH; [exact Fl|discriminate|now right].
Qed.

Lemma tags_roundtrip l : forallb safe_tag l = true -> l <> [] -> split_tags (strip (join ", " l)) = l.
Proof.
  intros H Hn.
  assert (F : Forall tag_ok l).
  { apply Forall_forall. intros x Hx. apply safe_tag_ok. rewrite forallb_forall in H. now apply H. }
  unfold strip. rewrite (join_lstrip l F Hn), (join_rstrip l F Hn).
  unfold split_tags. apply split_join; auto.
Qed.

(* ------------------------------------------------------------------ the escaped literal reads back as the pattern *)
Lemma is_dq_chr c : is_dq c = true -> c = chr 34.
Proof.
  unfold is_dq, code. intros H. apply N.eqb_eq in H.
  rewrite <- (ascii_N_embedding c). now rewrite H.
Qed.
Lemma unesc_bs_bs q : unesc (String (chr 92) (String (chr 92) q)) = ucons (String (chr 92) "") (unesc q).
Proof. reflexivity. Qed.
Lemma unesc_bs_dq q : unesc (String (chr 92) (String (chr 34) q)) = ucons (String (chr 34) "") (unesc q).
Proof. reflexivity. Qed.

Theorem unesc_quote p : unesc (quote_body p) = UVal p.
Proof.
  induction p as [|a p IH]; [reflexivity|].
  cbn [quote_body]. destruct (is_bs a) eqn:Hb.
  - cbn [orb]. rewrite (is_bs_chr a Hb). rewrite unesc_bs_bs, IH. reflexivity.
  - destruct (is_dq a) eqn:Hd; cbn [orb].
    + rewrite (is_dq_chr a Hd). rewrite unesc_bs_dq, IH. reflexivity.
    + rewrite (unesc_unfold_plain a _ Hb), IH. reflexivity.
Qed.

Lemma lex_body_quote p : lex_body (quote_body p) = true.
Proof.
  induction p as [|a p IH]; [reflexivity|].
  cbn [quote_body]. destruct (is_bs a) eqn:Hb.
  - cbn [orb]. exact IH.
  - destruct (is_dq a) eqn:Hd; cbn [orb].
    + exact IH.
    + cbn [lex_body]. rewrite Hb, Hd. exact IH.
Qed.
Lemma ctl_quote p : sexists is_ctl (quote_body p) = sexists is_ctl p.
Proof.
  induction p as [|a p IH]; [reflexivity|].
  cbn [quote_body]. destruct (is_bs a || is_dq a)%bool; cbn [sexists]; rewrite IH; reflexivity.
Qed.
Theorem quote_reads_back p : sexists is_ctl p = false ->
  lex_ok (quote_body p) = true /\ unesc (quote_body p) = UVal p.
Proof.
  intros H. split; [|apply unesc_quote]. unfold lex_ok. now rewrite ctl_quote, H, lex_body_quote.
Qed.

(* ------------------------------------------------------------------ the loader strips the cells *)
Lemma lstrip_idem s : lstrip (lstrip s) = lstrip s.
Proof. induction s as [|c r IH]; [reflexivity|]. simpl. destruct (is_ws c) eqn:E; [exact IH|]. simpl. now rewrite E. Qed.
Lemma rstrip_idem s : rstrip (rstrip s) = rstrip s.
Proof.
  induction s as [|c r IH]; [reflexivity|]. simpl.
  destruct (rstrip r) as [|c' r'] eqn:E.
  - destruct (is_ws c) eqn:W; [reflexivity|]. simpl. now rewrite W.
  - cbn [rstrip] in *. rewrite IH. reflexivity.
Qed.
Lemma lstrip_rstrip x : lstrip x = x -> lstrip (rstrip x) = rstrip x.
Proof.
  intros H. destruct (lstrip_fix x H) as [->|[c [r [-> W]]]]; [reflexivity|].
  cbn [rstrip]. destruct (rstrip r); rewrite ?W; cbn [lstrip]; rewrite W; reflexivity.
Qed.
Lemma strip_trimmed s : trimmed (strip s) = true.
Proof.
  unfold trimmed, strip. rewrite andb_true_iff, !String.eqb_eq. split.
  - apply lstrip_rstrip, lstrip_idem.
  - apply rstrip_idem.
Qed.
Lemma loader_cells_stripped r : cells_stripped (loader_cells r) = true.
Proof. unfold cells_stripped, loader_cells. simpl. now rewrite !strip_trimmed. Qed.

(* ------------------------------------------------------------------ the two matchers agree on a safe rule *)
Definition re_case_law (re : string -> string -> option bool) : Prop := forall p d, re p (upper d) = re p d.
Definition re_empty_law (re : string -> string -> option bool) : Prop := forall d, re "" d = Some true.

Lemma eval_and_app re t l1 l2 b :
  eval_and re t l1 = Some b -> eval_and re t (l1 ++ l2)%list = if b then eval_and re t l2 else Some false.
Proof.
  revert b. induction l1 as [|a l1 IH]; intros b H; simpl in *.
  - injection H as <-. reflexivity.
  - destruct (eval_atom re t a) as [[|]|]; try discriminate.
    + now apply IH.
    + injection H as <-. reflexivity.
Qed.

Lemma amts_eval re t l :
  eval_and re t (flat_map acond_atoms l) = Some (forallb (amt_ok t) l).
Proof.
  induction l as [|c l IH]; [reflexivity|].
  simpl flat_map. simpl forallb.
  unfold acond_atoms, amt_ok in *. destruct (a_op c) eqn:Eo; simpl.
  - destruct (Z.ltb (a_v c) (amount t)); [exact IH|reflexivity].
  - destruct (Z.leb (a_v c) (amount t)); [exact IH|reflexivity].
  - destruct (Z.ltb (amount t) (a_v c)); [exact IH|reflexivity].
  - destruct (Z.leb (amount t) (a_v c)); [exact IH|reflexivity].
  - destruct (near (amount t) (a_v c)); [exact IH|reflexivity].
  - destruct (Z.leb (a_v c) (amount t)); simpl; [|reflexivity].
    destruct (Z.leb (amount t) (a_hi c)); [exact IH|reflexivity].
Qed.

Lemma dates_eval re today t l :
  existsb is_rel l = false ->
  eval_and re t (flat_map dcond_atoms l) = Some (forallb (date_ok today t) l).
Proof.
  induction l as [|c l IH]; intros H; [reflexivity|].
  simpl in H. apply orb_false_iff in H. destruct H as [Hc Hl]. specialize (IH Hl).
  simpl flat_map. simpl forallb. destruct c; simpl in *; try discriminate.
  - destruct (Z.eqb (date t) d); [exact IH|reflexivity].
  - destruct (Z.leb lo (date t)); simpl; [|reflexivity].
    destruct (Z.leb (date t) hi); [exact IH|reflexivity].
  - destruct (Z.eqb (month_of (date t)) m); [exact IH|reflexivity].
Qed.

Lemma mods_eval re today t r :
  existsb is_rel (dates r) = false ->
  eval_and re t (flat_map acond_atoms (amts r) ++ flat_map dcond_atoms (dates r))%list
  = Some (forallb (amt_ok t) (amts r) && forallb (date_ok today t) (dates r))%bool.
Proof.
  intros Hd. rewrite (eval_and_app re t _ _ _ (amts_eval re t _)).
  destruct (forallb (amt_ok t) (amts r)); [|reflexivity].
  now rewrite (dates_eval re today t _ Hd).
Qed.

(* without relative dates the converter keeps the modifier text exactly when there are modifiers *)
Lemma acond_text_head c : exists s, acond_text c = String "a" s.
Proof. unfold acond_text. destruct (a_op c); simpl; eexists; reflexivity. Qed.
Lemma dcond_text_head c : is_rel c = false -> exists h s, dcond_text c = String h s /\ h <> "#"%char.
Proof. destruct c; simpl; try discriminate; intros _; do 2 eexists; (split; [reflexivity|discriminate]). Qed.
Lemma join_head sep h s l : exists s', join sep (String h s :: l) = String h s'.
Proof. destruct l; simpl; eexists; reflexivity. Qed.

Lemma starts_hash h s : starts_with "#" (String h s) = Ascii.eqb "#"%char h.
Proof. unfold starts_with. cbn [drop_prefix]. destruct (Ascii.eqb "#"%char h); reflexivity. Qed.

Lemma kept_mods r :
  existsb is_rel (dates r) = false ->
  (if modifier_kept r then (flat_map acond_atoms (amts r) ++ flat_map dcond_atoms (dates r))%list else [])
  = (flat_map acond_atoms (amts r) ++ flat_map dcond_atoms (dates r))%list.
Proof.
  intros H. unfold modifier_kept, modifier_text.
  destruct (amts r) as [|a l].
  - destruct (dates r) as [|d l']; [reflexivity|].
    simpl in H. apply orb_false_iff in H. destruct H as [Hd _].
    destruct (dcond_text_head d Hd) as [h [s [E Hh]]].
    simpl map. simpl app. rewrite E. destruct (join_head " and " h s (map dcond_text l')) as [s' ->].
    cbn [nonempty andb]. rewrite starts_hash. destruct (Ascii.eqb_spec "#"%char h); [congruence|reflexivity].
  - destruct (acond_text_head a) as [s E]. simpl map. rewrite E.
    destruct (join_head " and " "a"%char s (map acond_text l ++ map dcond_text (dates r))%list) as [s' E'].
    simpl app. rewrite E'. cbn [nonempty andb]. rewrite starts_hash. reflexivity.
Qed.

Record rule_rel (re : string -> string -> option bool) (lx : string -> txn -> option bool) (today : Z)
       (r : csv_rule) (e : eng_rule) : Prop := {
  rr_name : e_name e = merchant r;
  rr_cat : e_cat e = category r;
  rr_sub : e_sub e = subcategory r;
  rr_tags : e_tags e = tags r;
  rr_match : forall t, is_true (eval_and re t (e_match e)) = is_true (legacy_match re lx today r t) }.

(* a loaded, guarded row that has a category or tags becomes one engine rule deciding exactly like the CSV rule *)
Lemma safe_rule_loads re lx today r :
  re_case_law re -> re_empty_law re -> cells_stripped r = true -> safe_rule r = true -> noop_rule r = false ->
  exists e, load_rule r = LOk (Some e) /\ rule_rel re lx today r e.
Proof.
  intros Lc Le Hcells H Hnoop. unfold safe_rule in H. rewrite !andb_true_iff, !negb_true_iff in H.
  destruct H as [[[[Hf Hmn] Htg] Hexp] Hrel].
  unfold cells_stripped in Hcells. rewrite !andb_true_iff in Hcells. destruct Hcells as [[Hm Hc] Hs].
  rewrite Hnoop, orb_false_r in Hmn.
  assert (Hctl : sexists is_ctl (pat r) = false).
  { unfold fields_modelled in Hf. rewrite negb_true_iff, !orb_false_iff in Hf. tauto. }
  destruct (quote_reads_back (pat r) Hctl) as [Hlex Hun].
  assert (Hmatch : load_match r = LOk ((if nonempty (pat r) then [ERegex (pat r)] else [])
                                       ++ (flat_map acond_atoms (amts r) ++ flat_map dcond_atoms (dates r)))%list).
  { unfold load_match. rewrite Hrel, andb_false_r, (kept_mods r Hrel).
    destruct (nonempty (pat r)); [|reflexivity]. now rewrite Hlex, Hun. }
  assert (Htags : match tags r with [] => [] | l => split_tags (strip (join ", " l)) end = tags r).
  { destruct (tags r) as [|x l] eqn:E; [reflexivity|]. apply tags_roundtrip; [exact Htg|discriminate]. }
  assert (Hdyn : existsb is_dynamic (tags r) = false).
  { unfold fields_modelled in Hf. rewrite negb_true_iff, !orb_false_iff in Hf. tauto. }
  unfold load_rule. rewrite Hf, Hnoop. simpl negb. cbv iota.
  rewrite Hmn. simpl negb. cbv iota. rewrite Hmatch.
  rewrite Htags, Hdyn. unfold noop_rule in Hnoop. rewrite Hnoop.
  rewrite (trimmed_strip _ Hm), (trimmed_strip _ Hc), (trimmed_strip _ Hs).
  eexists. split; [reflexivity|].
  constructor; simpl; try reflexivity.
  intros t. unfold legacy_match. rewrite Hexp.
  destruct (nonempty (pat r)) eqn:Hp.
  - simpl. rewrite (Lc (pat r) (desc t)).
    destruct (re (pat r) (desc t)) as [[|]|]; try reflexivity.
    now rewrite (mods_eval re today t r Hrel).
  - destruct (pat r); [|discriminate]. simpl. rewrite (Le (upper (desc t))).
    now rewrite (mods_eval re today t r Hrel).
Qed.

(* a loaded row without category and tags is written as a comment and never had any effect *)
Lemma noop_rule_skipped r :
  cells_stripped r = true -> safe_rule r = true -> noop_rule r = true ->
  load_rule r = LOk None /\ category r = "" /\ tags r = [].
Proof.
  intros Hcells H Hnoop. unfold safe_rule in H. rewrite !andb_true_iff in H.
  destruct H as [[[[Hf _] _] _] _].
  unfold cells_stripped in Hcells. rewrite !andb_true_iff in Hcells. destruct Hcells as [[_ Hc] _].
  split; [unfold load_rule; now rewrite Hf, Hnoop|].
  unfold noop_rule in Hnoop. apply andb_true_iff in Hnoop. destruct Hnoop as [A B].
  rewrite (trimmed_strip _ Hc) in A. split.
  - destruct (category r); [reflexivity|discriminate].
  - destruct (tags r); [reflexivity|discriminate].
Qed.

(* ------------------------------------------------------------------ induction over the rule list *)
Definition preserves_at re lx today rules t : Prop :=
  exists ers, load_all rules = LOk ers /\
              res_equiv (engine_classify re ers t) (legacy_classify re lx today rules t).

Lemma safe_rules_classify re lx today rules :
  re_case_law re -> re_empty_law re ->
  forallb cells_stripped rules = true -> forallb safe_rule rules = true ->
  exists ers, load_all rules = LOk ers /\
              forall t, engine_classify re ers t = legacy_classify re lx today rules t.
Proof.
  intros Lc Le. induction rules as [|r rs IH]; intros Hc H.
  - exists []. split; reflexivity.
  - simpl in H, Hc. apply andb_true_iff in H. destruct H as [Hr Hrs].
    apply andb_true_iff in Hc. destruct Hc as [Hcr Hcrs].
    destruct (IH Hcrs Hrs) as [es [Hes Heq]].
    destruct (noop_rule r) eqn:Hn.
    + destruct (noop_rule_skipped r Hcr Hr Hn) as [Hl [Hcat Htags]].
      exists es. split; [simpl; now rewrite Hl, Hes|].
      intros t. simpl. rewrite Hcat, Htags, <- Heq. simpl.
      destruct (is_true (legacy_match re lx today r t)); [|reflexivity].
      destruct (engine_classify re es t); reflexivity.
    + destruct (safe_rule_loads re lx today r Lc Le Hcr Hr Hn) as [e [He [A B C D M]]].
      exists (e :: es). split; [simpl; now rewrite He, Hes|].
      intros t. simpl. rewrite (M t), (Heq t), A, B, C, D. reflexivity.
Qed.

(* for rule lists as the (fixed) loader produces them: cells stripped *)
Theorem conversion_preserves_loaded :
  forall re lx, re_case_law re -> re_empty_law re ->
  forall today rules, forallb cells_stripped rules = true -> forallb safe_rule rules = true ->
  forall t, preserves_at re lx today rules t.
Proof.
  intros re lx Lc Le today rules Hc Hs t.
  destruct (safe_rules_classify re lx today rules Lc Le Hc Hs) as [ers [Hl Heq]].
  exists ers. split; [exact Hl|]. rewrite (Heq t). split; [reflexivity|tauto].
Qed.

(* ... i.e. for every list of raw CSV rows pushed through the loader's cell stripping *)
Theorem conversion_preserves_partial :
  forall re lx, re_case_law re -> re_empty_law re ->
  forall today raw, forallb safe_rule (map loader_cells raw) = true ->
  forall t, preserves_at re lx today (map loader_cells raw) t.
Proof.
  intros re lx Lc Le today raw Hs t. apply conversion_preserves_loaded; auto.
  apply forallb_forall. intros x Hx. apply in_map_iff in Hx. destruct Hx as [r [<- _]]. apply loader_cells_stripped.
Qed.

(* ------------------------------------------------------------------ the full statement and the witness oracle *)
Definition conversion_preserves_statement : Prop :=
  forall re lx, re_case_law re -> re_empty_law re ->
  forall today raw t, load_all (map loader_cells raw) <> LUnm -> preserves_at re lx today (map loader_cells raw) t.

Lemma upper_char_idem c : upper_char (upper_char c) = upper_char c.
Proof. destruct c as [[] [] [] [] [] [] [] []]; reflexivity. Qed.
Lemma upper_idem s : upper (upper s) = upper s.
Proof. unfold upper. induction s as [|c r IH]; simpl; [reflexivity|]. now rewrite upper_char_idem, IH. Qed.

(* a regex semantics given by a finite table on upper-cased text: satisfies both laws whatever the table *)
Definition witness_re (tbl : list (string * string * option bool)) (p d : string) : option bool :=
  if String.eqb p "" then Some true else tbl_search tbl p (upper d).
Lemma witness_case tbl : re_case_law (witness_re tbl).
Proof. intros p d. unfold witness_re. now rewrite upper_idem. Qed.
Lemma witness_empty tbl : re_empty_law (witness_re tbl).
Proof. intros d. reflexivity. Qed.

Definition fails_on (raw : list csv_rule) (t : txn) : Prop :=
  exists re lx today, re_case_law re /\ re_empty_law re /\ load_all (map loader_cells raw) <> LUnm
                      /\ ~ preserves_at re lx today (map loader_cells raw) t.
Lemma fails_on_refutes raw t : fails_on raw t -> ~ conversion_preserves_statement.
Proof. intros [re [lx [today [A [B [C D]]]]]] H. apply D. now apply H. Qed.

(* ------------------------------------------------------------------ the generated lines are read back verbatim *)
Lemma rstrip_app_blank a b : rstrip b = "" -> rstrip (a ++ b) = rstrip a.
Proof. intros Hb. induction a as [|c a IH]; simpl; [exact Hb|]. now rewrite IH. Qed.

Lemma strip_comm v : rstrip (lstrip v) = lstrip (rstrip v).
Proof.
  induction v as [|c r IH]; [reflexivity|].
  cbn [lstrip]. destruct (is_ws c) eqn:W.
  - cbn [rstrip]. destruct (rstrip r) as [|c' r'] eqn:E.
    + rewrite W. rewrite IH. reflexivity.
    + rewrite IH. cbn [lstrip]. now rewrite W.
  - cbn [rstrip]. destruct (rstrip r) as [|c' r'] eqn:E; rewrite ?W; cbn [lstrip]; now rewrite W.
Qed.

Lemma strip_of_rstrip v : strip (rstrip v) = strip v.
Proof. unfold strip. rewrite strip_comm, rstrip_idem, <- strip_comm. reflexivity. Qed.

Lemma last_char_app m c : last_char (m ++ String c "") = Some c.
Proof.
  induction m as [|x m IH]; [reflexivity|].
  simpl. destruct (m ++ String c "") eqn:E; [destruct m; discriminate|]. exact IH.
Qed.
Lemma drop_last_app m c : drop_last (m ++ String c "") = m.
Proof.
  induction m as [|x m IH]; [reflexivity|].
  simpl. destruct (m ++ String c "") eqn:E; [destruct m; discriminate|]. now rewrite IH.
Qed.

(* `[merchant]` is a header whatever the merchant text is; its name is the stripped text *)
Theorem classify_header b m :
  classify_line b ("[" ++ m ++ "]") = if nonempty (strip m) then KHeader (strip m) else KEmptyHeader.
Proof.
  unfold classify_line.
  assert (E : strip ("[" ++ m ++ "]") = String (chr 91) (m ++ String (chr 93) "")).
  { unfold strip. change ("[" ++ m ++ "]") with (String (chr 91) (m ++ String (chr 93) "")).
    cbn [lstrip]. change (is_ws (chr 91)) with false. cbv iota.
    change (String (chr 91) (m ++ String (chr 93) "")) with ((String (chr 91) m) ++ String (chr 93) "") at 1.
    rewrite rstrip_app_nonblank; [reflexivity|discriminate]. }
  rewrite E. change (is_hash (chr 91)) with false. change (is_lbr (chr 91)) with true. cbv iota.
  change (last_char (String (chr 91) (m ++ String (chr 93) ""))) with (last_char ((String (chr 91) m) ++ String (chr 93) "")).
  rewrite last_char_app. change (is_rbr (chr 93)) with true. cbn [andb]. rewrite drop_last_app. reflexivity.
Qed.

Lemma no_ws_lstrip k : sexists (fun c => (is_ws c || is_colon c)%bool) k = false -> lstrip k = k.
Proof. destruct k as [|c r]; [reflexivity|]. simpl. intros H. apply orb_false_iff in H. destruct H as [H _].
  apply orb_false_iff in H. destruct H as [-> _]. reflexivity. Qed.

Lemma no_ws_rstrip k : sexists (fun c => (is_ws c || is_colon c)%bool) k = false -> rstrip k = k.
Proof.
  induction k as [|c r IH]; [reflexivity|]. simpl. intros H. apply orb_false_iff in H. destruct H as [Hc Hr].
  apply orb_false_iff in Hc. destruct Hc as [W _]. rewrite (IH Hr). destruct r; [now rewrite W|reflexivity].
Qed.

Lemma split_colon_key k w : sexists (fun c => (is_ws c || is_colon c)%bool) k = false ->
  split_colon (k ++ String (chr 58) w) = Some (k, w).
Proof.
  induction k as [|c r IH]; intros H; [reflexivity|].
  simpl in H. apply orb_false_iff in H. destruct H as [Hc Hr]. apply orb_false_iff in Hc. destruct Hc as [_ C].
  cbn [append split_colon]. rewrite C, (IH Hr). reflexivity.
Qed.

(* a property line `key: value` gives back the stripped value and nothing else is interpreted in it: no comment
   marker, colon, bracket, quote or `=` inside the value changes what is read *)
Theorem classify_prop key v : key_ok key = true ->
  classify_line true (key ++ ": " ++ v) = KProp key (strip v).
Proof.
  unfold key_ok. rewrite !andb_true_iff. intros [[[Hne Hws] Hfirst] Hlow].
  apply String.eqb_eq in Hlow. apply negb_true_iff in Hws.
  assert (Hs : exists w, strip (key ++ ": " ++ v) = key ++ String (chr 58) w /\ strip w = strip v).
  { unfold strip at 1. rewrite lstrip_app_first; [|now apply no_ws_lstrip|now apply nonempty_true].
    destruct (rstrip v) as [|c r] eqn:Ev.
    - exists "". split.
      + change (key ++ ": " ++ v) with (key ++ (String (chr 58) (String (chr 32) "")) ++ v).
        rewrite <- sapp_assoc. rewrite rstrip_app_blank by exact Ev.
        change (key ++ String (chr 58) (String (chr 32) "")) with (key ++ (String (chr 58) "") ++ (String (chr 32) "")).
        rewrite <- sapp_assoc. rewrite rstrip_app_blank by reflexivity.
        rewrite rstrip_app_nonblank by discriminate. reflexivity.
      + unfold strip. rewrite (strip_comm v), Ev. reflexivity.
    - exists (String (chr 32) (rstrip v)). split.
      + change (key ++ ": " ++ v) with (key ++ (String (chr 58) (String (chr 32) "")) ++ v).
        rewrite <- sapp_assoc. rewrite rstrip_app_nonblank by (rewrite Ev; discriminate).
        rewrite sapp_assoc. reflexivity.
      + transitivity (strip (rstrip v)); [reflexivity|apply strip_of_rstrip]. }
  destruct Hs as [w [Es Ew]]. unfold classify_line. rewrite Es.
  destruct key as [|c0 k0]; [discriminate|].
  cbn [append]. apply negb_true_iff in Hfirst. apply orb_false_iff in Hfirst. destruct Hfirst as [Hh Hb].
  rewrite Hh, Hb. cbn [andb negb]. cbv iota.
  change (String c0 (k0 ++ String (chr 58) w)) with ((String c0 k0) ++ String (chr 58) w).
  rewrite (split_colon_key _ w Hws). rewrite Ew.
  unfold strip. rewrite (no_ws_lstrip _ Hws), (no_ws_rstrip _ Hws), Hlow. reflexivity.
Qed.

(* the header and the three plain-value lines of a generated block, read back line by line *)
Theorem block_lines_read_back r : noop_rule r = false ->
  exists mline rest,
    block_lines r = ("[" ++ merchant r ++ "]") :: mline :: ("category: " ++ category r) :: ("subcategory: " ++ subcategory r) :: rest /\
    classify_line true ("[" ++ merchant r ++ "]")
      = (if nonempty (strip (merchant r)) then KHeader (strip (merchant r)) else KEmptyHeader) /\
    classify_line true mline = KProp "match" (strip (match_text r)) /\
    classify_line true ("category: " ++ category r) = KProp "category" (strip (category r)) /\
    classify_line true ("subcategory: " ++ subcategory r) = KProp "subcategory" (strip (subcategory r)) /\
    (rest = [""] \/ exists tg, tags r = tg /\ tg <> [] /\ rest = [("tags: " ++ join ", " tg); ""] /\
                    classify_line true ("tags: " ++ join ", " tg) = KProp "tags" (strip (join ", " tg))).
Proof.
  intros Hn. unfold block_lines. rewrite Hn.
  exists ("match: " ++ match_text r). eexists. split; [reflexivity|].
  split; [apply classify_header|].
  split; [apply (classify_prop "match"); reflexivity|].
  split; [apply (classify_prop "category"); reflexivity|].
  split; [apply (classify_prop "subcategory"); reflexivity|].
  destruct (tags r) as [|x l] eqn:E; [now left|].
  right. exists (x :: l). repeat split; try discriminate. apply (classify_prop "tags"). reflexivity.
Qed.
