(* C14 — migrating merchant_categories.csv to merchants.rules preserves classification.

   Model (C14/Model.v): the loaded CSV rules, the text generator csv_to_merchants_content, the read-back of
   the generated rule (field stripping, tag splitting, the regex("...") literal lexed and un-escaped as
   CPython does, comparison atoms structurally), the legacy loop of normalize_merchant and
   MerchantEngine.match on the emitted fragment.  Regex search is a parameter ([re]): every theorem holds
   for EVERY regex semantics satisfying the two named laws re_case_law and re_empty_law.

   Result: the full statement is REFUTED on the faithful model (one witness per defect class, each replayed
   on the real code by harness/c14.py); it is PROVED for all rule lists under the computable guard
   [safe_rule] and for all transactions in scope ([txn_in_scope]: whole-cent amounts, or no `=` amount
   modifier in the file). *)
From Coq Require Import String Ascii List Bool ZArith NArith.
From Tally Require Import Lib.Str C14.Model C14.Proofs.
Import ListNotations.
Open Scope string_scope.

(* ---- the property at full strength -------------------------------------------------------------------
   for every regex semantics obeying the laws, every loaded CSV rule list inside the modelled fragment and
   every transaction: the generated text loads, and the engine gives the same merchant / category /
   subcategory and the same tag set as the legacy loop. *)
Definition c14_conversion_preserves_statement : Prop :=
  forall re lx, re_case_law re -> re_empty_law re ->
  forall today rules t, load_all rules <> LUnm ->
    exists ers, load_all rules = LOk ers /\
                res_equiv (engine_classify re ers t) (legacy_classify re lx today rules t).

(* ---- witnesses ---------------------------------------------------------------------------------------- *)
Definition sbytes (l : list N) : string := fold_right (fun n s => String (ascii_of_N n) s) EmptyString l.
Definition rule p am dt m c s tg : csv_rule :=
  {| pat := p; amts := am; dates := dt; merchant := m; category := c; subcategory := s; tags := tg |}.
Definition tx d a dt : txn := {| desc := d; amount := a; date := dt |}.
Definition money (units_of_1_6400 : Z) := units_of_1_6400.

(* \b : word boundary in the CSV, BACKSPACE after regex("\bUBER\b") is read back *)
Definition w_word_boundary := rule "\bUBER\b" [] [] "Uber" "Transport" "Ride" [].
Definition w_word_boundary_tbl :=
  [("\bUBER\b", "UBER TRIP", Some true); (sbytes [8; 85; 66; 69; 82; 8]%N, "UBER TRIP", Some false)].
(* \1 : back-reference in the CSV, the character U+0001 after quoting *)
Definition w_backref := rule "A(\d)\1" [] [] "Rep" "C" "S" [].
Definition w_backref_tbl :=
  [("A(\d)\1", "A11", Some true); ("A(\d)" ++ sbytes [1]%N, "A11", Some false)].
(* a double quote ends the literal early *)
Definition w_quote := rule (sbytes [65; 34; 66]%N) [] [] "Q" "C" "S" [].
(* a lone trailing backslash swallows the closing quote *)
Definition w_trailing_backslash := rule "END\" [] [] "E" "C" "S" [].
(* [amount>3][date:last30days] renders as `... and amount > 3.0 and # Note: was last30days` *)
Definition w_relative_syntax :=
  rule "X" [{| a_op := AGt; a_v := 19200; a_hi := 0 |}]%Z [DRel 30] "R" "C" "S" [].
(* [date:last30days] alone is silently dropped: the migrated rule matches every date *)
Definition w_relative_dropped := rule "X" [] [DRel 30] "R" "C" "S" [].
(* ... and takes every later modifier with it *)
Definition w_relative_swallows_month := rule "X" [] [DRel 30; DMonth 3] "R" "C" "S" [].
(* [amount=10.00] : legacy |amount - 10| < 0.01, migrated amount == 10.0 *)
Definition w_amount_eq := rule "X" [{| a_op := AEq; a_v := 64000; a_hi := 0 |}]%Z [] "E" "C" "S" [].
Definition w_blank_merchant := rule "X" [] [] "" "C" "S" [].
Definition w_blank_category := rule "X" [] [] "M" "" "S" [].
Definition w_padded_name := rule "NETFLIX" [] [] " Netflix" "Subs" "Stream" [].
Definition w_comma_tag := rule "X" [] [] "M" "C" "S" ["a,b"; "c"].
(* F1: the legacy loop evaluates a pattern starting with "(" as an expression (and skips it on error) *)
Definition w_paren := rule "(UBER|LYFT)" [] [] "Ride" "C" "S" [].
Definition x_tbl := [("X", "X", Some true)].
Definition no_lx : string -> txn -> option bool := fun _ _ => None.

Ltac refute_by tbl lx today :=
  exists (witness_re tbl), lx, today;
  split; [apply witness_case|]; split; [apply witness_empty|]; split; [vm_compute; discriminate|];
  let ers := fresh "ers" in let Hl := fresh "Hl" in let He := fresh "He" in
  intros [ers [Hl He]]; vm_compute in Hl; injection Hl as <-; vm_compute in He.

Theorem c14_refuted_word_boundary : fails_on [w_word_boundary] (tx "UBER TRIP" 32000 739252).
Proof. refute_by w_word_boundary_tbl no_lx 739890%Z. destruct He as [He _]. discriminate. Qed.
Print Assumptions c14_refuted_word_boundary.

Theorem c14_refuted_back_reference : fails_on [w_backref] (tx "A11" 32000 739252).
Proof. refute_by w_backref_tbl no_lx 739890%Z. destruct He as [He _]. discriminate. Qed.
Print Assumptions c14_refuted_back_reference.

(* the generated file does not load at all (whatever the regex semantics) *)
Theorem c14_refuted_quote_load_error : load_all [w_quote] = LErr.
Proof. vm_compute. reflexivity. Qed.
Print Assumptions c14_refuted_quote_load_error.
Theorem c14_refuted_trailing_backslash_load_error : load_all [w_trailing_backslash] = LErr.
Proof. vm_compute. reflexivity. Qed.
Print Assumptions c14_refuted_trailing_backslash_load_error.
Theorem c14_refuted_relative_date_load_error : load_all [w_relative_syntax] = LErr.
Proof. vm_compute. reflexivity. Qed.
Print Assumptions c14_refuted_relative_date_load_error.
Theorem c14_refuted_blank_merchant_load_error : load_all [w_blank_merchant] = LErr.
Proof. vm_compute. reflexivity. Qed.
Print Assumptions c14_refuted_blank_merchant_load_error.
(* one rule without category and tags makes the WHOLE file unloadable, healthy rules included *)
Theorem c14_refuted_blank_category_load_error :
  load_all [rule "Y" [] [] "N" "C" "S" []; w_blank_category] = LErr.
Proof. vm_compute. reflexivity. Qed.
Print Assumptions c14_refuted_blank_category_load_error.

(* transaction of 2020-01-01 seen on 2026-10-01: outside the last 30 days, yet matched after migration *)
Theorem c14_refuted_relative_date_dropped : fails_on [w_relative_dropped] (tx "X" 32000 737425).
Proof. refute_by x_tbl no_lx 739890%Z. destruct He as [He _]. discriminate. Qed.
Print Assumptions c14_refuted_relative_date_dropped.
(* 2025-07-01 seen on 2025-07-10: inside the window but not in March; the month modifier is lost too *)
Theorem c14_refuted_relative_date_swallows_month : fails_on [w_relative_swallows_month] (tx "X" 32000 739433).
Proof. refute_by x_tbl no_lx 739442%Z. destruct He as [He _]. discriminate. Qed.
Print Assumptions c14_refuted_relative_date_swallows_month.

(* amount 10.0078125 against [amount=10.00] *)
Theorem c14_refuted_amount_eq_tolerance : fails_on [w_amount_eq] (tx "X" 64050 739252).
Proof. refute_by x_tbl no_lx 739890%Z. destruct He as [He _]. discriminate. Qed.
Print Assumptions c14_refuted_amount_eq_tolerance.

Theorem c14_refuted_padded_name : fails_on [w_padded_name] (tx "NETFLIX" 32000 739252).
Proof. refute_by [("NETFLIX", "NETFLIX", Some true)] no_lx 739890%Z. destruct He as [He _]. discriminate. Qed.
Print Assumptions c14_refuted_padded_name.

Theorem c14_refuted_comma_in_tag : fails_on [w_comma_tag] (tx "X" 32000 739252).
Proof.
  refute_by x_tbl no_lx 739890%Z. destruct He as [_ He]. specialize (He "a,b"). destruct He as [_ He].
  assert (F : "a" = "a,b" \/ "b" = "a,b" \/ "c" = "a,b" \/ False) by (apply He; left; reflexivity).
  destruct F as [F|[F|[F|F]]]; try discriminate; contradiction.
Qed.
Print Assumptions c14_refuted_comma_in_tag.

(* F1: legacy skips the rule (expression evaluation fails), the migrated rule matches *)
Theorem c14_refuted_legacy_paren_pattern : fails_on [w_paren] (tx "UBER TRIP" 32000 739252).
Proof. refute_by [("(UBER|LYFT)", "UBER TRIP", Some true)] no_lx 739890%Z. destruct He as [He _]. discriminate. Qed.
Print Assumptions c14_refuted_legacy_paren_pattern.

Lemma statement_same : c14_conversion_preserves_statement <-> conversion_preserves_statement.
Proof. unfold c14_conversion_preserves_statement, conversion_preserves_statement, preserves_at. tauto. Qed.

Theorem c14_conversion_preserves_refuted : ~ c14_conversion_preserves_statement.
Proof. rewrite statement_same. exact (fails_on_refutes _ _ c14_refuted_word_boundary). Qed.
Print Assumptions c14_conversion_preserves_refuted.

(* the case law is needed: a regex semantics with a scoped case-sensitive group breaks even a safe rule *)
Definition w_scoped := rule "UBER (?-i:Eats)" [] [] "M" "C" "S" [].
Theorem c14_case_law_is_needed :
  safe_rule w_scoped = true /\
  exists re, re_empty_law re /\
    ~ (exists ers, load_all [w_scoped] = LOk ers /\
         res_equiv (engine_classify re ers (tx "UBER Eats" 32000 739252))
                   (legacy_classify re no_lx 739890 [w_scoped] (tx "UBER Eats" 32000 739252))).
Proof.
  split; [vm_compute; reflexivity|].
  exists (fun p d => if String.eqb p "" then Some true
                     else tbl_search [("UBER (?-i:Eats)", "UBER Eats", Some true); ("UBER (?-i:Eats)", "UBER EATS", Some false)] p d).
  split; [intros d; reflexivity|].
  intros [ers [Hl He]]. vm_compute in Hl. injection Hl as <-. vm_compute in He. destruct He as [He _]. discriminate.
Qed.
Print Assumptions c14_case_law_is_needed.

(* ---- what does hold ------------------------------------------------------------------------------------ *)
Theorem c14_conversion_preserves_partial :
  forall re lx, re_case_law re -> re_empty_law re ->
  forall today rules, forallb safe_rule rules = true ->
  forall t, txn_in_scope rules t ->
    exists ers, load_all rules = LOk ers /\
                res_equiv (engine_classify re ers t) (legacy_classify re lx today rules t).
Proof. exact conversion_preserves_partial. Qed.
Print Assumptions c14_conversion_preserves_partial.

(* under the guard the two classifications are not merely equivalent but equal, rule by rule *)
Theorem c14_safe_rule_reads_back :
  forall re lx today r, re_case_law re -> re_empty_law re -> safe_rule r = true ->
  exists e, load_rule r = LOk e /\ e_name e = merchant r /\ e_cat e = category r /\ e_sub e = subcategory r
            /\ e_tags e = tags r
            /\ forall t, amount_ok_for t (amts r) ->
                 is_true (eval_and re t (e_match e)) = is_true (legacy_match re lx today r t).
Proof.
  intros re lx today r Lc Le H. destruct (safe_rule_loads re lx today r Lc Le H) as [e [E [A B C D M]]].
  exists e. repeat split; auto.
Qed.
Print Assumptions c14_safe_rule_reads_back.

(* exactly which patterns survive being written between double quotes and read back by Python *)
Theorem c14_unescape_id_iff : forall p, unesc p = UVal p <-> esc_free p = true.
Proof. exact unesc_id_iff. Qed.
Print Assumptions c14_unescape_id_iff.

(* ... namely those in which no backslash is followed by a backslash, a quote, a double quote, one of
   a b f n r t v 0-7 x N u U, or by nothing *)
Theorem c14_esc_free_spec :
  forall p, esc_free p = true <->
    forall pre post, p = pre ++ bslash ++ post -> exists c post', post = String c post' /\ is_escape_char c = false.
Proof. exact esc_free_spec. Qed.
Print Assumptions c14_esc_free_spec.

(* a rule's tags survive `tags: a, b` + the engine's comma splitting *)
Theorem c14_tags_roundtrip :
  forall l, forallb safe_tag l = true -> l <> [] -> split_tags (strip (join ", " l)) = l.
Proof. exact tags_roundtrip. Qed.
Print Assumptions c14_tags_roundtrip.

(* ---- non-vacuity: realistic rules satisfy the guard, load, and classify -------------------------------- *)
Definition ex_rules : list csv_rule :=
  [ rule "^AMZN\s*MKTP" [{| a_op := ARange; a_v := 320000; a_hi := 1280000 |}]%Z [] "Amazon" "Shopping" "Online" ["big"];
    rule "COSTCO(?!\s*GAS)" [{| a_op := AGt; a_v := 1280000; a_hi := 0 |}]%Z [DRange 739252 739616] "Costco" "Food" "Groceries" ["bulk"; "Warehouse"];
    rule "STARBUCKS|DUNKIN" [{| a_op := AEq; a_v := 35200; a_hi := 0 |}]%Z [DMonth 3] "Coffee" "Food" "Coffee" [];
    rule "[0-9]{4}$" [] [DEq 739325] "" "" "" [] ;
    rule "SQ \*[A-Z]+" [] [] "Square" "" "" ["pos"];
    rule "" [{| a_op := ALe; a_v := 6400; a_hi := 0 |}]%Z [] "Small" "Misc" "" [] ].
Definition ex_safe := [nth 0 ex_rules w_paren; nth 1 ex_rules w_paren; nth 2 ex_rules w_paren; nth 4 ex_rules w_paren; nth 5 ex_rules w_paren].
Definition ex_tbl :=
  [("COSTCO(?!\s*GAS)", "COSTCO WHSE #12", Some true); ("^AMZN\s*MKTP", "COSTCO WHSE #12", Some false);
   ("STARBUCKS|DUNKIN", "COSTCO WHSE #12", Some false); ("SQ \*[A-Z]+", "COSTCO WHSE #12", Some false)].

Example c14_example_guard : forallb safe_rule ex_safe = true /\ safe_rule (nth 3 ex_rules w_paren) = false.
Proof. vm_compute. split; reflexivity. Qed.

Example c14_example_classification :
  let t := tx "Costco Whse #12" 1600000 739300 in       (* 250.00 on 2025-02-18 *)
  txn_in_scope ex_safe t /\
  exists ers, load_all ex_safe = LOk ers /\
    engine_classify (witness_re ex_tbl) ers t = legacy_classify (witness_re ex_tbl) no_lx 739890 ex_safe t /\
    r_cls (engine_classify (witness_re ex_tbl) ers t) = Some ("Costco", "Food", "Groceries") /\
    r_tags (engine_classify (witness_re ex_tbl) ers t) = ["bulk"; "warehouse"].
Proof.
  split; [left; reflexivity|]. eexists. split; [vm_compute; reflexivity|]. vm_compute. repeat split; reflexivity.
Qed.

Example c14_example_text :
  gen_content [nth 1 ex_rules w_paren] =
  join nl (app header_lines
    ["[Costco]";
     "match: regex(" ++ dq ++ "COSTCO(?!\s*GAS)" ++ dq ++ ") and amount > 200.0 and date >= " ++ dq ++ "2025-01-01" ++ dq
       ++ " and date <= " ++ dq ++ "2025-12-31" ++ dq;
     "category: Food"; "subcategory: Groceries"; "tags: bulk, Warehouse"; ""]).
Proof. vm_compute. reflexivity. Qed.

Example c14_example_unescape :
  unesc "UBER\s*EATS" = UVal "UBER\s*EATS" /\ esc_free "PAYPAL \*(EBAY|ETSY)" = true /\
  esc_free "\bUBER" = false /\ esc_free "A(\d)\1" = false /\ esc_free "X\\Y" = false /\ esc_free "END\" = false /\
  unesc "\x41\101\n" = UVal ("AA" ++ nl) /\ unesc "\xZ1" = UErr /\ unesc "\N{DASH}" = UUnm.
Proof. vm_compute. repeat split; reflexivity. Qed.
