(* C14 — migrating merchant_categories.csv to merchants.rules preserves classification.

   Model (C14/Model.v): the loaded CSV rules, the text generator csv_to_merchants_content, the read-back of
   the generated rule (field stripping, tag splitting, the regex("...") literal lexed and un-escaped as
   CPython does, comparison atoms structurally), the legacy loop of normalize_merchant and
   MerchantEngine.match on the emitted fragment.  Regex search is a parameter ([re]): every theorem holds
   for EVERY regex semantics satisfying the two named laws re_case_law and re_empty_law.

   The model is the tree AFTER the adopted fixes (escaped pattern literal, abs(amount - N) < 0.01 for
   [amount=N], loader strips the Merchant/Category/Subcategory cells, rows without category and tags are
   skipped).  Those defect classes are gone: the former witnesses are now positive Examples below, and the
   corresponding guards no longer appear in [safe_rule].

   Result: the full statement is still REFUTED by the defects that remain known findings (relative dates,
   blank merchant, comma inside a tag, expression-like legacy patterns); it is PROVED for all raw row lists
   pushed through the loader and all transactions under the computable guard [safe_rule]
   (= cells without newline/CR/NUL and without dynamic tags; merchant non-blank unless the row is a no-op;
   tags without , ( ); pattern not expression-like for the legacy loop; no relative date). *)
From Coq Require Import String Ascii List Bool ZArith NArith.
From Tally Require Import Lib.Str C14.Model C14.Proofs.
Import ListNotations.
Open Scope string_scope.

(* ---- the property at full strength -------------------------------------------------------------------
   for every regex semantics obeying the laws, every loaded CSV rule list inside the modelled fragment and
   every transaction: the generated text loads, and the engine gives the same merchant / category /
   subcategory and the same tag set as the legacy loop. *)
Definition c14_conversion_preserves_statement : Prop :=
  forall re lx, re_case_law re -> re_empty_law re ->
  forall today raw t, let rules := map loader_cells raw in
    load_all rules <> LUnm ->
    exists ers, load_all rules = LOk ers /\
                res_equiv (engine_classify re ers t) (legacy_classify re lx today rules t).

(* ---- witnesses ---------------------------------------------------------------------------------------- *)
Definition sbytes (l : list N) : string := fold_right (fun n s => String (ascii_of_N n) s) EmptyString l.
Definition rule p am dt m c s tg : csv_rule :=
  {| pat := p; amts := am; dates := dt; merchant := m; category := c; subcategory := s; tags := tg |}.
Definition tx d a dt : txn := {| desc := d; amount := a; date := dt |}.
(* money: exact doubles in units of 2^-64; U n = the integer n, D1_128 = 1/128 *)
Definition U (n : Z) : Z := (n * UNIT)%Z.
Definition D1_128 : Z := 144115188075855872%Z.
Definition amt (o : aop) (v hi : Z) (txt hitxt : string) : acond :=
  {| a_op := o; a_v := v; a_hi := hi; a_txt := txt; a_hi_txt := hitxt |}.

(* [amount>3][date:last30days] renders as `... and amount > 3.0 and # Note: was last30days` *)
Definition w_relative_syntax :=
  rule "X" [amt AGt (U 3) 0 "3.0" ""] [DRel 30] "R" "C" "S" [].
(* [date:last30days] alone is silently dropped: the migrated rule matches every date *)
Definition w_relative_dropped := rule "X" [] [DRel 30] "R" "C" "S" [].
(* ... and takes every later modifier with it *)
Definition w_relative_swallows_month := rule "X" [] [DRel 30; DMonth 3] "R" "C" "S" [].
Definition w_blank_merchant := rule "X" [] [] "  " "C" "S" [].
Definition w_comma_tag := rule "X" [] [] "M" "C" "S" ["a,b"; "c"].
(* F1: the legacy loop evaluates a pattern starting with an opening parenthesis as an expression *)
Definition w_paren := rule "(UBER|LYFT)" [] [] "Ride" "C" "S" [].
Definition x_tbl := [("X", "X", Some true)].
Definition no_lx : string -> txn -> option bool := fun _ _ => None.

Ltac refute_by tbl lx today :=
  exists (witness_re tbl), lx, today;
  split; [apply witness_case|]; split; [apply witness_empty|]; split; [vm_compute; discriminate|];
  let ers := fresh "ers" in let Hl := fresh "Hl" in let He := fresh "He" in
  intros [ers [Hl He]]; vm_compute in Hl; injection Hl as <-; vm_compute in He.

(* ---- what still fails (the remaining known findings) --------------------------------------------------- *)
(* the generated file does not load at all (whatever the regex semantics) *)
Theorem c14_refuted_relative_date_load_error : load_all (map loader_cells [w_relative_syntax]) = LErr.
Proof. vm_compute. reflexivity. Qed.
Print Assumptions c14_refuted_relative_date_load_error.
(* one row with a blank Merchant makes the WHOLE file unloadable, healthy rules included *)
Theorem c14_refuted_blank_merchant_load_error :
  load_all (map loader_cells [rule "Y" [] [] "N" "C" "S" []; w_blank_merchant]) = LErr.
Proof. vm_compute. reflexivity. Qed.
Print Assumptions c14_refuted_blank_merchant_load_error.

(* transaction of 2020-01-01 seen on 2026-10-01: outside the last 30 days, yet matched after migration *)
Theorem c14_refuted_relative_date_dropped : fails_on [w_relative_dropped] (tx "X" (U 5) 737425).
Proof. refute_by x_tbl no_lx 739890%Z. destruct He as [He _]. discriminate. Qed.
Print Assumptions c14_refuted_relative_date_dropped.
(* 2025-07-01 seen on 2025-07-10: inside the window but not in March; the month modifier is lost too *)
Theorem c14_refuted_relative_date_swallows_month : fails_on [w_relative_swallows_month] (tx "X" (U 5) 739433).
Proof. refute_by x_tbl no_lx 739442%Z. destruct He as [He _]. discriminate. Qed.
Print Assumptions c14_refuted_relative_date_swallows_month.

Theorem c14_refuted_comma_in_tag : fails_on [w_comma_tag] (tx "X" (U 5) 739252).
Proof.
  refute_by x_tbl no_lx 739890%Z. destruct He as [_ He]. specialize (He "a,b"). destruct He as [_ He].
  assert (F : "a" = "a,b" \/ "b" = "a,b" \/ "c" = "a,b" \/ False) by (apply He; left; reflexivity).
  destruct F as [F|[F|[F|F]]]; try discriminate; contradiction.
Qed.
Print Assumptions c14_refuted_comma_in_tag.

(* F1: legacy skips the rule (expression evaluation fails), the migrated rule matches *)
Theorem c14_refuted_legacy_paren_pattern : fails_on [w_paren] (tx "UBER TRIP" (U 5) 739252).
Proof. refute_by [("(UBER|LYFT)", "UBER TRIP", Some true)] no_lx 739890%Z. destruct He as [He _]. discriminate. Qed.
Print Assumptions c14_refuted_legacy_paren_pattern.

Lemma statement_same : c14_conversion_preserves_statement <-> conversion_preserves_statement.
Proof. unfold c14_conversion_preserves_statement, conversion_preserves_statement, preserves_at. tauto. Qed.

Theorem c14_conversion_preserves_refuted : ~ c14_conversion_preserves_statement.
Proof. rewrite statement_same. exact (fails_on_refutes _ _ c14_refuted_relative_date_dropped). Qed.
Print Assumptions c14_conversion_preserves_refuted.

(* the case law is needed: a regex semantics with a scoped case-sensitive group breaks even a safe rule *)
Definition w_scoped := rule "UBER (?-i:Eats)" [] [] "M" "C" "S" [].
Theorem c14_case_law_is_needed :
  safe_rule w_scoped = true /\
  exists re, re_empty_law re /\
    ~ (exists ers, load_all [w_scoped] = LOk ers /\
         res_equiv (engine_classify re ers (tx "UBER Eats" (U 5) 739252))
                   (legacy_classify re no_lx 739890 [w_scoped] (tx "UBER Eats" (U 5) 739252))).
Proof.
  split; [vm_compute; reflexivity|].
  exists (fun p d => if String.eqb p "" then Some true
                     else tbl_search [("UBER (?-i:Eats)", "UBER Eats", Some true); ("UBER (?-i:Eats)", "UBER EATS", Some false)] p d).
  split; [intros d; reflexivity|].
  intros [ers [Hl He]]. vm_compute in Hl. injection Hl as <-. vm_compute in He. destruct He as [He _]. discriminate.
Qed.
Print Assumptions c14_case_law_is_needed.

(* ---- what holds ------------------------------------------------------------------------------------------ *)
(* for every list of raw CSV rows pushed through the loader, every transaction (any amount, any date) *)
Theorem c14_conversion_preserves_partial :
  forall re lx, re_case_law re -> re_empty_law re ->
  forall today raw, let rules := map loader_cells raw in
  forallb safe_rule rules = true ->
  forall t, exists ers, load_all rules = LOk ers /\
                        res_equiv (engine_classify re ers t) (legacy_classify re lx today rules t).
Proof. exact conversion_preserves_partial. Qed.
Print Assumptions c14_conversion_preserves_partial.

(* the same for any rule list whose cells are already stripped, with EQUAL (not just equivalent) results *)
Theorem c14_conversion_preserves_loaded :
  forall re lx, re_case_law re -> re_empty_law re ->
  forall today rules, forallb cells_stripped rules = true -> forallb safe_rule rules = true ->
  exists ers, load_all rules = LOk ers /\
              forall t, engine_classify re ers t = legacy_classify re lx today rules t.
Proof. intros re lx Lc Le today rules. now apply safe_rules_classify. Qed.
Print Assumptions c14_conversion_preserves_loaded.

(* the loader leaves no padded or missing cell behind *)
Theorem c14_loader_cells_stripped : forall r, cells_stripped (loader_cells r) = true.
Proof. exact loader_cells_stripped. Qed.
Print Assumptions c14_loader_cells_stripped.

(* EVERY pattern (no newline/CR/NUL) written by _quote_pattern is one literal and reads back as itself:
   backslash classes, \b, back-references, quotes, a trailing backslash ... *)
Theorem c14_quote_reads_back :
  forall p, sexists is_ctl p = false -> lex_ok (quote_body p) = true /\ unesc (quote_body p) = UVal p.
Proof. exact quote_reads_back. Qed.
Print Assumptions c14_quote_reads_back.

(* the tolerance of [amount=N] is inside the model, decided on the exact values of the doubles: the rounded
   difference is below the double 0.01 exactly when the exact difference does not exceed NEAR_MID, and BOTH paths
   evaluate this same test, for every amount *)
Theorem c14_amount_eq_same_test :
  forall re t v, eval_atom re t (EAmtNear v) = Some (amt_ok t (amt AEq v 0 "" "")).
Proof. reflexivity. Qed.
Print Assumptions c14_amount_eq_same_test.
Theorem c14_near_spec : forall a v, near a v = true <-> (Z.abs (a - v) <= NEAR_MID)%Z.
Proof. intros a v. unfold near. apply Z.leb_le. Qed.
Print Assumptions c14_near_spec.
(* boundary: 0.01 - 0, 0.02 - 0.01 (both exactly the double 0.01) are NOT within tolerance, 10.01 - 10.0 IS;
   history: the pre-fix rendering amount == N disagreed with the tolerance on 10.01 vs 10.0 *)
Example c14_near_boundary :
  near DOUBLE_CENT 0 = false /\ near 368934881474191040 DOUBLE_CENT = false /\ near 0 DOUBLE_CENT = false /\
  near 184651908177832607744 (U 10) = true /\ Z.eqb 184651908177832607744 (U 10) = false /\
  near (U 10 + D1_128) (U 10) = true /\ near (U 10 + 2 * D1_128) (U 10) = false /\
  (NEAR_MID < U 1 / 100 < DOUBLE_CENT)%Z.
Proof. vm_compute. repeat split; reflexivity. Qed.

(* history (pre-fix converter, which wrote the pattern between the quotes unescaped): exactly which
   patterns would have survived that, i.e. which CSV files the escaping fix changes the migration of *)
Theorem c14_unescape_id_iff : forall p, unesc p = UVal p <-> esc_free p = true.
Proof. exact unesc_id_iff. Qed.
Print Assumptions c14_unescape_id_iff.
Theorem c14_esc_free_spec :
  forall p, esc_free p = true <->
    forall pre post, p = pre ++ bslash ++ post -> exists c post', post = String c post' /\ is_escape_char c = false.
Proof. exact esc_free_spec. Qed.
Print Assumptions c14_esc_free_spec.

(* a rule's tags survive the tags line + the engine's comma splitting *)
Theorem c14_tags_roundtrip :
  forall l, forallb safe_tag l = true -> l <> [] -> split_tags (strip (join ", " l)) = l.
Proof. exact tags_roundtrip. Qed.
Print Assumptions c14_tags_roundtrip.

(* ---- the generated lines, read back one line at a time as MerchantEngine.parse does (for ALL strings) -------- *)
(* `[merchant]` is a rule header whatever the merchant text contains; its name is the stripped text *)
Theorem c14_header_line_read_back :
  forall in_rule m, classify_line in_rule ("[" ++ m ++ "]") = if nonempty (strip m) then KHeader (strip m) else KEmptyHeader.
Proof. exact classify_header. Qed.
Print Assumptions c14_header_line_read_back.
(* `key: value` gives back exactly the stripped value: no `#`, `:`, `=`, bracket or quote in it is interpreted *)
Theorem c14_property_line_read_back :
  forall key v, key_ok key = true -> classify_line true (key ++ ": " ++ v) = KProp key (strip v).
Proof. exact classify_prop. Qed.
Print Assumptions c14_property_line_read_back.
Theorem c14_block_lines_read_back :
  forall r, noop_rule r = false ->
  exists mline rest,
    block_lines r = ("[" ++ merchant r ++ "]") :: mline :: ("category: " ++ category r) :: ("subcategory: " ++ subcategory r) :: rest /\
    classify_line true ("[" ++ merchant r ++ "]")
      = (if nonempty (strip (merchant r)) then KHeader (strip (merchant r)) else KEmptyHeader) /\
    classify_line true mline = KProp "match" (strip (match_text r)) /\
    classify_line true ("category: " ++ category r) = KProp "category" (strip (category r)) /\
    classify_line true ("subcategory: " ++ subcategory r) = KProp "subcategory" (strip (subcategory r)) /\
    (rest = [""] \/ exists tg, tags r = tg /\ tg <> [] /\ rest = [("tags: " ++ join ", " tg); ""] /\
                    classify_line true ("tags: " ++ join ", " tg) = KProp "tags" (strip (join ", " tg))).
Proof. exact block_lines_read_back. Qed.
Print Assumptions c14_block_lines_read_back.
Example c14_example_lines :
  key_ok "category" = true /\ key_ok "subcategory" = true /\ key_ok "tags" = true /\ key_ok "match" = true /\
  classify_line true "category: Unit #4" = KProp "category" "Unit #4" /\
  classify_line true "tags: travel, #work" = KProp "tags" "travel, #work" /\
  classify_line true "subcategory: A: B = [c]  " = KProp "subcategory" "A: B = [c]" /\
  classify_line true "[In [brackets] here]" = KHeader "In [brackets] here" /\
  classify_line true "[  ]" = KEmptyHeader /\ classify_line true "  # note" = KComment /\
  classify_line true "no colon here" = KGarbage /\ classify_line false "x = amount > 5" = KTopLevel.
Proof. vm_compute. repeat split; reflexivity. Qed.

(* ---- the former witnesses of the repaired defects now migrate faithfully -------------------------------- *)
Definition w_word_boundary := rule "\bUBER\b" [] [] "Uber" "Transport" "Ride" [].
Definition w_backref := rule "A(\d)\1" [] [] "Rep" "C" "S" [].
Definition w_quote := rule (sbytes [65; 34; 66]%N) [] [] "Q" "C" "S" [].
Definition w_trailing_backslash := rule "END\" [] [] "E" "C" "S" [].
Definition w_amount_eq := rule "X" [amt AEq (U 10) 0 "10.0" ""] [] "E" "C" "S" [].
Definition w_padded_name := rule "NETFLIX" [] [] " Netflix" " Subs " "Stream" [].
Definition w_blank_category := rule "X" [] [] "M" " " "S" [].

Example c14_fixed_witnesses_in_guard :
  forallb safe_rule (map loader_cells [w_word_boundary; w_backref; w_quote; w_trailing_backslash; w_amount_eq;
                                       w_padded_name; w_blank_category]) = true.
Proof. vm_compute. reflexivity. Qed.

Example c14_fixed_escapes_read_back :
  load_all (map loader_cells [w_word_boundary; w_backref; w_quote; w_trailing_backslash; w_blank_category]) =
  LOk [ {| e_name := "Uber"; e_cat := "Transport"; e_sub := "Ride"; e_tags := []; e_match := [ERegex "\bUBER\b"] |};
        {| e_name := "Rep"; e_cat := "C"; e_sub := "S"; e_tags := []; e_match := [ERegex "A(\d)\1"] |};
        {| e_name := "Q"; e_cat := "C"; e_sub := "S"; e_tags := []; e_match := [ERegex (sbytes [65; 34; 66]%N)] |};
        {| e_name := "E"; e_cat := "C"; e_sub := "S"; e_tags := []; e_match := [ERegex "END\"] |} ].
Proof. vm_compute. reflexivity. Qed.

(* 10.0078125 against [amount=10.00]: matched on both sides now; the padded cells come out stripped on both *)
Example c14_fixed_amount_eq_and_padding :
  let rules := map loader_cells [w_amount_eq; w_padded_name] in
  let re := witness_re [("X", "X", Some true); ("NETFLIX", "NETFLIX", Some true)] in
  exists ers, load_all rules = LOk ers /\
    (* 10.0078125 *)
    r_cls (engine_classify re ers (tx "X" (U 10 + D1_128) 739252)) = Some ("E", "C", "S") /\
    r_cls (legacy_classify re no_lx 739890 rules (tx "X" (U 10 + D1_128) 739252)) = Some ("E", "C", "S") /\
    (* the double 10.01: 10.01 - 10.0 evaluates to 0.00999999999999979 < 0.01 on BOTH paths now *)
    r_cls (engine_classify re ers (tx "X" 184651908177832607744 739252)) = Some ("E", "C", "S") /\
    r_cls (legacy_classify re no_lx 739890 rules (tx "X" 184651908177832607744 739252)) = Some ("E", "C", "S") /\
    (* 10.015625 *)
    r_cls (engine_classify re ers (tx "X" (U 10 + 2 * D1_128) 739252)) = None /\
    r_cls (legacy_classify re no_lx 739890 rules (tx "X" (U 10 + 2 * D1_128) 739252)) = None /\
    r_cls (engine_classify re ers (tx "NETFLIX" (U 1) 739252)) = Some ("Netflix", "Subs", "Stream") /\
    r_cls (legacy_classify re no_lx 739890 rules (tx "NETFLIX" (U 1) 739252)) = Some ("Netflix", "Subs", "Stream").
Proof. eexists. split; [vm_compute; reflexivity|]. vm_compute. repeat split; reflexivity. Qed.

(* ---- non-vacuity: realistic rules satisfy the guard, load, and classify -------------------------------- *)
Definition ex_rules : list csv_rule :=
  [ rule "^AMZN\s*MKTP" [amt ARange (U 50) (U 200) "50.0" "200.0"] [] "Amazon" "Shopping" "Online" ["big"];
    rule "\bCOSTCO\b(?!\s*GAS)" [amt AGt (U 200) 0 "200.0" ""] [DRange 739252 739616] " Costco" "Food" "Groceries" ["bulk"; "Warehouse"];
    rule "STARBUCKS|DUNKIN" [amt AEq (U 5 + 65 * D1_128) 0 "5.5078125" ""] [DMonth 3] "Coffee" "Food" "Coffee" [];
    rule "[0-9]{4}$" [] [DEq 739325] "Unused" "" "" [] ;
    rule "SQ \*[A-Z]+" [] [] "Square" "" "" ["pos"];
    rule "" [amt ALe (U 1) 0 "1.0" ""] [] "Small" "Misc" "" [] ].
Definition ex_tbl :=
  [("\bCOSTCO\b(?!\s*GAS)", "COSTCO WHSE #12", Some true); ("^AMZN\s*MKTP", "COSTCO WHSE #12", Some false);
   ("STARBUCKS|DUNKIN", "COSTCO WHSE #12", Some false); ("SQ \*[A-Z]+", "COSTCO WHSE #12", Some false);
   ("[0-9]{4}$", "COSTCO WHSE #12", Some false)].

Example c14_example_guard : forallb safe_rule (map loader_cells ex_rules) = true.
Proof. vm_compute. reflexivity. Qed.

Example c14_example_classification :
  let t := tx "Costco Whse #12" (U 250) 739300 in       (* 250.00 on 2025-02-18 *)
  let rules := map loader_cells ex_rules in
  exists ers, load_all rules = LOk ers /\ length ers = 5%nat /\
    engine_classify (witness_re ex_tbl) ers t = legacy_classify (witness_re ex_tbl) no_lx 739890 rules t /\
    r_cls (engine_classify (witness_re ex_tbl) ers t) = Some ("Costco", "Food", "Groceries") /\
    r_tags (engine_classify (witness_re ex_tbl) ers t) = ["bulk"; "warehouse"].
Proof. eexists. split; [vm_compute; reflexivity|]. vm_compute. repeat split; reflexivity. Qed.

Example c14_example_text :
  gen_content (map loader_cells [nth 1 ex_rules w_paren; nth 2 ex_rules w_paren; nth 3 ex_rules w_paren]) =
  join nl (app header_lines
    ["[Costco]";
     "match: regex(" ++ dq ++ "\\bCOSTCO\\b(?!\\s*GAS)" ++ dq ++ ") and amount > 200.0 and date >= " ++ dq ++ "2025-01-01" ++ dq
       ++ " and date <= " ++ dq ++ "2025-12-31" ++ dq;
     "category: Food"; "subcategory: Groceries"; "tags: bulk, Warehouse"; "";
     "[Coffee]";
     "match: regex(" ++ dq ++ "STARBUCKS|DUNKIN" ++ dq ++ ") and abs(amount - 5.5078125) < 0.01 and month == 3";
     "category: Food"; "subcategory: Coffee"; "";
     "# Skipped (no category or tags): [0-9]{4}$"; ""]).
Proof. vm_compute. reflexivity. Qed.

Example c14_example_unescape :
  unesc (quote_body "UBER\s*EATS") = UVal "UBER\s*EATS" /\ unesc (quote_body "\bUBER") = UVal "\bUBER" /\
  unesc (quote_body "END\") = UVal "END\" /\ quote_body "X\\Y" = "X\\\\Y" /\
  esc_free "\bUBER" = false /\ esc_free "A(\d)\1" = false /\ esc_free "PAYPAL \*(EBAY|ETSY)" = true /\
  unesc "\x41\101\n" = UVal ("AA" ++ nl) /\ unesc "\xZ1" = UErr /\ unesc "\N{DASH}" = UUnm.
Proof. vm_compute. repeat split; reflexivity. Qed.
