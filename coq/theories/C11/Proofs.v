(* C11/Proofs.v — map/concat lemmas about the cmd_run loop, for all budgets and all stage functions. *)
From Coq Require Import String List Bool.
From Tally Require Import Lib.Str C11.Model.
Import ListNotations.
Open Scope list_scope.

Section Proofs.
  Variables Settings Content Row Txn Rules SuppRow Stats Views Sections : Type.
  Variable parse_source : Settings -> Content -> option (list Row).
  Variable load_supp : Settings -> Content -> option (list SuppRow).
  Variable classify : Rules -> mode -> supp_data SuppRow -> string -> Row -> Txn.
  Variable analyze : list Txn -> Stats.
  Variable group_views : Views -> Stats -> Sections.

  Notation source := (source Settings Content).
  Notation budget := (budget Settings Content Rules Views).
  Notation loop := (Model.loop parse_source classify).
  Notation contribution := (Model.contribution parse_source classify).
  Notation warn := (Model.warn parse_source).
  Notation rows_of := (Model.rows_of parse_source).
  Notation read_source := (Model.read_source parse_source).
  Notation parsed_rows := (Model.parsed_rows parse_source).
  Notation supp_of := (Model.supp_of load_supp).
  Notation supp_entry := (Model.supp_entry load_supp).
  Notation supp_warn := (Model.supp_warn load_supp).
  Notation run_up := (Model.run_up parse_source load_supp classify analyze group_views).

  Lemma loop_spec R m supp (ss : list source) :
    forall acc ws, loop R m supp ss acc ws
                   = (acc ++ flat_map (contribution R m supp) ss, ws ++ flat_map warn ss).
  Proof.
    induction ss as [|s rest IH]; intros acc ws; cbn [Model.loop flat_map].
    - now rewrite !app_nil_r.
    - unfold Model.contribution, Model.warn, Model.rows_of.
      destruct (s_supp s) eqn:Hs.
      + rewrite IH. reflexivity.
      + destruct (s_state s) eqn:Hst.
        * destruct (s_generic s) eqn:Hg.
          -- destruct (read_source s) as [rows|] eqn:Hr.
             ++ rewrite IH. cbn [app]. now rewrite app_assoc.
             ++ rewrite IH. cbn [map app]. now rewrite <- app_assoc.
          -- rewrite IH. cbn [map app]. now rewrite <- app_assoc.
        * rewrite IH. cbn [map app]. now rewrite <- app_assoc.
        * destruct (s_generic s) eqn:Hg.
          -- destruct (read_source s) as [rows|] eqn:Hr.
             ++ rewrite IH. cbn [app]. now rewrite app_assoc.
             ++ rewrite IH. cbn [map app]. now rewrite <- app_assoc.
          -- rewrite IH. cbn [map app]. now rewrite <- app_assoc.
  Qed.

  Definition all_txns (b : budget) : list Txn :=
    flat_map (contribution (b_rules b) (b_mode b) (supp_of (b_sources b))) (b_sources b).
  Definition all_warnings (b : budget) : list warning :=
    flat_map supp_warn (b_sources b) ++ flat_map warn (b_sources b).

  (* run_up in closed form *)
  Lemma run_up_spec (b : budget) :
    run_up b =
    match b_sources b with
    | [] => ErrNoSources
    | _ => match all_txns b with
           | [] => ErrNoTransactions (all_warnings b)
           | t => Report t (analyze t) (option_map (fun v => group_views v (analyze t)) (b_views b)) (all_warnings b)
           end
    end.
  Proof.
    unfold Model.run_up, all_txns, all_warnings. destruct (b_sources b) as [|s ss] eqn:Hss; [reflexivity|].
    rewrite loop_spec. cbn [app].
    destruct (flat_map (contribution _ _ _) (s :: ss)); reflexivity.
  Qed.

  Lemma report_txns_spec (b : budget) : report_txns (run_up b) = all_txns b.
  Proof.
    rewrite run_up_spec. unfold all_txns. destruct (b_sources b) as [|s ss]; [reflexivity|].
    match goal with |- report_txns (match ?l with _ => _ end) = _ => destruct l eqn:E end; reflexivity.
  Qed.

  Lemma report_warnings_spec (b : budget) : report_warnings (run_up b) = all_warnings b.
  Proof.
    rewrite run_up_spec. unfold all_warnings. destruct (b_sources b) as [|s ss]; [reflexivity|].
    destruct (all_txns b); reflexivity.
  Qed.

  (* ------------------------------------------------------------------ composition *)
  Lemma contribution_supp R m supp (s : source) : s_supp s = true -> contribution R m supp s = [].
  Proof. intros H. unfold Model.contribution, Model.rows_of. now rewrite H. Qed.

  Lemma rows_of_readable (s : source) r :
    In r (rows_of s) ->
    s_supp s = false /\ s_state s <> Missing /\ s_generic s = true /\ exists rows, read_source s = Some rows /\ In r rows.
  Proof.
    unfold Model.rows_of. destruct (s_supp s); [intros []|].
    destruct (s_state s) eqn:Hst; try (intros []);
      (destruct (s_generic s); [|intros []]);
      (destruct (read_source s) as [rows|]; [|intros []]);
      intros Hin; repeat split; try discriminate; exists rows; auto.
  Qed.

  Lemma read_source_present (s : source) rows :
    read_source s = Some rows -> s_state s = Present /\ parse_source (s_settings s) (s_content s) = Some rows.
  Proof. unfold Model.read_source. destruct (s_state s); try discriminate. auto. Qed.

  Lemma txns_via_rows R m supp (ss : list source) :
    flat_map (contribution R m supp) ss
    = map (fun nr => classify R m supp (fst nr) (snd nr)) (parsed_rows ss).
  Proof.
    unfold Model.parsed_rows, Model.contribution.
    induction ss as [|s ss IH]; [reflexivity|].
    cbn [flat_map]. rewrite map_app, IH. f_equal. rewrite map_map. reflexivity.
  Qed.

  Theorem composition (b : budget) :
    let R := b_rules b in let m := b_mode b in let supp := supp_of (b_sources b) in
    (* the report's transaction list: concatenation, in configuration order, of each source's classified rows *)
    report_txns (run_up b) = concat (map (contribution R m supp) (b_sources b)) /\
    (* ... which is the row-wise image of the parsed rows *)
    report_txns (run_up b) = map (fun nr => classify R m supp (fst nr) (snd nr)) (parsed_rows (b_sources b)) /\
    (* supplemental sources contribute no transaction *)
    (forall s, In s (b_sources b) -> s_supp s = true -> contribution R m supp s = []) /\
    (* every transaction of the report is a row of a non-supplemental, present, readable source, read with
       that source's own settings and classified under the configured rules, mode and supplemental data *)
    (forall t, In t (report_txns (run_up b)) ->
       exists s rows r, In s (b_sources b) /\ s_supp s = false /\ s_state s = Present /\
                        parse_source (s_settings s) (s_content s) = Some rows /\ In r rows /\
                        t = classify R m supp (s_name s) r) /\
    (* and the report is the totals / views of exactly that list *)
    (forall t st sec ws, run_up b = Report t st sec ws ->
       st = analyze t /\ sec = option_map (fun v => group_views v (analyze t)) (b_views b)).
  Proof.
    cbn zeta. rewrite report_txns_spec. unfold all_txns. repeat split.
    - now rewrite flat_map_concat_map.
    - apply txns_via_rows.
    - intros s _ H. now apply contribution_supp.
    - intros t Hin. apply in_flat_map in Hin. destruct Hin as [s [Hs Ht]].
      unfold Model.contribution in Ht. apply in_map_iff in Ht. destruct Ht as [r [Hr Hin]].
      destruct (rows_of_readable s r Hin) as [H1 [H2 [H3 [rows [H4 H5]]]]].
      destruct (read_source_present s rows H4) as [H6 H7].
      exists s, rows, r. repeat split; auto.
    - rewrite run_up_spec in H. destruct (b_sources b); [discriminate|].
      fold (all_txns b) in *. destruct (all_txns b) eqn:E; [discriminate|]. now inversion H.
    - rewrite run_up_spec in H. destruct (b_sources b); [discriminate|].
      fold (all_txns b) in *. destruct (all_txns b) eqn:E; [discriminate|]. now inversion H.
  Qed.

  (* ------------------------------------------------------------------ frame *)
  Lemma supp_of_app l1 l2 : supp_of (l1 ++ l2) = supp_of l1 ++ supp_of l2.
  Proof. unfold Model.supp_of. now rewrite flat_map_app. Qed.

  Lemma supp_entry_nonsupp (s : source) : s_supp s = false -> supp_entry s = [].
  Proof. intros H. unfold Model.supp_entry. now rewrite H. Qed.

  Lemma supp_of_replace_nonsupp l1 (s s' : source) l2 :
    s_supp s = false -> s_supp s' = false -> supp_of (l1 ++ s' :: l2) = supp_of (l1 ++ s :: l2).
  Proof.
    intros H H'. rewrite !supp_of_app. unfold Model.supp_of at 2 4. cbn [flat_map].
    now rewrite !supp_entry_nonsupp.
  Qed.

  Lemma supp_of_remove_nonsupp l1 (s : source) l2 :
    s_supp s = false -> supp_of (l1 ++ l2) = supp_of (l1 ++ s :: l2).
  Proof.
    intros H. rewrite !supp_of_app. unfold Model.supp_of at 4. cbn [flat_map].
    now rewrite supp_entry_nonsupp.
  Qed.

  Lemma rows_of_supp (s : source) : s_supp s = true -> rows_of s = [].
  Proof. intros H. unfold Model.rows_of. now rewrite H. Qed.

  Theorem setting_frame :
    (* (a) one non-supplemental source's file or settings change: only that source's segment of the list moves *)
    (forall R m v l1 (s s' : source) l2,
        s_supp s = false -> s_supp s' = false ->
        let supp := supp_of (l1 ++ s :: l2) in
        let A := flat_map (contribution R m supp) l1 in
        let B := flat_map (contribution R m supp) l2 in
        report_txns (run_up (mkBudget (l1 ++ s :: l2) R m v)) = A ++ contribution R m supp s ++ B /\
        report_txns (run_up (mkBudget (l1 ++ s' :: l2) R m v)) = A ++ contribution R m supp s' ++ B) /\
    (* (b) rules file, rule mode, views change: the parsed rows are the same list; only their classification moves *)
    (forall ss R m v R' m' v',
        let rows := parsed_rows ss in
        let supp := supp_of ss in
        report_txns (run_up (mkBudget ss R m v)) = map (fun nr => classify R m supp (fst nr) (snd nr)) rows /\
        report_txns (run_up (mkBudget ss R' m' v')) = map (fun nr => classify R' m' supp (fst nr) (snd nr)) rows) /\
    (* (c) views change: transactions, totals and warnings are untouched *)
    (forall ss R m v v',
        report_txns (run_up (mkBudget ss R m v)) = report_txns (run_up (mkBudget ss R m v')) /\
        report_warnings (run_up (mkBudget ss R m v)) = report_warnings (run_up (mkBudget ss R m v')) /\
        (forall t st sec ws, run_up (mkBudget ss R m v) = Report t st sec ws ->
                             exists sec', run_up (mkBudget ss R m v') = Report t st sec' ws)) /\
    (* (d) a supplemental source changes: the parsed rows of the report are untouched (only rule outcomes may move) *)
    (forall l1 (s s' : source) l2, s_supp s = true -> s_supp s' = true ->
        parsed_rows (l1 ++ s' :: l2) = parsed_rows (l1 ++ s :: l2)).
  Proof.
    repeat split.
    - rewrite report_txns_spec. unfold all_txns. cbn [b_sources b_rules b_mode].
      rewrite flat_map_app. cbn [flat_map]. reflexivity.
    - rewrite report_txns_spec. unfold all_txns. cbn [b_sources b_rules b_mode].
      rewrite (supp_of_replace_nonsupp l1 s s' l2 H H0).
      rewrite flat_map_app. cbn [flat_map]. reflexivity.
    - pose proof (composition (mkBudget ss R m v)) as C. cbn zeta in C. cbn [b_sources b_rules b_mode] in C. apply C.
    - pose proof (composition (mkBudget ss R' m' v')) as C. cbn zeta in C. cbn [b_sources b_rules b_mode] in C. apply C.
    - now rewrite !report_txns_spec.
    - now rewrite !report_warnings_spec.
    - intros t st sec ws H. rewrite run_up_spec in H. rewrite run_up_spec.
      cbn [b_sources b_views] in *. destruct ss; [discriminate|].
      unfold all_txns, all_warnings in *. cbn [b_sources b_rules b_mode] in *.
      match goal with H : match ?l with _ => _ end = _ |- _ => destruct l eqn:E end; [discriminate|].
      inversion H; subst. eexists. reflexivity.
    - intros l1 s s' l2 H H'. unfold Model.parsed_rows. rewrite !flat_map_app. cbn [flat_map].
      now rewrite !rows_of_supp.
  Qed.

  (* ------------------------------------------------------------------ missing / unreadable source *)
  Lemma contribution_missing R m supp (s : source) : contribution R m supp (set_state s Missing) = [].
  Proof. unfold Model.contribution, Model.rows_of, set_state. cbn. now destruct (s_supp s). Qed.

  Lemma contribution_unreadable R m supp (s : source) : contribution R m supp (set_state s Unreadable) = [].
  Proof.
    unfold Model.contribution, Model.rows_of, Model.read_source, set_state. cbn.
    destruct (s_supp s); [reflexivity|]. now destruct (s_generic s).
  Qed.

  Lemma set_state_supp (s : source) st : s_supp (set_state s st) = s_supp s.
  Proof. reflexivity. Qed.

  Theorem missing_source_isolated :
    forall R m v l1 (s : source) l2 st,
      s_supp s = false -> st = Missing \/ (st = Unreadable /\ s_generic s = true) ->
      let b' := mkBudget (l1 ++ set_state s st :: l2) R m v in   (* the source's file is gone / cannot be read *)
      let b0 := mkBudget (l1 ++ l2) R m v in                      (* the budget without that source *)
      let supp := supp_of (l1 ++ s :: l2) in
      (* the other sources' contributions are exactly what they were *)
      report_txns (run_up b') = flat_map (contribution R m supp) l1 ++ flat_map (contribution R m supp) l2 /\
      report_txns (run_up b') = report_txns (run_up b0) /\
      (* totals and views are those of the budget without the source *)
      (forall t st' sec ws, run_up b0 = Report t st' sec ws -> exists ws', run_up b' = Report t st' sec ws') /\
      (* and the source is reported *)
      In (match st with Missing => FileNotFound (s_name s) | _ => ParseError (s_name s) end)
         (report_warnings (run_up b')).
  Proof.
    intros R m v l1 s l2 st Hs Hst. cbn zeta.
    assert (Hsupp' : supp_of (l1 ++ set_state s st :: l2) = supp_of (l1 ++ s :: l2)).
    { apply supp_of_replace_nonsupp; auto. }
    assert (Hsupp0 : supp_of (l1 ++ l2) = supp_of (l1 ++ s :: l2)).
    { now apply supp_of_remove_nonsupp. }
    assert (Hc : forall supp, contribution R m supp (set_state s st) = []).
    { intros supp. destruct Hst as [->|[-> _]]; [apply contribution_missing|apply contribution_unreadable]. }
    assert (E' : all_txns (mkBudget (l1 ++ set_state s st :: l2) R m v)
                 = flat_map (contribution R m (supp_of (l1 ++ s :: l2))) l1
                   ++ flat_map (contribution R m (supp_of (l1 ++ s :: l2))) l2).
    { unfold all_txns. cbn [b_sources b_rules b_mode]. rewrite Hsupp', flat_map_app. cbn [flat_map]. now rewrite Hc. }
    assert (E0 : all_txns (mkBudget (l1 ++ l2) R m v)
                 = flat_map (contribution R m (supp_of (l1 ++ s :: l2))) l1
                   ++ flat_map (contribution R m (supp_of (l1 ++ s :: l2))) l2).
    { unfold all_txns. cbn [b_sources b_rules b_mode]. now rewrite Hsupp0, flat_map_app. }
    repeat split.
    - now rewrite report_txns_spec.
    - now rewrite !report_txns_spec, E', E0.
    - intros t st' sec ws H. rewrite run_up_spec in H. rewrite run_up_spec. cbn [b_sources b_views] in *.
      destruct (l1 ++ l2) eqn:E12; [discriminate|]. rewrite <- E12 in *.
      destruct (l1 ++ set_state s st :: l2) eqn:E1s; [now destruct l1|]. rewrite <- E1s in *.
      rewrite E0 in H. rewrite E'.
      match goal with H : match ?l with _ => _ end = _ |- _ => destruct l eqn:E end; [discriminate|].
      inversion H; subst. eexists. reflexivity.
    - rewrite report_warnings_spec. unfold all_warnings. cbn [b_sources]. apply in_or_app. right. rewrite flat_map_app.
      apply in_or_app. right. cbn [flat_map]. apply in_or_app. left.
      unfold Model.warn, set_state, Model.read_source. cbn. rewrite Hs.
      destruct Hst as [->|[-> Hg]]; [now left|]. rewrite Hg. now left.
  Qed.

  (* ---- a supplemental source whose file is missing / unreadable (after the fix of run.py): it is reported, and the
          report is that of the budget without it (only rule outcomes that queried it can differ from before) ---- *)
  Lemma supp_entry_not_present (s : source) st : st <> Present -> supp_entry (set_state s st) = [].
  Proof.
    intros H. unfold Model.supp_entry, set_state. cbn. destruct (s_supp s); [|reflexivity].
    destruct (String.eqb (s_name s) ""); [reflexivity|]. destruct st; try reflexivity. now elim H.
  Qed.

  Lemma rows_of_set_state_supp (s : source) st : s_supp s = true -> rows_of (set_state s st) = [].
  Proof. intros H. apply rows_of_supp. exact H. Qed.

  Theorem missing_supplemental_reported :
    forall R m v l1 (s : source) l2 st,
      s_supp s = true -> st <> Present ->
      let b' := mkBudget (l1 ++ set_state s st :: l2) R m v in
      let b0 := mkBudget (l1 ++ l2) R m v in
      In (SuppNotLoaded (s_name s)) (report_warnings (run_up b')) /\
      parsed_rows (l1 ++ set_state s st :: l2) = parsed_rows (l1 ++ s :: l2) /\
      report_txns (run_up b') = report_txns (run_up b0) /\
      (forall t st' sec ws, run_up b0 = Report t st' sec ws -> exists ws', run_up b' = Report t st' sec ws').
  Proof.
    intros R m v l1 s l2 st Hs Hst. cbn zeta.
    assert (Hsupp : supp_of (l1 ++ set_state s st :: l2) = supp_of (l1 ++ l2)).
    { rewrite !supp_of_app. unfold Model.supp_of at 2. cbn [flat_map]. now rewrite (supp_entry_not_present s st Hst). }
    assert (Hc : forall supp, contribution R m supp (set_state s st) = []).
    { intros supp. apply contribution_supp. exact Hs. }
    assert (E : all_txns (mkBudget (l1 ++ set_state s st :: l2) R m v) = all_txns (mkBudget (l1 ++ l2) R m v)).
    { unfold all_txns. cbn [b_sources b_rules b_mode]. rewrite Hsupp, !flat_map_app. cbn [flat_map]. now rewrite Hc. }
    repeat split.
    - rewrite report_warnings_spec. unfold all_warnings. cbn [b_sources]. apply in_or_app. left.
      rewrite flat_map_app. apply in_or_app. right. cbn [flat_map]. apply in_or_app. left.
      unfold Model.supp_warn. rewrite set_state_supp, Hs, (supp_entry_not_present s st Hst). now left.
    - unfold Model.parsed_rows. rewrite !flat_map_app. cbn [flat_map].
      now rewrite (rows_of_set_state_supp s st Hs), (rows_of_supp s Hs).
    - now rewrite !report_txns_spec.
    - intros t st' sec ws H. rewrite run_up_spec in H. rewrite run_up_spec. cbn [b_sources b_views] in *.
      destruct (l1 ++ l2) eqn:E12; [discriminate|]. rewrite <- E12 in *.
      destruct (l1 ++ set_state s st :: l2) eqn:E1s; [now destruct l1|]. rewrite <- E1s in *.
      rewrite E.
      match goal with H : match ?l with _ => _ end = _ |- _ => destruct l eqn:E' end; [discriminate|].
      inversion H; subst. eexists. reflexivity.
  Qed.
End Proofs.
