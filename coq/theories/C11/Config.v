(* C11/Config.v — the settings-resolution decision table of config_loader.load_config (lines 262-336) and
   cli._check_merchant_migration (which rule file `tally up` then reads), as an executable model over the finite
   facts that decide it: what settings.yaml says for rule_mode / merchants_file / views_file, and which files exist.
   (--migrate is not given and stdout is not a terminal: the CSV is used as is.) *)
From Coq Require Import List Bool.
Import ListNotations.

(* what settings.yaml says for rule_mode *)
Inductive mode_key :=
| MKAbsent            (* no rule_mode key *)
| MKFirst             (* exactly the string first_match *)
| MKMost              (* exactly the string most_specific *)
| MKOther.            (* anything else: other spelling or letter case, padded, empty, null, number, boolean *)

(* the views file named by views_file *)
Inductive views_state := VMissing | VBroken (* SectionParseError *) | VGood.

Record facts := mkFacts {
  f_mode : mode_key;
  f_merchants_key : bool;     (* merchants_file: is configured (non-empty) *)
  f_merchants_exists : bool;  (* ... and that file exists *)
  f_legacy_csv : bool;        (* config/merchant_categories.csv exists *)
  f_views_key : bool;         (* views_file: is configured *)
  f_views : views_state;      (* state of the configured views file *)
  f_stray_views : bool }.     (* a config/views.rules exists although views_file names another file *)

Inductive rmode := RFirstMatch | RMostSpecific.
Inductive merchants := NoRules | NewRules (* the configured .rules file *) | LegacyCsv (* merchant_categories.csv *).
Inductive cwarning := InvalidRuleMode | MerchantsFileNotFound | ViewsFileNotFound | ViewsError.

Record resolved := mkResolved {
  r_mode : rmode; r_merchants : merchants; r_views : bool (* config['sections'] is set *); r_warnings : list cwarning }.

(* config_loader.py:264-274 *)
Definition resolve_mode (k : mode_key) : rmode * list cwarning :=
  match k with
  | MKAbsent => (RFirstMatch, [])
  | MKFirst => (RFirstMatch, [])
  | MKMost => (RMostSpecific, [])
  | MKOther => (RFirstMatch, [InvalidRuleMode])
  end.

(* config_loader.py:279-303 *)
Definition resolve_merchants (f : facts) : merchants * list cwarning :=
  if f_merchants_key f then
    if f_merchants_exists f then (NewRules, []) else (NoRules, [MerchantsFileNotFound])
  else
    if f_legacy_csv f then (LegacyCsv, []) else (NoRules, []).

(* config_loader.py:306-336 *)
Definition resolve_views (f : facts) : bool * list cwarning :=
  if f_views_key f then
    match f_views f with
    | VGood => (true, [])
    | VBroken => (false, [ViewsError])
    | VMissing => (false, [ViewsFileNotFound])
    end
  else (false, []).

(* the order of the warnings list is the order of the code: rule_mode, merchants, views *)
Definition resolve (f : facts) : resolved :=
  let '(m, w1) := resolve_mode (f_mode f) in
  let '(r, w2) := resolve_merchants f in
  let '(v, w3) := resolve_views f in
  mkResolved m r v (w1 ++ w2 ++ w3).

(* every combination of the facts: the table is finite *)
Definition all_bool := [true; false].
Definition all_facts : list facts :=
  flat_map (fun m => flat_map (fun a => flat_map (fun b => flat_map (fun c => flat_map (fun d => flat_map (fun e =>
    map (fun g => mkFacts m a b c d e g) all_bool) [VMissing; VBroken; VGood]) all_bool) all_bool) all_bool) all_bool)
    [MKAbsent; MKFirst; MKMost; MKOther].
