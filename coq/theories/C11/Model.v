(* C11/Model.v — `tally up` as a composition of stages, following the control flow of
   commands/run.py:cmd_run (lines 56-160) and config_loader.load_supplemental_sources.
   The stages themselves (reading one source with its own settings, classifying one row under the
   configured rules / rule mode / supplemental data, totalling, grouping by views) are SECTION
   VARIABLES: they are the subject of C05, C01/C02/C09, C06, C10, C12.  What is modelled here is
   the glue, and the glue is hand-modelled: its tie to the code is the whole-command
   correspondence of harness/c11.py. *)
From Coq Require Import String List Bool.
From Tally Require Import Lib.Str.
Import ListNotations.

Inductive state := Present | Missing | Unreadable.
Inductive mode := FirstMatch | MostSpecific.
Inductive warning :=
| FileNotFound (name : string)      (* run.py:100-103 *)
| UnknownParser (name : string)     (* run.py:122-126 *)
| ParseError (name : string)        (* run.py:127-130 *)
| SuppNotLoaded (name : string).    (* run.py: a supplemental source that load_supplemental_sources did not load
                                       (missing, unreadable or empty) is named before the per-source loop *)

Section Up.
  Variables Settings Content Row Txn Rules SuppRow Stats Views Sections : Type.

  Record source := mkSource {
    s_name : string;
    s_supp : bool;            (* supplemental: true *)
    s_generic : bool;         (* _parser_type = 'generic' with a format spec (resolve_source_format) *)
    s_settings : Settings;    (* format string, delimiter, has_header, decimal_separator, sign *)
    s_state : state;          (* the data file: there / not there / there but open() or decoding raises *)
    s_content : Content }.

  Record budget := mkBudget {
    b_sources : list source; b_rules : Rules; b_mode : mode; b_views : option Views }.

  Definition supp_data := list (string * list SuppRow).

  (* ---- the stages (oracles) ---- *)
  Variable parse_source : Settings -> Content -> option (list Row).       (* None: the parser raised *)
  Variable load_supp : Settings -> Content -> option (list SuppRow).      (* None: the loader raised *)
  Variable classify : Rules -> mode -> supp_data -> string -> Row -> Txn. (* transforms + rule engine, per row *)
  Variable analyze : list Txn -> Stats.
  Variable group_views : Views -> Stats -> Sections.

  Definition read_source (s : source) : option (list Row) :=
    match s_state s with Present => parse_source (s_settings s) (s_content s) | _ => None end.

  (* load_supplemental_sources: config_loader.py:363-455 *)
  Definition supp_entry (s : source) : supp_data :=
    if s_supp s then
      if String.eqb (s_name s) "" then [] else
      match s_state s with
      | Missing => []
      | Unreadable => []
      | Present =>
          if s_generic s then
            match load_supp (s_settings s) (s_content s) with
            | Some (r :: rs) => [(lower (s_name s), r :: rs)]
            | _ => []
            end
          else []
      end
    else [].
  Definition supp_of (ss : list source) : supp_data := flat_map supp_entry ss.
  (* run.py, after load_supplemental_sources: every supplemental source whose (lower-cased) name is not a key of
     the loaded data is reported *)
  Definition supp_warn (s : source) : list warning :=
    if s_supp s then match supp_entry s with [] => [SuppNotLoaded (s_name s)] | _ => [] end else [].

  (* the for-loop of cmd_run (run.py:88-134), accumulators as in the code *)
  Fixpoint loop (R : Rules) (m : mode) (supp : supp_data) (ss : list source)
           (acc : list Txn) (ws : list warning) : list Txn * list warning :=
    match ss with
    | [] => (acc, ws)
    | s :: rest =>
        if s_supp s then loop R m supp rest acc ws                                   (* continue *)
        else match s_state s with
             | Missing => loop R m supp rest acc (ws ++ [FileNotFound (s_name s)])   (* continue *)
             | _ =>
                 if s_generic s then
                   match read_source s with
                   | Some rows => loop R m supp rest (acc ++ map (classify R m supp (s_name s)) rows) ws
                   | None => loop R m supp rest acc (ws ++ [ParseError (s_name s)])  (* except Exception: continue *)
                   end
                 else loop R m supp rest acc (ws ++ [UnknownParser (s_name s)])
             end
    end.

  Inductive outcome :=
  | ErrNoSources                                  (* run.py:62-70, exit 1 *)
  | ErrNoTransactions (ws : list warning)         (* run.py:136-138, exit 1 *)
  | Report (txns : list Txn) (stats : Stats) (sections : option Sections) (ws : list warning).

  Definition run_up (b : budget) : outcome :=
    match b_sources b with
    | [] => ErrNoSources
    | ss =>
        let supp := supp_of ss in
        let '(txns, ws) := loop (b_rules b) (b_mode b) supp ss [] (flat_map supp_warn ss) in
        match txns with
        | [] => ErrNoTransactions ws
        | _ => let st := analyze txns in
               Report txns st (option_map (fun v => group_views v st) (b_views b)) ws
        end
    end.

  Definition report_txns (o : outcome) : list Txn := match o with Report t _ _ _ => t | _ => [] end.
  Definition report_warnings (o : outcome) : list warning :=
    match o with Report _ _ _ w => w | ErrNoTransactions w => w | ErrNoSources => [] end.

  (* ---- the specification side: what each source contributes ---- *)
  Definition rows_of (s : source) : list Row :=
    if s_supp s then [] else
    match s_state s with
    | Missing => []
    | _ => if s_generic s then match read_source s with Some rows => rows | None => [] end else []
    end.
  Definition contribution (R : Rules) (m : mode) (supp : supp_data) (s : source) : list Txn :=
    map (classify R m supp (s_name s)) (rows_of s).
  Definition warn (s : source) : list warning :=
    if s_supp s then [] else
    match s_state s with
    | Missing => [FileNotFound (s_name s)]
    | _ => if s_generic s then match read_source s with Some _ => [] | None => [ParseError (s_name s)] end
           else [UnknownParser (s_name s)]
    end.
  (* the parsed rows, tagged with the name of the source they came from: governed by the sources alone *)
  Definition parsed_rows (ss : list source) : list (string * Row) :=
    flat_map (fun s => map (pair (s_name s)) (rows_of s)) ss.

  Definition set_state (s : source) (st : state) : source :=
    mkSource (s_name s) (s_supp s) (s_generic s) (s_settings s) st (s_content s).
End Up.

Arguments mkSource {Settings Content}.
Arguments mkBudget {Settings Content Rules Views}.
Arguments s_name {Settings Content}.
Arguments s_supp {Settings Content}.
Arguments s_generic {Settings Content}.
Arguments s_settings {Settings Content}.
Arguments s_state {Settings Content}.
Arguments s_content {Settings Content}.
Arguments b_sources {Settings Content Rules Views}.
Arguments b_rules {Settings Content Rules Views}.
Arguments b_mode {Settings Content Rules Views}.
Arguments b_views {Settings Content Rules Views}.
Arguments ErrNoSources {Txn Stats Sections}.
Arguments ErrNoTransactions {Txn Stats Sections}.
Arguments Report {Txn Stats Sections}.
Arguments report_txns {Txn Stats Sections}.
Arguments report_warnings {Txn Stats Sections}.
Arguments set_state {Settings Content}.
Arguments read_source {Settings Content Row}.
Arguments supp_entry {Settings Content SuppRow}.
Arguments supp_of {Settings Content SuppRow}.
Arguments supp_warn {Settings Content SuppRow}.
Arguments loop {Settings Content Row Txn Rules SuppRow}.
Arguments run_up {Settings Content Row Txn Rules SuppRow Stats Views Sections}.
Arguments rows_of {Settings Content Row}.
Arguments contribution {Settings Content Row Txn Rules SuppRow}.
Arguments warn {Settings Content Row}.
Arguments parsed_rows {Settings Content Row}.
