(* C11 — `tally up` honours every setting: report = totals(classify(parse(sources))).
   The theorems hold for ALL budgets and ALL stage functions (parse_source, load_supp, classify,
   analyze, group_views are universally quantified): they say that cmd_run's loop, as modelled in
   C11/Model.v, is exactly `analyze (concat (map (classify ∘ parse_source) non-supplemental readable
   sources))`, that a change to one source / one setting moves only the segment it governs, and that a
   missing or unreadable source — a supplemental one included, since the fix of commands/run.py that names
   every supplemental source that could not be loaded — is reported and removes nothing else.
   PARTIAL: the loop is a HAND model of commands/run.py (the glue is modelled, not verified, and the
   stages are parameters proved elsewhere: C05 rows, C01/C02/C09 engine, C06 totals, C10 views, C12
   report).  The weight of C11 is therefore on the tie: harness/c11.py runs the real CLI on generated
   budget directories (fresh process per command) against the same composition built from the real
   stage functions, plus setting-frame and missing-source metamorphic runs. *)
From Coq Require Import String List Bool.
From Tally Require Import Lib.Str C11.Model C11.Proofs C11.Config C11.ConfigProofs.
Import ListNotations.
Open Scope list_scope.

Theorem c11_composition :
  forall (Settings Content Row Txn Rules SuppRow Stats Views Sections : Type)
         (parse_source : Settings -> Content -> option (list Row))
         (load_supp : Settings -> Content -> option (list SuppRow))
         (classify : Rules -> mode -> supp_data SuppRow -> string -> Row -> Txn)
         (analyze : list Txn -> Stats) (group_views : Views -> Stats -> Sections)
         (b : budget Settings Content Rules Views),
    let run := run_up parse_source load_supp classify analyze group_views in
    let R := b_rules b in let m := b_mode b in let supp := supp_of load_supp (b_sources b) in
    report_txns (run b) = concat (map (contribution parse_source classify R m supp) (b_sources b)) /\
    report_txns (run b) = map (fun nr => classify R m supp (fst nr) (snd nr)) (parsed_rows parse_source (b_sources b)) /\
    (forall s, In s (b_sources b) -> s_supp s = true -> contribution parse_source classify R m supp s = []) /\
    (forall t, In t (report_txns (run b)) ->
       exists s rows r, In s (b_sources b) /\ s_supp s = false /\ s_state s = Present /\
                        parse_source (s_settings s) (s_content s) = Some rows /\ In r rows /\
                        t = classify R m supp (s_name s) r) /\
    (forall t st sec ws, run b = Report t st sec ws ->
       st = analyze t /\ sec = option_map (fun v => group_views v (analyze t)) (b_views b)).
Proof. exact composition. Qed.
Print Assumptions c11_composition.

Theorem c11_setting_frame :
  forall (Settings Content Row Txn Rules SuppRow Stats Views Sections : Type)
         (parse_source : Settings -> Content -> option (list Row))
         (load_supp : Settings -> Content -> option (list SuppRow))
         (classify : Rules -> mode -> supp_data SuppRow -> string -> Row -> Txn)
         (analyze : list Txn -> Stats) (group_views : Views -> Stats -> Sections),
    let run := run_up parse_source load_supp classify analyze group_views in
    let contr := contribution parse_source classify in
    (* (a) one source's file or settings *)
    (forall R m v l1 (s s' : source Settings Content) l2,
        s_supp s = false -> s_supp s' = false ->
        let supp := supp_of load_supp (l1 ++ s :: l2) in
        let A := flat_map (contr R m supp) l1 in
        let B := flat_map (contr R m supp) l2 in
        report_txns (run (mkBudget (l1 ++ s :: l2) R m v)) = A ++ contr R m supp s ++ B /\
        report_txns (run (mkBudget (l1 ++ s' :: l2) R m v)) = A ++ contr R m supp s' ++ B) /\
    (* (b) rules file / rule mode / views *)
    (forall ss R m v R' m' v',
        let rows := parsed_rows parse_source ss in
        let supp := supp_of load_supp ss in
        report_txns (run (mkBudget ss R m v)) = map (fun nr => classify R m supp (fst nr) (snd nr)) rows /\
        report_txns (run (mkBudget ss R' m' v')) = map (fun nr => classify R' m' supp (fst nr) (snd nr)) rows) /\
    (* (c) views only *)
    (forall ss R m v v',
        report_txns (run (mkBudget ss R m v)) = report_txns (run (mkBudget ss R m v')) /\
        report_warnings (run (mkBudget ss R m v)) = report_warnings (run (mkBudget ss R m v')) /\
        (forall t st sec ws, run (mkBudget ss R m v) = Report t st sec ws ->
                             exists sec', run (mkBudget ss R m v') = Report t st sec' ws)) /\
    (* (d) a supplemental source *)
    (forall l1 (s s' : source Settings Content) l2, s_supp s = true -> s_supp s' = true ->
        parsed_rows parse_source (l1 ++ s' :: l2) = parsed_rows parse_source (l1 ++ s :: l2)).
Proof. exact setting_frame. Qed.
Print Assumptions c11_setting_frame.

Theorem c11_missing_source_isolated :
  forall (Settings Content Row Txn Rules SuppRow Stats Views Sections : Type)
         (parse_source : Settings -> Content -> option (list Row))
         (load_supp : Settings -> Content -> option (list SuppRow))
         (classify : Rules -> mode -> supp_data SuppRow -> string -> Row -> Txn)
         (analyze : list Txn -> Stats) (group_views : Views -> Stats -> Sections)
         R m v l1 (s : source Settings Content) l2 st,
    let run := run_up parse_source load_supp classify analyze group_views in
    let contr := contribution parse_source classify in
    let b' := mkBudget (l1 ++ set_state s st :: l2) R m v in    (* the source's file is gone / cannot be read *)
    let b0 := mkBudget (l1 ++ l2) R m v in                       (* the budget without that source *)
    (* a transaction source *)
    (s_supp s = false -> st = Missing \/ (st = Unreadable /\ s_generic s = true) ->
       let supp := supp_of load_supp (l1 ++ s :: l2) in
       report_txns (run b') = flat_map (contr R m supp) l1 ++ flat_map (contr R m supp) l2 /\
       report_txns (run b') = report_txns (run b0) /\
       (forall t st' sec ws, run b0 = Report t st' sec ws -> exists ws', run b' = Report t st' sec ws') /\
       In (match st with Missing => FileNotFound (s_name s) | _ => ParseError (s_name s) end)
          (report_warnings (run b'))) /\
    (* a supplemental (query-only) source: it is reported too, the parsed rows are untouched and the report is
       that of the budget without it *)
    (s_supp s = true -> st <> Present ->
       In (SuppNotLoaded (s_name s)) (report_warnings (run b')) /\
       parsed_rows parse_source (l1 ++ set_state s st :: l2) = parsed_rows parse_source (l1 ++ s :: l2) /\
       report_txns (run b') = report_txns (run b0) /\
       (forall t st' sec ws, run b0 = Report t st' sec ws -> exists ws', run b' = Report t st' sec ws')).
Proof.
  intros. split; intros.
  - now apply missing_source_isolated.
  - now apply missing_supplemental_reported.
Qed.
Print Assumptions c11_missing_source_isolated.

(* ---- which rule mode, rule file and views `tally up` runs with: the decision table of config_loader.load_config, as an
        executable model (C11/Config.v) over the finite facts that decide it.  The table has 384 rows; the theorems hold for
        every row, and harness/c11.py runs load_config itself on every row and compares inside Coq. ---- *)
Theorem c11_config_resolution :
  forall f : facts,
    let r := resolve f in
    (* rule mode: most_specific only when spelled exactly so; any other value is reported and means first_match *)
    (r_mode r = RMostSpecific <-> f_mode f = MKMost) /\
    (In InvalidRuleMode (r_warnings r) <-> f_mode f = MKOther) /\
    (* rules: the configured merchants_file when it exists; when it is configured but missing NO rules (and a warning),
       whatever else lies in config/; the legacy merchant_categories.csv only when no merchants_file is configured *)
    (r_merchants r = NewRules <-> f_merchants_key f = true /\ f_merchants_exists f = true) /\
    (r_merchants r = LegacyCsv <-> f_merchants_key f = false /\ f_legacy_csv f = true) /\
    (In MerchantsFileNotFound (r_warnings r) <-> f_merchants_key f = true /\ f_merchants_exists f = false) /\
    (* views: only the configured views_file, only if it is there and parses; a stray config/views.rules never counts *)
    (r_views r = true <-> f_views_key f = true /\ f_views f = VGood) /\
    (In ViewsFileNotFound (r_warnings r) <-> f_views_key f = true /\ f_views f = VMissing) /\
    (In ViewsError (r_warnings r) <-> f_views_key f = true /\ f_views f = VBroken).
Proof. exact resolution_table. Qed.
Print Assumptions c11_config_resolution.

(* each resolved component is governed by its own keys/files only *)
Theorem c11_config_frame :
  forall f g : facts,
    (f_mode f = f_mode g -> r_mode (resolve f) = r_mode (resolve g)) /\
    (f_merchants_key f = f_merchants_key g /\ f_merchants_exists f = f_merchants_exists g /\ f_legacy_csv f = f_legacy_csv g ->
       r_merchants (resolve f) = r_merchants (resolve g)) /\
    (f_views_key f = f_views_key g /\ f_views f = f_views g -> r_views (resolve f) = r_views (resolve g)).
Proof. exact resolve_frame. Qed.
Print Assumptions c11_config_frame.

(* the table is finite and complete: a boolean check over all rows IS a proof about every configuration *)
Theorem c11_config_table_complete : (forall f, In f all_facts) /\ length all_facts = 384 /\ forallb spec_ok all_facts = true.
Proof. exact (conj all_facts_complete (conj all_facts_length spec_ok_table)). Qed.
Print Assumptions c11_config_table_complete.

Example c11_config_example :     (* First_Match is not first_match; a missing merchants_file is not replaced by a stray CSV *)
  resolve (mkFacts MKOther true false true true VMissing true)
  = mkResolved RFirstMatch NoRules false [InvalidRuleMode; MerchantsFileNotFound; ViewsFileNotFound].
Proof. reflexivity. Qed.

(* ---- non-vacuity: a concrete instance (rows are numbers, a transaction is (source, row, rule-mode),
        totals = number of transactions) with a supplemental, a missing and an unreadable source ---- *)
Definition ex_parse (st : nat) (c : list nat) : option (list nat) := Some (map (Nat.add st) c).
Definition ex_supp (st : nat) (c : list nat) : option (list nat) := Some c.
Definition ex_classify (R : nat) (m : mode) (sd : supp_data nat) (n : string) (r : nat) : string * nat * nat :=
  (n, r, R + length sd).
Definition ex_src n sp st c : source nat (list nat) := mkSource n sp true 100 st c.
Definition ex_budget : budget nat (list nat) nat nat :=
  mkBudget [ex_src "A" false Present [1; 2]; ex_src "Orders" true Present [7]; ex_src "B" false Missing [3];
            ex_src "C" false Unreadable [4]; ex_src "D" false Present [5]] 10 MostSpecific (Some 0).
Example c11_example :
  run_up ex_parse ex_supp ex_classify (@length _) (fun v st => v + st) ex_budget
  = Report [("A", 101, 11); ("A", 102, 11); ("D", 105, 11)]%string 3 (Some 3) [FileNotFound "B"; ParseError "C"].
Proof. vm_compute. reflexivity. Qed.
(* hypotheses of c11_missing_source_isolated are satisfiable: "D" of the example going missing *)
Example c11_example_missing :
  let s := ex_src "D" false Present [5] in
  s_supp s = false /\
  report_txns (run_up ex_parse ex_supp ex_classify (@length _) (fun v st => v + st)
                      (mkBudget [ex_src "A" false Present [1; 2]; set_state s Missing] 10 FirstMatch None))
  = [("A", 101, 10); ("A", 102, 10)]%string.
Proof. vm_compute. split; reflexivity. Qed.
(* ... and the supplemental clause: "Orders" of the example losing its file is reported (and rule outcomes that
   looked at it change: the third component drops from 11 to 10) *)
Example c11_example_missing_supplemental :
  run_up ex_parse ex_supp ex_classify (@length _) (fun v st => v + st)
         (mkBudget [ex_src "A" false Present [1]; set_state (ex_src "Orders" true Present [7]) Missing] 10 FirstMatch None)
  = Report [("A", 101, 10)]%string 1 None [SuppNotLoaded "Orders"].
Proof. vm_compute. reflexivity. Qed.
