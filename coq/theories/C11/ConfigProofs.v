(* C11/ConfigProofs.v — the resolved configuration is exactly the documented function of the settings keys and of
   which files exist; proved over the whole (finite) table. *)
From Coq Require Import List Bool.
From Tally Require Import C11.Config.
Import ListNotations.

Lemma all_bool_complete : forall b, In b all_bool.
Proof. intros []; cbn; tauto. Qed.

Lemma all_facts_complete : forall f, In f all_facts.
Proof.
  intros [m a b c d e g]. unfold all_facts.
  apply in_flat_map. exists m. split; [destruct m; cbn; tauto|].
  apply in_flat_map. exists a. split; [apply all_bool_complete|].
  apply in_flat_map. exists b. split; [apply all_bool_complete|].
  apply in_flat_map. exists c. split; [apply all_bool_complete|].
  apply in_flat_map. exists d. split; [apply all_bool_complete|].
  apply in_flat_map. exists e. split; [destruct e; cbn; tauto|].
  apply in_map_iff. exists g. split; [reflexivity|apply all_bool_complete].
Qed.

Lemma all_facts_length : length all_facts = 384.
Proof. reflexivity. Qed.

(* the documented behaviour, stated independently of the code's if/else nesting *)
Definition spec_ok (f : facts) : bool :=
  let r := resolve f in
  (* rule mode: most_specific only when spelled exactly; a warning exactly when the key is there and not legal *)
  (match r_mode r, f_mode f with RMostSpecific, MKMost => true | RFirstMatch, MKMost => false | RMostSpecific, _ => false | RFirstMatch, _ => true end)
  && Bool.eqb (existsb (fun w => match w with InvalidRuleMode => true | _ => false end) (r_warnings r))
              (match f_mode f with MKOther => true | _ => false end)
  (* rules: the configured file when it exists; nothing (and a warning) when it is configured but missing, whatever
     else lies in config/; the legacy CSV only when no merchants_file is configured *)
  && (match r_merchants r with
      | NewRules => f_merchants_key f && f_merchants_exists f
      | LegacyCsv => negb (f_merchants_key f) && f_legacy_csv f
      | NoRules => (f_merchants_key f && negb (f_merchants_exists f)) || (negb (f_merchants_key f) && negb (f_legacy_csv f))
      end)
  && Bool.eqb (existsb (fun w => match w with MerchantsFileNotFound => true | _ => false end) (r_warnings r))
              (f_merchants_key f && negb (f_merchants_exists f))
  (* views: only the configured file, and only if it is there and parses; a stray config/views.rules never counts *)
  && Bool.eqb (r_views r) (f_views_key f && match f_views f with VGood => true | _ => false end)
  && Bool.eqb (existsb (fun w => match w with ViewsFileNotFound => true | _ => false end) (r_warnings r))
              (f_views_key f && match f_views f with VMissing => true | _ => false end)
  && Bool.eqb (existsb (fun w => match w with ViewsError => true | _ => false end) (r_warnings r))
              (f_views_key f && match f_views f with VBroken => true | _ => false end).

Lemma spec_ok_table : forallb spec_ok all_facts = true.
Proof. vm_compute. reflexivity. Qed.

Lemma spec_ok_all : forall f, spec_ok f = true.
Proof. intros f. exact (proj1 (forallb_forall spec_ok all_facts) spec_ok_table f (all_facts_complete f)). Qed.

(* each resolved component depends only on its own facts (frame) *)
Definition same_mode_facts (f g : facts) := f_mode f = f_mode g.
Definition same_merchant_facts (f g : facts) :=
  f_merchants_key f = f_merchants_key g /\ f_merchants_exists f = f_merchants_exists g /\ f_legacy_csv f = f_legacy_csv g.
Definition same_views_facts (f g : facts) := f_views_key f = f_views_key g /\ f_views f = f_views g.

Lemma resolve_components (f : facts) :
  r_mode (resolve f) = fst (resolve_mode (f_mode f)) /\
  r_merchants (resolve f) = fst (resolve_merchants f) /\
  r_views (resolve f) = fst (resolve_views f).
Proof.
  unfold resolve. destruct (resolve_mode (f_mode f)), (resolve_merchants f), (resolve_views f). cbn. auto.
Qed.

Lemma resolve_frame (f g : facts) :
  (same_mode_facts f g -> r_mode (resolve f) = r_mode (resolve g)) /\
  (same_merchant_facts f g -> r_merchants (resolve f) = r_merchants (resolve g)) /\
  (same_views_facts f g -> r_views (resolve f) = r_views (resolve g)).
Proof.
  destruct (resolve_components f) as [A [B C]], (resolve_components g) as [A' [B' C']].
  rewrite A, B, C, A', B', C'. unfold same_mode_facts, same_merchant_facts, same_views_facts.
  repeat split.
  - intros ->. reflexivity.
  - intros [H1 [H2 H3]]. unfold resolve_merchants. now rewrite H1, H2, H3.
  - intros [H1 H2]. unfold resolve_views. now rewrite H1, H2.
Qed.

(* the same table, as propositions *)
Lemma resolution_table (f : facts) :
  let r := resolve f in
  (r_mode r = RMostSpecific <-> f_mode f = MKMost) /\
  (In InvalidRuleMode (r_warnings r) <-> f_mode f = MKOther) /\
  (r_merchants r = NewRules <-> f_merchants_key f = true /\ f_merchants_exists f = true) /\
  (r_merchants r = LegacyCsv <-> f_merchants_key f = false /\ f_legacy_csv f = true) /\
  (In MerchantsFileNotFound (r_warnings r) <-> f_merchants_key f = true /\ f_merchants_exists f = false) /\
  (r_views r = true <-> f_views_key f = true /\ f_views f = VGood) /\
  (In ViewsFileNotFound (r_warnings r) <-> f_views_key f = true /\ f_views f = VMissing) /\
  (In ViewsError (r_warnings r) <-> f_views_key f = true /\ f_views f = VBroken).
Proof.
  destruct f as [m a b c d e g].
  destruct m, a, b, c, d, e; cbn; repeat split; intros; repeat match goal with H : _ /\ _ |- _ => destruct H | H : _ \/ _ |- _ => destruct H end;
    try discriminate; try tauto; auto.
Qed.
