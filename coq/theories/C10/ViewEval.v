(* C10/ViewEval.v — executable model of the VIEW evaluator (expr_parser.ExpressionContext +
   ExpressionEvaluator) and of the glue around it (analyzer.classify_by_sections rebuilding each
   merchant's transactions, section_engine.evaluate_variables / evaluate_section_filter).

   Numbers are exact rationals with an exactness flag (true: the value is known to be exactly the
   IEEE double / int CPython holds; false: CPython holds a rounded neighbour).  Square roots stay
   symbolic ([VRoot neg q] = (-1)^neg * sqrt q): cv and stddev() are compared by squaring.  Whenever
   a decision (comparison, truth value, division-by-zero test) involves an inexact operand closer
   than 1e-9 to the threshold, evaluation stops with [Unmod RNear]: the harness discards and counts
   those evaluations.  [Unmod _] in general = outside the modelled fragment (never compared).
   CPython's expression PARSER is not modelled: the harness sends the AST it obtained from ast.parse. *)
From Coq Require Import String Ascii List Bool ZArith QArith Qabs Qround.
From Tally Require Import Lib.Str Lib.NumOps Gen.ClassificationPy C10.Model.
Import ListNotations.
Open Scope Q_scope.

(* ---- syntax (what ast.parse + validate_ast let through) ------------------------------------ *)
Inductive const := CNum (q : Q) | CStr (s : string) | CBool (b : bool) | CNone.
Inductive binop := Add | Sub | Mult | Div | Mod.
Inductive unop := Not | USub.
Inductive cmpop := CEq | CNe | CLt | CLe | CGt | CGe | CIn | CNotIn.

Inductive expr :=
| EConst (c : const)
| EName (id : string)                        (* identifier as written *)
| EBoolOp (is_and : bool) (args : list expr)
| EBin (op : binop) (a b : expr)
| EUn (op : unop) (a : expr)
| ECmp (a : expr) (rest : list (cmpop * expr))
| ECall (f : option string) (args : list expr)   (* None: the callee is not a plain name *)
| EIf (c a b : expr)                         (* a if c else b *)
| EUnsup.                                    (* Attribute, Subscript, ListComp, GeneratorExp, NamedExpr:
                                                allowed by validate_ast, no _eval_ method -> ExpressionError *)

(* ---- values and results ------------------------------------------------------------------- *)
Inductive value :=
| VNone
| VBool (b : bool)
| VNum (q : Q) (exact : bool)                (* int or float *)
| VRoot (neg : bool) (q : Q)                 (* (-1)^neg * sqrt q, q >= 0; never exact *)
| VStr (s : string)
| VList (l : list value)
| VSet (l : list string).                    (* duplicate-free *)

Inductive reason := RNear | RRoot | RRound | RMod | RType.
Inductive res (A : Type) :=
| Val (a : A)
| ExprErr                                    (* expr_parser.ExpressionError *)
| Crash                                      (* any other Python exception *)
| Unmod (r : reason).                        (* outside the modelled fragment / too close to call *)
Arguments Val {A}. Arguments ExprErr {A}. Arguments Crash {A}. Arguments Unmod {A}.

Definition bind {A B} (x : res A) (f : A -> res B) : res B :=
  match x with Val a => f a | ExprErr => ExprErr | Crash => Crash | Unmod r => Unmod r end.
Notation "x <- a ;; b" := (bind a (fun x => b)) (at level 61, a at next level, right associativity).

(* ---- rationals ------------------------------------------------------------------------------ *)
Definition qlt (a b : Q) : bool := (Qnum a * QDen b <? Qnum b * QDen a)%Z.
Definition qle (a b : Q) : bool := (Qnum a * QDen b <=? Qnum b * QDen a)%Z.
Definition qeq (a b : Q) : bool := (Qnum a * QDen b =? Qnum b * QDen a)%Z.
Definition qmax (a b : Q) : Q := if qlt a b then b else a.
Definition qcmp (a b : Q) : comparison := (Qnum a * QDen b ?= Qnum b * QDen a)%Z.

Fixpoint pow2 (p : positive) : bool := match p with xH => true | xO p' => pow2 p' | xI _ => false end.
(* is the (reduced) rational a binary64 value?  |num| < 2^53, denominator 2^k, k <= 900 *)
Definition fits (q : Q) : bool :=
  (pow2 (Qden q) && (Z.abs (Qnum q) <? 9007199254740992)%Z && (Z.log2 (Zpos (Qden q)) <=? 900)%Z)%bool.
Definition num (q : Q) (ex : bool) : value := let r := Qred q in VNum r (ex && fits r).

Definition eps : Q := 1 # 1000000000.
Definition near (a b : Q) : bool := qle (Qabs (a - b)) (eps * qmax 1 (qmax (Qabs a) (Qabs b))).

(* ---- signed square roots ------------------------------------------------------------------ *)
(* compare (-1)^neg*sqrt q with the rational r, exactly *)
Definition root_cmp_rat (neg : bool) (q r : Q) : comparison :=
  if neg then (if qlt 0 r then Lt else qcmp (r * r) q)      (* -sqrt q vs r<=0 : -sqrt q < r <-> r^2 < q *)
  else (if qlt r 0 then Gt else qcmp q (r * r)).
Definition root_near_rat (neg : bool) (q r : Q) : bool :=
  let d := (2 # 1) * eps * qmax 1 (Qabs r) in
  match root_cmp_rat neg q (r - d), root_cmp_rat neg q (r + d) with
  | Gt, Lt => true | Eq, _ => true | _, Eq => true | _, _ => false
  end.
Definition root_cmp_root (n1 : bool) (q1 : Q) (n2 : bool) (q2 : Q) : comparison :=
  match n1, n2 with
  | false, false => qcmp q1 q2
  | true, true => qcmp q2 q1
  | false, true => if (qeq q1 0 && qeq q2 0)%bool then Eq else Gt
  | true, false => if (qeq q1 0 && qeq q2 0)%bool then Eq else Lt
  end.
Definition root_near_root (n1 : bool) (q1 : Q) (n2 : bool) (q2 : Q) : bool :=
  if Bool.eqb n1 n2 then qle (Qabs (q1 - q2)) ((4 # 1) * eps * qmax 1 (qmax q1 q2))
  else (qle q1 (eps * eps) && qle q2 (eps * eps))%bool.

(* ---- numeric views of values ---------------------------------------------------------------- *)
Inductive numv := NQ (q : Q) (ex : bool) | NR (neg : bool) (q : Q).
Definition as_num (v : value) : option numv :=
  match v with
  | VNum q ex => Some (NQ q ex)
  | VBool b => Some (NQ (if b then 1 else 0) true)
  | VRoot n q => Some (NR n q)
  | _ => None
  end.

(* three-way comparison of two numbers as CPython sees them; too close with an inexact side -> RNear *)
Definition num_cmp (a b : numv) : res comparison :=
  match a, b with
  | NQ x ex, NQ y ey =>
      if (ex && ey)%bool then Val (qcmp x y) else if near x y then Unmod RNear else Val (qcmp x y)
  | NR n q, NQ y _ => if root_near_rat n q y then Unmod RNear else Val (root_cmp_rat n q y)
  | NQ x _, NR n q => if root_near_rat n q x then Unmod RNear else Val (CompOpp (root_cmp_rat n q x))
  | NR n1 q1, NR n2 q2 => if root_near_root n1 q1 n2 q2 then Unmod RNear else Val (root_cmp_root n1 q1 n2 q2)
  end.

Definition is_zero_num (a : numv) : res bool :=
  c <- num_cmp a (NQ 0 true) ;; Val (match c with Eq => true | _ => false end).

(* ---- truth value (bool(x)) --------------------------------------------------------------- *)
Definition truthy (v : value) : res bool :=
  match v with
  | VNone => Val false
  | VBool b => Val b
  | VStr s => Val (negb (String.eqb s ""))
  | VList l => Val (match l with [] => false | _ => true end)
  | VSet l => Val (match l with [] => false | _ => true end)
  | VNum _ _ | VRoot _ _ =>
      match as_num v with Some n => z <- is_zero_num n ;; Val (negb z) | None => Val false end
  end.

(* ---- arithmetic ------------------------------------------------------------------------------ *)
Definition qsq (q : Q) : Q := q * q.
Definition is_neg (q : Q) : bool := qlt q 0.

Definition n_add (a b : numv) : res value :=
  match a, b with
  | NQ x ex, NQ y ey => Val (num (x + y) (ex && ey))
  | _, _ => Unmod RRoot
  end.
Definition n_sub (a b : numv) : res value :=
  match a, b with
  | NQ x ex, NQ y ey => Val (num (x - y) (ex && ey))
  | _, _ => Unmod RRoot
  end.
Definition n_mul (a b : numv) : res value :=
  match a, b with
  | NQ x ex, NQ y ey => Val (num (x * y) (ex && ey))
  | NR n q, NQ y ey | NQ y ey, NR n q =>
      if (ey && qeq y 0)%bool then Val (VNum 0 true)
      else if qeq y 0 then Unmod RNear
      else Val (VRoot (xorb n (is_neg y)) (Qred (q * qsq y)))
  | NR n1 q1, NR n2 q2 => Val (VRoot (xorb n1 n2) (Qred (q1 * q2)))
  end.
(* the divisor is known not to be (near) zero here *)
Definition n_div (a b : numv) : res value :=
  match a, b with
  | NQ x ex, NQ y ey => Val (num (x / y) (ex && ey))
  | NR n q, NQ y _ => Val (VRoot (xorb n (is_neg y)) (Qred (q / qsq y)))
  | NQ x ex, NR n q =>
      if (ex && qeq x 0)%bool then Val (VNum 0 true)
      else if qeq x 0 then Unmod RNear
      else Val (VRoot (xorb n (is_neg x)) (Qred (qsq x / q)))
  | NR n1 q1, NR n2 q2 => Val (VRoot (xorb n1 n2) (Qred (q1 / q2)))
  end.
(* CPython's % on ints and floats: result has the sign of the divisor; exact operands only *)
Definition n_mod (a b : numv) : res value :=
  match a, b with
  | NQ x true, NQ y true => Val (num (x - y * inject_Z (Qfloor (x / y))) true)
  | _, _ => Unmod RMod
  end.

Definition is_seq (v : value) : bool := match v with VStr _ | VList _ => true | _ => false end.

Definition binop_eval (op : binop) (x y : value) : res value :=
  match op with
  | Add =>
      match x, y with
      | VStr a, VStr b => Val (VStr (a ++ b))
      | VList a, VList b => Val (VList (a ++ b)%list)
      | _, _ => match as_num x, as_num y with Some a, Some b => n_add a b | _, _ => Crash end
      end
  | Sub =>
      match x, y with
      | VSet _, VSet _ => Unmod RType                       (* set difference *)
      | _, _ => match as_num x, as_num y with Some a, Some b => n_sub a b | _, _ => Crash end
      end
  | Mult =>
      match as_num x, as_num y with
      | Some a, Some b => n_mul a b
      | Some (NQ _ _), None => if is_seq y then Unmod RType else Crash   (* "ab" * 2 vs "ab" * 2.0 *)
      | None, Some (NQ _ _) => if is_seq x then Unmod RType else Crash
      | _, _ => Crash
      end
  | Div =>
      (* `if right == 0: return 0` comes first, whatever the left operand is *)
      match as_num y with
      | Some b => z <- is_zero_num b ;;
                  if z then Val (VNum 0 true)
                  else match as_num x with Some a => n_div a b | None => Crash end
      | None => Crash
      end
  | Mod =>
      match as_num y with
      | Some b => z <- is_zero_num b ;;
                  if z then Val (VNum 0 true)
                  else match x with
                       | VStr _ => Unmod RMod                  (* printf-style formatting *)
                       | _ => match as_num x with Some a => n_mod a b | None => Crash end
                       end
      | None => match x with VStr _ => Unmod RMod | _ => Crash end
      end
  end.

Definition neg_value (v : value) : res value :=
  match as_num v with
  | Some (NQ q ex) => Val (num (- q) ex)
  | Some (NR n q) => Val (VRoot (negb n) q)
  | None => Crash
  end.

(* ---- equality and order --------------------------------------------------------------------- *)
Fixpoint set_subset (a b : list string) : bool :=
  match a with [] => true | x :: r => (mem x b && set_subset r b)%bool end.

Fixpoint py_eq (x y : value) {struct x} : res bool :=
  match x, y with
  | VNone, VNone => Val true
  | VStr a, VStr b => Val (String.eqb a b)
  | VSet a, VSet b => Val (set_subset a b && set_subset b a)%bool
  | VList a, VList b =>
      (fix go (l : list value) (m : list value) {struct l} : res bool :=
         match l, m with
         | [], [] => Val true
         | u :: l', w :: m' => e <- py_eq u w ;; if e then go l' m' else Val false
         | _, _ => Val false
         end) a b
  | _, _ =>
      match as_num x, as_num y with
      | Some a, Some b => c <- num_cmp a b ;; Val (match c with Eq => true | _ => false end)
      | _, _ => Val false
      end
  end.

Fixpoint str_cmp (a b : string) : comparison :=
  match a, b with
  | EmptyString, EmptyString => Eq
  | EmptyString, _ => Lt
  | _, EmptyString => Gt
  | String c a', String d b' =>
      match N.compare (N_of_ascii c) (N_of_ascii d) with Eq => str_cmp a' b' | o => o end
  end.

(* <, <=, >, >= : three-way order or TypeError *)
Definition py_order (x y : value) : res comparison :=
  match x, y with
  | VStr a, VStr b => Val (str_cmp a b)
  | VList _, VList _ => Unmod RType
  | VSet _, VSet _ => Unmod RType
  | _, _ => match as_num x, as_num y with Some a, Some b => num_cmp a b | _, _ => Crash end
  end.

Fixpoint prefix (a b : string) : bool :=
  match a, b with
  | EmptyString, _ => true
  | String c a', String d b' => (Ascii.eqb c d && prefix a' b')%bool
  | _, _ => false
  end.
Fixpoint substring_of (a b : string) : bool :=
  (prefix a b || match b with EmptyString => false | String _ b' => substring_of a b' end)%bool.

Definition py_in (x y : value) : res bool :=
  match y with
  | VSet s => match x with
              | VStr a => Val (mem (lower a) s)
              | VList _ => Crash                        (* unhashable *)
              | VSet _ => Unmod RType
              | _ => Val false                          (* numbers / None are never in a set of strings *)
              end
  | VList l =>
      (fix go (l : list value) : res bool :=
         match l with [] => Val false | u :: r => e <- py_eq u x ;; if e then Val true else go r end) l
  | VStr b => match x with VStr a => Val (substring_of a b) | _ => Crash end
  | _ => Crash                                          (* argument of type ... is not iterable *)
  end.

Definition cmp_eval (op : cmpop) (x y : value) : res bool :=
  match op with
  | CEq => match x, y with VStr a, VStr b => Val (String.eqb (lower a) (lower b)) | _, _ => py_eq x y end
  | CNe => match x, y with
             | VStr a, VStr b => Val (negb (String.eqb (lower a) (lower b)))
             | _, _ => e <- py_eq x y ;; Val (negb e)
             end
  | CLt => c <- py_order x y ;; Val (match c with Lt => true | _ => false end)
  | CLe => c <- py_order x y ;; Val (match c with Gt => false | _ => true end)
  | CGt => c <- py_order x y ;; Val (match c with Gt => true | _ => false end)
  | CGe => c <- py_order x y ;; Val (match c with Lt => false | _ => true end)
  | CIn => py_in x y
  | CNotIn => b <- py_in x y ;; Val (negb b)
  end.

(* ---- the evaluation context (one merchant, as classify_by_sections rebuilds it) ------------- *)
Record ctx := {
  c_txns : list payment;      (* dates already rebuilt by the caller *)
  c_category : string; c_subcategory : string; c_merchant : string;
  c_tags : list string;
  c_period_month : Z; c_period_year : Z }.

Definition env := list (string * value).       (* ctx.variables *)

(* dates *)
Definition is_leap (y : Z) : bool := ((y mod 4 =? 0) && (negb (y mod 100 =? 0) || (y mod 400 =? 0)))%bool%Z.
Definition days_before_month (y m : Z) : Z :=
  (nth (Z.to_nat (m - 1)) [0; 31; 59; 90; 120; 151; 181; 212; 243; 273; 304; 334] 0
   + (if ((2 <? m) && is_leap y)%bool then 1 else 0))%Z.
Definition ordinal (y m d : Z) : Z :=                (* datetime.date.toordinal *)
  (365 * (y - 1) + (y - 1) / 4 - (y - 1) / 100 + (y - 1) / 400 + days_before_month y m + d)%Z.
Definition weekday (y m d : Z) : Z := ((ordinal y m d + 6) mod 7)%Z.      (* Monday = 0 *)
Definition week_W (y m d : Z) : Z :=                 (* strftime('%W') *)
  ((ordinal y m d - ordinal y 1 1 + 7 - weekday y m d) / 7)%Z.

Inductive field := FMonth | FYear | FDay | FWeek.
Definition field_of (s : string) : option field :=
  let l := lower s in
  if String.eqb l "month" then Some FMonth else if String.eqb l "year" then Some FYear
  else if String.eqb l "day" then Some FDay else if String.eqb l "week" then Some FWeek else None.
(* an integer that orders like the strftime key ('%Y-%m', '%Y', '%Y-%m-%d', '%Y-W%W'; years 1000..9999) *)
Definition key_of (f : field) (p : payment) : Z :=
  match f with
  | FMonth => p_year p * 12 + (p_month p - 1)
  | FYear => p_year p
  | FDay => ordinal (p_year p) (p_month p) (p_day p)
  | FWeek => p_year p * 64 + week_W (p_year p) (p_month p) (p_day p)
  end%Z.
Definition month_key (p : payment) : Z := key_of FMonth p.

(* dict of lists keyed by Z, insertion-ordered: groups.setdefault(key, []).append(amount) *)
Fixpoint g_add {A} (k : Z) (a : A) (g : list (Z * list A)) : list (Z * list A) :=
  match g with
  | [] => [(k, [a])]
  | (k', l) :: r => if (k =? k')%Z then (k', (l ++ [a])%list) :: r else (k', l) :: g_add k a r
  end.
Definition group_by {A} (key : payment -> Z) (val : payment -> A) (txns : list payment) : list (Z * list A) :=
  fold_left (fun g p => g_add (key p) (val p) g) txns [].
Fixpoint k_insert {A} (e : Z * A) (l : list (Z * A)) : list (Z * A) :=
  match l with [] => [e] | x :: r => if (fst e <=? fst x)%Z then e :: x :: r else x :: k_insert e r end.
Definition sort_keys {A} (l : list (Z * A)) : list (Z * A) := fold_right k_insert [] l.

Definition amount_exact (p : payment) : bool := fits (Qred (p_amount p)).
(* left-to-right float sum from 0 with the exactness of every partial sum *)
Definition q_sum (l : list (Q * bool)) : Q * bool :=
  fold_left (fun acc x => let s := Qred (fst acc + fst x) in (s, (snd acc && snd x && fits s)%bool)) l (0, true).
(* monthly_totals[k] = monthly_totals.get(k, 0) + amount: per month, the left-to-right sum of its amounts,
   months in first-occurrence order *)
Definition monthly_totals (txns : list payment) : list (Q * bool) :=
  map (fun g => q_sum (snd g)) (group_by month_key (fun p => (p_amount p, amount_exact p)) txns).

Definition pay_val (p : payment) : value := num (p_amount p) true.

(* primitives *)
Definition get_payments (c : ctx) : value := VList (map pay_val (c_txns c)).
Definition get_months (c : ctx) : value :=
  let n := length (group_by month_key (fun _ => tt) (c_txns c)) in
  VNum (inject_Z (Z.of_nat (match n with O => 1 | _ => n end))) true.
Fixpoint dedup (l : list string) : list string :=
  match l with [] => [] | x :: r => let d := dedup r in if mem x d then d else x :: d end.
Definition get_tags (c : ctx) : value :=
  match c_txns c with [] => VSet [] | _ => VSet (dedup (map lower (c_tags c))) end.
Definition get_total (c : ctx) : value :=
  let '(s, e) := q_sum (map (fun p => (p_amount p, amount_exact p)) (c_txns c)) in VNum s e.
Definition get_cv (c : ctx) : res value :=
  let mt := monthly_totals (c_txns c) in
  let n := length mt in
  if (n <? 2)%nat then Val (VNum 0 true)
  else
    let '(s, es) := q_sum mt in
    let nq := inject_Z (Z.of_nat n) in
    let avg := s / nq in
    if (es && qeq s 0)%bool then Val (VNum 0 true)
    else if near avg 0 then Unmod RNear
    else
      let ss := fold_left (fun a x => a + qsq (fst x - avg)) mt 0 in
      let var := ss / nq in
      if (es && forallb snd mt && qeq var 0)%bool then Val (VNum 0 true)
      else Val (VRoot (is_neg avg) (Qred (var / qsq avg))).

Definition get_by (c : ctx) (f : field) : value :=
  VList (map (fun g => VList (snd g)) (sort_keys (group_by (key_of f) pay_val (c_txns c)))).

(* ---- aggregate functions (auto-map over nested lists) ---------------------------------------- *)
Definition is_nested (l : list value) : bool := match l with VList _ :: _ => true | _ => false end.

Definition sum_list (l : list value) : res value :=
  fold_left (fun acc v => a <- acc ;;
                          match as_num a, as_num v with
                          | Some x, Some y => n_add x y
                          | _, _ => Unmod RType
                          end) l (Val (VNum 0 true)).
Definition len_val {A} (l : list A) : value := VNum (inject_Z (Z.of_nat (length l))) true.
Definition avg_list (l : list value) : res value :=
  match l with
  | [] => Val (VNum 0 true)
  | _ => s <- sum_list l ;;
         match as_num s with Some a => n_div a (NQ (inject_Z (Z.of_nat (length l))) true) | None => Unmod RType end
  end.
(* max(values): keeps the first maximal element (b replaces a only when b > a) *)
Definition pick (want : comparison) (a b : value) : res value :=
  match as_num a, as_num b with
  | Some x, Some y => c <- num_cmp y x ;; Val (if match c, want with Gt, Gt => true | Lt, Lt => true | _, _ => false end then b else a)
  | _, _ => Unmod RType
  end.
Definition ext_list (want : comparison) (l : list value) : res value :=
  match l with
  | [] => Val (VNum 0 true)
  | x :: r => fold_left (fun acc v => a <- acc ;; pick want a v) r
                        (match as_num x with Some _ => Val x | None => Unmod RType end)
  end.
(* statistics.stdev: sqrt(sum((x - mean)^2) / (n - 1)), computed exactly from the given floats *)
Definition stdev_list (l : list value) : res value :=
  if (length l <? 2)%nat then Val (VNum 0 true)
  else
    let nums := map as_num l in
    if forallb (fun o => match o with Some (NQ _ _) => true | _ => false end) nums then
      let qs := map (fun o => match o with Some (NQ q e) => (q, e) | _ => (0, false) end) nums in
      let n := inject_Z (Z.of_nat (length l)) in
      let mean := fold_left (fun a x => a + fst x) qs 0 / n in
      let ss := fold_left (fun a x => a + qsq (fst x - mean)) qs 0 in
      let var := ss / (n - 1) in
      if (forallb snd qs && qeq var 0)%bool then Val (VNum 0 true) else Val (VRoot false (Qred var))
    else if existsb (fun o => match o with Some (NR _ _) => true | _ => false end) nums then Unmod RRoot
    else Unmod RType.

Definition group_of (v : value) : res (list value) := match v with VList g => Val g | _ => Unmod RType end.
Definition map_groups (f : list value -> res value) (l : list value) : res value :=
  r <- fold_right (fun g acc => rest <- acc ;; gl <- group_of g ;; x <- f gl ;; Val (x :: rest)) (Val []) l ;;
  Val (VList r).

Inductive agg := ASum | ACount | AAvg | AMax | AMin | AStd.
Definition agg_flat (a : agg) (l : list value) : res value :=
  match a with
  | ASum => match l with [] => Val (VNum 0 true) | _ => sum_list l end
  | ACount => Val (len_val l)
  | AAvg => avg_list l
  | AMax => ext_list Gt l
  | AMin => ext_list Lt l
  | AStd => stdev_list l
  end.
Definition str_len (s : string) : value := VNum (inject_Z (Z.of_nat (String.length s))) true.
Definition agg_eval (a : agg) (v : value) : res value :=
  match v with
  | VList l => if is_nested l then map_groups (agg_flat a) l else agg_flat a l
  | _ =>
      (* not a list: `f(values) if values else 0`, len(values), ... *)
      t <- truthy v ;;
      match a with
      | ASum | AAvg => if t then Crash else Val (VNum 0 true)
      | AMax | AMin => if t then (match v with VStr _ | VSet _ => Unmod RType | _ => Crash end) else Val (VNum 0 true)
      | ACount => match v with VStr s => Val (str_len s) | VSet s => Val (len_val s) | _ => Crash end
      | AStd => match v with
                | VStr s => if (String.length s <? 2)%nat then Val (VNum 0 true) else Crash
                | VSet s => if (length s <? 2)%nat then Val (VNum 0 true) else Crash
                | _ => Crash
                end
      end
  end.

(* round(x): to the nearest integer, ties to even; exact operands only *)
Definition round_half_even (q : Q) : Z :=
  let f := Qfloor q in
  let d := q - inject_Z f in
  match qcmp d (1 # 2) with
  | Lt => f | Gt => (f + 1)%Z
  | Eq => if Z.even f then f else (f + 1)%Z
  end.

Definition call (c : ctx) (fn : string) (args : list value) : res value :=
  let agg1 a := match args with [v] => agg_eval a v | _ => Crash end in
  if String.eqb fn "sum" then agg1 ASum
  else if String.eqb fn "count" then agg1 ACount
  else if String.eqb fn "avg" then agg1 AAvg
  else if String.eqb fn "max" then agg1 AMax
  else if String.eqb fn "min" then agg1 AMin
  else if String.eqb fn "stddev" then agg1 AStd
  else if String.eqb fn "abs" then
    match args with
    | [v] => match as_num v with
             | Some (NQ q ex) => Val (num (Qabs q) ex)
             | Some (NR _ q) => Val (VRoot false q)
             | None => Crash
             end
    | _ => Crash
    end
  else if String.eqb fn "round" then
    match args with
    | [v] => match as_num v with
             | Some (NQ q true) => Val (num (inject_Z (round_half_even q)) true)
             | Some _ => Unmod RRound
             | None => Crash
             end
    | [_; _] => Unmod RRound
    | _ => Crash
    end
  else if String.eqb fn "by" then
    match args with
    | [VStr s] => match c_txns c with
                  | [] => Val (VList [])
                  | _ => match field_of s with Some f => Val (get_by c f) | None => ExprErr end
                  end
    | [_] => Crash                                    (* field.lower(): AttributeError *)
    | _ => Crash
    end
  else if String.eqb fn "period" then
    match args with
    | [VStr s] => match field_of s with
                  | Some FMonth => Val (VNum (inject_Z (c_period_month c)) true)
                  | Some FYear => Val (VNum (inject_Z (c_period_year c)) true)
                  | _ => ExprErr
                  end
    | _ => Crash
    end
  else if String.eqb fn "max_val" then
    match args with
    | [a; b] => match as_num a, as_num b with
                | Some (NQ _ _), Some (NQ _ _) | Some (NR _ _), Some _ | Some _, Some (NR _ _) =>
                    match a, b with VBool _, _ | _, VBool _ => Unmod RType | _, _ => pick Gt a b end
                | _, _ => match a, b with VNone, _ | _, VNone => Crash | _, _ => Unmod RType end
                end
    | _ => Crash
    end
  else if String.eqb fn "min_val" then
    match args with
    | [a; b] => match as_num a, as_num b with
                | Some (NQ _ _), Some (NQ _ _) | Some (NR _ _), Some _ | Some _, Some (NR _ _) =>
                    match a, b with VBool _, _ | _, VBool _ => Unmod RType | _, _ => pick Lt a b end
                | _, _ => match a, b with VNone, _ | _, VNone => Crash | _, _ => Unmod RType end
                end
    | _ => Crash
    end
  else ExprErr.

Definition known_fn (fn : string) : bool :=
  mem fn ["sum"; "count"; "avg"; "max"; "min"; "stddev"; "abs"; "round"; "by"; "period"; "max_val"; "min_val"]%string.

Definition const_val (k : const) : value :=
  match k with CNum q => num q true | CStr s => VStr s | CBool b => VBool b | CNone => VNone end.

(* _eval_Name: user variables first (keys as written in the file, looked up by the LOWER-CASED id) *)
Definition lookup_name (vars : env) (c : ctx) (id : string) : res value :=
  let name := lower id in
  match alookup name vars with
  | Some v => Val v
  | None =>
      if String.eqb name "payments" then Val (get_payments c)
      else if String.eqb name "months" then Val (get_months c)
      else if String.eqb name "category" then Val (VStr (match c_txns c with [] => "" | _ => c_category c end))
      else if String.eqb name "subcategory" then Val (VStr (match c_txns c with [] => "" | _ => c_subcategory c end))
      else if String.eqb name "merchant" then Val (VStr (match c_txns c with [] => "" | _ => c_merchant c end))
      else if String.eqb name "tags" then Val (get_tags c)
      else if String.eqb name "cv" then get_cv c
      else if String.eqb name "total" then Val (get_total c)
      else if String.eqb name "true" then Val (VBool true)
      else if String.eqb name "false" then Val (VBool false)
      else ExprErr
  end.

Section Eval.
  Variable vars : env.
  Variable c : ctx.

  Fixpoint eval (e : expr) : res value :=
    match e with
    | EConst k => Val (const_val k)
    | EName id => lookup_name vars c id
    | EBoolOp is_and args =>
        (fix go (l : list expr) : res value :=
           match l with
           | [] => Val (VBool is_and)
           | x :: r => v <- eval x ;; t <- truthy v ;;
                       if Bool.eqb t is_and then go r else Val (VBool (negb is_and))
           end) args
    | EBin op a b => x <- eval a ;; y <- eval b ;; binop_eval op x y
    | EUn Not a => x <- eval a ;; t <- truthy x ;; Val (VBool (negb t))
    | EUn USub a => x <- eval a ;; neg_value x
    | ECmp a rest =>
        x <- eval a ;;
        (fix go (left : value) (l : list (cmpop * expr)) {struct l} : res value :=
           match l with
           | [] => Val (VBool true)
           | (op, ex) :: r => y <- eval ex ;; b <- cmp_eval op left y ;;
                              if b then go y r else Val (VBool false)
           end) x rest
    | ECall None _ => ExprErr                     (* "Only simple function calls are supported" *)
    | ECall (Some f) args =>
        let fn := lower f in
        if known_fn fn then
          vs <- (fix go (l : list expr) : res (list value) :=
                   match l with [] => Val [] | x :: r => v <- eval x ;; vs <- go r ;; Val (v :: vs) end) args ;;
          call c fn vs
        else ExprErr                              (* "Unknown function" — before the arguments are evaluated *)
    | EIf cnd a b => v <- eval cnd ;; t <- truthy v ;; if t then eval a else eval b
    | EUnsup => ExprErr
    end.
End Eval.

(* ExpressionEvaluator.evaluate: every Exception other than ExpressionError raised while a node is evaluated
   (TypeError, AttributeError, statistics errors, ...) is re-raised AS ExpressionError.  Nothing between the
   nodes catches ExpressionError, so wrapping at every node = wrapping once at the top.  [Crash] therefore
   never leaves [evaluate]; it stays in the result type (and OCrash in Model.outcome) so that a tree in which
   it escapes again is reported as a broken correspondence / "ill-typed filter aborts the run". *)
Definition wrap {A} (r : res A) : res A := match r with Crash => ExprErr | _ => r end.
Definition evaluate (vars : env) (c : ctx) (e : expr) : res value := wrap (eval vars c e).

(* ---- section_engine ------------------------------------------------------------------------- *)
Definition defs := list (string * expr).

(* parse_sections stores variables in a dict keyed by the LOWER-CASED name (names are case-insensitive at
   use): a re-definition, in any letter case, replaces the expression in place *)
Definition norm_defs (raw : defs) : defs := fold_left (fun d ne => dset d (lower (fst ne)) (snd ne)) raw [].

(* evaluate_variables: an ExpressionError makes the variable None; anything else escapes *)
Definition eval_vars (ds : defs) (c : ctx) (start : env) : res env :=
  fold_left (fun acc ne => vars <- acc ;;
                           match evaluate vars c (snd ne) with
                           | Val v => Val (dset vars (fst ne) v)
                           | ExprErr => Val (dset vars (fst ne) VNone)
                           | Crash => Crash
                           | Unmod r => Unmod r
                           end) ds (Val start).

Record view := { v_name : string; v_vars : defs (* as written, in file order *); v_filter : expr }.

(* evaluate_section_filter, given the evaluated globals *)
Definition eval_filter (v : view) (c : ctx) (globals : env) : res bool :=
  vars <- eval_vars (norm_defs (v_vars v)) c globals ;;
  match evaluate vars c (v_filter v) with
  | Val x => truthy x
  | ExprErr => ExprErr
  | Crash => Crash
  | Unmod r => Unmod r
  end.

(* ---- analyzer.classify_by_sections: the per-merchant context -------------------------------- *)
(* txn_date = strptime(txn['month'] + '-' + txn['date'][-2:]): year-month from 'month', day from 'date'
   ('MM/DD', as analyze_transactions stores it) — the payment's own date.  (Before the fix the day was
   always 15, which made by("day") / by("week") group by month.) *)
Definition rebuild (p : payment) : payment := p.

Fixpoint zdistinct (l : list Z) : list Z :=
  match l with [] => [] | x :: r => let d := zdistinct r in if existsb (Z.eqb x) d then d else x :: d end.
Definition period_of (key : payment -> Z) (ms : list merchant) : Z :=
  Z.of_nat (length (zdistinct (map key (flat_map m_payments ms)))).

Definition ctx_of (period_month period_year : Z) (m : merchant) : ctx :=
  {| c_txns := map rebuild (m_payments m);
     c_category := m_category m; c_subcategory := m_subcategory m; c_merchant := m_name m;
     c_tags := m_tags m; c_period_month := period_month; c_period_year := period_year |}.

(* the context the property speaks about: the merchant's own payments, undisturbed *)
Definition ctx_own (period_month period_year : Z) (m : merchant) : ctx :=
  {| c_txns := m_payments m;
     c_category := m_category m; c_subcategory := m_subcategory m; c_merchant := m_name m;
     c_tags := m_tags m; c_period_month := period_month; c_period_year := period_year |}.

Record config := { g_vars : defs; g_views : list view }.

(* parse_sections: "Duplicate section name" -> SectionParseError (results are keyed by name) *)
Fixpoint has_dup (l : list string) : bool :=
  match l with [] => false | x :: r => (mem x r || has_dup r)%bool end.
Definition parse_ok (cfg : config) : bool := negb (has_dup (map v_name (g_views cfg))).

(* ---- analyzer.analyze_transactions: the part of by_merchant that the views read ----------------- *)
Record txn := { t_merchant : string; t_category : string; t_subcategory : string;
                t_tags : list string; t_pay : payment (* date, raw amount *) }.

Definition q_ops : numops Q := {|
  nzero := 0; nabs := Qabs;
  ngt0 := fun x => qlt 0 x; nlt0 := fun x => qlt x 0; nge0 := fun x => qle 0 x; nle0 := fun x => qle x 0;
  nadd := Qplus; nsub := Qminus; lower_fn := lower |}.

(* effective_amount = normalize_amount(txn['amount'], tags) — translated from classification.py *)
Definition eff (t : txn) : payment :=
  {| p_year := p_year (t_pay t); p_month := p_month (t_pay t); p_day := p_day (t_pay t);
     p_amount := Py.normalize_amount q_ops (p_amount (t_pay t)) (Some (t_tags t)) |}.

(* by_merchant[txn['merchant']]: created at the first transaction of that name (dict order), then
   category / subcategory overwritten by every transaction, tags.update(...), transactions.append(...) *)
Fixpoint bm_add (t : txn) (ms : list merchant) : list merchant :=
  match ms with
  | [] => [ {| m_name := t_merchant t; m_category := t_category t; m_subcategory := t_subcategory t;
               m_tags := t_tags t; m_payments := [eff t] |} ]
  | m :: r => if String.eqb (t_merchant t) (m_name m)
              then {| m_name := m_name m; m_category := t_category t; m_subcategory := t_subcategory t;
                      m_tags := (m_tags m ++ t_tags t)%list; m_payments := (m_payments m ++ [eff t])%list |} :: r
              else m :: bm_add t r
  end.
Definition by_merchant (txns : list txn) : list merchant := fold_left (fun ms t => bm_add t ms) txns [].

Section Pipeline.
  Variable cfg : config.
  Variable ms : list merchant.                 (* by_merchant, in dict order *)
  (* oracle consulted only where the modelled evaluator says Unmod (counted by the harness) *)
  Variable fallback_globals : merchant -> bool.
  Variable fallback : view -> merchant -> outcome.

  Definition pm : Z := period_of month_key (filter (fun m => negb (excluded m)) ms).
  Definition py : Z := period_of p_year (filter (fun m => negb (excluded m)) ms).
  Definition mctx (m : merchant) : ctx := ctx_of pm py m.
  Definition globals_of (m : merchant) : res env := eval_vars (norm_defs (g_vars cfg)) (mctx m) [].

  Definition model_globals_ok (m : merchant) : bool :=
    match globals_of m with Val _ | ExprErr => true | Crash => false | Unmod _ => fallback_globals m end.

  Definition model_outcome (v : view) (m : merchant) : res bool :=
    g <- globals_of m ;; eval_filter v (mctx m) g.

  Definition model_filter_true (v : view) (m : merchant) : outcome :=
    match model_outcome v m with
    | Val true => OTrue | Val false => OFalse | ExprErr => OExprError | Crash => OCrash
    | Unmod _ => fallback v m
    end.

  Definition classify_by_sections : option (list (string * list merchant)) :=
    classify excluded v_name model_globals_ok model_filter_true (g_views cfg) ms.
End Pipeline.
